(* C01 - GC safety: nothing a program can still reach is ever reclaimed; output never depends on the schedule.
   ONLY statements: each is closed by `exact` of a theorem of theories/ (CollectProofs, MutatorProofs,
   CollectExt), instantiated with the tables REGENERATED from /repo's sources (YVGen.GcTables, produced by
   translator/translate_c01.py), or is a side condition on those tables decided here by computation.

   The part that depends on which defects of /repo are still open is the SWITCH BLOCK below
   (how to edit it when a repair lands or is reverted: /verif/notes/C01.md, section "Switching"). *)
From Coq Require Import List NArith Bool String.
From YVGen Require Import GcTables.
From YV Require Import Heap HeapTablesRef Collect Mutator CollectProofs MutatorProofs CollectExt PinnedC01 CollectShape CollectShapeProofs.
(* CollectRun (runner of the snapshot correspondence) is imported so that `make props/C01.vo` keeps it up to date *)
From YV Require CollectRun.
Import ListNotations.

(* `pinned_audit` (theories/PinnedC01.v): untraced roles whose target a permanent root keeps, audited against the
   current sources; it no longer exempts (KClosure, RModule) as HeapTablesRef.pinned_ref did *)
Notation run_gen := (run marks_gen blackens_black_gen blackens_mark_gen holds_gen pinned_audit).

(* ---------- the translator understood every struct field and every impl ---------- *)
Theorem C01_translator_complete : gen_unknown = [].
Proof. reflexivity. Qed.

(* ---------- generated tables vs the hand transcription (HeapTablesRef.v) ---------- *)
(* same struct layout: every kind holds exactly the transcribed roles *)
Theorem C01_holds_gen_is_ref : holds_eqb holds_gen holds_ref = true.
Proof. vm_compute; reflexivity. Qed.
(* no edge the transcription found traced has been dropped from `mark` *)
Theorem C01_marks_ref_kept : tables_leb marks_ref marks_gen = true.
Proof. vm_compute; reflexivity. Qed.
(* nothing is traced that the struct cannot hold *)
Theorem C01_tables_within : tables_within holds_gen marks_gen blackens_black_gen blackens_mark_gen = true.
Proof. vm_compute; reflexivity. Qed.
(* `blacken` follows nothing that `mark` does not follow *)
Theorem C01_tables_agree : tables_agree marks_gen blackens_black_gen blackens_mark_gen = true.
Proof. vm_compute; reflexivity. Qed.

(* ======================================================================================== *)
(* ==== SWITCH BLOCK (begin) ============================================================== *)
(* The three places below say which defects of /repo are still open.  History: all of them were
   in their "open" state until 2026-09-25; repairs ee7595b (bound-method blacken), a563c74
   (HashMap keys), 05235d7 (ObjClass superclass) and, on 2026-09-26, 8e4673f (an open upvalue
   traces the fiber owning its stack slot) closed every one.  `python3 tools/props/C01.py --switch`
   re-derives all three from the current sources (notes/C01.md, "Switching").

   SWITCH 1 -- open trace-edge classes: (kind, role) pairs a struct can hold that `mark` does not
   follow and no permanent root pins.  Before the repairs:
       [(KUpvalue, ROpenSlot); (KClass, RSuperclass); (KHashMap, RKey)]. *)
Definition c01_open_pairs : list (kind * role) :=
  [].

(* -- statements that do not change when switching -- *)
(* exactly the open classes are uncovered *)
Theorem C01_uncovered_exact : uncovered holds_gen marks_gen pinned_audit = c01_open_pairs.
Proof. vm_compute; reflexivity. Qed.
(* every role outside the open classes is followed by `mark` or pinned by a permanent root *)
Definition pinned_c01 : kind -> role -> bool := pinned_plus pinned_audit c01_open_pairs.
Theorem C01_holds_covered_modulo_open : tables_cover holds_gen marks_gen pinned_c01 = true.
Proof. vm_compute; reflexivity. Qed.
(* schedule independence with both premises explicit: for programs that store into the open roles only
   boxes that stay pinned (= programs outside the open classes), provided `blacken` never re-greys *)
Theorem C01_schedule_independence_modulo :
  no_regrey blackens_mark_gen = true ->
  forall nregs p sched1 sched2,
    let run := run marks_gen blackens_black_gen blackens_mark_gen holds_gen pinned_c01 in
    run nregs sched1 p = run nregs sched2 p /\ has_uaf (run nregs sched1 p) = false /\
    has_diverged (run nregs sched1 p) = false.
Proof.
  exact (schedule_independence marks_gen blackens_black_gen blackens_mark_gen holds_gen pinned_c01
           C01_holds_covered_modulo_open).
Qed.

(* SWITCH 2 -- does `ObjBoundMethod::blacken` re-grey its receiver (`receiver.mark()`)?
   Exactly one of the two variants is active; the other one is kept inside a comment. *)

(* ---- variant REPAIRED (begin; active) ---- *)
Theorem C01_no_regrey : no_regrey blackens_mark_gen = true.
Proof. vm_compute; reflexivity. Qed.
Theorem C01_collect_terminates :
  forall h, collect_opt marks_gen blackens_black_gen blackens_mark_gen h <> None.
Proof. exact (fun h => collect_terminates marks_gen blackens_black_gen blackens_mark_gen h C01_no_regrey). Qed.
Print Assumptions C01_no_regrey.
Print Assumptions C01_collect_terminates.
(* ---- variant REPAIRED (end) ---- *)

(* ---- variant UNREPAIRED (begin; inactive)
Theorem C01_no_regrey_refuted :
  no_regrey blackens_mark_gen = false /\
  table_pairs blackens_mark_gen = [(KBoundMethod, RReceiver); (KBoundNative, RReceiver)].
Proof. split; vm_compute; reflexivity. Qed.
Theorem C01_collect_terminates_refuted :
  exists h, wf h /\ forall sf pf, collect_with marks_gen blackens_black_gen blackens_mark_gen sf pf h = None.
Proof.
  exact (collect_terminates_refuted_ext marks_gen blackens_black_gen blackens_mark_gen
           (eq_refl : tables_eqb marks_gen marks_ref = true)
           (eq_refl : tables_eqb blackens_black_gen blackens_black_ref = true)
           (eq_refl : tables_eqb blackens_mark_gen blackens_mark_ref = true)).
Qed.
Theorem C01_schedule_divergence_refuted :
  has_diverged (run_gen 5 [false; false; false; false; true] prog_loop) = true /\
  has_diverged (run_gen 5 [] prog_loop) = false.
Proof. split; vm_compute; reflexivity. Qed.
Print Assumptions C01_no_regrey_refuted.
Print Assumptions C01_collect_terminates_refuted.
Print Assumptions C01_schedule_divergence_refuted.
---- variant UNREPAIRED (end) *)

(* SWITCH 3 -- the headline statements.  Variant ALL-COVERED is active iff `c01_open_pairs = []` and SWITCH 2
   is in variant REPAIRED; otherwise variant SOME-OPEN (refuted side condition, witness) is. *)

(* ---- variant ALL-COVERED (begin; active) ---- *)
(* every role a struct can hold is followed by `mark` or pinned by a permanent root *)
Theorem C01_holds_covered : tables_cover holds_gen marks_gen pinned_audit = true.
Proof. vm_compute; reflexivity. Qed.
Theorem C01_holds_covered_spec :
  forall k r, In r (holds_gen k) -> marks_gen k r = true \/ pinned_audit k r = true.
Proof. exact (holds_covered holds_gen marks_gen pinned_audit C01_holds_covered). Qed.
(* for EVERY mutator program and every two schedules: same observation trace, no use of a reclaimed box,
   no divergence *)
Theorem C01_schedule_independence :
  forall nregs p sched1 sched2,
    run_gen nregs sched1 p = run_gen nregs sched2 p /\ has_uaf (run_gen nregs sched1 p) = false /\
    has_diverged (run_gen nregs sched1 p) = false.
Proof.
  exact (schedule_independence marks_gen blackens_black_gen blackens_mark_gen holds_gen pinned_audit
           C01_holds_covered C01_no_regrey).
Qed.
Print Assumptions C01_holds_covered.
Print Assumptions C01_holds_covered_spec.
Print Assumptions C01_schedule_independence.
(* ---- variant ALL-COVERED (end) ---- *)

(* ---- variant SOME-OPEN (begin; inactive)
Theorem C01_holds_covered_refuted : tables_cover holds_gen marks_gen pinned_audit = false.
Proof. vm_compute; reflexivity. Qed.
Theorem C01_holds_covered_spec :
  forall k r, In r (holds_gen k) -> marks_gen k r = true \/ pinned_c01 k r = true.
Proof. exact (holds_covered holds_gen marks_gen pinned_c01 C01_holds_covered_modulo_open). Qed.
Print Assumptions C01_holds_covered_refuted.
Print Assumptions C01_holds_covered_spec.
---- variant SOME-OPEN (end) *)
(* ==== SWITCH BLOCK (end) ================================================================ *)
(* ======================================================================================== *)

(* ---------- the repaired defects, kept as witnesses against the regenerated tables ----------
   For each repaired trace edge: the generated tables with that one pair switched off again (`without_pair`)
   leave exactly that pair uncovered, and a three-allocation mutator program uses a reclaimed box under a
   schedule that collects, but not under the schedule that never does. *)
Open Scope N_scope.
(* 342604d: ObjClosure.module.  A module that left the registry (reload after a failed import, Vm::reset) and is
   referenced only by a closure that escaped from it.  HeapTablesRef.pinned_ref exempted the pair, which is
   why the side condition accepted the old code: *)
Definition prog_closure_module : list mop :=
  [MAlloc KModule 72 0; MAlloc KClosure 48 1; MStore 1 RModule 0; MDropRoot 0; MAlloc KString 48 2; MObserve 1 2].
Theorem C01_closure_module_refuted_old :
  let marks_old := without_pair marks_gen KClosure RModule in
  let bb_old := without_pair blackens_black_gen KClosure RModule in
  uncovered holds_gen marks_old pinned_audit = (KClosure, RModule) :: c01_open_pairs /\
  tables_cover holds_gen marks_old pinned_ref = tables_cover holds_gen marks_gen pinned_ref /\
  has_uaf (run marks_old bb_old blackens_mark_gen holds_gen pinned_audit 3 [false; false; true] prog_closure_module) = true /\
  has_uaf (run marks_old bb_old blackens_mark_gen holds_gen pinned_audit 3 [] prog_closure_module) = false /\
  has_uaf (run_gen 3 [false; false; true] prog_closure_module) = false.
Proof. repeat split; vm_compute; reflexivity. Qed.
(* 8e4673f: an open upvalue's stack slot lives in a fiber that nothing else reaches *)
Theorem C01_open_upvalue_refuted_old :
  let marks_old := without_pair marks_gen KUpvalue ROpenSlot in
  let bb_old := without_pair blackens_black_gen KUpvalue ROpenSlot in
  uncovered holds_gen marks_old pinned_audit = (KUpvalue, ROpenSlot) :: c01_open_pairs /\
  has_uaf (run marks_old bb_old blackens_mark_gen holds_gen pinned_audit 3 [false; false; true] prog_upvalue) = true /\
  has_uaf (run marks_old bb_old blackens_mark_gen holds_gen pinned_audit 3 [] prog_upvalue) = false /\
  has_uaf (run_gen 3 [false; false; true] prog_upvalue) = false.
Proof. repeat split; vm_compute; reflexivity. Qed.
Close Scope N_scope.

(* ---------- the collector, with the generated tables ---------- *)
Theorem C01_collect_retains_reach : forall h h' a,
  collect_opt marks_gen blackens_black_gen blackens_mark_gen h = Some h' ->
  reach_marks marks_gen h a -> lookup h' a = lookup h a.
Proof. exact (collect_retains_reach marks_gen blackens_black_gen blackens_mark_gen). Qed.

Theorem C01_collect_closed : forall h h' a o r t,
  wf h -> collect_opt marks_gen blackens_black_gen blackens_mark_gen h = Some h' ->
  lookup h' a = Some o -> In (r, t) (oedges o) -> marks_gen (okind o) r = true ->
  lookup h t <> None -> lookup h' t = lookup h t.
Proof.
  exact (fun h h' a o r t Hwf =>
           collect_closed marks_gen blackens_black_gen blackens_mark_gen h h' a o r t C01_tables_agree Hwf).
Qed.

Theorem C01_collect_only_reach : forall h h' a,
  wf h -> collect_opt marks_gen blackens_black_gen blackens_mark_gen h = Some h' ->
  lookup h' a <> None -> reach_any marks_gen blackens_black_gen blackens_mark_gen h a.
Proof. exact (collect_only_reach marks_gen blackens_black_gen blackens_mark_gen). Qed.

Theorem C01_collect_exact : forall h h' a,
  wf h -> collect_opt marks_gen blackens_black_gen blackens_mark_gen h = Some h' ->
  (lookup h' a <> None <-> reach_marks marks_gen h a).
Proof.
  exact (fun h h' a =>
           collect_exact_when_tables_agree marks_gen blackens_black_gen blackens_mark_gen h h' a C01_tables_agree).
Qed.

(* ---------- the collector ALGORITHM as read from memory.rs is the one Collect.v models (round 7) ----------
   `collector_shape_gen` is regenerated from the bodies of GcBox::unmark/mark/blacken and Heap::collect/mark_roots/
   trace_references/sweep.  Any early return, depth / size guard, wrapper around the recursive call, bounded loop or
   changed colour in those bodies makes a field differ (and adds a `gen_unknown` entry naming the statement). *)
Theorem C01_collector_shape : collector_shape_gen = collector_shape_ref.
Proof. reflexivity. Qed.
(* in particular: `mark` / `blacken` of a box call `self.data.mark()` / `.blacken()` unconditionally *)
Theorem C01_collector_recursion_unguarded :
  bf_forward (cs_mark collector_shape_gen) = true /\ bf_guarded (cs_mark collector_shape_gen) = false /\
  bf_forward (cs_blacken collector_shape_gen) = true /\ bf_guarded (cs_blacken collector_shape_gen) = false.
Proof. repeat split; reflexivity. Qed.
(* the depth-annotated collector with no bound is Collect.v's collector, for the generated tables *)
Theorem C01_collect_depth_unbounded : forall w sf pf h,
  collect_with_d marks_gen blackens_black_gen blackens_mark_gen None None w sf pf h
  = collect_with marks_gen blackens_black_gen blackens_mark_gen sf pf h.
Proof. exact (collect_d_unbounded marks_gen blackens_black_gen blackens_mark_gen). Qed.
(* why a guard there matters - Mechanism variants with a bound on the nesting depth (witness: a chain of nine vecs, limit 3):
   both recursions capped and `blacken` already Black at its guard (the seeded change) reclaims reachable boxes ... *)
Open Scope N_scope.
Theorem C01_bounded_depth_refuted :
  wf (chain_heap 8) /\ reach_marks marks_ref (chain_heap 8) 8 /\
  survivors_opt marks_ref blackens_black_ref blackens_mark_ref (chain_heap 8) = Some [0; 1; 2; 3; 4; 5; 6; 7; 8] /\
  survivors_opt_d marks_ref blackens_black_ref blackens_mark_ref (Some 3%nat) (Some 3%nat) LBlackNoChildren (chain_heap 8) = Some [0; 1; 2; 3].
Proof. exact bounded_both_black_refuted. Qed.
(* ... so does the sibling whose guard sits before the colour update ... *)
Theorem C01_bounded_depth_skip_refuted :
  reach_marks marks_ref (chain_heap 8) 8 /\
  survivors_opt_d marks_ref blackens_black_ref blackens_mark_ref (Some 3%nat) (Some 3%nat) LSkip (chain_heap 8) = Some [0; 1; 2; 3; 4; 5].
Proof. exact bounded_both_skip_refuted. Qed.
(* ... with the seed's own constant: limit 1024, a chain of 1501 boxes, 1025 survive ... *)
Theorem C01_bounded_depth_1024_refuted :
  option_map (@List.length addr) (survivors_opt_d marks_ref blackens_black_ref blackens_mark_ref (Some 1024%nat) (Some 1024%nat) LBlackNoChildren (chain_heap 1500)) = Some 1025%nat /\
  option_map (@List.length addr) (survivors_opt marks_ref blackens_black_ref blackens_mark_ref (chain_heap 1500)) = Some 1501%nat.
Proof. exact seeded_limit_1024_refuted. Qed.
(* ... while each cap ALONE keeps the whole chain (two cooperating sites), as does a cap that leaves the box Grey
   (witness heaps only: the general statement is not proved) *)
Theorem C01_bounded_depth_one_site_partial :
  survivors_opt_d marks_ref blackens_black_ref blackens_mark_ref (Some 3%nat) None LBlackNoChildren (chain_heap 8) = Some [0; 1; 2; 3; 4; 5; 6; 7; 8] /\
  survivors_opt_d marks_ref blackens_black_ref blackens_mark_ref None (Some 3%nat) LBlackNoChildren (chain_heap 8) = Some [0; 1; 2; 3; 4; 5; 6; 7; 8] /\
  survivors_opt_d marks_ref blackens_black_ref blackens_mark_ref None (Some 3%nat) LSkip (chain_heap 8) = Some [0; 1; 2; 3; 4; 5; 6; 7; 8].
Proof. exact bounded_one_site_partial. Qed.
Theorem C01_bounded_depth_grey_partial :
  survivors_opt_d marks_ref blackens_black_ref blackens_mark_ref (Some 3%nat) (Some 3%nat) LGrey (chain_heap 8) = Some [0; 1; 2; 3; 4; 5; 6; 7; 8] /\
  survivors_opt_d marks_ref blackens_black_ref blackens_mark_ref (Some 1%nat) (Some 1%nat) LGrey (chain_heap 8) = Some [0; 1; 2; 3; 4; 5; 6; 7; 8].
Proof. exact bounded_grey_partial. Qed.
Close Scope N_scope.

Print Assumptions C01_translator_complete.
Print Assumptions C01_holds_gen_is_ref.
Print Assumptions C01_marks_ref_kept.
Print Assumptions C01_tables_within.
Print Assumptions C01_tables_agree.
Print Assumptions C01_uncovered_exact.
Print Assumptions C01_holds_covered_modulo_open.
Print Assumptions C01_schedule_independence_modulo.
Print Assumptions C01_closure_module_refuted_old.
Print Assumptions C01_open_upvalue_refuted_old.
Print Assumptions C01_collect_retains_reach.
Print Assumptions C01_collect_closed.
Print Assumptions C01_collect_only_reach.
Print Assumptions C01_collect_exact.
Print Assumptions C01_collector_shape.
Print Assumptions C01_collector_recursion_unguarded.
Print Assumptions C01_collect_depth_unbounded.
Print Assumptions C01_bounded_depth_refuted.
Print Assumptions C01_bounded_depth_skip_refuted.
Print Assumptions C01_bounded_depth_1024_refuted.
Print Assumptions C01_bounded_depth_one_site_partial.
Print Assumptions C01_bounded_depth_grey_partial.
