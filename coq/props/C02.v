(* C02 - Running a program never panics, crashes or corrupts memory.
   ONLY statements: each is closed by `exact` of a lemma of theories/, instantiated with the tables
   regenerated from /repo's core.rs / vm.rs / common.rs (YVGen.NativesSrc, YVGen.Consts), whose side
   conditions are decided here by computation. *)
From Coq Require Import List String NArith ZArith Bool Lia.
From YVGen Require Import Consts NativesSrc.
From YV Require Import Index Utf8 StrFns StrProofs Bytecode Skeleton Verifier VerifierProofs
     NativesModel NativesProofs.
Import ListNotations.

(* --- side conditions: the model still has the guard structure of the current sources --- *)
Theorem C02_side_native_rows : rows_match src_native_rows model_rows = true.
Proof. vm_compute; reflexivity. Qed.
Theorem C02_side_consts :
  SRC_VEC_ELEMS_MAX = VEC_ELEMS_MAX /\ src_fiber_arity_bound = 2%N
  /\ src_call_closure_checks_frames = true
  /\ Consts.FRAMES_MAX = Skeleton.FRAMES_MAX /\ Consts.STACK_MAX = Skeleton.STACK_MAX
  /\ (Consts.LOCALS_MAX * Consts.FRAMES_MAX = Consts.STACK_MAX)%N.
Proof. vm_compute; repeat split; reflexivity. Qed.

(* --- the end-of-iteration guards of object.rs: [>=] where the container can shrink --- *)
Theorem C02_side_iter_guards : iter_guards_ok src_iter_guards = true.
Proof. vm_compute; reflexivity. Qed.
Theorem C02_iter_guard_ge_total : forall site cursor len,
    is_panic (indexed_iter_next site CmpGe cursor len) = false.
Proof. exact indexed_iter_next_ge_total. Qed.
Theorem C02_iter_guard_ge_sentinel : forall site cursor len, (len <= cursor)%N ->
    indexed_iter_next site CmpGe cursor len = NOk RKStop.
Proof. exact indexed_iter_next_ge_sentinel. Qed.
Theorem C02_iter_guard_eq_bounded : forall site cursor len, (cursor <= len)%N ->
    is_panic (indexed_iter_next site CmpEq cursor len) = false.
Proof. exact indexed_iter_next_eq_bounded. Qed.
Theorem C02_iter_guard_eq_refuted : exists cursor len,
    (len < cursor)%N /\ indexed_iter_next "elements[current]" CmpEq cursor len = NPanic "elements[current]".
Proof. exact indexed_iter_next_eq_refuted. Qed.

(* --- what the rows mean for the model --- *)
Theorem C02_row_arity_checked : forall n, is_core_native n = true ->
    arity_src n = Show.show_nat (expected_args n) -> arity_first_src n = true ->
    forall in_fiber recv args, List.length args <> expected_args n ->
      exists m, run_native in_fiber n recv args = NErr EType m.
Proof. exact arity_src_checked. Qed.
Theorem C02_row_key_checked : forall n, key_src n = true ->
    forall in_fiber k rest, has_hash k = false -> List.length (k :: rest) = expected_args n ->
      run_native in_fiber n AKMap (k :: rest)
      = NErr EValue "Cannot use unhashable value '{}' as HashMap key."%string.
Proof. exact key_src_checked. Qed.

(* --- no native panics when its receiver has the kind its class dispatches on --- *)
Theorem C02_natives_total : forall in_fiber n recv args,
    dispatch_ok n recv = true -> args_wf (recv :: args) -> shape_ok n args ->
    is_panic (run_native in_fiber n recv args) = false.
Proof. exact natives_total. Qed.

(* --- ... and exactly these do when a user class derives from a native-object class --- *)
Theorem C02_receiver_kind_refuted :
  (forall n, recv_panics n = true ->
             forall in_fiber, is_panic (run_native in_fiber n AKInstance (witness_args n)) = true)
  /\ (forall n, recv_panics n = false ->
                forall in_fiber args, shape_ok n args ->
                                      is_panic (run_native in_fiber n AKInstance args) = false)
  /\ filter recv_panics all_natives =
     [String_iter; String_len; String_is_alpha; String_is_digit; String_is_hexdigit;
      String_count_chars; String_char_byte_index; String_find; String_replace; String_split;
      String_starts_with; String_ends_with; String_to_num; String_to_bytes;
      String_to_code_points; StringIter_next; Tuple_len; Tuple_iter; TupleIter_next;
      Vec_push; Vec_pop; Vec_len; Vec_iter; VecIter_next; Range_iter; RangeIter_next;
      Map_has_key; Map_get; Map_insert; Map_remove; Map_clear; Map_len; Map_keys; Map_values;
      Map_items; Fiber_call; Fiber_has_finished].
Proof. exact receiver_kind_refuted. Qed.

(* --- the bodies of the string natives and of indexing (StrFns.v) --- *)
Theorem C02_string_natives_no_panic : forall s args,
    valid_utf8 s = true -> len_ok s -> args_valid args ->
    StrProofs.is_panic (string_len s args) = false
    /\ StrProofs.is_panic (string_count_chars s args) = false
    /\ StrProofs.is_panic (string_char_byte_index s args) = false
    /\ StrProofs.is_panic (string_find s args) = false
    /\ StrProofs.is_panic (string_is_alpha s args) = false
    /\ StrProofs.is_panic (string_is_digit s args) = false
    /\ StrProofs.is_panic (string_is_hexdigit s args) = false
    /\ StrProofs.is_panic (string_to_bytes s args) = false
    /\ StrProofs.is_panic (string_to_code_points s args) = false
    /\ StrProofs.is_panic (string_starts_with s args) = false
    /\ StrProofs.is_panic (string_ends_with s args) = false
    /\ StrProofs.is_panic (string_replace s args) = false
    /\ StrProofs.is_panic (string_split s args) = false
    /\ StrProofs.is_panic (string_from_ascii args) = false
    /\ StrProofs.is_panic (string_from_utf8 args) = false
    /\ StrProofs.is_panic (string_from_code_points args) = false.
Proof. exact natives_no_panic. Qed.
Theorem C02_get_item_no_panic : forall s a, valid_utf8 s = true -> len_ok s -> arg_wf a = true ->
    StrProofs.is_panic (string_get_item s a) = false.
Proof. exact get_item_no_panic. Qed.
Theorem C02_slice_get_item_no_panic : forall (A : Type) (v : list A) kind a,
    len_ok v -> arg_wf a = true -> StrProofs.is_panic (slice_get_item v kind a) = false.
Proof. exact (@slice_get_item_no_panic). Qed.

(* --- verified bytecode never reaches a stuck (= panic / unchecked memory) site --- *)
Theorem C02_verified_no_stuck : forall p n m, verify_program p = VOk n m ->
    forall f, In f p -> forall s, reachable false p f s -> succs false p f s <> None.
Proof. exact verified_no_stuck. Qed.

(* --- kind-dependent VM sites are entered only from the producer of the right kind --- *)
Theorem C02_fn_sites_sound : forall b p f,
    fn_sites_ok b p f = true ->
    forall s', reachable b p f s' ->
    forall i nx rule, decode p f (pc s') = Some (i, nx) -> site_rule f (iop i) = Some rule ->
      (iop i = OpBuildString /\ ia i = 0%N)
      \/ exists s j nxj, reachable b p f s /\ decode p f (pc s) = Some (j, nxj) /\ rule j = true.
Proof. exact fn_sites_sound. Qed.

(* --- call depth --- *)
Theorem C02_frames_bounded : forall b p,
    (forall f, In f p -> exists a, check_fn b p f a = true) ->
    forall ms, mreachable b p ms -> (List.length ms <= N.to_nat Consts.FRAMES_MAX)%nat.
Proof. exact frames_bounded. Qed.

(* --- value stack: bounded when frames stay within LOCALS_MAX; refuted otherwise --- *)
Theorem C02_stack_bounded_partial : forall p n m,
    verify_program p = VOk n m -> (m * Consts.FRAMES_MAX <=? Consts.STACK_MAX)%N = true ->
    forall ms, mreachable false p ms ->
      match ms with
      | [] => True
      | fr :: _ => (fr_base fr + h (fr_st fr) <= Consts.STACK_MAX)%N
      end.
Proof. exact stack_bounded_partial. Qed.
Theorem C02_stack_bounded_refuted :
  exists p n m ms,
    verify_program p = VOk n m
    /\ stack_safe m = false
    /\ mreachable false p ms
    /\ (List.length ms <= 64)%nat
    /\ match ms with
       | [] => False
       | fr :: _ => (Consts.STACK_MAX < fr_base fr + h (fr_st fr))%N
       end.
Proof. exact stack_bounded_refuted. Qed.

Print Assumptions C02_side_native_rows.
Print Assumptions C02_side_consts.
Print Assumptions C02_side_iter_guards.
Print Assumptions C02_iter_guard_ge_total.
Print Assumptions C02_iter_guard_ge_sentinel.
Print Assumptions C02_iter_guard_eq_bounded.
Print Assumptions C02_iter_guard_eq_refuted.
Print Assumptions C02_row_arity_checked.
Print Assumptions C02_row_key_checked.
Print Assumptions C02_natives_total.
Print Assumptions C02_receiver_kind_refuted.
Print Assumptions C02_string_natives_no_panic.
Print Assumptions C02_get_item_no_panic.
Print Assumptions C02_slice_get_item_no_panic.
Print Assumptions C02_verified_no_stuck.
Print Assumptions C02_fn_sites_sound.
Print Assumptions C02_frames_bounded.
Print Assumptions C02_stack_bounded_partial.
Print Assumptions C02_stack_bounded_refuted.
