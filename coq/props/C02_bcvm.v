(* props/C02_bcvm.v - statements only (printed by Coq's own `Check`, so every name is qualified): theorems about BcVM.v, the
   complete Gallina bytecode VM that executes the REAL compiler's output (tools/bcvm_corr.py ties it to the binary by outcome and by
   per-instruction H4 trace on every run).  Counted and re-checked by the driver together with props/C02.v. *)
From Coq Require Import ZArith NArith List Bool String.
Import ListNotations.
From YV Require BcVMProofs.

Theorem C02_bcvm_imap_is_decode :
  forall (p : Bytecode.program) (f : Bytecode.fn) (q : N),
         SpecHeap.PM.find (BcVM.nkey q) (BcVM.imap_of p f) = Bytecode.decode p f q.
Proof. exact BcVMProofs.imap_is_decode. Qed.

Theorem C02_bcvm_loaded_program_functions :
  forall (w : string) (ld : BcVMRun.loaded) (k : N) (bf : BcVM.bfn),
         BcVMRun.load_wire w = Some ld ->
         BcVM.get_fn (BcVMRun.ld_env ld) k = Some bf ->
         BcVM.bf_imap bf = BcVM.imap_of (BcVMRun.ld_prog ld) (BcVM.bf_raw bf) /\
         nth_error (BcVMRun.ld_prog ld) (N.to_nat k) = Some (BcVM.bf_raw bf).
Proof. exact BcVMProofs.loaded_program_functions. Qed.

Theorem C02_bcvm_bcvm_refines_skeleton_local :
  forall (p : Bytecode.program) (s : BcVM.bstate) (fi : nat) (f : Bytecode.fn) 
           (a : Skeleton.fstate) (s' : BcVM.bstate) (l : list Skeleton.fstate) (i : Bytecode.instr) 
           (nx : N),
         BcVMProofs.rel p s fi f a ->
         BcVMProofs.OInv s ->
         Bytecode.decode p f (Skeleton.pc a) = Some (i, nx) ->
         BcVMProofs.frame_local (Bytecode.iop i) = true ->
         Skeleton.step false p f a = Skeleton.Next l ->
         BcVM.step s = BcVM.BNext s' ->
         (exists a' : Skeleton.fstate, In a' l /\ BcVMProofs.rel p s' fi f a') \/ Skeleton.handlers a = [].
Proof. exact BcVMProofs.bcvm_refines_skeleton_local. Qed.

Theorem C02_bcvm_verified_frame_stays_verified_local :
  forall (p : Bytecode.program) (n : nat) (m : N) (fi : nat) (f : Bytecode.fn) 
           (a : Skeleton.fstate) (s : BcVM.bstate),
         Verifier.verify_program p = Verifier.VOk n m ->
         nth_error p fi = Some f ->
         VerifierProofs.reachable false p f a ->
         BcVMProofs.rel p s fi f a ->
         BcVMProofs.OInv s ->
         exists (i : Bytecode.instr) (nx : N),
           BcVM.fetch s = Some (i, nx) /\
           (BcVMProofs.frame_local (Bytecode.iop i) = true ->
            forall s' : BcVM.bstate,
            BcVM.step s = BcVM.BNext s' ->
            (exists a' : Skeleton.fstate,
               VerifierProofs.reachable false p f a' /\ BcVMProofs.rel p s' fi f a' /\ BcVMProofs.OInv s') \/
            Skeleton.handlers a = []).
Proof. exact BcVMProofs.verified_frame_stays_verified_local. Qed.

Theorem C02_bcvm_verified_code_never_stuck_bcvm_partial :
  forall (p : Bytecode.program) (n : nat) (m : N) (fi : nat) (f : Bytecode.fn) 
           (a : Skeleton.fstate) (s : BcVM.bstate),
         Verifier.verify_program p = Verifier.VOk n m ->
         nth_error p fi = Some f ->
         VerifierProofs.reachable false p f a ->
         BcVMProofs.rel p s fi f a ->
         exists (i : Bytecode.instr) (nx : N),
           BcVM.fetch s = Some (i, nx) /\
           (BcVMProofs.S1 (Bytecode.iop i) = true \/ BcVMProofs.is_jump (Bytecode.iop i) = true ->
            forall s' : BcVM.bstate,
            BcVM.step s = BcVM.BNext s' ->
            (exists a' : Skeleton.fstate, VerifierProofs.reachable false p f a' /\ BcVMProofs.rel p s' fi f a') \/
            BcVMProofs.shorter s s').
Proof. exact BcVMProofs.verified_code_never_stuck_bcvm_partial. Qed.

Theorem C02_bcvm_bcvm_refines_skeleton_refuted :
  exists s0 s : BcVM.bstate,
           Verifier.verdict_accepts
             (Verifier.verify_program (BcVMProofs.prog_of_wire BcVMProofs.witness2_wire)) = true /\
           BcVMProofs.start_of_wire BcVMProofs.witness2_wire = Some s0 /\
           BcVM.run 28 s0 = BcVM.BRMore s /\
           (forall (p : Bytecode.program) (fi : nat) (f : Bytecode.fn) (a : Skeleton.fstate),
            ~ BcVMProofs.rel p s fi f a).
Proof. exact BcVMProofs.bcvm_refines_skeleton_refuted. Qed.

Theorem C02_bcvm_handler_frames_le_frames_refuted :
  exists s0 s : BcVM.bstate,
           BcVMProofs.start_of_wire BcVMProofs.witness_wire = Some s0 /\
           BcVMProofs.handler_frames_ok s0 /\
           BcVM.run 15 s0 = BcVM.BRMore s /\ ~ BcVMProofs.handler_frames_ok s.
Proof. exact BcVMProofs.handler_frames_le_frames_refuted. Qed.

Theorem C02_bcvm_rel_satisfiable :
  BcVMProofs.rel BcVMProofs.ex_prog BcVMProofs.ex_state 0 BcVMProofs.ex_fn
           (Skeleton.entry_state BcVMProofs.ex_fn) /\
         BcVMProofs.OInv BcVMProofs.ex_state /\
         Verifier.verdict_accepts (Verifier.verify_program BcVMProofs.ex_prog) = true /\
         (exists s' : BcVM.bstate,
            BcVM.step BcVMProofs.ex_state = BcVM.BNext s' /\
            BcVMProofs.rel BcVMProofs.ex_prog s' 0 BcVMProofs.ex_fn
              {|
                Skeleton.pc := 1;
                Skeleton.h := 2;
                Skeleton.handlers := [];
                Skeleton.captured := [];
                Skeleton.pending := None;
                Skeleton.exc := Skeleton.XUnknown
              |}).
Proof. exact BcVMProofs.rel_satisfiable. Qed.

Print Assumptions C02_bcvm_imap_is_decode.
Print Assumptions C02_bcvm_loaded_program_functions.
Print Assumptions C02_bcvm_bcvm_refines_skeleton_local.
Print Assumptions C02_bcvm_verified_frame_stays_verified_local.
Print Assumptions C02_bcvm_verified_code_never_stuck_bcvm_partial.
Print Assumptions C02_bcvm_bcvm_refines_skeleton_refuted.
Print Assumptions C02_bcvm_handler_frames_le_frames_refuted.
Print Assumptions C02_bcvm_rel_satisfiable.
