(* C03 - Compilation is total: any text yields a function or a compile error.

   FULL PROPERTY (of the Rust code): for every UTF-8 string s, `compiler::compile(s)` - the scanner, the
   single-pass parser/code generator WITH panic-mode recovery (error_at / synchronise) - terminates, never
   panics, and returns Err(CompileError with >= 1 located message) iff it recorded an error, else a runnable
   function; recovery after an error never turns later text into a crash.

   WHAT IS PROVED HERE, of the models YV.Scanner / YV.Parser (for ALL inputs, unbounded):
   * scanning: every step makes progress, Eof is absorbing, `current <= len`, the token stream of every
     byte string is finite (<= len+1 tokens), ends with the only Eof; every slice the scanner takes lies on
     character boundaries (no slicing panic); the interpolation stack never exceeds INTERPOLATION_DEPTH_MAX;
     every token carries a line >= 1; the keyword trie is exactly the keyword table;
   * parsing: the model defines the ACCEPTED LANGUAGE and the FIRST error (it stops at the first error_at the
     Rust parser would execute); it is total in the sense "function, first error, or out of fuel"
     (C03_parse_total); a first error carries a line >= 1 (C03_first_error_has_line), also on the whole pipeline
     (C03_source_error_has_line).  Fuel sufficiency is proved in general:
     POutOfFuel never happens with default_fuel, on every token list (C03_parse_fuel_enough), and the answer does
     not depend on the fuel (C03_parse_fuel_monotone / _independent); so the model decides every source
     (C03_parse_source_decides).  A POutOfFuel verdict seen by the driver would contradict a theorem and is reported
     as a broken obligation.
   * the tables: the Pratt table, the Precedence and TokenKind enumerations, the keyword table and three
     limits of the model are EQUAL to the ones regenerated from the current compiler.rs / scanner.rs /
     common.rs (C03_rules_table, ...): a changed precedence, a swapped handler, a new keyword or token kind
     breaks the obligation that names it.

   WHAT ONLY THE CORRESPONDENCE (tools/props/C03.py, harness command c03) COVERS: the recovery loop
   (synchronise, panic_mode), every message after the first, "Err iff an error was recorded" ((F): Ok while
   the model reports an error is a violation), termination and panic-freedom of the real parser and code
   generator on every generated text, the code-emission limits (jump/loop/constant-pool sizes). *)
From Coq Require Import List NArith Arith Lia.
From YVGen Require Import Consts Rules Tokens.
From YV Require Import Utf8 Ast Scanner ScannerProofs ParserRules Parser ParseRun ParserProofs C03Run TotalityProofs FuelProofs ParserInv ScanSites ScanSitesProofs.
Import ListNotations.

(* ---------- the tables of the model are the tables of the current source ---------- *)
Theorem C03_rules_known : rules_gen_unknown = [].
Proof. vm_compute; reflexivity. Qed.
Theorem C03_rules_table : rules_gen = rules_table.
Proof. vm_compute; reflexivity. Qed.
Theorem C03_rules_length : rules_gen_declared = length all_tkinds /\ length rules_gen = length all_tkinds.
Proof. vm_compute; split; reflexivity. Qed.
Theorem C03_precedence_order :
  precedence_names_gen = map precedence_rust_name all_precedences /\
  map prec_index all_precedences = seq 0 (length all_precedences).
Proof. vm_compute; split; reflexivity. Qed.
Theorem C03_token_kinds :
  tkind_names_gen = map tkind_rust_name all_tkinds /\ map tkind_index all_tkinds = seq 0 (length all_tkinds).
Proof. vm_compute; split; reflexivity. Qed.
Theorem C03_keywords : keywords_gen = keywords_ref_named /\ keywords_starts_ok keywords_ref = true.
Proof. vm_compute; split; reflexivity. Qed.
(* the constant-pool limit ("Too many constants in one chunk.") is checked in make_constant only: it is the only
   function of compiler.rs that inserts into the constant table (regenerated fact; the limit itself is outside the
   parser model and is exercised by the constants-boundary texts of the driver) *)
Theorem C03_constants_through_make_constant : constant_insertions_gen = constant_insertions_ref.
Proof. vm_compute; reflexivity. Qed.
(* every byte position of scanner.rs is obtained the way the character-level scanner model assumes (regenerated:
   slices, the lets that define their bounds, writes to self.current / self.start, the two position primitives,
   unwrap() counts) - see ScanSites.v for why these rows make `C03_scan_no_bad_slice` a statement about the code *)
Theorem C03_scanner_positions : scanner_positions_gen = scanner_positions_ref.
Proof. vm_compute; reflexivity. Qed.
(* the call cycles among the functions of scanner.rs / compiler.rs are the reference ones: none in the scanner, the
   statement grammar in the compiler - host recursion follows the NESTING of a text, never its length (ScanSites.v) *)
Theorem C03_host_recursion : host_recursion_gen = host_recursion_ref.
Proof. vm_compute; reflexivity. Qed.
(* the only byte arithmetic on positions - `self.start + k` in check_keyword / identifier_type - stays on character
   boundaries: an identifier lexeme is ASCII, and every byte-offset sub-slice of an ASCII token exists *)
Theorem C03_ident_lexeme_ascii : forall c r l r',
  is_alpha c = true -> span_ident r = (l, r') -> forallb ascii_byte (c ++ l) = true.
Proof. exact ident_lexeme_ascii. Qed.
Theorem C03_ascii_token_slices : forall src st t start st',
  reachable src st ->
  scan_token_start st = (t, start, st') ->
  lexeme_token (tk t) = true ->
  forallb ascii_byte (tsource t) = true ->
  forall i j, i <= j -> j <= length (tsource t) ->
  slice src (start + i) (start + j) = Some (firstn (j - i) (skipn i (tsource t))).
Proof. exact ascii_token_slices. Qed.
Theorem C03_limits :
  YVGen.Consts.INTERPOLATION_DEPTH_MAX = N.of_nat Scanner.INTERPOLATION_DEPTH_MAX /\
  YVGen.Consts.LOCALS_MAX = N.of_nat Parser.LOCALS_MAX /\ YVGen.Consts.UPVALUES_MAX = N.of_nat Parser.UPVALUES_MAX.
Proof. vm_compute; repeat split; reflexivity. Qed.

(* the keyword trie of the scanner model recognises exactly the keyword table *)
Theorem C03_keyword_table : forall lex, identifier_type lex = kw_lookup keyword_texts lex.
Proof. exact identifier_type_keywords. Qed.

(* ---------- scanning terminates, on every byte string ---------- *)
Theorem C03_scan_progress : forall st t st',
  scan_token st = (t, st') ->
  s_pos st <= s_pos st' /\
  s_pos st' + clen (s_rest st') = s_pos st + clen (s_rest st) /\
  (tk t <> TEof -> length (s_rest st') < length (s_rest st)) /\
  (tk t <> TEof -> nonempty_chars (s_rest st) -> s_pos st < s_pos st') /\
  (tk t = TEof -> s_rest st' = []).
Proof. exact scan_progress. Qed.
Theorem C03_scan_eof_absorbing : forall st t st',
  scan_token st = (t, st') -> tk t = TEof ->
  scan_token st' = (mkToken TEof (s_line st') [], st').
Proof. exact scan_eof_absorbing. Qed.
Theorem C03_scan_pos_le_length : forall src st, reachable src st -> s_pos st <= length src.
Proof. exact scan_pos_le_length. Qed.
Theorem C03_scan_all_ends_with_eof : forall src,
  exists l t, scan_all src = l ++ [t] /\ tk t = TEof /\ Forall (fun x => tk x <> TEof) l.
Proof. exact scan_all_ends_with_eof. Qed.
Theorem C03_scan_all_length_bound : forall src, length (scan_all src) <= length src + 1.
Proof. exact scan_all_length_bound. Qed.
Theorem C03_scan_all_lines : forall src, Forall (fun t => (1 <= tline t)%N) (scan_all src).
Proof. exact scan_all_lines. Qed.

(* ---------- no slicing panic, bounded interpolation stack ---------- *)
Theorem C03_scan_no_bad_slice : forall src st t start st',
  reachable src st ->
  scan_token_start st = (t, start, st') ->
  exists lex, slice src start (s_pos st') = Some lex /\
              (lexeme_token (tk t) = true -> tsource t = lex).
Proof. exact scan_no_bad_slice. Qed.
Theorem C03_interp_depth_bounded : forall src st,
  reachable src st -> length (s_parens st) <= Scanner.INTERPOLATION_DEPTH_MAX.
Proof. exact interp_depth_bounded. Qed.

(* ---------- the parser model: total, and a first error is located ---------- *)
Theorem C03_parse_total : forall src,
  (exists p, parse_source src = POk p) \/
  (exists l a m, parse_source src = PErr l a m /\ (1 <= l)%N) \/
  parse_source src = POutOfFuel.
Proof. exact parse_total. Qed.
Theorem C03_first_error_has_line : forall toks l a m,
  toks <> [] -> Forall (fun t => (1 <= tline t)%N) toks ->
  parse_program toks = PErr l a m -> (1 <= l)%N.
Proof. exact first_error_has_line_tokens. Qed.
Theorem C03_source_error_has_line : forall src l a m, parse_source src = PErr l a m -> (1 <= l)%N.
Proof. exact first_error_has_line. Qed.

(* fuel sufficiency as far as proved (parser agent's ParserProofs.v): on the operator fragment (literals, variables,
   unary, binary, and/or, range - unbounded size) the canonical token rendering parses back with default_fuel, hence
   never POutOfFuel there; for statements only the depth argument of PARSER_REPORT.md section 5 exists *)
Theorem C03_parse_fuel_enough_partial : forall e, Pratt.frag e ->
  parse_expr (Pratt.tk_expr 1 e ++ [Pratt.eof1]) = POk e.
Proof. exact Pratt.pratt_roundtrip_tokens. Qed.
(* `infix_rule.unwrap()` of parse_precedence never sees None *)
Theorem C03_rules_infix_total : forall k, r_prec (rules_ref k) <> PrecNone -> r_infix (rules_ref k) <> None.
Proof. exact rules_infix_total. Qed.

(* GENERAL FUEL SUFFICIENCY (FuelProofs.v): on EVERY token list the knot never bottoms out with default_fuel
   (measure: tokens left, rank of the entry point - every call through `rec` follows a consumed token or goes to a
   smaller rank; budget 8 * tokens + rank + 1), so the model never abstains; more fuel never changes an answer, so the
   language defined does not depend on the fuel constant; hence the model DECIDES every source. *)
Theorem C03_parse_fuel_enough : forall toks, parse_program toks <> POutOfFuel.
Proof. exact parse_fuel_enough. Qed.
Theorem C03_parse_fuel_bound : forall toks fuel, 8 * length toks + 3 <= fuel ->
  run (parse rules_ref fuel) toks <> POutOfFuel.
Proof. exact parse_fuel_bound. Qed.
Theorem C03_parse_fuel_monotone : forall rules toks f f', f <= f' ->
  run (parse rules f) toks <> POutOfFuel -> run (parse rules f') toks = run (parse rules f) toks.
Proof. exact parse_fuel_monotone. Qed.
Theorem C03_parse_fuel_independent : forall toks fuel, default_fuel toks <= fuel ->
  run (parse rules_ref fuel) toks = parse_program toks.
Proof. exact parse_fuel_independent. Qed.
Theorem C03_parse_source_decides : forall src,
  (exists p, parse_source src = POk p) \/ (exists l a m, parse_source src = PErr l a m /\ (1 <= l)%N).
Proof. exact parse_source_decides. Qed.

(* parser-wide token-line invariant (ParserInv.v): the first error carries the line / lexeme of an input token *)
Theorem C03_first_error_line_good : forall (good : N -> Prop) toks l a m,
  toks <> [] -> Forall (fun t => good (tline t)) toks -> parse_program toks = PErr l a m -> good l.
Proof. exact parse_error_line_good. Qed.
Theorem C03_first_error_at_token : forall toks l a m,
  toks <> [] -> parse_program toks = PErr l a m -> err_from toks l a m.
Proof. exact parse_error_at_token_tokens. Qed.

Print Assumptions C03_rules_known.
Print Assumptions C03_rules_table.
Print Assumptions C03_rules_length.
Print Assumptions C03_precedence_order.
Print Assumptions C03_token_kinds.
Print Assumptions C03_keywords.
Print Assumptions C03_scanner_positions.
Print Assumptions C03_host_recursion.
Print Assumptions C03_ident_lexeme_ascii.
Print Assumptions C03_ascii_token_slices.
Print Assumptions C03_limits.
Print Assumptions C03_constants_through_make_constant.
Print Assumptions C03_keyword_table.
Print Assumptions C03_scan_progress.
Print Assumptions C03_scan_eof_absorbing.
Print Assumptions C03_scan_pos_le_length.
Print Assumptions C03_scan_all_ends_with_eof.
Print Assumptions C03_scan_all_length_bound.
Print Assumptions C03_scan_all_lines.
Print Assumptions C03_scan_no_bad_slice.
Print Assumptions C03_interp_depth_bounded.
Print Assumptions C03_parse_total.
Print Assumptions C03_first_error_has_line.
Print Assumptions C03_source_error_has_line.
Print Assumptions C03_parse_fuel_enough_partial.
Print Assumptions C03_rules_infix_total.
Print Assumptions C03_parse_fuel_enough.
Print Assumptions C03_parse_fuel_bound.
Print Assumptions C03_parse_fuel_monotone.
Print Assumptions C03_parse_fuel_independent.
Print Assumptions C03_parse_source_decides.
Print Assumptions C03_first_error_line_good.
Print Assumptions C03_first_error_at_token.
