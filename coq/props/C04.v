(* C04 - Accepted programs compile to code the interpreter can run blindly.
   ONLY statements: each is closed by `exact` of a lemma of theories/ (side conditions on the constants
   regenerated from /repo by the translator - YVGen.Consts, YVGen.Opcodes - are decided by computation). *)
From Coq Require Import List NArith Bool String Lia.
From YVGen Require Consts Opcodes AddLocalSites OperandArith ConstantSites CodeReads.
From YV Require Import Show Bytecode Skeleton Verifier VerifierProofs VerifierRun VerifierRunProofs.
From YV Require ParseLoc FullCompile FullCompileProofs.
Import ListNotations.
Open Scope N_scope.

(* ---------- side conditions: the constants hard-wired in Skeleton.v are the source's ---------- *)
Theorem C04_side_stack_max : Skeleton.STACK_MAX = Consts.STACK_MAX.
Proof. reflexivity. Qed.
Theorem C04_side_frames_max : Skeleton.FRAMES_MAX = Consts.FRAMES_MAX.
Proof. reflexivity. Qed.
(* a local slot / captured-variable index is emitted as ONE byte: the compiler's own limits must fit it *)
Theorem C04_side_locals_max : Consts.LOCALS_MAX <= 256.
Proof. vm_compute; discriminate. Qed.
Theorem C04_side_upvalues_max : Consts.UPVALUES_MAX <= 256.
Proof. vm_compute; discriminate. Qed.

(* ---------- LOCALS_MAX is enforced at ONE place, and every caller looks at the answer ----------
   `Compiler::add_local` reports the limit through its bool result.  Up to /repo eac17ca two callers dropped it
   (the hidden iterator of `for`, the `super` local of a derived class): at exactly 256 locals the local was
   silently lost and later variables named the wrong slot, with consistent heights - invisible to the verifier,
   so it is a side condition on the regenerated call-site table (translator/translate_c04.py), paired with the
   run-time oracle of the limit family `locals_boundary` (tools/props/C04.py) which yields the failing input. *)
Definition all_checked (l : list (string * bool)) : bool := forallb snd l.
Theorem C04_side_add_local_results_checked :
  all_checked AddLocalSites.add_local_sites = true /\ AddLocalSites.add_local_sites <> [].
Proof. split; [vm_compute; reflexivity|discriminate]. Qed.
Theorem C04_side_add_local_enforces_limit :
  AddLocalSites.add_local_enforces_limit = true /\ AddLocalSites.locals_push_sites = ["add_local"%string].
Proof. split; reflexivity. Qed.
(* the table the same extractor yields for /repo 99d40fc .. eac17ca: the side condition was false *)
Definition add_local_sites_old : list (string * bool) :=
  [("class_declaration", false); ("for_statement", false); ("declare_variable", true)]%string.
Theorem C04_add_local_results_checked_refuted_old : all_checked add_local_sites_old = false.
Proof. vm_compute; reflexivity. Qed.

(* ---------- operands are widened before the VM does arithmetic on them ----------
   Bytecode.decode / Skeleton.step compute finally_pc = nx + a + b (PushExcHandler), 2 * a (BuildHashMap), a + 1
   (Call) in unbounded N.  That models the VM only if vm.rs widens the u8 / u16 operand (`as usize`) BEFORE the
   arithmetic.  The table of every arithmetic use of a `read_short()` / `read_byte()` variable is regenerated
   from vm.rs (translator/translate_c04.py); the run-time counterpart is the limit family `try_catch_sum`
   (|try| + |catch| on both sides of 2^16, run in the debug and the release build). *)
Definition arith_all_widened (l : list (string * string * bool)) : bool := forallb snd l.
Definition has_site (f v : string) (l : list (string * string * bool)) : bool :=
  existsb (fun s => String.eqb (fst (fst s)) f && String.eqb (snd (fst s)) v) l.
Theorem C04_side_operands_widened_before_arithmetic :
  arith_all_widened OperandArith.operand_arith_sites = true.
Proof. vm_compute; reflexivity. Qed.
(* fail closed: the addition try_size + catch_size of push_exc_handler_impl is still recognised by the extractor *)
Theorem C04_side_handler_sum_recognised :
  has_site "push_exc_handler_impl" "try_size" OperandArith.operand_arith_sites = true /\
  has_site "push_exc_handler_impl" "catch_size" OperandArith.operand_arith_sites = true.
Proof. split; vm_compute; reflexivity. Qed.
(* the table the extractor yields when the two operands stay u16 (seeded mutant, round 4): the condition is false,
   and in 16 bits the sum of two accepted operands wraps *)
Definition operand_arith_sites_narrow : list (string * string * bool) :=
  [("push_exc_handler_impl", "try_size", false); ("push_exc_handler_impl", "catch_size", false)]%string.
Theorem C04_operands_widened_refuted_narrow :
  arith_all_widened operand_arith_sites_narrow = false /\
  exists a b, a <= 65535 /\ b <= 65535 /\ (a + b) mod 65536 <> a + b.
Proof. split; [vm_compute; reflexivity|]. exists 32765, 32771. vm_compute. repeat split; discriminate. Qed.

(* ---------- every constant reaches its chunk through make_constant ----------
   The 65536-constants-per-chunk limit (a constant index is a u16 operand) is enforced in `make_constant` only.
   A second caller of Chunk::add_constant narrows the index itself (`as u16`) without the check: seeded mutant
   round 5 did that in `identifier_constant`, so a NAME as 65537th constant named constant 0.  Regenerated from
   compiler.rs (translator/translate_c04.py); run-time counterpart: limit family `constants_by_kind`. *)
Theorem C04_side_constants_through_make_constant :
  ConstantSites.add_constant_sites = ["make_constant"%string] /\ ConstantSites.make_constant_enforces_limit = true.
Proof. split; reflexivity. Qed.
Definition add_constant_sites_mutant : list string := ["make_constant"; "identifier_constant"]%string.
Theorem C04_constants_through_make_constant_refuted_mutant :
  add_constant_sites_mutant <> ["make_constant"%string] /\ 65536 mod 65536 = 0.
Proof. split; [discriminate|reflexivity]. Qed.

(* ---------- the compiler never looks at the bytes it has emitted ----------
   A byte of chunk.code is an opcode or an OPERAND and compiler.rs keeps no record of instruction boundaries: a
   decision taken on `code.last()` / `code[i]` may be taken on an operand (seeded change, round 7: the implicit
   `nil; return` was skipped when the last byte was 57 = OpCode::Return, which a 57-element vec literal, a call with
   57 arguments or local slot 57 also leave there; the function then runs off the end of its code).  Regenerated from
   compiler.rs (translator/translate_c04.py, gen/CodeReads.v): every use of `.code` is `.code.len()` or a
   back-patching write `.code[i] = b`, and `code`, `write`, `add_constant` are the only members of a chunk the
   compiler names.  Run-time counterpart: limit family `operand_alias` (every operand form x every opcode number x
   every kind of function, judged by the verifier and run). *)
Definition no_code_reads (l : list (string * string)) : bool :=
  forallb (fun u => negb (String.eqb (snd u) "read")) l.
Definition members_known (l : list string) : bool :=
  forallb (fun m => existsb (String.eqb m) ["add_constant"; "code"; "write"]%string) l.
Theorem C04_side_compiler_never_reads_emitted_bytes :
  no_code_reads CodeReads.code_uses = true /\ CodeReads.code_uses <> [] /\
  members_known CodeReads.chunk_members = true.
Proof. split; [vm_compute; reflexivity|]. split; [discriminate|vm_compute; reflexivity]. Qed.
(* the table the same extractor yields for the seeded change (`let code = &compiler.chunk.code; code.last() == ...`
   in ends_in_return), and why the last byte proves nothing: both functions below end in byte 57, the one without
   its epilogue is rejected by the verifier, its last INSTRUCTION is BuildVec 57 *)
Definition code_uses_peek : list (string * string) :=
  [("patch_jump", "len"); ("patch_jump", "write"); ("patch_jump", "write"); ("patch_jump", "len");
   ("ends_in_return", "read"); ("patch_offset_at", "len"); ("patch_offset_at", "write")]%string.
Theorem C04_code_reads_refuted_peek : no_code_reads code_uses_peek = false.
Proof. vm_compute; reflexivity. Qed.
Theorem C04_last_byte_is_not_last_instruction :
  (last (code fn_vec57_with_epilogue) 0 = N_of_opcode OpReturn) /\
  (last (code fn_vec57_without_epilogue) 0 = N_of_opcode OpReturn) /\
  (exists a, verify_fn false [fn_vec57_with_epilogue] fn_vec57_with_epilogue = FOk a) /\
  (exists q r, verify_fn false [fn_vec57_without_epilogue] fn_vec57_without_epilogue = FReject q r) /\
  (decode [fn_vec57_without_epilogue] fn_vec57_without_epilogue 57
   = Some (mkInstr OpBuildVec 57 0 [], code_len fn_vec57_without_epilogue)).
Proof. exact last_byte_is_not_last_instruction. Qed.
(* a verified function never reaches the end of its code (corollary of decode_in_bounds) *)
Theorem C04_never_runs_off_the_end : forall b p f a, check_fn b p f a = true ->
  forall s, reachable b p f s -> pc s < code_len f.
Proof. exact never_runs_off_the_end. Qed.

(* ---------- the users of JUMP_SIZE_MAX agree on what it means ----------
   Every comparison with the constant in compiler.rs (patch_jump, emit_loop, patch_offset_at), with its operator:
   `x > J` lets x <= J pass, `x >= J` lets x <= J - 1 pass; what passes is narrowed with `as u16`, so each site must
   let at most 65535 pass (seeded change, round 7: J made an exclusive bound 65536, two sites moved to `>=`, the
   third - the PushExcHandler sizes - kept `>` and accepted exactly 65536, encoded as 0).  Run-time counterpart:
   the jump families of the limit family (65534 .. 65537 per site). *)
Definition site_passes_at_most_65535 (J : N) (s : string * string) : bool :=
  if String.eqb (snd s) ">" then J <=? 65535 else if String.eqb (snd s) ">=" then J <=? 65536 else false.
Theorem C04_side_jump_limit_sites_agree :
  forallb (site_passes_at_most_65535 Consts.JUMP_SIZE_MAX) CodeReads.jump_limit_sites = true /\
  (3 <= List.length CodeReads.jump_limit_sites)%nat.
Proof. split; [vm_compute; reflexivity|vm_compute; lia]. Qed.
Definition jump_limit_sites_mixed : list (string * string) :=
  [("patch_jump", ">="); ("emit_loop", ">="); ("patch_offset_at", ">")]%string.
Theorem C04_jump_limit_sites_refuted_mixed :
  forallb (site_passes_at_most_65535 65536) jump_limit_sites_mixed = false /\ snd (encode16 65536) = 0 /\ fst (encode16 65536) = 0.
Proof. vm_compute; repeat split; reflexivity. Qed.

(* ---------- opcode numbering / names / layouts are those of chunk.rs and vm.rs today ---------- *)
Theorem C04_opcode_names : map name_of_opcode all_opcodes = Opcodes.opcode_names.
Proof. vm_compute; reflexivity. Qed.
Theorem C04_opcode_numbering :
  map N_of_opcode all_opcodes = map N.of_nat (seq 0 (List.length Opcodes.opcode_names))
  /\ forallb (fun o => match opcode_of_N (N_of_opcode o) with
                       | Some o' => N.eqb (N_of_opcode o') (N_of_opcode o) | None => false end)
             all_opcodes = true
  /\ opcode_of_N (N.of_nat (List.length Opcodes.opcode_names)) = None.
Proof. vm_compute; repeat split; reflexivity. Qed.
Theorem C04_vm_dispatches_exactly_these : same_names Opcodes.vm_dispatch_names Opcodes.opcode_names = true.
Proof. vm_compute; reflexivity. Qed.
(* OpCode::arg_sizes (which emit_variable_op consults) agrees with the layout the VM decodes, except for the
   documented PopExcHandler entry ([2,2] claimed, nothing read) *)
Theorem C04_arg_sizes_agree :
  forallb (fun n => String.eqb n "PopExcHandler") (arg_size_mismatches Opcodes.opcode_arg_sizes) = true.
Proof. vm_compute; reflexivity. Qed.

(* ---------- the verifier is sound (per function) ---------- *)
Theorem C04_check_sound : forall b p f a, check_fn b p f a = true ->
  forall s, reachable b p f s -> succs b p f s <> None /\ In_annot a s.
Proof. exact check_sound. Qed.
Theorem C04_verifier_sound : forall p n m, verify_program p = VOk n m ->
  forall f, In f p -> forall s, reachable false p f s -> succs false p f s <> None.
Proof. exact verify_sound. Qed.
Theorem C04_verifier_unique_height : forall b p f a, check_fn b p f a = true -> unique_height a = true ->
  forall s1 s2, reachable b p f s1 -> reachable b p f s2 -> pc s1 = pc s2 ->
  h s1 = h s2 /\ handlers s1 = handlers s2.
Proof. exact unique_height_sound. Qed.
Theorem C04_height_bounded : forall b p f a, check_fn b p f a = true ->
  forall s, reachable b p f s -> h s <= max_height a /\ h s <= Consts.STACK_MAX.
Proof. exact height_bounded. Qed.
Theorem C04_decode_in_bounds : forall b p f a, check_fn b p f a = true ->
  forall s, reachable b p f s ->
  exists i nx, decode p f (pc s) = Some (i, nx) /\ pc s < nx /\ nx <= code_len f.
Proof. exact decode_in_bounds. Qed.
Theorem C04_no_overlap : forall b p f a, check_fn b p f a = true ->
  forall s1 s2 i nx, reachable b p f s1 -> reachable b p f s2 ->
  decode p f (pc s1) = Some (i, nx) -> ~ (pc s1 < pc s2 < nx).
Proof. exact no_overlap_sound. Qed.

(* ---------- operands ---------- *)
Theorem C04_operand_widths : forall p f q i nx, decode p f q = Some (i, nx) ->
  ia i < 65536 /\ ib i < 65536 /\ Forall (fun u => snd u < 256) (iuvs i) /\
  match layout_of (iop i) with
  | L0 => ia i = 0 /\ ib i = 0
  | L8 => ia i < 256 /\ ib i = 0
  | L16 => ib i = 0
  | L16_16 => True
  | L16_8 => ib i < 256
  | LClosure => ib i = 0 /\ N.of_nat (List.length (iuvs i)) * 2 + 3 = nx - q
  end.
Proof. exact decode_operand_widths. Qed.
Theorem C04_operand_fits : forall b p f s i nx,
  succs b p f s <> None -> decode p f (pc s) = Some (i, nx) -> operand_fits f i (h s) = true.
Proof. exact operand_fits_of_not_stuck. Qed.

(* ---------- whole programs (multi-frame machine), with the source's FRAMES_MAX / STACK_MAX ---------- *)
Theorem C04_program_sound : forall b p, (forall f, In f p -> exists a, check_fn b p f a = true) ->
  forall ms, mreachable b p ms ->
  Forall (fun fr => frame_ok b p fr /\ ~ frame_stuck b p fr) ms
  /\ (List.length ms <= N.to_nat Consts.FRAMES_MAX)%nat.
Proof. exact program_sound. Qed.
Theorem C04_verified_program_safe : forall p n m, verify_program p = VOk n m -> stack_safe m = true ->
  forall ms, mreachable false p ms ->
  Forall (fun fr => frame_ok false p fr /\ ~ frame_stuck false p fr) ms
  /\ match ms with [] => True | fr :: _ => fr_base fr + h (fr_st fr) <= Consts.STACK_MAX end.
Proof. exact verified_program_safe. Qed.

(* ---------- what "ALL=T" of the per-run report (YV.VerifierRun.run_report) means ---------- *)
Theorem C04_run_ok_sound : forall p, run_ok p = true ->
  forall f, In f p ->
    (forall s, reachable false p f s -> succs false p f s <> None) /\
    (forall s1 s2, reachable false p f s1 -> reachable false p f s2 -> pc s1 = pc s2 ->
       h s1 = h s2 /\ handlers s1 = handlers s2) /\
    (forall s, reachable false p f s -> h s <= Consts.STACK_MAX /\
       exists i nx, decode p f (pc s) = Some (i, nx) /\ pc s < nx /\ nx <= code_len f).
Proof. exact run_ok_sound. Qed.
Theorem C04_run_ok_program_sound : forall p, run_ok p = true ->
  forall ms, mreachable false p ms ->
    Forall (fun fr => frame_ok false p fr /\ ~ frame_stuck false p fr) ms
    /\ (List.length ms <= N.to_nat Consts.FRAMES_MAX)%nat.
Proof. exact run_ok_program_sound. Qed.

(* ---------- jump limit ----------
   `jump_limit_side_condition J := J <= 65535` is what encoding an accepted distance in a u16 needs.
   History: up to /repo 99d40fc the regenerated JUMP_SIZE_MAX was 65536, the side condition was FALSE and the
   distance 65536 was accepted and wrapped to 0 (class jump_65536); this theorem was then stated with
   JUMP_FIX_LANDED := false, i.e. as the refutation (~ side condition /\ a wrapped accepted distance).
   Since fix 927c3c9 (common.rs: JUMP_SIZE_MAX = u16::MAX) the switch is `true`: the theorem states the TRUE
   side condition and the round trip of EVERY accepted distance.  If the constant regresses above 65535 this
   file stops compiling here (the one-line change back is JUMP_FIX_LANDED := false, and the class reopens). *)
Definition JUMP_FIX_LANDED : bool := true.
Theorem C04_jump_limit_side_condition : jump_limit_status JUMP_FIX_LANDED Consts.JUMP_SIZE_MAX.
Proof. exact (jump_limit_decide Consts.JUMP_SIZE_MAX). Qed.
(* the refutation for the old constant stays as a regression witness *)
Theorem C04_jump_limit_refuted_at_65536 : jump_limit_status false 65536.
Proof. exact (jump_limit_decide 65536). Qed.
Theorem C04_jump_roundtrip : forall off, off <= 65535 -> decode16 (encode16 off) = off.
Proof. exact encode16_roundtrip. Qed.

(* ---------- the Gallina model of the WHOLE compiler (FullCompile.v), structural facts for ALL programs ----------
   FullCompile.compile_program is a transcription of compiler.rs (every Rust function has its namesake); the tie to
   the code is checked on every run by tools/props/C04.py (`fullcompile_tie`: the dump of the real compiler and of the
   model are BYTE-IDENTICAL on the test scripts, core.yl, generated programs and a directed family in which the last
   emitted byte of a function equals each opcode number).  These are the statements of FullCompileProofs.v that hold
   for every located program (not only parser output); the `_partial` bridge lemmas to CompileExpr.v are not restated.
   Not covered: a decoder-level restatement (Constant operand < #constants of the FINAL code) - the operand facts are
   proved at the emission site (make_constant_lt, resolve_local_lt); the per-program verdict stays the verifier's. *)
Module FC := FullCompile.
Module FCP := FullCompileProofs.
Theorem C04_model_compile_wf : forall (p : ParseLoc.lprogram) (f : FC.func), FC.compile_program p = FC.COk f -> FCP.wf_func f.
Proof. exact FCP.compile_wf. Qed.
Theorem C04_model_lines_parallel : forall p f g, FC.compile_program p = FC.COk f -> FCP.subfunc g f ->
  List.length (FC.f_code g) = List.length (FC.f_lines g).
Proof. exact FCP.lines_parallel. Qed.
Theorem C04_model_code_bytes_in_range : forall p f g, FC.compile_program p = FC.COk f -> FCP.subfunc g f ->
  Forall (fun b => b < 256) (FC.f_code g).
Proof. exact FCP.code_bytes_in_range. Qed.
Theorem C04_model_patch_jump_in_range : forall off s s', FC.patch_jump off s = FC.COk (tt, s') ->
  N.of_nat (List.length (FC.k_code (FC.s_cur s)) - off - 2) <= 65535 /\
  FC.k_code (FC.s_cur s') =
    FC.set_nth (S off) (N.of_nat (List.length (FC.k_code (FC.s_cur s)) - off - 2) / 256)
      (FC.set_nth off (N.of_nat (List.length (FC.k_code (FC.s_cur s)) - off - 2) mod 256) (FC.k_code (FC.s_cur s))).
Proof. exact FCP.patch_jump_in_range. Qed.
Theorem C04_model_emit_loop_in_range : forall ls l s s', FC.emit_loop ls l s = FC.COk (tt, s') ->
  N.of_nat (FCP.clen s + 1 - ls + 2) <= 65535.
Proof. exact FCP.emit_loop_in_range. Qed.
Theorem C04_model_consts_bounded : forall p f g, FC.compile_program p = FC.COk f -> FCP.subfunc g f ->
  N.of_nat (List.length (FC.f_consts g)) <= 65536 /\ FC.f_upvalues g <= 256.
Proof. exact FCP.consts_bounded. Qed.
Theorem C04_model_closure_descriptors : forall l lc s fu s1 s2,
  FC.finalise_compiler l s = FC.COk (fu, s1) -> FC.emit_closure fu lc s1 = FC.COk (tt, s2) ->
  FC.f_upvalues (fst fu) = N.of_nat (List.length (snd fu)) /\
  FCP.clen s2 = (FCP.clen s1 + 3 + 2 * N.to_nat (FC.f_upvalues (fst fu)))%nat.
Proof. exact FCP.closure_descriptors. Qed.
Theorem C04_model_make_constant_lt : forall c s i s', FC.make_constant c s = FC.COk (i, s') ->
  (N.to_nat i < List.length (FC.k_consts (FC.s_cur s')))%nat.
Proof. exact FCP.make_constant_lt. Qed.
Theorem C04_model_resolve_local_lt : forall name ls i, FC.resolve_local_in name ls = FC.LFound i -> (i < List.length ls)%nat.
Proof. exact FCP.resolve_local_lt. Qed.

Print Assumptions C04_side_stack_max.
Print Assumptions C04_side_frames_max.
Print Assumptions C04_side_locals_max.
Print Assumptions C04_side_upvalues_max.
Print Assumptions C04_side_add_local_results_checked.
Print Assumptions C04_side_add_local_enforces_limit.
Print Assumptions C04_add_local_results_checked_refuted_old.
Print Assumptions C04_side_operands_widened_before_arithmetic.
Print Assumptions C04_side_handler_sum_recognised.
Print Assumptions C04_operands_widened_refuted_narrow.
Print Assumptions C04_side_constants_through_make_constant.
Print Assumptions C04_constants_through_make_constant_refuted_mutant.
Print Assumptions C04_side_compiler_never_reads_emitted_bytes.
Print Assumptions C04_code_reads_refuted_peek.
Print Assumptions C04_last_byte_is_not_last_instruction.
Print Assumptions C04_never_runs_off_the_end.
Print Assumptions C04_side_jump_limit_sites_agree.
Print Assumptions C04_jump_limit_sites_refuted_mixed.
Print Assumptions C04_opcode_names.
Print Assumptions C04_opcode_numbering.
Print Assumptions C04_vm_dispatches_exactly_these.
Print Assumptions C04_arg_sizes_agree.
Print Assumptions C04_check_sound.
Print Assumptions C04_verifier_sound.
Print Assumptions C04_verifier_unique_height.
Print Assumptions C04_height_bounded.
Print Assumptions C04_decode_in_bounds.
Print Assumptions C04_no_overlap.
Print Assumptions C04_operand_widths.
Print Assumptions C04_operand_fits.
Print Assumptions C04_program_sound.
Print Assumptions C04_verified_program_safe.
Print Assumptions C04_run_ok_sound.
Print Assumptions C04_run_ok_program_sound.
Print Assumptions C04_jump_limit_side_condition.
Print Assumptions C04_jump_limit_refuted_at_65536.
Print Assumptions C04_jump_roundtrip.
Print Assumptions C04_model_compile_wf.
Print Assumptions C04_model_lines_parallel.
Print Assumptions C04_model_code_bytes_in_range.
Print Assumptions C04_model_patch_jump_in_range.
Print Assumptions C04_model_emit_loop_in_range.
Print Assumptions C04_model_consts_bounded.
Print Assumptions C04_model_closure_descriptors.
Print Assumptions C04_model_make_constant_lt.
Print Assumptions C04_model_resolve_local_lt.
