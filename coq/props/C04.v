(* C04 - Accepted programs compile to code the interpreter can run blindly.
   ONLY statements: each is closed by `exact` of a lemma of theories/ (side conditions on the constants
   regenerated from /repo by the translator - YVGen.Consts, YVGen.Opcodes - are decided by computation). *)
From Coq Require Import List NArith Bool String Lia.
From YVGen Require Consts Opcodes AddLocalSites OperandArith ConstantSites.
From YV Require Import Show Bytecode Skeleton Verifier VerifierProofs VerifierRun VerifierRunProofs.
Import ListNotations.
Open Scope N_scope.

(* ---------- side conditions: the constants hard-wired in Skeleton.v are the source's ---------- *)
Theorem C04_side_stack_max : Skeleton.STACK_MAX = Consts.STACK_MAX.
Proof. reflexivity. Qed.
Theorem C04_side_frames_max : Skeleton.FRAMES_MAX = Consts.FRAMES_MAX.
Proof. reflexivity. Qed.
(* a local slot / captured-variable index is emitted as ONE byte: the compiler's own limits must fit it *)
Theorem C04_side_locals_max : Consts.LOCALS_MAX <= 256.
Proof. vm_compute; discriminate. Qed.
Theorem C04_side_upvalues_max : Consts.UPVALUES_MAX <= 256.
Proof. vm_compute; discriminate. Qed.

(* ---------- LOCALS_MAX is enforced at ONE place, and every caller looks at the answer ----------
   `Compiler::add_local` reports the limit through its bool result.  Up to /repo eac17ca two callers dropped it
   (the hidden iterator of `for`, the `super` local of a derived class): at exactly 256 locals the local was
   silently lost and later variables named the wrong slot, with consistent heights - invisible to the verifier,
   so it is a side condition on the regenerated call-site table (translator/translate_c04.py), paired with the
   run-time oracle of the limit family `locals_boundary` (tools/props/C04.py) which yields the failing input. *)
Definition all_checked (l : list (string * bool)) : bool := forallb snd l.
Theorem C04_side_add_local_results_checked :
  all_checked AddLocalSites.add_local_sites = true /\ AddLocalSites.add_local_sites <> [].
Proof. split; [vm_compute; reflexivity|discriminate]. Qed.
Theorem C04_side_add_local_enforces_limit :
  AddLocalSites.add_local_enforces_limit = true /\ AddLocalSites.locals_push_sites = ["add_local"%string].
Proof. split; reflexivity. Qed.
(* the table the same extractor yields for /repo 99d40fc .. eac17ca: the side condition was false *)
Definition add_local_sites_old : list (string * bool) :=
  [("class_declaration", false); ("for_statement", false); ("declare_variable", true)]%string.
Theorem C04_add_local_results_checked_refuted_old : all_checked add_local_sites_old = false.
Proof. vm_compute; reflexivity. Qed.

(* ---------- operands are widened before the VM does arithmetic on them ----------
   Bytecode.decode / Skeleton.step compute finally_pc = nx + a + b (PushExcHandler), 2 * a (BuildHashMap), a + 1
   (Call) in unbounded N.  That models the VM only if vm.rs widens the u8 / u16 operand (`as usize`) BEFORE the
   arithmetic.  The table of every arithmetic use of a `read_short()` / `read_byte()` variable is regenerated
   from vm.rs (translator/translate_c04.py); the run-time counterpart is the limit family `try_catch_sum`
   (|try| + |catch| on both sides of 2^16, run in the debug and the release build). *)
Definition arith_all_widened (l : list (string * string * bool)) : bool := forallb snd l.
Definition has_site (f v : string) (l : list (string * string * bool)) : bool :=
  existsb (fun s => String.eqb (fst (fst s)) f && String.eqb (snd (fst s)) v) l.
Theorem C04_side_operands_widened_before_arithmetic :
  arith_all_widened OperandArith.operand_arith_sites = true.
Proof. vm_compute; reflexivity. Qed.
(* fail closed: the addition try_size + catch_size of push_exc_handler_impl is still recognised by the extractor *)
Theorem C04_side_handler_sum_recognised :
  has_site "push_exc_handler_impl" "try_size" OperandArith.operand_arith_sites = true /\
  has_site "push_exc_handler_impl" "catch_size" OperandArith.operand_arith_sites = true.
Proof. split; vm_compute; reflexivity. Qed.
(* the table the extractor yields when the two operands stay u16 (seeded mutant, round 4): the condition is false,
   and in 16 bits the sum of two accepted operands wraps *)
Definition operand_arith_sites_narrow : list (string * string * bool) :=
  [("push_exc_handler_impl", "try_size", false); ("push_exc_handler_impl", "catch_size", false)]%string.
Theorem C04_operands_widened_refuted_narrow :
  arith_all_widened operand_arith_sites_narrow = false /\
  exists a b, a <= 65535 /\ b <= 65535 /\ (a + b) mod 65536 <> a + b.
Proof. split; [vm_compute; reflexivity|]. exists 32765, 32771. vm_compute. repeat split; discriminate. Qed.

(* ---------- every constant reaches its chunk through make_constant ----------
   The 65536-constants-per-chunk limit (a constant index is a u16 operand) is enforced in `make_constant` only.
   A second caller of Chunk::add_constant narrows the index itself (`as u16`) without the check: seeded mutant
   round 5 did that in `identifier_constant`, so a NAME as 65537th constant named constant 0.  Regenerated from
   compiler.rs (translator/translate_c04.py); run-time counterpart: limit family `constants_by_kind`. *)
Theorem C04_side_constants_through_make_constant :
  ConstantSites.add_constant_sites = ["make_constant"%string] /\ ConstantSites.make_constant_enforces_limit = true.
Proof. split; reflexivity. Qed.
Definition add_constant_sites_mutant : list string := ["make_constant"; "identifier_constant"]%string.
Theorem C04_constants_through_make_constant_refuted_mutant :
  add_constant_sites_mutant <> ["make_constant"%string] /\ 65536 mod 65536 = 0.
Proof. split; [discriminate|reflexivity]. Qed.

(* ---------- opcode numbering / names / layouts are those of chunk.rs and vm.rs today ---------- *)
Theorem C04_opcode_names : map name_of_opcode all_opcodes = Opcodes.opcode_names.
Proof. vm_compute; reflexivity. Qed.
Theorem C04_opcode_numbering :
  map N_of_opcode all_opcodes = map N.of_nat (seq 0 (List.length Opcodes.opcode_names))
  /\ forallb (fun o => match opcode_of_N (N_of_opcode o) with
                       | Some o' => N.eqb (N_of_opcode o') (N_of_opcode o) | None => false end)
             all_opcodes = true
  /\ opcode_of_N (N.of_nat (List.length Opcodes.opcode_names)) = None.
Proof. vm_compute; repeat split; reflexivity. Qed.
Theorem C04_vm_dispatches_exactly_these : same_names Opcodes.vm_dispatch_names Opcodes.opcode_names = true.
Proof. vm_compute; reflexivity. Qed.
(* OpCode::arg_sizes (which emit_variable_op consults) agrees with the layout the VM decodes, except for the
   documented PopExcHandler entry ([2,2] claimed, nothing read) *)
Theorem C04_arg_sizes_agree :
  forallb (fun n => String.eqb n "PopExcHandler") (arg_size_mismatches Opcodes.opcode_arg_sizes) = true.
Proof. vm_compute; reflexivity. Qed.

(* ---------- the verifier is sound (per function) ---------- *)
Theorem C04_check_sound : forall b p f a, check_fn b p f a = true ->
  forall s, reachable b p f s -> succs b p f s <> None /\ In_annot a s.
Proof. exact check_sound. Qed.
Theorem C04_verifier_sound : forall p n m, verify_program p = VOk n m ->
  forall f, In f p -> forall s, reachable false p f s -> succs false p f s <> None.
Proof. exact verify_sound. Qed.
Theorem C04_verifier_unique_height : forall b p f a, check_fn b p f a = true -> unique_height a = true ->
  forall s1 s2, reachable b p f s1 -> reachable b p f s2 -> pc s1 = pc s2 ->
  h s1 = h s2 /\ handlers s1 = handlers s2.
Proof. exact unique_height_sound. Qed.
Theorem C04_height_bounded : forall b p f a, check_fn b p f a = true ->
  forall s, reachable b p f s -> h s <= max_height a /\ h s <= Consts.STACK_MAX.
Proof. exact height_bounded. Qed.
Theorem C04_decode_in_bounds : forall b p f a, check_fn b p f a = true ->
  forall s, reachable b p f s ->
  exists i nx, decode p f (pc s) = Some (i, nx) /\ pc s < nx /\ nx <= code_len f.
Proof. exact decode_in_bounds. Qed.
Theorem C04_no_overlap : forall b p f a, check_fn b p f a = true ->
  forall s1 s2 i nx, reachable b p f s1 -> reachable b p f s2 ->
  decode p f (pc s1) = Some (i, nx) -> ~ (pc s1 < pc s2 < nx).
Proof. exact no_overlap_sound. Qed.

(* ---------- operands ---------- *)
Theorem C04_operand_widths : forall p f q i nx, decode p f q = Some (i, nx) ->
  ia i < 65536 /\ ib i < 65536 /\ Forall (fun u => snd u < 256) (iuvs i) /\
  match layout_of (iop i) with
  | L0 => ia i = 0 /\ ib i = 0
  | L8 => ia i < 256 /\ ib i = 0
  | L16 => ib i = 0
  | L16_16 => True
  | L16_8 => ib i < 256
  | LClosure => ib i = 0 /\ N.of_nat (List.length (iuvs i)) * 2 + 3 = nx - q
  end.
Proof. exact decode_operand_widths. Qed.
Theorem C04_operand_fits : forall b p f s i nx,
  succs b p f s <> None -> decode p f (pc s) = Some (i, nx) -> operand_fits f i (h s) = true.
Proof. exact operand_fits_of_not_stuck. Qed.

(* ---------- whole programs (multi-frame machine), with the source's FRAMES_MAX / STACK_MAX ---------- *)
Theorem C04_program_sound : forall b p, (forall f, In f p -> exists a, check_fn b p f a = true) ->
  forall ms, mreachable b p ms ->
  Forall (fun fr => frame_ok b p fr /\ ~ frame_stuck b p fr) ms
  /\ (List.length ms <= N.to_nat Consts.FRAMES_MAX)%nat.
Proof. exact program_sound. Qed.
Theorem C04_verified_program_safe : forall p n m, verify_program p = VOk n m -> stack_safe m = true ->
  forall ms, mreachable false p ms ->
  Forall (fun fr => frame_ok false p fr /\ ~ frame_stuck false p fr) ms
  /\ match ms with [] => True | fr :: _ => fr_base fr + h (fr_st fr) <= Consts.STACK_MAX end.
Proof. exact verified_program_safe. Qed.

(* ---------- what "ALL=T" of the per-run report (YV.VerifierRun.run_report) means ---------- *)
Theorem C04_run_ok_sound : forall p, run_ok p = true ->
  forall f, In f p ->
    (forall s, reachable false p f s -> succs false p f s <> None) /\
    (forall s1 s2, reachable false p f s1 -> reachable false p f s2 -> pc s1 = pc s2 ->
       h s1 = h s2 /\ handlers s1 = handlers s2) /\
    (forall s, reachable false p f s -> h s <= Consts.STACK_MAX /\
       exists i nx, decode p f (pc s) = Some (i, nx) /\ pc s < nx /\ nx <= code_len f).
Proof. exact run_ok_sound. Qed.
Theorem C04_run_ok_program_sound : forall p, run_ok p = true ->
  forall ms, mreachable false p ms ->
    Forall (fun fr => frame_ok false p fr /\ ~ frame_stuck false p fr) ms
    /\ (List.length ms <= N.to_nat Consts.FRAMES_MAX)%nat.
Proof. exact run_ok_program_sound. Qed.

(* ---------- jump limit ----------
   `jump_limit_side_condition J := J <= 65535` is what encoding an accepted distance in a u16 needs.
   History: up to /repo 99d40fc the regenerated JUMP_SIZE_MAX was 65536, the side condition was FALSE and the
   distance 65536 was accepted and wrapped to 0 (class jump_65536); this theorem was then stated with
   JUMP_FIX_LANDED := false, i.e. as the refutation (~ side condition /\ a wrapped accepted distance).
   Since fix 927c3c9 (common.rs: JUMP_SIZE_MAX = u16::MAX) the switch is `true`: the theorem states the TRUE
   side condition and the round trip of EVERY accepted distance.  If the constant regresses above 65535 this
   file stops compiling here (the one-line change back is JUMP_FIX_LANDED := false, and the class reopens). *)
Definition JUMP_FIX_LANDED : bool := true.
Theorem C04_jump_limit_side_condition : jump_limit_status JUMP_FIX_LANDED Consts.JUMP_SIZE_MAX.
Proof. exact (jump_limit_decide Consts.JUMP_SIZE_MAX). Qed.
(* the refutation for the old constant stays as a regression witness *)
Theorem C04_jump_limit_refuted_at_65536 : jump_limit_status false 65536.
Proof. exact (jump_limit_decide 65536). Qed.
Theorem C04_jump_roundtrip : forall off, off <= 65535 -> decode16 (encode16 off) = off.
Proof. exact encode16_roundtrip. Qed.

Print Assumptions C04_side_stack_max.
Print Assumptions C04_side_frames_max.
Print Assumptions C04_side_locals_max.
Print Assumptions C04_side_upvalues_max.
Print Assumptions C04_side_add_local_results_checked.
Print Assumptions C04_side_add_local_enforces_limit.
Print Assumptions C04_add_local_results_checked_refuted_old.
Print Assumptions C04_side_operands_widened_before_arithmetic.
Print Assumptions C04_side_handler_sum_recognised.
Print Assumptions C04_operands_widened_refuted_narrow.
Print Assumptions C04_side_constants_through_make_constant.
Print Assumptions C04_constants_through_make_constant_refuted_mutant.
Print Assumptions C04_opcode_names.
Print Assumptions C04_opcode_numbering.
Print Assumptions C04_vm_dispatches_exactly_these.
Print Assumptions C04_arg_sizes_agree.
Print Assumptions C04_check_sound.
Print Assumptions C04_verifier_sound.
Print Assumptions C04_verifier_unique_height.
Print Assumptions C04_height_bounded.
Print Assumptions C04_decode_in_bounds.
Print Assumptions C04_no_overlap.
Print Assumptions C04_operand_widths.
Print Assumptions C04_operand_fits.
Print Assumptions C04_program_sound.
Print Assumptions C04_verified_program_safe.
Print Assumptions C04_run_ok_sound.
Print Assumptions C04_run_ok_program_sound.
Print Assumptions C04_jump_limit_side_condition.
Print Assumptions C04_jump_limit_refuted_at_65536.
Print Assumptions C04_jump_roundtrip.
