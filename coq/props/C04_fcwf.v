(* props/C04_fcwf.v - statements only: instruction-level well-formedness of EVERYTHING FullCompile.v (the complete compiler model,
   byte-identical to compiler.rs on every run) emits, for ALL programs; the heights / never-stuck theorem on the decidable fragment
   wf_frag12; and the _refuted witnesses for the open C04 classes.  Counted and re-checked by the driver together with props/C04.v. *)
From Coq Require Import List NArith Bool String Lia.
From YVGen Require Consts Opcodes AddLocalSites OperandArith ConstantSites CodeReads.
From YV Require Import Show Bytecode Skeleton Verifier VerifierProofs VerifierRun VerifierRunProofs.
From YV Require ParseLoc FullCompile FullCompileProofs.
Import ListNotations.
Open Scope N_scope.

From YV Require FullCompile FullCompileProofs FullCompileWF FullCompileWF2.
(* ---------- FullCompile (the model compiler that is byte-identical to compiler.rs): instruction-level well-formedness, ALL programs ---------- *)
Theorem C04_fullcompile_code_decodes : forall p f g,
  FullCompile.compile_program p = FullCompile.COk f -> FullCompileProofs.subfunc g f ->
  exists is_, FullCompile.f_code g = FullCompileWF.flat is_ /\
    Forall (FullCompileWF.iok (FullCompile.f_consts g) (N.to_nat (FullCompile.f_upvalues g))) is_.
Proof. exact FullCompileWF2.code_decodes. Qed.
Theorem C04_fullcompile_decodes : forall p f g,
  FullCompile.compile_program p = FullCompile.COk f -> FullCompileProofs.subfunc g f ->
  exists F idx is_, nth_error (FullCompileWF2.flatten f) idx = Some F /\ code F = FullCompile.f_code g /\
    FullCompileWF2.decode_seq (FullCompileWF2.flatten f) F (List.length is_) 0 = Some is_ /\
    Forall (FullCompileWF2.operand_ok g) is_.
Proof. exact FullCompileWF2.fullcompile_decodes. Qed.
From YV Require FullCompileWFJ FullCompileWFJ2.
Theorem C04_fullcompile_jumps_land : forall p f g,
  FullCompile.compile_program p = FullCompile.COk f -> FullCompileProofs.subfunc g f ->
  exists is_, FullCompile.f_code g = FullCompileWF.flat is_ /\
    Forall (FullCompileWF.iok (FullCompile.f_consts g) (N.to_nat (FullCompile.f_upvalues g))) is_ /\
    FullCompileWFJ.jumps_in is_.
Proof. exact FullCompileWFJ2.jumps_land. Qed.
Theorem C04_fullcompile_ends_in_return : forall p f g,
  FullCompile.compile_program p = FullCompile.COk f -> FullCompileProofs.subfunc g f ->
  exists is_, FullCompile.f_code g = FullCompileWF.flat is_ /\
    Forall (FullCompileWF.iok (FullCompile.f_consts g) (N.to_nat (FullCompile.f_upvalues g))) is_ /\
    FullCompileWFJ.jumps_in is_ /\ (exists is0, is_ = (is0 ++ [(OpReturn, [])])%list) /\
    (forall k i, nth_error is_ k = Some i -> fst i <> OpReturn -> FullCompileWFJ.sbnd is_ (FullCompileWFJ.pos is_ (S k))) /\
    FullCompileWFJ.jf_ok is_ /\ FullCompileWFJ.handlers_in is_.
Proof. exact FullCompileWFJ2.ends_in_return. Qed.
From YV Require FullCompileWFS.
Theorem C04_fullcompile_operand_safe : forall p f g,
  FullCompile.compile_program p = FullCompile.COk f -> FullCompileProofs.subfunc g f ->
  exists F idx is_,
    nth_error (FullCompileWF2.flatten f) idx = Some F /\ code F = FullCompile.f_code g /\ code F = FullCompileWF.flat is_ /\
    forall s, FullCompileWFJ.sbnd is_ (N.to_nat (pc s)) ->
      forall r, step false (FullCompileWF2.flatten f) F s = Stuck r ->
        FullCompileWFS.operand_reason r = false /\
        (r = RUpvalueOutOfRange \/ r = RJumpOutOfRange ->
         exists ii nx, decode (FullCompileWF2.flatten f) F (pc s) = Some (ii, nx) /\ (iop ii = OpClosure \/ iop ii = OpJumpFinally)).
Proof. exact FullCompileWFS.operand_safe_flatten. Qed.
From YV Require FullCompileWFC.
Theorem C04_fullcompile_cfi : forall p f g P F,
  FullCompile.compile_program p = FullCompile.COk f -> FullCompileProofs.subfunc g f -> FullCompileWF2.models P F g ->
  exists is_, FullCompile.f_code g = FullCompileWF.flat is_ /\ forall s, reachable false P F s -> FullCompileWFC.cfi is_ s.
Proof. exact FullCompileWFC.cfi_reachable. Qed.
Theorem C04_fullcompile_reachable_stuck_reasons : forall p f g,
  FullCompile.compile_program p = FullCompile.COk f -> FullCompileProofs.subfunc g f ->
  exists F idx, nth_error (FullCompileWF2.flatten f) idx = Some F /\ code F = FullCompile.f_code g /\
    forall s, reachable false (FullCompileWF2.flatten f) F s -> forall r, step false (FullCompileWF2.flatten f) F s = Stuck r ->
      FullCompileWFS.benign r.
Proof. exact FullCompileWFC.reachable_stuck_reasons_flatten. Qed.
From YV Require FullCompileWFR.
Theorem C04_fullcompile_all_programs_safe_refuted :
  exists p f F s r,
    ParseLoc.lparse_source FullCompileWFR.src_return_in_try = Parser.POk p /\ FullCompile.compile_program p = FullCompile.COk f /\
    nth_error (FullCompileWF2.flatten f) 1 = Some F /\
    reachable false (FullCompileWF2.flatten f) F s /\ step false (FullCompileWF2.flatten f) F s = Stuck r /\
    r = RReturnPending /\ FullCompileWFS.benign r.
Proof. exact FullCompileWFR.fullcompile_all_programs_safe_refuted. Qed.
From YV Require FullCompileWFO.
Theorem C04_fullcompile_operands_valid_partial : forall p f g P F,
  FullCompile.compile_program p = FullCompile.COk f -> FullCompileProofs.subfunc g f -> FullCompileWF2.models P F g ->
  exists is_ : list FullCompileWF.ainstr,
    FullCompile.f_code g = FullCompileWF.flat is_ /\
    FullCompileWF2.decode_seq P F (List.length is_) 0 = Some (map FullCompileWF2.instr_of is_) /\
    Forall (FullCompileWF2.operand_ok g) (map FullCompileWF2.instr_of is_) /\
    (forall pre o a b post, is_ = (pre ++ (o, [a; b]) :: post)%list -> FullCompileWF.is_jump16 o = true ->
       decode P F (N.of_nat (List.length (FullCompileWF.flat pre))) =
         Some (mkInstr o (FullCompileWF.u16 a b) 0 [], N.of_nat (List.length (FullCompileWF.flat pre) + 3)) /\
       FullCompileWFO.decodes P F (N.of_nat (List.length (FullCompileWF.flat pre) + 3) + FullCompileWF.u16 a b)) /\
    (forall pre a b post, is_ = (pre ++ (OpLoop, [a; b]) :: post)%list ->
       FullCompileWF.u16 a b <= N.of_nat (List.length (FullCompileWF.flat pre) + 3) /\
       FullCompileWFO.decodes P F (N.of_nat (List.length (FullCompileWF.flat pre) + 3) - FullCompileWF.u16 a b)) /\
    (forall pre a b c d post, is_ = (pre ++ (OpPushExcHandler, [a; b; c; d]) :: post)%list ->
       FullCompileWFO.decodes P F (N.of_nat (List.length (FullCompileWF.flat pre) + 5) + FullCompileWF.u16 a b) /\
       FullCompileWFO.decodes P F (N.of_nat (List.length (FullCompileWF.flat pre) + 5) + FullCompileWF.u16 a b + FullCompileWF.u16 c d)) /\
    (exists is0, is_ = (is0 ++ [(OpReturn, [])])%list) /\
    (forall pre post, is_ = (pre ++ (OpJumpFinally, []) :: post)%list -> exists post', post = (OpReturn, []) :: post') /\
    (forall pre i post, is_ = (pre ++ i :: post)%list -> fst i <> OpReturn ->
       FullCompileWFO.decodes P F (N.of_nat (List.length (FullCompileWF.flat pre) + List.length (FullCompileWF.enc i)))).
Proof. exact FullCompileWFO.operands_valid_partial. Qed.
From YV Require FullCompileWFV.
Theorem C04_fullcompile_verify_program_reject_reasons : forall p f,
  FullCompile.compile_program p = FullCompile.COk f ->
  forall i q r, verify_program (FullCompileWF2.flatten f) = VReject i q r -> FullCompileWFV.internal_reason r \/ FullCompileWFS.benign r.
Proof. exact FullCompileWFV.fullcompile_verify_program_reject_reasons. Qed.
From YV Require FullCompileHt12 FullCompileHt17 FullCompileWFV2.
Theorem C04_fullcompile_verifies_fragment_exec : forall p f,
  FullCompileHt17.wf_frag12 p = true -> FullCompile.compile_program p = FullCompile.COk f -> FullCompileHt12.noupsb f = true ->
  forall i q r, verify_program (FullCompileWF2.flatten f) = VReject i q r -> FullCompileWFV.internal_reason r.
Proof. exact FullCompileWFV2.fullcompile_verifies_fragment_exec. Qed.
Theorem C04_fullcompile_fragment_program_sound : forall p f,
  FullCompileHt17.wf_frag12 p = true -> FullCompile.compile_program p = FullCompile.COk f -> FullCompileHt12.noupsb f = true ->
  forall ms, mreachable false (FullCompileWF2.flatten f) ms ->
    Forall (fun fr => frame_ok false (FullCompileWF2.flatten f) fr /\ ~ frame_stuck false (FullCompileWF2.flatten f) fr) ms /\
    (List.length ms <= N.to_nat FRAMES_MAX)%nat.
Proof. exact FullCompileWFV2.fragment_program_sound. Qed.
From YV Require FullCompileWFM.
Theorem C04_fullcompile_program_frames_benign : forall p f,
  FullCompile.compile_program p = FullCompile.COk f ->
  forall ms, mreachable false (FullCompileWF2.flatten f) ms ->
    Forall (fun fr => exists F, nth_error (FullCompileWF2.flatten f) (fr_fn fr) = Some F /\
                       reachable false (FullCompileWF2.flatten f) F (fr_st fr) /\
                       forall r, step false (FullCompileWF2.flatten f) F (fr_st fr) = Stuck r -> FullCompileWFS.benign r) ms /\
    (List.length ms <= N.to_nat FRAMES_MAX)%nat.
Proof. exact FullCompileWFM.program_frames_benign. Qed.

Print Assumptions C04_fullcompile_all_programs_safe_refuted.
Print Assumptions C04_fullcompile_operands_valid_partial.
Print Assumptions C04_fullcompile_verify_program_reject_reasons.
Print Assumptions C04_fullcompile_verifies_fragment_exec.
Print Assumptions C04_fullcompile_fragment_program_sound.
Print Assumptions C04_fullcompile_program_frames_benign.
Print Assumptions C04_fullcompile_cfi.
Print Assumptions C04_fullcompile_reachable_stuck_reasons.
Print Assumptions C04_fullcompile_operand_safe.
Print Assumptions C04_fullcompile_code_decodes.
Print Assumptions C04_fullcompile_decodes.
Print Assumptions C04_fullcompile_jumps_land.
Print Assumptions C04_fullcompile_ends_in_return.
