(* C05 - Arithmetic, comparison, bitwise, logical (short-circuit), string concatenation and interpolation,
   range, indexing, assignment and compound-assignment expressions group by the language's precedence and
   associativity, evaluate their operands once and left to right, and produce for operands of any kind the value -
   or the TypeError/ValueError/IndexError - that the operator's definition gives; if/else, while, for, break,
   continue, blocks and return transfer control exactly as the source nesting says.

   ONLY statements: each is closed by `exact` of a theorem of theories/ (ParserProofs.v: the parser model driven by
   the RULES table; CompileExprProofs.v: ExprSem / CompileExpr / FragVM / Decompile), or - side conditions that tie
   the models to the CURRENT compiler.rs / vm.rs (coq/gen/Rules.v, EmitArms.v, Opcodes.v) - by computation.

   Parties: S = ExprSem.eval_expr / exec_stmt (operands once, left to right, operator table);
   M = CompileExpr.cexpr / cstmt (the emitters) + FragVM (the opcodes' stack conventions) + Parser (Pratt loop);
   impl == M and impl == S are checked on every run by tools/props/C05.py. *)
From Coq Require Import Strings.String.
From Coq Require Import List NArith ZArith Arith Bool Lia.
From YVGen Require Import Rules EmitArms Opcodes Consts.
From YV Require Import Ast Num Show Bytecode Scanner ParserRules Parser Pretty ParseRun ParserProofs.
From YV Require Import ExprSem CompileExpr FragVM Decompile CompileExprProofs C05Run.
From YV Require Import FnSem FnCompile FnVM FnFamilies FnProofs.
Import ListNotations.
Local Open Scope nat_scope.
Local Open Scope list_scope.

(* ================= side conditions: the models describe the current source ================= *)

(* the Pratt table the parser model is driven by is the RULES table of compiler.rs *)
Theorem C05_side_rules_table : rules_gen_unknown = [] /\ rules_gen = rules_table.
Proof. vm_compute; split; reflexivity. Qed.
Theorem C05_side_opcode_names : opcode_names_ref = opcode_names.
Proof. vm_compute; reflexivity. Qed.

(* every TokenKind arm of binary() / unary() / binary_assign() emits the opcodes CompileExpr.v emits for it
   (`<=` is Greater;LogicalNot, `>=` is Less;LogicalNot, `!=` is Equal;LogicalNot) *)
Theorem C05_side_binary_arms : binary_arms_ok binary_arms_gen = true.
Proof. vm_compute; reflexivity. Qed.
Theorem C05_side_unary_arms : unary_arms_ok unary_arms_gen = true.
Proof. vm_compute; reflexivity. Qed.
Theorem C05_side_compound_arms : compound_arms_ok compound_arms_gen = true.
Proof. vm_compute; reflexivity. Qed.

(* the precedence each infix/prefix handler passes to parse_precedence, and expression() *)
Theorem C05_side_prec_args :
  pairs_eqb prec_args_gen prec_args_ref = true /\ strs_eqb expression_precs_gen expression_precs_ref = true.
Proof. vm_compute; split; reflexivity. Qed.

(* ... and the parser model passes the same ones (discriminating inputs, by computation) *)
Definition pe (s : string) : string :=
  match parse_expr_source (list_byte_of_string s) with POk e => show_expr e | _ => "error"%string end.
Theorem C05_side_prec_args_model :
  pe "a && b && c" = "(and v61 (and v62 v63))"%string /\           (* and: right side at And *)
  pe "a || b || c" = "(or v61 (or v62 v63))"%string /\             (* or: right side at Or *)
  pe "a || b && c" = "(or v61 (and v62 v63))"%string /\
  pe "a..b + c" = "(+ (range v61 v62) v63)"%string /\              (* dotdot: right side at Unary *)
  pe "a..-b..c" = "(range (range v61 (neg v62)) v63)"%string /\
  pe "-a * !b" = "(* (neg v61) (not v62))"%string /\               (* unary: operand at Unary *)
  pe "-a[0]" = "(neg (idx v61 n0))"%string /\
  pe "a - b - c" = "(- (- v61 v62) v63)"%string /\                 (* binary: right side at rule + 1 *)
  pe "x += a == b" = "(== (casg + 78 v61) v62)"%string /\          (* binary_assign: operand at BitwiseOr *)
  pe "x += a | b << c" = "(casg + 78 (| v61 (<< v62 v63)))"%string /\
  pe "x += (a == b)" = "(casg + 78 (== v61 v62))"%string /\        (* nested expression(): Or under the flag *)
  pe "x = y = a || b" = "(asg 78 (asg 79 (or v61 v62)))"%string.
Proof. vm_compute; repeat split; reflexivity. Qed.

(* the order of the emit / patch / parse calls of every emitter CompileExpr.v mirrors *)
Theorem C05_side_emit_and : seq_is emit_seq_gen "and" = true. Proof. vm_compute; reflexivity. Qed.
Theorem C05_side_emit_or : seq_is emit_seq_gen "or" = true. Proof. vm_compute; reflexivity. Qed.
Theorem C05_side_emit_dotdot : seq_is emit_seq_gen "dotdot" = true. Proof. vm_compute; reflexivity. Qed.
Theorem C05_side_emit_index : seq_is emit_seq_gen "index" = true. Proof. vm_compute; reflexivity. Qed.
Theorem C05_side_emit_vector : seq_is emit_seq_gen "vector" = true. Proof. vm_compute; reflexivity. Qed.
Theorem C05_side_emit_grouping : seq_is emit_seq_gen "grouping" = true. Proof. vm_compute; reflexivity. Qed.
Theorem C05_side_emit_interpolation : seq_is emit_seq_gen "interpolation" = true. Proof. vm_compute; reflexivity. Qed.
Theorem C05_side_emit_call : seq_is emit_seq_gen "call" = true. Proof. vm_compute; reflexivity. Qed.
Theorem C05_side_emit_named_variable : seq_is emit_seq_gen "named_variable" = true. Proof. vm_compute; reflexivity. Qed.
Theorem C05_side_emit_if : seq_is emit_seq_gen "if_statement" = true. Proof. vm_compute; reflexivity. Qed.
Theorem C05_side_emit_while : seq_is emit_seq_gen "while_statement" = true. Proof. vm_compute; reflexivity. Qed.
Theorem C05_side_emit_break : seq_is emit_seq_gen "break_statement" = true. Proof. vm_compute; reflexivity. Qed.
Theorem C05_side_emit_continue : seq_is emit_seq_gen "continue_statement" = true. Proof. vm_compute; reflexivity. Qed.
Theorem C05_side_emit_expression_statement : seq_is emit_seq_gen "expression_statement" = true. Proof. vm_compute; reflexivity. Qed.
Theorem C05_side_emit_var_declaration : seq_is emit_seq_gen "var_declaration" = true. Proof. vm_compute; reflexivity. Qed.
Theorem C05_side_emit_define_variable : seq_is emit_seq_gen "define_variable" = true. Proof. vm_compute; reflexivity. Qed.
Theorem C05_side_emit_end_scope : seq_is emit_seq_gen "end_scope" = true. Proof. vm_compute; reflexivity. Qed.
Theorem C05_side_emit_literals : seq_is emit_seq_gen "number" = true /\ seq_is emit_seq_gen "string" = true.
Proof. vm_compute; split; reflexivity. Qed.

Theorem C05_side_emit_function : seq_is emit_seq_gen "function" = true /\ seq_is emit_seq_gen "lambda" = true /\
  seq_is emit_seq_gen "fn_declaration" = true.
Proof. vm_compute; repeat split; reflexivity. Qed.
Theorem C05_side_emit_return : seq_is emit_seq_gen "return_statement" = true /\ seq_is emit_seq_gen "emit_return" = true.
Proof. vm_compute; split; reflexivity. Qed.
(* the frame limit of call_closure *)
Theorem C05_side_frames_max : YVGen.Consts.FRAMES_MAX = N.of_nat FnSem.FRAMES_MAX.
Proof. vm_compute; reflexivity. Qed.

(* the parameter of CompileExpr.cstmt: the current break_statement emits its scope-end pops BEFORE its Jump *)
Theorem C05_side_break_pops_first : break_pops_first_of emit_seq_gen = Some true.
Proof. vm_compute; reflexivity. Qed.

(* the VM's operator arms and stack conventions FragVM.v / ExprSem.v transcribe *)
Theorem C05_side_vm_closures : closures_ok vm_binop_closures_gen vm_binop_closures_ref = true.
Proof. vm_compute; reflexivity. Qed.
Theorem C05_side_vm_facts : vm_facts_ok vm_facts_gen = true.
Proof. vm_compute; reflexivity. Qed.

(* ================= grouping: precedence and associativity (parser model, RULES table) ================= *)

(* every infix rule of the table has a handler (the Pratt loop never unwraps None) *)
Theorem C05_rules_infix_total : forall k,
  r_prec (rules_ref k) <> PrecNone -> r_infix (rules_ref k) <> None.
Proof. exact rules_infix_total. Qed.

(* UNBOUNDED, token level: for every expression tree over unary / binary / && / || / .. operators, the tokens of
   its minimally parenthesised spelling (parentheses exactly where the 16-level table requires) parse back to it *)
Theorem C05_pratt_roundtrip_tokens : forall e, Pratt.frag e ->
  parse_expr (Pratt.tk_expr 1 e ++ [Pratt.eof1]) = POk e.
Proof. exact Pratt.pratt_roundtrip_tokens. Qed.

(* text level, bounded: all trees of depth <= 2, all spines, the mixed family (61 378 trees) *)
Theorem C05_pratt_roundtrip_bounded : forall f,
  In f (depth2 ++ spines ++ mixed) ->
  parse_expr_source (pretty_expr (embed f)) = POk (embed f).
Proof. exact pratt_roundtrip_bounded. Qed.

Theorem C05_binary_left_assoc : forall op1 op2 x y z,
  binop_level op1 = binop_level op2 ->
  parse_expr [Pratt.id_tok x; Pratt.op_tok op1; Pratt.id_tok y; Pratt.op_tok op2; Pratt.id_tok z; Pratt.eof1] =
  POk (EBinary op2 (EBinary op1 (EVar x) (EVar y)) (EVar z)).
Proof. exact Pratt.binary_left_assoc. Qed.
Theorem C05_precedence_order_right : forall op1 op2 x y z,
  binop_level op1 < binop_level op2 ->
  parse_expr [Pratt.id_tok x; Pratt.op_tok op1; Pratt.id_tok y; Pratt.op_tok op2; Pratt.id_tok z; Pratt.eof1] =
  POk (EBinary op1 (EVar x) (EBinary op2 (EVar y) (EVar z))).
Proof. exact Pratt.precedence_order_right. Qed.
Theorem C05_precedence_order_left : forall op1 op2 x y z,
  binop_level op2 < binop_level op1 ->
  parse_expr [Pratt.id_tok x; Pratt.op_tok op1; Pratt.id_tok y; Pratt.op_tok op2; Pratt.id_tok z; Pratt.eof1] =
  POk (EBinary op2 (EBinary op1 (EVar x) (EVar y)) (EVar z)).
Proof. exact Pratt.precedence_order_left. Qed.

(* ================= operands once, left to right; the postfix determines the tree ================= *)

Theorem C05_operands_once_in_order : forall env e,
  exists gs : list (list instr),
    length gs = S (length (subexprs e)) /\
    cexpr env e = interleave gs (map (cexpr env) (subexprs e)) /\
    (short_circuit e = false -> forallb jump_free gs = true) /\
    (forall a b, e = EAnd a b ->
       gs = [[]; [IJump OpJumpIfFalse (S (length (cexpr env b))); IOp OpPop]; []]) /\
    (forall a b, e = EOr a b ->
       gs = [[]; [IJump OpJumpIfFalse 1; IJump OpJump (S (length (cexpr env b))); IOp OpPop]; []]).
Proof. exact operands_once_in_order. Qed.

Theorem C05_decompile_compile : forall env e,
  decompilable e = true -> decompile env (cexpr env e) = Some e.
Proof. exact decompile_compile. Qed.

(* ================= the operator table ================= *)

Theorem C05_ops_total :
  (forall st op a b, three_kinds (binop_sem st op a b)) /\
  (forall op a, three_kinds (unop_sem op a)) /\
  (forall w a b, three_kinds (range_sem w a b)) /\
  (forall w f args, three_kinds (call_sem w f args)).
Proof. exact ops_total. Qed.

Theorem C05_index_total : forall w o i,
  (forall id, o = VVecRef id -> vec_get w id <> None) ->
  three_kinds (get_item w o i) /\ forall v, three_kinds (set_item w o i v).
Proof. exact index_total. Qed.

Theorem C05_ops_table : forall st op a b,
  match binop_table op (kind_of a) (kind_of b) with
  | Some k => exists v, binop_sem st op a b = Ok v /\ kind_of v = k
  | None => binop_sem st op a b = Er (binop_error op)
  end.
Proof. exact ops_table. Qed.

Theorem C05_unop_table : forall op a,
  match unop_table op (kind_of a) with
  | Some k => exists v, unop_sem op a = Ok v /\ kind_of v = k
  | None => unop_sem op a = Er (TypeError msg_unary)
  end.
Proof. exact unop_table_ok. Qed.

(* ================= control transfer: every path keeps the stack discipline ================= *)

Theorem C05_stack_discipline :
  (forall env e h, expr_ok env e = true -> heights (cexpr env e) noX h (S h)) /\
  (forall env s brk cont, env_inv env -> stmt_ok env s = true ->
     heights (cstmt true env brk cont s) (LX env (slen env s) brk cont)
             (length (clocals env)) (length (clocals env) + decl_count env s)) /\
  (forall p, program_ok p = true -> heights (cstmts true cenv0 0 0 p) noX 1 1).
Proof. exact stack_discipline. Qed.

Theorem C05_heights_step : forall H X c i pc stk w s',
  wt H X c -> nth_error c pc = Some i -> step_instr i pc stk w = SNext s' ->
  length stk = H (Z.of_nat pc) ->
  ((0 <= Z.of_nat (vpc s') <= Z.of_nat (length c))%Z /\ length (vstack s') = H (Z.of_nat (vpc s')))
  \/ X (Z.of_nat (vpc s')) (length (vstack s')).
Proof. exact heights_step. Qed.

(* the emitter the repair replaced (Jump before the scope-end pops) has no certificate *)
Theorem C05_stack_discipline_unrepaired_refuted :
  exists p, program_ok p = true /\ forall h h', ~ heights (cstmts false cenv0 0 0 p) noX h h'.
Proof. exact stack_discipline_unrepaired_refuted. Qed.

(* ================= M refines S: the compiled code computes what the reference evaluator computes ================= *)

Theorem C05_compile_expr_correct : forall env e c pc t s,
  expr_ok env e = true -> env_match env (locals s) -> code_at c pc (cexpr env e) ->
  match eval_expr e s with
  | (s', Ok v) =>
    star c (mkVS pc (t ++ vals (locals s)) (wd s))
           (mkVS (pc + length (cexpr env e)) (v :: t ++ vals (locals s')) (wd s')) /\
    names (locals s') = names (locals s)
  | (s', Er x) => raises c (mkVS pc (t ++ vals (locals s)) (wd s)) x (wd s')
  end.
Proof. exact compile_expr_correct. Qed.

Theorem C05_compile_stmt_correct : forall f stm depth s s' o env brk cont c pc,
  exec_stmt f depth stm s = (s', o) -> stmt_ok env stm = true -> env_inv env ->
  cdepth env = depth -> env_match env (locals s) ->
  code_at c pc (cstmt true env brk cont stm) ->
  (forall d nl, cloop env = Some (d, nl) -> cont <= pc) ->
  let start := mkVS pc (vals (locals s)) (wd s) in
  let len := slen env stm in
  match o with
  | ONormal =>
    star c start (mkVS (pc + len) (vals (locals s')) (wd s')) /\
    env_match (env_after env stm) (locals s') /\ grows (locals s) (locals s')
  | OBreak =>
    exists d nl, cloop env = Some (d, nl) /\
      star c start (mkVS (pc + len + brk) (vals (keep_last nl (locals s'))) (wd s')) /\
      grows (locals s) (locals s')
  | OContinue =>
    exists d nl, cloop env = Some (d, nl) /\
      star c start (mkVS (pc - cont) (vals (keep_last nl (locals s'))) (wd s')) /\
      grows (locals s) (locals s')
  | OErr e => raises c start e (wd s')
  | OFuel => True
  end.
Proof. exact compile_stmt_correct. Qed.

Theorem C05_compile_program_correct : forall f p s' o,
  program_ok p = true -> run_program f p = (s', o) ->
  match o with
  | ONormal => exists k stk, run_vm k (cprogram true p) vstate0
                             = VDone (mkVS (S (length (cstmts true cenv0 0 0 p))) stk (wd s'))
  | OErr e => exists k, run_vm k (cprogram true p) vstate0 = VErr e (wd s')
  | OBreak | OContinue => False
  | OFuel => True
  end.
Proof. exact compile_program_correct. Qed.

(* ================= first-class functions (FnSem / FnCompile / FnVM: ONE compiler model and ONE machine for the union fragment) ================= *)

(* stage 1 - PROVED for all programs: functions that capture nothing (globals, parameters, own locals).  The reference
   evaluator with an environment of cells and call depth as fuel = the machine with frames: calls with arguments, the
   arity error, the 64-frame limit, return with / without value, implicit nil, expression-bodied lambdas, recursion
   through globals, function values, and every statement of the earlier fragment inside function bodies. *)
Theorem C05_compile_fn_correct_nocapture : forall fuel p s' o,
  xprogram_ok p = true -> nocap_code (fo_code (xprogram p)) = true ->
  frun_program fuel p = (s', o) ->
  match o with
  | FNormal => exists k m, mrun k (mstate0 (xprogram p)) = MDone m /\ mwd m = ewd s'
  | FErr e => e <> Unsupported -> exists k, mrun k (mstate0 (xprogram p)) = MFail e (ewd s')
  | FFuel => True
  | FBreak | FContinue | FReturn _ => False
  end.
Proof. exact compile_fn_correct_nocapture. Qed.

(* stage 2 (captured variables only read after capture) and stage 3 (shared mutable captured variables, escaping
   closures) - PARTIAL: the two sides agree on bounded families, by computation; the general statements and what is
   missing are in theories/FnProofs.v; the check compares both sides on generated programs at every run *)
Theorem C05_compile_fn_correct_readonly_partial :
  family_ok family_readonly = true /\
  (family_uses [OpGetUpvalue] family_readonly, family_uses [OpSetUpvalue] family_readonly) = (20, 0).
Proof. exact compile_fn_correct_readonly_partial. Qed.
Theorem C05_compile_fn_correct_closures_partial :
  family_ok family_closures = true /\
  (family_uses [OpSetUpvalue] family_closures, family_uses [OpCloseUpvalue] family_closures) = (20, 5).
Proof. exact compile_fn_correct_closures_partial. Qed.

(* a failing assignment changes nothing: SetGlobal on an undefined name raises with the world it found *)
Theorem C05_set_global_failure_unchanged : forall x pc v stk w,
  lookup (globals w) x = None ->
  step_instr (IGlobal OpSetGlobal x) pc (v :: stk) w = SErr (NameError (msg_undefined x)) w.
Proof. exact set_global_failure_unchanged. Qed.

Print Assumptions C05_side_rules_table.
Print Assumptions C05_side_opcode_names.
Print Assumptions C05_side_binary_arms.
Print Assumptions C05_side_unary_arms.
Print Assumptions C05_side_compound_arms.
Print Assumptions C05_side_prec_args.
Print Assumptions C05_side_prec_args_model.
Print Assumptions C05_side_emit_and.
Print Assumptions C05_side_emit_or.
Print Assumptions C05_side_emit_dotdot.
Print Assumptions C05_side_emit_index.
Print Assumptions C05_side_emit_vector.
Print Assumptions C05_side_emit_grouping.
Print Assumptions C05_side_emit_interpolation.
Print Assumptions C05_side_emit_call.
Print Assumptions C05_side_emit_named_variable.
Print Assumptions C05_side_emit_if.
Print Assumptions C05_side_emit_while.
Print Assumptions C05_side_emit_break.
Print Assumptions C05_side_emit_continue.
Print Assumptions C05_side_emit_expression_statement.
Print Assumptions C05_side_emit_var_declaration.
Print Assumptions C05_side_emit_define_variable.
Print Assumptions C05_side_emit_end_scope.
Print Assumptions C05_side_emit_literals.
Print Assumptions C05_side_break_pops_first.
Print Assumptions C05_side_vm_closures.
Print Assumptions C05_side_vm_facts.
Print Assumptions C05_rules_infix_total.
Print Assumptions C05_pratt_roundtrip_tokens.
Print Assumptions C05_pratt_roundtrip_bounded.
Print Assumptions C05_binary_left_assoc.
Print Assumptions C05_precedence_order_right.
Print Assumptions C05_precedence_order_left.
Print Assumptions C05_operands_once_in_order.
Print Assumptions C05_decompile_compile.
Print Assumptions C05_ops_total.
Print Assumptions C05_index_total.
Print Assumptions C05_ops_table.
Print Assumptions C05_unop_table.
Print Assumptions C05_stack_discipline.
Print Assumptions C05_heights_step.
Print Assumptions C05_stack_discipline_unrepaired_refuted.
Print Assumptions C05_compile_expr_correct.
Print Assumptions C05_compile_stmt_correct.
Print Assumptions C05_compile_program_correct.
Print Assumptions C05_side_emit_function.
Print Assumptions C05_side_emit_return.
Print Assumptions C05_side_frames_max.
Print Assumptions C05_compile_fn_correct_nocapture.
Print Assumptions C05_compile_fn_correct_readonly_partial.
Print Assumptions C05_compile_fn_correct_closures_partial.
Print Assumptions C05_set_global_failure_unchanged.
