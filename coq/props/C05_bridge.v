(* props/C05_bridge.v - statements only: the compile-correctness theorems of C05 restated about the output of FullCompile.v, the
   complete compiler model that is byte-identical to the real compiler (bridging theorems of FullBridge*.v).  Counted and
   re-checked by the driver together with props/C05.v. *)
From Coq Require Import Strings.String.
From Coq Require Import List NArith ZArith Arith Bool Lia.
From YVGen Require Import Rules EmitArms Opcodes Consts.
From YV Require Import Ast Num Show Bytecode Scanner ParserRules Parser Pretty ParseRun ParserProofs.
From YV Require Import ExprSem CompileExpr FragVM Decompile CompileExprProofs C05Run.
From YV Require Import FnSem FnCompile FnVM FnFamilies FnProofs.
Import ListNotations.
Local Open Scope nat_scope.
Local Open Scope list_scope.

(* ================= the FULL compiler model (FullCompile.v) on the statement fragment ================= *)
From YV Require ParseLoc FullCompile FullCompileProofs FullBridgeBase FullBridgeC05.

(* for EVERY script of the fragment the script function FullCompile builds is the assembly of CompileExpr's code:
   same code bytes (back-patched jumps included), same constant table *)
Theorem C05_full_compile_stmt_bridge : forall lp : ParseLoc.lprogram,
  FullBridgeC05.lok_ss (fst lp) = true -> program_ok (ParseLoc.erase_stmts (fst lp)) = true ->
  fits (FullBridgeC05.prog_code lp) = true ->
  exists f, FullCompile.compile_program lp = FullCompile.COk f /\
            FullCompile.f_code f = assemble (FullBridgeC05.prog_code lp) /\
            FullCompile.f_consts f = map FullCompileProofs.conv (const_table (FullBridgeC05.prog_code lp)) /\
            FullCompile.f_arity f = 1%N /\ FullCompile.f_upvalues f = 0%N /\ FullCompile.f_name f = [].
Proof. exact FullBridgeC05.full_compile_stmt_bridge. Qed.

(* C05_compile_program_correct (= C05_compile_stmt_correct on the whole script) about FullCompile's output *)
Theorem C05_full_compile_stmt_correct : forall fuel (lp : ParseLoc.lprogram) s' o,
  FullBridgeC05.lok_ss (fst lp) = true -> program_ok (ParseLoc.erase_stmts (fst lp)) = true ->
  fits (FullBridgeC05.prog_code lp) = true ->
  run_program fuel (ParseLoc.erase_stmts (fst lp)) = (s', o) ->
  exists f, FullCompile.compile_program lp = FullCompile.COk f /\
    FullBridgeC05.asm_of f (FullBridgeC05.prog_code lp) /\
    match o with
    | ONormal => exists k stk, run_vm k (FullBridgeC05.prog_code lp) vstate0
                   = VDone (mkVS (S (length (cstmts true cenv0 0 0 (ParseLoc.erase_stmts (fst lp))))) stk (wd s'))
    | OErr e => exists k, run_vm k (FullBridgeC05.prog_code lp) vstate0 = VErr e (wd s')
    | OBreak | OContinue => False
    | OFuel => True
    end.
Proof. exact FullBridgeC05.full_compile_stmt_correct. Qed.

(* C05_compile_stmt_correct itself, a statement anywhere inside any code `all`: FullCompile, standing at instruction
   index pc of `all` (FullBridgeC05.Post), emits for the statement exactly the bytes `assemble all` has there, AND
   running `all` on the fragment VM from pc executes the statement as the reference evaluator does *)
Theorem C05_full_compile_stmt_correct_at :
  forall all fuel st depth s s' o env brk cont pc sigma Q stack,
  fits all = true -> FullBridgeC05.lok_s st = true ->
  exec_stmt fuel depth (ParseLoc.erase_stmt st) s = (s', o) ->
  stmt_ok env (ParseLoc.erase_stmt st) = true -> env_inv env -> cdepth env = depth ->
  env_match env (locals s) ->
  code_at all pc (cstmt true env brk cont (ParseLoc.erase_stmt st)) ->
  FullBridgeC05.Post all sigma pc Q env stack ->
  FullBridgeC05.loopcond all env stack pc cont (FullBridgeC05.off all (pc + slen env (ParseLoc.erase_stmt st) + brk)) ->
  (exists sigma', FullCompile.cstmt st sigma = FullCompile.COk (tt, sigma') /\
                  FullBridgeC05.Post all sigma' (pc + slen env (ParseLoc.erase_stmt st)) Q
                                     (env_after env (ParseLoc.erase_stmt st)) stack) /\
  let start := mkVS pc (vals (locals s)) (wd s) in
  let len := slen env (ParseLoc.erase_stmt st) in
  match o with
  | ONormal =>
    star all start (mkVS (pc + len) (vals (locals s')) (wd s')) /\
    env_match (env_after env (ParseLoc.erase_stmt st)) (locals s') /\ grows (locals s) (locals s')
  | OBreak =>
    exists d nl, cloop env = Some (d, nl) /\
      star all start (mkVS (pc + len + brk) (vals (keep_last nl (locals s'))) (wd s')) /\
      grows (locals s) (locals s')
  | OContinue =>
    exists d nl, cloop env = Some (d, nl) /\
      star all start (mkVS (pc - cont) (vals (keep_last nl (locals s'))) (wd s')) /\
      grows (locals s) (locals s')
  | OErr e => raises all start e (wd s')
  | OFuel => True
  end.
Proof. exact FullBridgeC05.full_compile_stmt_correct_at. Qed.

(* C05_compile_expr_correct in context, with FullCompile (any environment, any pending jumps) *)
Theorem C05_full_compile_expr_correct_at :
  forall all env e pc t s sigma P,
  fits all = true -> FullBridgeC05.lok_e e = true ->
  expr_ok env (ParseLoc.erase_expr e) = true -> env_match env (locals s) ->
  code_at all pc (cexpr env (ParseLoc.erase_expr e)) ->
  FullBridgeC05.St all sigma pc P -> FullBridgeC05.envrel sigma env ->
  (exists sigma', FullCompile.cexpr e sigma = FullCompile.COk (tt, sigma') /\
                  FullBridgeC05.St all sigma' (pc + length (cexpr env (ParseLoc.erase_expr e))) P /\
                  FullBridgeBase.rest sigma' = FullBridgeBase.rest sigma) /\
  match eval_expr (ParseLoc.erase_expr e) s with
  | (s', Ok v) =>
    star all (mkVS pc (t ++ vals (locals s)) (wd s))
             (mkVS (pc + length (cexpr env (ParseLoc.erase_expr e))) (v :: t ++ vals (locals s')) (wd s')) /\
    names (locals s') = names (locals s)
  | (s', Er x) => raises all (mkVS pc (t ++ vals (locals s)) (wd s)) x (wd s')
  end.
Proof. exact FullBridgeC05.full_compile_expr_correct_at. Qed.


(* ================= the side condition lok_ss of C05_full_compile_stmt_bridge is true of every parser output ================= *)
From YV Require ParseLoc FullCompile FullCompileProofs FullBridgeC05 FullBridgeLokDefs FullBridgeLokScan FullBridgeLok.

(* every token the scanner produces satisfies the token condition (Identifier lexemes are non-empty and not `self`,
   Number lexemes convert to a float without sign bit that is not NaN) *)
Theorem C05_scan_tokens_ok : forall src, FullBridgeLokDefs.toks_ok (Scanner.scan_all src) = true.
Proof. exact FullBridgeLokScan.scan_all_toks_ok. Qed.

(* the located parser builds well-formed trees from such tokens *)
Theorem C05_lparse_program_lwf : forall toks lp,
  ParseLoc.lparse_program toks = POk lp -> FullBridgeLokDefs.toks_ok toks = true ->
  FullBridgeLokDefs.lwf_ss (fst lp) = true.
Proof. exact FullBridgeLok.lparse_program_lwf. Qed.

(* ... hence from every source text *)
Theorem C05_lparse_source_lwf : forall src lp,
  ParseLoc.lparse_source src = POk lp -> FullBridgeLokDefs.lwf_ss (fst lp) = true.
Proof. exact FullBridgeLok.lparse_source_lwf. Qed.

(* inside the fragment, well-formed = lok *)
Theorem C05_lwf_lok : forall l env,
  FullBridgeLokDefs.lwf_ss l = true -> stmts_ok env (ParseLoc.erase_stmts l) = true -> FullBridgeC05.lok_ss l = true.
Proof. exact FullBridgeLok.lwf_lok. Qed.

(* C05_full_compile_stmt_bridge for every SOURCE TEXT, without the side condition lok_ss *)
Theorem C05_full_compile_stmt_bridge_source : forall (src : list Byte.byte) (lp : ParseLoc.lprogram),
  ParseLoc.lparse_source src = POk lp ->
  program_ok (ParseLoc.erase_stmts (fst lp)) = true -> fits (FullBridgeC05.prog_code lp) = true ->
  exists f, FullCompile.compile_program lp = FullCompile.COk f /\
            FullCompile.f_code f = assemble (FullBridgeC05.prog_code lp) /\
            FullCompile.f_consts f = map FullCompileProofs.conv (const_table (FullBridgeC05.prog_code lp)) /\
            FullCompile.f_arity f = 1%N /\ FullCompile.f_upvalues f = 0%N /\ FullCompile.f_name f = [].
Proof. exact FullBridgeLok.full_compile_stmt_bridge_source. Qed.

(* C05_full_compile_stmt_correct for every source text *)
Theorem C05_full_compile_stmt_correct_source : forall fuel (src : list Byte.byte) (lp : ParseLoc.lprogram) s' o,
  ParseLoc.lparse_source src = POk lp ->
  program_ok (ParseLoc.erase_stmts (fst lp)) = true -> fits (FullBridgeC05.prog_code lp) = true ->
  run_program fuel (ParseLoc.erase_stmts (fst lp)) = (s', o) ->
  exists f, FullCompile.compile_program lp = FullCompile.COk f /\
    FullBridgeC05.asm_of f (FullBridgeC05.prog_code lp) /\
    match o with
    | ONormal => exists k stk, run_vm k (FullBridgeC05.prog_code lp) vstate0
                   = VDone (mkVS (S (length (cstmts true cenv0 0 0 (ParseLoc.erase_stmts (fst lp))))) stk (wd s'))
    | OErr e => exists k, run_vm k (FullBridgeC05.prog_code lp) vstate0 = VErr e (wd s')
    | OBreak | OContinue => False
    | OFuel => True
    end.
Proof. exact FullBridgeLok.full_compile_stmt_correct_source. Qed.


(* ================= FullCompile bridge, functions (coq/theories/FullBridgeFn.v) ================= *)
(* The function TREE that the complete compiler model FullCompile.compile_program builds for a script of the function
   fragment that captures nothing is, function by function, the assembly (FnCompile.xassemble: code bytes, constant
   table entry by entry, nested functions recursively, arity, upvalue count, name) of the tree of the fragment compiler
   FnCompile.xprogram - for every such script whose functions fit (code < 65536 bytes, <= 65536 constants). *)
From YV Require ParseLoc FullCompile FullBridgeFnDefs FullBridgeFn.

Theorem C05_full_compile_fn_tree : forall lp : YV.ParseLoc.lprogram,
  YV.FullBridgeFnDefs.lokf_ss (fst lp) = true ->
  FnCompile.xprogram_ok (YV.FullBridgeFn.erase_prog lp) = true ->
  FnCompile.nocap_code (FnCompile.fo_code (FnCompile.xprogram (YV.FullBridgeFn.erase_prog lp))) = true ->
  YV.FullBridgeFnDefs.xfits (FnCompile.xprogram (YV.FullBridgeFn.erase_prog lp)) = true ->
  exists g, YV.FullCompile.compile_program lp = YV.FullCompile.COk g /\
            YV.FullBridgeFn.tree_rel g (FnCompile.xprogram (YV.FullBridgeFn.erase_prog lp)).
Proof. exact YV.FullBridgeFn.full_compile_fn_tree. Qed.

(* C05_compile_fn_correct_nocapture about FullCompile's output: the machine runs the function object whose assembly IS
   (tree_rel) the function tree FullCompile built *)
Theorem C05_full_compile_fn_correct_nocapture : forall fuel (lp : YV.ParseLoc.lprogram) s' o,
  YV.FullBridgeFnDefs.lokf_ss (fst lp) = true ->
  FnCompile.xprogram_ok (YV.FullBridgeFn.erase_prog lp) = true ->
  FnCompile.nocap_code (FnCompile.fo_code (FnCompile.xprogram (YV.FullBridgeFn.erase_prog lp))) = true ->
  YV.FullBridgeFnDefs.xfits (FnCompile.xprogram (YV.FullBridgeFn.erase_prog lp)) = true ->
  frun_program fuel (YV.FullBridgeFn.erase_prog lp) = (s', o) ->
  exists g f, YV.FullCompile.compile_program lp = YV.FullCompile.COk g /\ YV.FullBridgeFn.tree_rel g f /\
    match o with
    | FNormal => exists k m, mrun k (mstate0 f) = MDone m /\ mwd m = ewd s'
    | FErr e => e <> Unsupported -> exists k, mrun k (mstate0 f) = MFail e (ewd s')
    | FFuel => True
    | FBreak | FContinue | FReturn _ => False
    end.
Proof. exact YV.FullBridgeFn.full_compile_fn_correct_nocapture. Qed.


From YV Require FullBridgeSource.
Theorem C05_full_compile_fn_tree_source : forall (src : list Byte.byte) (lp : ParseLoc.lprogram),
  ParseLoc.lparse_source src = POk lp ->
  xprogram_ok (FullBridgeFn.erase_prog lp) = true ->
  nocap_code (fo_code (xprogram (FullBridgeFn.erase_prog lp))) = true ->
  FullBridgeFnDefs.xfits (xprogram (FullBridgeFn.erase_prog lp)) = true ->
  exists g, FullCompile.compile_program lp = FullCompile.COk g /\
            FullBridgeFn.tree_rel g (xprogram (FullBridgeFn.erase_prog lp)).
Proof. exact FullBridgeSource.full_compile_fn_tree_source. Qed.

Print Assumptions C05_full_compile_stmt_bridge.
Print Assumptions C05_full_compile_stmt_correct.
Print Assumptions C05_full_compile_stmt_correct_at.
Print Assumptions C05_full_compile_expr_correct_at.
Print Assumptions C05_scan_tokens_ok.
Print Assumptions C05_lparse_source_lwf.
Print Assumptions C05_full_compile_stmt_bridge_source.
Print Assumptions C05_full_compile_stmt_correct_source.
Print Assumptions C05_full_compile_fn_tree.
Print Assumptions C05_full_compile_fn_correct_nocapture.
Print Assumptions C05_full_compile_fn_tree_source.
Print Assumptions C05_lparse_program_lwf.
Print Assumptions C05_lwf_lok.
