(* C06 - Lexical scoping; closures capture variables, not values.
   ONLY statements: each is closed by `exact` of a lemma of theories/ (UpvaluesProofs.v, ScopeLangProofs.v),
   instantiated with what the translator regenerated from /repo's current sources (YVGen.Consts,
   YVGen.ScopeCfg); side conditions are decided here by computation. *)
From Coq Require Import List Arith Bool String ZArith NArith Lia.
From YVGen Require Import Consts ScopeCfg.
From YV Require Import Upvalues Cells UpvaluesProofs UpvaluesFibersProofs ScopeLang ScopeComp ScopeRun ScopeLangProofs ScopeSwap ScopeSim ScopeDefs2 ScopeDefsN ScopeStage ScopeDefs5 ScopeStage5.
Import ListNotations.

Definition upvalues_max := N.to_nat UPVALUES_MAX.
Definition locals_max := N.to_nat LOCALS_MAX.

(* --- side conditions on the current sources --- *)
(* the shapes Upvalues.v / ScopeComp.v transliterate are still there (capture_upvalue's `>` and `==`,
   close_upvalues' `>=`, add_upvalue's (index, is_local) test, emit_scope_end's CloseUpvalue/Pop choice) *)
Theorem C06_side_shapes : shapes_known = true.
Proof. reflexivity. Qed.
(* slot and upvalue indices are single bytes in GetLocal/GetUpvalue/Closure descriptors *)
Theorem C06_side_consts : consts_all_known = true /\ 0 < upvalues_max <= 256 /\ 0 < locals_max <= 256.
Proof. vm_compute. repeat split; lia. Qed.
(* the two repairs the property needs are in the sources the model was configured from: break pops the
   loop body's locals before jumping, unwind_stack and jump_finally_impl close upvalues before truncating *)
Theorem C06_side_repaired :
  c_break_pops_first the_cfg = true /\ c_unwind_closes the_cfg = true /\ jump_finally_closes_upvalues = true.
Proof. repeat split; reflexivity. Qed.

(* --- invariant of the open-upvalue list: sorted strictly descending, every entry below the stack top,
       hence one entry per slot; preserved by every operation obeying the discipline --- *)
Theorem C06_upvalue_list_inv_step : forall (value : Type) (st : mstate value) (o : op value),
  list_inv st -> disc_ok st o = true -> list_inv (fst (step st o)).
Proof. exact upvalue_list_inv_step. Qed.
Theorem C06_upvalue_list_inv : forall (value : Type) (d : value) (ops : list (op value)),
  disciplined (m_init d) ops = true -> list_inv (run_state (m_init d) ops).
Proof. exact upvalue_list_inv. Qed.
Theorem C06_one_entry_per_slot : forall l : list (nat * nat), desc_sorted l = true -> NoDup (map snd l).
Proof. exact desc_sorted_nodup. Qed.

(* --- the upvalue mechanism refines a store of cells: for EVERY disciplined operation sequence (any
       number of fibers, SwitchFiber included) reads through slots and through upvalues return what the
       cell store returns, and capture hands out the handle of the variable's cell --- *)
Theorem C06_upvalues_refine_cells : forall (value : Type) (d : value) (ops : list (op value)),
  disciplined (m_init d) ops = true -> run (m_init d) ops = srun (s_init d) ops.
Proof. exact upvalues_refine_cells. Qed.
Theorem C06_refine_step : forall (value : Type) (m : mstate value) (s : sstate value) (o : op value),
  R m s -> disc_ok m o = true ->
  snd (step m o) = snd (sstep s o) /\ R (fst (step m o)) (fst (sstep s o)).
Proof. exact step_sim. Qed.
Theorem C06_capture_twice_same : forall (value : Type) (st : mstate value) (loc : nat),
  let '(st1, id1) := capture st loc in let '(_, id2) := capture st1 loc in id1 = id2.
Proof. exact capture_twice_same. Qed.
Theorem C06_capture_after_close_fresh : forall (value : Type) (m : mstate value) (s : sstate value) (loc : nat) (v : value),
  R m s -> slen (cfib m) = S loc ->
  let '(m1, id1) := capture m loc in
  let m2 := fst (step m1 CloseTop) in
  let m3 := fst (step m2 (Push v)) in
  snd (capture m3 loc) = unext m1 /\ snd (capture m3 loc) <> id1.
Proof. exact capture_after_close_fresh. Qed.
(* --- the open lists are PER FIBER (round 7): nothing the running fiber does - captures, closes, returns, writes through an
       upvalue that is open on another fiber's stack - changes the open list or the stack top of ANOTHER fiber, and a capture
       links the slot into the running fiber's OWN list (where its next CloseTop / ReturnFrame finds it).  vm.rs: capture_upvalue
       starts at the head of the active fiber's list and touches no other list (regenerated shape fact, C06_side_shapes) --- *)
Theorem C06_step_other_fiber_lists : forall (value : Type) (st : mstate value) (o : op value) (g : nat),
  g <> cur st ->
  openl (fibs (fst (step st o)) g) = openl (fibs st g) /\ slen (fibs (fst (step st o)) g) = slen (fibs st g).
Proof. exact step_other_fiber_lists. Qed.
Theorem C06_capture_lands_in_own_list : forall (value : Type) (st : mstate value) (loc : nat),
  loc < slen (cfib st) ->
  let st' := fst (step st (Capture loc)) in
  cur st' = cur st /\ (exists k, In (k, loc) (openl (fibs st' (cur st)))) /\
  (forall g, g <> cur st -> fibs st' g = fibs st g).
Proof. exact capture_lands_in_own_list. Qed.
Theorem C06_refine_across_switch :
  disciplined (m_init 0%Z) switch_ops = true /\ run (m_init 0%Z) switch_ops = srun (s_init 0%Z) switch_ops.
Proof. exact (conj (proj1 refine_across_switch) (proj1 (proj2 refine_across_switch))). Qed.

(* --- the raw Truncate operation (what unwind_stack did before its repair, what jump_finally_impl
       still does) breaks both: the refinement and the invariant --- *)
Theorem C06_discipline_refuted_unwind : exists ops : list (op Z),
  disciplined (m_init 0%Z) ops = false /\ run (m_init 0%Z) ops <> srun (s_init 0%Z) ops.
Proof. exact discipline_refuted_unwind. Qed.
Theorem C06_list_inv_refuted_unwind :
  ~ list_inv (run_state (m_init 0%Z) [Push 1%Z; Capture 0; Truncate 0]).
Proof. exact list_inv_refuted_unwind. Qed.

(* --- static half: a name resolves to the newest declaration still in scope of the innermost function
       that has one; the index chain through n functions denotes the capture of that declaration's slot --- *)
Theorem C06_resolve_local_newest : forall ls x slot b,
  resolve_local ls x = Some (slot, b) ->
  exists newer l older,
    ls = (newer ++ l :: older)%list /\ List.length older = slot /\ name_is l x = true /\
    (b = match l_depth l with Some _ => true | None => false end) /\
    forall l', In l' newer -> name_is l' x = false.
Proof. exact resolve_local_newest. Qed.
Theorem C06_find_enclosing_innermost : forall cs x k slot,
  find_enclosing cs x = Some (k, slot) ->
  resolve_local (fc_locals (nth k cs (new_fcomp true))) x = Some (slot, true) /\
  forall j, j < k -> forall s, resolve_local (fc_locals (nth j cs (new_fcomp true))) x <> Some (s, true).
Proof. exact find_enclosing_innermost. Qed.
Theorem C06_resolve_index_chain : forall (A : Type) (d : A) uss slot uss' k pcaps top,
  uss <> [] -> List.length pcaps = List.length uss ->
  chain_ups upvalues_max uss slot = (uss', k, false) ->
  nth k (runtime_ups A d uss' pcaps top) d = (last pcaps (fun _ => d)) slot.
Proof. exact (fun A d => resolve_index_chain A d upvalues_max). Qed.

(* --- compiled mini-language = reference evaluator: bounded families (4260 programs), by computation;
       and the refutations for the two configurations /repo shipped with --- *)
Theorem C06_compile_scope_correct_partial :
  forall p, In p (family1 ++ family2)%list -> agree cfg_fixed p = true.
Proof. exact compile_scope_correct_partial. Qed.
Theorem C06_model_is_the_repaired_one :
  c_break_pops_first the_cfg = c_break_pops_first cfg_fixed /\ c_unwind_closes the_cfg = c_unwind_closes cfg_fixed.
Proof. split; reflexivity. Qed.
Theorem C06_compile_scope_refuted_break_dead_pops :
  exists p, eval_cells p <> run_m cfg_shipped_break p /\ eval_cells p = run_m cfg_fixed p.
Proof. exact compile_scope_refuted_break_dead_pops. Qed.
Theorem C06_compile_scope_refuted_unwind :
  exists p, eval_cells p <> run_m cfg_shipped_unwind p /\ eval_cells p = run_m cfg_fixed p.
Proof. exact compile_scope_refuted_unwind. Qed.

(* --- glue between compile_scope and upvalues_refine_cells, for EVERY function table (every program): the
       machine over Upvalues.v computes what the same machine computes over the cell store (every slot a heap
       cell, nothing ever closed), whenever that run never pops / truncates a captured slot --- *)
Theorem C06_backend_swap : forall cf funs fuel,
  flag (res_state (@Gen.run_loop bk_c cf funs fuel (Gen.m_start bk_c funs))) = false ->
  Gen.run_funs bk_m cf fuel funs = Gen.run_funs bk_c cf fuel funs.
Proof. exact backend_swap. Qed.

(* --- compile_scope_correct, stage 1a: EVERY program of blocks (any nesting) / declarations / assignments /
       print over literals, variables and + (locals, globals, shadowing; no closures), any fuel --- *)
Theorem C06_compile_scope_correct_stage1a : forall cf p funs fuel st en,
  forallb stmt1 p = true -> compile_scope cf p = Some funs ->
  exec_list fuel p [] true s_empty = (st, en, CNorm) ->
  exists n, forall k, Gen.run_funs bk_m cf (n + k) funs = eval_cells_fuel fuel p.
Proof. exact compile_scope_correct_stage1a_from_stage1. Qed.   (* corollary of stage 1 (general) below *)

(* --- compile_scope_correct, stage 1: EVERY program of blocks (any nesting) + closures over block locals, one
       function level (fragment stmt3 of ScopeDefs2.v: script level var / assignment / print / expression
       statement / block / `var f = || { body };`; bodies of assignments, prints, expression statements, return;
       expressions of literals, variables, +, calls f()), any fuel: captured variables are shared by the declaring
       scope and all closures, while the block is live and after it was left --- *)
Theorem C06_compile_scope_correct_stage1 : forall cf p funs fuel st en,
  forallb stmt3 p = true -> compile_scope cf p = Some funs ->
  exec_list fuel p [] true s_empty = (st, en, CNorm) ->
  exists n, forall k, Gen.run_funs bk_m cf (n + k) funs = eval_cells_fuel fuel p.
Proof. exact compile_scope_correct_stage1. Qed.   (* corollary of stage 1 (general) below *)

(* --- compile_scope_correct, stage 1 in its general form (one function level; fragment `stmt4 true` of
       ScopeDefs2.v): closures and `fn` with parameters, called with arbitrary fragment expressions as arguments;
       `var` declarations and nested blocks inside closure bodies (body locals, scope-end Pops inside a call
       frame); self reference (`fn f` calling / capturing itself, as a captured block local or as a global;
       `var x = || .. x ..` at script level).  Not yet: function definitions inside bodies (stage 2). --- *)
Theorem C06_compile_scope_correct_stage1g : forall cf p funs fuel st en,
  forallb (stmt4 true) p = true -> compile_scope cf p = Some funs ->
  exec_list fuel p [] true s_empty = (st, en, CNorm) ->
  exists n, forall k, Gen.run_funs bk_m cf (n + k) funs = eval_cells_fuel fuel p.
Proof. exact compile_scope_correct_stage1g. Qed.   (* corollary of stage 2 below *)

Print Assumptions C06_compile_scope_correct_stage1g.

(* --- compile_scope_correct, stage 2: nested function levels, to ANY depth (fragment `stmt5 false true` of
       ScopeDefsN.v): function definitions (`fn`, lambdas, with parameters) inside function bodies; a closure captures
       locals of the body that creates it (is_local = true: captured flag, CloseUpvalue / the frame's return closing the
       upvalue inside the call frame) and variables of functions further out through the enclosing closure's own
       upvalues (is_local = false, Parser::resolve_upvalue recursing through all levels); blocks, declarations,
       assignments, print, calls with arguments, `return`, self reference as in stage 1.  Stage 1 (general) is a
       corollary. --- *)
Theorem C06_compile_scope_correct_stage2 : forall cf p funs fuel st en,
  forallb (stmt5 false true) p = true -> compile_scope cf p = Some funs ->
  exec_list fuel p [] true s_empty = (st, en, CNorm) ->
  exists n, forall k, Gen.run_funs bk_m cf (n + k) funs = eval_cells_fuel fuel p.
Proof. exact compile_scope_correct_stage2. Qed.   (* corollary of stage 3 below *)

Print Assumptions C06_compile_scope_correct_stage2.

(* --- compile_scope_correct, stage 3: `for i in 0..n { .. }` loops and `if a < c { .. } else { .. }` on top of stage 2
       (fragment `stmt6 false false true false` of ScopeDefsN.v): ONE variable for the loop variable, a FRESH cell per
       iteration for every variable declared in the loop body (closures created in different iterations do not share
       them), the hidden iterator local, the scope end of the loop; loops and ifs nest, also in function bodies, `return`
       out of loops.  Stage 2 is a corollary. --- *)
Theorem C06_compile_scope_correct_stage3 : forall cf p funs fuel st en,
  forallb (stmt6 false false true false) p = true -> compile_scope cf p = Some funs ->
  exec_list fuel p [] true s_empty = (st, en, CNorm) ->
  exists n, forall k, Gen.run_funs bk_m cf (n + k) funs = eval_cells_fuel fuel p.
Proof. exact compile_scope_correct_stage3. Qed.

Print Assumptions C06_compile_scope_correct_stage3.

(* --- compile_scope_correct, stage 4: break / continue out of nested scopes with captured locals (fragment
       `stmt6 true false true false`), for the repaired compiler (`c_break_pops_first cf = true`: scope-end ops before the
       jump; the shipped order is refuted by C06_compile_scope_refuted_break_dead_pops): the early exit emits Pop for the
       locals not captured so far and CloseUpvalue for the captured ones, then jumps to the loop exit / back to the loop
       start; in nested blocks and ifs, nested loops (innermost), loops inside function bodies. --- *)
Theorem C06_compile_scope_correct_stage4 : forall cf p funs fuel st en,
  c_break_pops_first cf = true ->
  forallb (stmt6 true false true false) p = true -> compile_scope cf p = Some funs ->
  exec_list fuel p [] true s_empty = (st, en, CNorm) ->
  exists n, forall k, Gen.run_funs bk_m cf (n + k) funs = eval_cells_fuel fuel p.
Proof. exact compile_scope_correct_stage4. Qed.

Print Assumptions C06_compile_scope_correct_stage4.
Print Assumptions C06_compile_scope_correct_stage1.
Print Assumptions C06_backend_swap.
Print Assumptions C06_compile_scope_correct_stage1a.
Print Assumptions C06_side_shapes.
Print Assumptions C06_side_consts.
Print Assumptions C06_side_repaired.
Print Assumptions C06_upvalue_list_inv_step.
Print Assumptions C06_upvalue_list_inv.
Print Assumptions C06_one_entry_per_slot.
Print Assumptions C06_upvalues_refine_cells.
Print Assumptions C06_refine_step.
Print Assumptions C06_capture_twice_same.
Print Assumptions C06_capture_after_close_fresh.
Print Assumptions C06_refine_across_switch.
Print Assumptions C06_discipline_refuted_unwind.
Print Assumptions C06_list_inv_refuted_unwind.
Print Assumptions C06_resolve_local_newest.
Print Assumptions C06_find_enclosing_innermost.
Print Assumptions C06_resolve_index_chain.
Print Assumptions C06_compile_scope_correct_partial.
Print Assumptions C06_model_is_the_repaired_one.
Print Assumptions C06_compile_scope_refuted_break_dead_pops.
Print Assumptions C06_compile_scope_refuted_unwind.

(* ===== stage 5 (ScopeDefs5 … ScopeStage5.v): stage 4 + throw + try/catch ===== *)
(* the three facts about the current sources that stage 5 needs are the regenerated ones *)
Theorem C06_side_repaired_stage5 :
  c_break_pops_first the_cfg = true /\ c_unwind_closes the_cfg = true /\ c_catch_pops the_cfg = false.
Proof. repeat split; reflexivity. Qed.

(* stage 4 + `throw e` + `try { .. } catch x { .. }`: for EVERY program of the fragment, any fuel: if it compiles and the
   reference evaluator completes (normally or with an uncaught exception), the compiled code on the machine over
   Upvalues.v prints the same and ends the same way *)
Theorem C06_compile_scope_correct_stage5 : forall cf p funs fuel st en c,
  c_break_pops_first cf = true -> c_unwind_closes cf = true -> c_catch_pops cf = false ->
  forallb (stmt7 true false true false) p = true -> compile_scope cf p = Some funs ->
  exec_list fuel p [] true s_empty = (st, en, c) -> (c = CNorm \/ exists v, c = CThrow v) ->
  exists n, forall k, Gen.run_funs bk_m cf (n + k) funs = eval_cells_fuel fuel p.
Proof. exact compile_scope_correct_stage5. Qed.

(* ... instantiated with the configuration read off the current sources *)
Theorem C06_compile_scope_correct_stage5_now : forall p funs fuel st en c,
  forallb (stmt7 true false true false) p = true -> compile_scope the_cfg p = Some funs ->
  exec_list fuel p [] true s_empty = (st, en, c) -> (c = CNorm \/ exists v, c = CThrow v) ->
  exists n, forall k, Gen.run_funs bk_m the_cfg (n + k) funs = eval_cells_fuel fuel p.
Proof. exact (fun p funs fuel st en c => compile_scope_correct_stage5 the_cfg p funs fuel st en c eq_refl eq_refl eq_refl). Qed.

(* with the shipped unwind_stack (truncate without closing the upvalues above the handler's height) it is false *)
Theorem C06_compile_scope_stage5_refuted_unwind :
  let cf := mkCfg 256 256 true false false in
  exists p funs st en,
    forallb (stmt7 true false true false) p = true /\ compile_scope cf p = Some funs /\
    exec_list 30 p [] true s_empty = (st, en, CNorm) /\
    ~ (exists n, forall k, Gen.run_funs bk_m cf (n + k) funs = eval_cells_fuel 30 p).
Proof. exact compile_scope_stage5_refuted_unwind. Qed.

Print Assumptions C06_step_other_fiber_lists.
Print Assumptions C06_capture_lands_in_own_list.
Print Assumptions C06_side_repaired_stage5.
Print Assumptions C06_compile_scope_correct_stage5.
Print Assumptions C06_compile_scope_correct_stage5_now.
Print Assumptions C06_compile_scope_stage5_refuted_unwind.
