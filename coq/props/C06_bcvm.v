(* props/C06_bcvm.v - statements only (printed by Coq's own `Check`, so every name is qualified): theorems about BcVM.v, the
   complete Gallina bytecode VM that executes the REAL compiler's output (tools/bcvm_corr.py ties it to the binary by outcome and by
   per-instruction H4 trace on every run).  Counted and re-checked by the driver together with props/C06.v. *)
From Coq Require Import ZArith NArith List Bool String.
Import ListNotations.
From YV Require BcVMProofs.

Theorem C06_bcvm_open_upvalues_sorted :
  forall (n : nat) (s s' : BcVM.bstate),
         BcVMProofs.OInv s -> BcVM.run n s = BcVM.BRMore s' -> BcVMProofs.OInv s'.
Proof. exact BcVMProofs.open_upvalues_sorted. Qed.

Print Assumptions C06_bcvm_open_upvalues_sorted.
