(* props/C06_bridge.v - statements only: the compile-correctness theorems of C06 restated about the output of FullCompile.v, the
   complete compiler model that is byte-identical to the real compiler (bridging theorems of FullBridge*.v).  Counted and
   re-checked by the driver together with props/C06.v. *)
From Coq Require Import List Arith Bool String ZArith NArith Lia.
From YVGen Require Import Consts ScopeCfg.
From YV Require Import Upvalues Cells UpvaluesProofs UpvaluesFibersProofs ScopeLang ScopeComp ScopeRun ScopeLangProofs ScopeSwap ScopeSim ScopeDefs2 ScopeDefsN ScopeStage ScopeDefs5 ScopeStage5.
Import ListNotations.

From YV Require FullCompile FullBridgeC06Defs FullBridgeC06 FullBridgeC06Full FullBridgeC06Repr.

(* FullCompile-Bridge (C06).  FullBridgeC06Defs: tr_prog (ScopeLang program -> located syntax of the full compiler model),
   decode_tree (FullCompile's function tree -> compile_scope's function table: opcodes + operands decoded, constants
   read back, functions numbered in finalise order, arity - 1). *)

(* compile_scope and the FULL compiler model agree on the whole stage-5 fragment: whenever both accept (FullCompile rejects
   only when one of its size limits is exceeded), FullCompile's function tree decodes to compile_scope's function table *)
Theorem C06_bridge_stage5 : forall p funs f,
  forallb (stmt7 true false true false) p = true ->
  forallb FullBridgeC06Repr.stmt_small p = true ->            (* number literals < 2^53 *)
  compile_scope the_cfg p = Some funs -> FullCompile.compile_program (FullBridgeC06Defs.tr_prog p) = FullCompile.COk f ->
  FullBridgeC06Defs.decode_tree f = Some funs.
Proof.
  exact (fun p funs f H7 Hl => FullBridgeC06Full.bridge_C06_stage5 the_cfg p funs f eq_refl eq_refl H7
           (FullBridgeC06Repr.repr_ok_small p Hl)).
Qed.

(* ... hence the stage-5 correctness theorem is a statement about the decoded output of the full compiler model *)
Theorem C06_full_compile_scope_correct_stage5 : forall p funs f fuel st en c,
  forallb (stmt7 true false true false) p = true ->
  forallb FullBridgeC06Repr.stmt_small p = true ->
  compile_scope the_cfg p = Some funs -> FullCompile.compile_program (FullBridgeC06Defs.tr_prog p) = FullCompile.COk f ->
  exec_list fuel p [] true s_empty = (st, en, c) -> (c = CNorm \/ exists v, c = CThrow v) ->
  exists funs', FullBridgeC06Defs.decode_tree f = Some funs' /\
    exists n, forall k, Gen.run_funs bk_m the_cfg (n + k) funs' = eval_cells_fuel fuel p.
Proof.
  exact (fun p funs f fuel st en c H7 Hl =>
           FullBridgeC06Full.C06_full_compile_scope_correct_stage5 p funs f fuel st en c H7
             (FullBridgeC06Repr.repr_ok_small p Hl)).
Qed.

(* translation validation (no hypothesis on FullCompile's acceptance): on every program on which the executable check
   bridge_C06 evaluates to "same" - it is evaluated on every generated program of the fragment *)
Theorem C06_full_compile_scope_correct_stage5_validated : forall p fuel st en c,
  FullBridgeC06Defs.bridge_C06 p = "same"%string ->
  exec_list fuel p [] true s_empty = (st, en, c) -> (c = CNorm \/ exists v, c = CThrow v) ->
  exists f funs, FullCompile.compile_program (FullBridgeC06Defs.tr_prog p) = FullCompile.COk f /\
    FullBridgeC06Defs.decode_tree f = Some funs /\
    exists n, forall k, Gen.run_funs bk_m the_cfg (n + k) funs = eval_cells_fuel fuel p.
Proof. exact FullBridgeC06.C06_full_compile_scope_correct_stage5_validated. Qed.

Print Assumptions C06_bridge_stage5.
Print Assumptions C06_full_compile_scope_correct_stage5.
Print Assumptions C06_full_compile_scope_correct_stage5_validated.
