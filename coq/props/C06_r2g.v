(* props/C06_r2g.v - statements only: regenerated-from-source definitions (translator/rust2gallina.py) equal the hand models
   that the theorems of props/C06.v are about.  Counted and re-checked by the driver together with props/C06.v. *)
From Coq Require Import ZArith NArith List Bool String.
From Coq.Strings Require Import Byte.
Import ListNotations.
(* ---- R2G block 2 ---- *)
From YVGen Require PureComp.
From YV Require R2G R2GStr PureEquivComp.

Theorem C06_pure_add_local_eq :
  forall (nm : nat -> list byte) (reserved : list byte) (ls : list ScopeComp.local) (x : nat),
         PureComp.Compiler_add_local (PureEquivComp.locals_view nm reserved ls) (nm x) =
         (negb (Datatypes.length ls =? 256),
          PureEquivComp.locals_view nm reserved
            (if Datatypes.length ls =? 256
             then ls
             else {| ScopeComp.l_name := Some x; ScopeComp.l_depth := None; ScopeComp.l_capt := false |} :: ls)).
Proof. exact PureEquivComp.pure_add_local_eq. Qed.

Theorem C06_pure_add_local_eq_model :
  forall (nm : nat -> list byte) (reserved : list byte) (cf : ScopeComp.cfg) 
           (c : ScopeComp.fcomp) (r : list ScopeComp.fcomp) (funs : list ScopeComp.func) 
           (err : option string) (x : nat),
         ScopeComp.c_locals_max cf = 256 ->
         let st := {| ScopeComp.cs_comps := c :: r; ScopeComp.cs_funs := funs; ScopeComp.cs_err := err |} in
         snd
           (PureComp.Compiler_add_local (PureEquivComp.locals_view nm reserved (ScopeComp.fc_locals c)) (nm x)) =
         PureEquivComp.locals_view nm reserved
           (ScopeComp.fc_locals (ScopeComp.top_of (ScopeComp.add_local cf (Some x) st))) /\
         fst
           (PureComp.Compiler_add_local (PureEquivComp.locals_view nm reserved (ScopeComp.fc_locals c)) (nm x)) =
         negb (Datatypes.length (ScopeComp.fc_locals c) =? ScopeComp.c_locals_max cf).
Proof. exact PureEquivComp.pure_add_local_eq_model. Qed.

Theorem C06_pure_resolve_local_eq :
  forall (nm : nat -> list byte) (reserved : list byte),
         (forall a b : nat, nm a = nm b -> a = b) ->
         (forall a : nat, nm a <> reserved) ->
         forall (ls : list ScopeComp.local) (x : nat),
         PureComp.Compiler_resolve_local (PureEquivComp.locals_view nm reserved ls) (nm x) =
         R2G.Val (PureEquivComp.resolve_view (ScopeComp.resolve_local ls x)).
Proof. exact PureEquivComp.pure_resolve_local_eq. Qed.

Theorem C06_pure_add_upvalue_eq :
  forall (cnt : Z) (u : ScopeComp.ups_t) (idx : nat) (isloc : bool),
         (0 <= cnt)%Z ->
         (cnt + 1 < 2 ^ 64)%Z ->
         PureComp.Compiler_add_upvalue cnt (PureEquivComp.ups_view u) (Z.of_nat idx) isloc =
         R2G.Val
           (PureEquivComp.add_upvalue_view cnt (ScopeComp.add_upvalue 256 u idx isloc)
              match ScopeComp.find_up u idx isloc 0 with
              | Some _ => false
              | None => negb (Datatypes.length u =? 256)
              end).
Proof. exact PureEquivComp.pure_add_upvalue_eq. Qed.

Theorem C06_pure_comp_fields :
  PureComp.r2g_fields =
         [("Compiler_add_local"%string, ["self.locals"%string; "arg0.source"%string]);
          ("Compiler_resolve_local"%string, ["self.locals"%string; "arg0.source"%string]);
          ("Compiler_add_upvalue"%string, ["self.function.upvalue_count"%string; "self.upvalues"%string])].
Proof. exact PureEquivComp.pure_comp_fields. Qed.

Print Assumptions C06_pure_add_local_eq.
Print Assumptions C06_pure_add_local_eq_model.
Print Assumptions C06_pure_resolve_local_eq.
Print Assumptions C06_pure_add_upvalue_eq.
Print Assumptions C06_pure_comp_fields.
