(* C07 - Classes: construction, fields, dispatch, inheritance, super, static.
   ONLY statements: each is closed by `exact` of a lemma of theories/ClassesProofs.v; the side conditions compare
   the error kinds / message texts / arity test regenerated from /repo's vm.rs (YVGen.ClassSrc) with the model's. *)
From Coq Require Import List String ZArith Bool Arith.
From YVGen Require Import ClassSrc Consts.
From YV Require Import Show Classes ClassSpec ClassLang ClassesProofs.
Import ListNotations.
Open Scope string_scope.

(* --- side conditions on the current source --- *)
Theorem C07_side_messages :
  src_undefined_property_get = msg_undefined_property /\ src_undefined_property_invoke = msg_undefined_property /\
  src_expected_args = msg_expected_args /\ src_superclass = msg_superclass /\
  src_only_instances = msg_only_instances /\ src_not_callable = msg_not_callable /\
  src_undefined_property_get_kind = ekind_name AttributeError /\
  src_undefined_property_invoke_kind = ekind_name AttributeError /\
  src_expected_args_kind = ekind_name TypeError /\ src_superclass_kind = ekind_name RuntimeError /\
  src_only_instances_kind = ekind_name AttributeError /\ src_not_callable_kind = ekind_name TypeError.
Proof. vm_compute. repeat split; reflexivity. Qed.
Theorem C07_side_arity_test :
  src_arity_is_function_arity_minus_one = true /\ src_arity_test_is_disequality = true.
Proof. vm_compute. split; reflexivity. Qed.
Theorem C07_side_frames_max : N.to_nat FRAMES_MAX = frames_max.
Proof. vm_compute. reflexivity. Qed.
Theorem C07_side_messages_used : forall n a b,
  undefined_property n = nth 0 msg_undefined_property "" ++ n ++ nth 1 msg_undefined_property "" /\
  expected_args a b = nth 0 msg_expected_args "" ++ show_nat a ++ nth 1 msg_expected_args "" ++ show_nat b
                      ++ nth 2 msg_expected_args "".
Proof. intros; split; reflexivity. Qed.

(* --- copy-down tables = nearest definition in the declared ancestry, for every sequence of definitions --- *)
Theorem C07_copydown_eq_chainwalk : forall h, wf_hist h -> exists cs, build h = Ok cs /\ tables_agree h cs.
Proof. exact copydown_eq_chainwalk. Qed.
Theorem C07_table_lookup_is_nearest_definition : forall h cs i c m n, wf_hist h -> build h = Ok cs ->
  nth_error (classes cs) i = Some (c, m) ->
  tbl_get n (methods c) = option_map snd (first_some (fun a => own h a n) (ancestry h i)) /\
  tbl_get n (methods m) = static_lookupS h i n.
Proof. exact table_lookup_is_nearest_definition. Qed.

(* Object is the implicit root: a user override of a method Object defines wins for the class and all descendants *)
Theorem C07_user_override_of_object_method_wins : forall h cs i c m n a st mr,
  wf_hist h -> build h = Ok cs -> nth_error (classes cs) i = Some (c, m) ->
  In a (ancestry h i) -> a <> 0 -> own h a n = Some (st, mr) ->
  (forall b, In b (ancestry h i) -> b <> a -> b <> 0 -> own h b n = None) ->
  tbl_get n (methods c) = Some mr.
Proof. exact user_override_of_object_method_wins. Qed.
Theorem C07_object_method_override_example :
  wf_hist ex_object_override /\
  match build ex_object_override with
  | Ok cs => map (fun cm => tbl_get "derives" (methods (fst cm))) (classes cs)
  | _ => []
  end = [Some (MNative NDerives); Some (MClosure 0); Some (MClosure 0); Some (MClosure 0); Some (MNative NDerives)] /\
  map (fun c => lookupS ex_object_override c "derives") [0; 1; 2; 3; 4]
  = [Some (MNative NDerives); Some (MClosure 0); Some (MClosure 0); Some (MClosure 0); Some (MNative NDerives)].
Proof. exact object_method_override_wins. Qed.

(* --- x.m(a) and var f = x.m; f(a): same callee, same slot 0, or same error --- *)
Theorem C07_invoke_eq_get_then_call : forall w recv n argc,
  invoke w recv n argc = rbind (get_property w recv n) (fun f => call_value (w_arity w) f argc).
Proof. exact invoke_eq_get_then_call. Qed.
Theorem C07_field_wins_in_both_paths : forall w a i v n argc,
  nth_error (w_heap w) a = Some i -> fld_get n (fields i) = Some v ->
  get_property w (VInst a) n = Ok v /\ invoke w (VInst a) n argc = call_value (w_arity w) v argc.
Proof. exact field_wins_in_both_paths. Qed.

Theorem C07_bound_method_keeps_receiver : forall w x n f,
  tbl_get n (table_of (w_cs w) (class_of (w_heap w) x)) = Some (MClosure f) ->
  (forall a, x = VInst a -> exists i, nth_error (w_heap w) a = Some i /\ fld_get n (fields i) = None) ->
  get_property w x n = Ok (VBound x f) /\
  (forall argc, call_value (w_arity w) (VBound x f) argc = call_closure (w_arity w) f x argc) /\
  (forall y g w' argc, set_property w (VInst y) g (VBound x f) = Ok w' ->
     invoke w' (VInst y) g argc = call_closure (w_arity w) f x argc) /\
  (forall ar argc t, call_closure ar f x argc = Ok t -> t = TClosure f x).
Proof. exact bound_method_keeps_receiver. Qed.

Theorem C07_super_is_declared_superclass : forall h cs o d s, wf_hist h -> build h = Ok cs ->
  nth_error h o = Some d -> d_super d = Some s ->
  forall heap ar recv n argc,
    get_super (mkW cs heap ar) (VClass s) recv n = spec_super_get h o recv n /\
    super_invoke (mkW cs heap ar) (VClass s) recv n argc = spec_super_invoke h ar o recv n argc.
Proof. exact super_is_declared_superclass. Qed.

Theorem C07_static_self_is_invoking_class : forall w recv n argc f s0,
  invoke_from_class w (class_of (w_heap w) recv) recv n argc = Ok (TClosure f s0) ->
  s0 = recv /\
  (forall c, recv = VClass c -> get_class_op (w_heap w) s0 = Some c) /\
  (forall a i, recv = VInst a -> nth_error (w_heap w) a = Some i -> get_class_op (w_heap w) s0 = Some (iclass i)).
Proof. exact static_self_is_invoking_class. Qed.

Theorem C07_derives_iff_ancestor : forall h cs c q, wf_hist h -> build h = Ok cs -> c < List.length h ->
  (derives cs (CUser c) q = true <-> ancestor h c q).
Proof. exact derives_iff_ancestor. Qed.

Theorem C07_constructor_returns_instance : forall S f c fid slot0 vs st cl st' v,
  nth_error (closures st) fid = Some cl -> cl_kind cl = KInit ->
  ev S (Datatypes.S f) c (TEnter (TClosure fid slot0) vs) st = (st', RVal v) ->
  v = snd (construct (world_of st) slot0) /\
  (forall k, slot0 = VClass k ->
     v = VInst (List.length (heap st)) /\
     nth_error (w_heap (fst (construct (world_of st) slot0))) (List.length (heap st)) = Some (mkInst k [])) /\
  (forall a, slot0 = VInst a -> v = VInst a).
Proof. exact constructor_returns_instance. Qed.

Theorem C07_no_implicit_super_init : forall S f c fid k st cl,
  nth_error (closures st) fid = Some cl -> cl_kind cl = KInit -> cl_params cl = [] -> cl_body cl = [] ->
  c_depth c <> frames_max ->
  exists st', ev S (Datatypes.S (Datatypes.S f)) c (TEnter (TClosure fid (VClass k)) []) st = (st', RVal (VInst (List.length (heap st)))) /\
    heap st' = (heap st ++ [mkInst k []])%list /\ out st' = out st /\ trace st' = trace st /\
    globals st' = globals st /\ hist st' = hist st /\ mstore st' = mstore st.
Proof. exact no_implicit_super_init. Qed.

Theorem C07_class_errors_table :
  (forall w recv n argc, tbl_get n (table_of (w_cs w) (class_of (w_heap w) recv)) = None ->
     (forall a, recv = VInst a -> exists i, nth_error (w_heap w) a = Some i /\ fld_get n (fields i) = None) ->
     get_property w recv n = Err AttributeError ("Undefined property '" ++ n ++ "'.") /\
     invoke w recv n argc = Err AttributeError ("Undefined property '" ++ n ++ "'.")) /\
  (forall ar f slot0 argc a, nth_error ar f = Some a -> argc <> a - 1 ->
     call_closure ar f slot0 argc = Err TypeError ("Expected " ++ show_nat (a - 1) ++ " arguments but found " ++ show_nat argc ++ ".")) /\
  expected_args 2 1 = "Expected 2 arguments but found 1." /\
  (forall cs v, (forall s, v <> VClass s) -> run_cop cs (OInherit v) = Err RuntimeError "Superclass must be a class.") /\
  (forall w recv n v, (forall a, recv <> VInst a) -> set_property w recv n v = Err AttributeError "Only instances have fields.") /\
  (forall ar callee argc, (forall r f, callee <> VBound r f) -> (forall r k, callee <> VBoundNative r k) ->
     (forall f, callee <> VClosure f) -> call_value ar callee argc = Err TypeError "Can only call functions and methods.").
Proof. exact class_errors_table. Qed.

(* --- the mini-language: for EVERY program M and S compute the same final state and outcome.  The receiver of a
   `super` access is the enclosing method's self, as compiler.rs `super_` now pushes it (side condition, re-read from
   the source); the model variant of the compiler before commit 0fbde2d provably does not refine the Spec --- *)
Theorem C07_side_super_receiver :
  super_mode_of_code src_super_receiver_code = Some SuperEnclosingMethod /\
  option_map (fun m => sem_mech_gen m IterInvoke) (super_mode_of_code src_super_receiver_code) = Some sem_mech.
Proof. vm_compute. split; reflexivity. Qed.
(* every member access the VM performs by name on its own initiative goes through `invoke` (fields first): IterNext sends
   "next" through `invoke`; the for statement fetches the iterator by an ordinary Invoke of "iter"; `invoke_from_class`
   is called only by `invoke` itself and by SuperInvoke; no other dispatch site exists (fails closed on unknown shapes) *)
Theorem C07_side_implicit_member_access :
  iter_mode_of_code src_iter_next_code = Some IterInvoke /\ src_iter_next_name = "next" /\
  src_unexpected_dispatch_sites = [] /\ src_for_fetches_iterator_by_plain_invoke = true /\
  option_map (sem_mech_gen SuperEnclosingMethod) (iter_mode_of_code src_iter_next_code) = Some sem_mech.
Proof. vm_compute. repeat split; reflexivity. Qed.
Theorem C07_eval_mech_eq_spec : forall p, eval_mech p = eval_spec p.
Proof. exact eval_mech_eq_spec. Qed.
Theorem C07_eval_mech_eq_spec_any_fuel : forall fuel c p, c_super c = None -> c_owner c = None ->
  ev sem_mech fuel c (TS p) st0 = ev sem_spec fuel c (TS p) st0.
Proof. exact eval_mech_eq_spec_fuel. Qed.
Theorem C07_eval_mech_eq_spec_refuted_old :
  exists p, nested_super p = true /\ show_outcome (eval_mech_old p) <> show_outcome (eval_spec p) /\
            show_outcome (eval_mech p) = show_outcome (eval_spec p).
Proof. exact eval_mech_eq_spec_refuted_old. Qed.
Theorem C07_eval_mech_eq_spec_refuted_any_static :
  show_outcome (eval_spec ex_static_factory) = "cap~I.m~P.m~5~true#ok" /\
  show_outcome (eval_mech_any_static ex_static_factory) <> show_outcome (eval_spec ex_static_factory) /\
  show_outcome (eval_mech ex_static_factory) = show_outcome (eval_spec ex_static_factory).
Proof. exact eval_mech_eq_spec_refuted_any_static. Qed.
Theorem C07_eval_mech_eq_spec_refuted_iter_from_class :
  show_outcome (eval_spec ex_iter_field) = "field~own#ok" /\
  show_outcome (eval_mech_iter_from_class ex_iter_field) = "own~own#ok" /\
  show_outcome (eval_mech ex_iter_field) = show_outcome (eval_spec ex_iter_field).
Proof. exact eval_mech_eq_spec_refuted_iter_from_class. Qed.
Theorem C07_super_captured_at_definition : forall S c st cd st' o, Inv st -> (S = sem_mech \/ S = sem_spec) ->
  exec_class S c st cd = (st', o) ->
  Inv st' /\
  ((hist st' = hist st /\ closures st' = closures st) \/
   exists d ncl, hist st' = (hist st ++ [d])%list /\ closures st' = (closures st ++ ncl)%list /\
     Forall (fun cl => cl_owner cl = Some (List.length (hist st)) /\ cl_super cl = option_map VClass (d_super d) /\
                       (forall name sup defctor ms label, cd = CDecl name sup defctor ms label -> mdecls_known ms = false ->
                          stmts_known (is_fun (cl_kind cl)) (cl_body cl) = false)) ncl).
Proof. exact exec_class_inv. Qed.
Print Assumptions C07_side_messages.
Print Assumptions C07_side_arity_test.
Print Assumptions C07_side_frames_max.
Print Assumptions C07_side_messages_used.
Print Assumptions C07_copydown_eq_chainwalk.
Print Assumptions C07_table_lookup_is_nearest_definition.
Print Assumptions C07_user_override_of_object_method_wins.
Print Assumptions C07_object_method_override_example.
Print Assumptions C07_invoke_eq_get_then_call.
Print Assumptions C07_field_wins_in_both_paths.
Print Assumptions C07_bound_method_keeps_receiver.
Print Assumptions C07_super_is_declared_superclass.
Print Assumptions C07_static_self_is_invoking_class.
Print Assumptions C07_derives_iff_ancestor.
Print Assumptions C07_constructor_returns_instance.
Print Assumptions C07_no_implicit_super_init.
Print Assumptions C07_class_errors_table.
Print Assumptions C07_eval_mech_eq_spec.
Print Assumptions C07_eval_mech_eq_spec_any_fuel.
Print Assumptions C07_super_captured_at_definition.
Print Assumptions C07_eval_mech_eq_spec_refuted_old.
Print Assumptions C07_eval_mech_eq_spec_refuted_any_static.
Print Assumptions C07_side_super_receiver.
Print Assumptions C07_side_implicit_member_access.
Print Assumptions C07_eval_mech_eq_spec_refuted_iter_from_class.
