(* C07 (round 8) - the errors the property names at the LIMITS of the machine: exactly FRAMES_MAX frames on the fiber,
   two error conditions true at once.  ONLY statements: each is closed by `exact` of a lemma of
   theories/ClassLimitsProofs.v; the side condition compares the order of the two pre-call tests of vm.rs `call_closure`,
   the kind / text of the frame-limit error and the shape of its comparison, re-read from the CURRENT source
   (YVGen.ClassSrc, translator/translate_c07.py), with the model's. *)
From Coq Require Import List String ZArith Bool Arith.
From YVGen Require Import ClassSrc Consts.
From YV Require Import Show Classes ClassSpec ClassLang ClassesProofs ClassLimits ClassLimitsProofs.
Import ListNotations.
Open Scope string_scope.

(* call_closure: `arg_count != arity` (TypeError) is tested BEFORE `frames.len() == FRAMES_MAX` (IndexError "Stack
   overflow."): a wrong-arity call is a TypeError also from the deepest permitted frame *)
Theorem C07_side_call_closure_checks :
  call_check_order_of_code src_call_closure_order_code = Some model_call_check_order /\
  (frame_limit_test_of_code src_frame_limit_test_code = Some FramesEqMax \/
   frame_limit_test_of_code src_frame_limit_test_code = Some FramesGeMax) /\
  src_frame_limit_kind = ekind_name kind_stack_overflow /\ src_frame_limit_msg = msg_stack_overflow /\
  N.to_nat FRAMES_MAX = frames_max.
Proof. vm_compute. repeat split; try reflexivity. left; reflexivity. Qed.

Theorem C07_call_error_at_any_depth : forall S f c e1 args st st1 st2 callee vs k m,
  ev S f c (TE e1) st = (st1, RVal callee) -> ev S f c (TA args) st1 = (st2, RVals vs) ->
  call_value (arities st2) callee (List.length vs) = Err k m ->
  ev S (Datatypes.S f) c (TE (ECall e1 args)) st = (st2, RErr k m).
Proof. exact call_error_at_any_depth. Qed.
Theorem C07_invoke_error_at_any_depth : forall S f c e1 n args st st1 st2 recv vs k m,
  ev S f c (TE e1) st = (st1, RVal recv) -> ev S f c (TA args) st1 = (st2, RVals vs) ->
  s_invoke S st2 recv n (List.length vs) = Err k m ->
  ev S (Datatypes.S f) c (TE (EInvoke e1 n args)) st = (st2, RErr k m).
Proof. exact invoke_error_at_any_depth. Qed.
Theorem C07_super_invoke_error_at_any_depth : forall S f c n args st st1 vs k m,
  ev S f c (TA args) st = (st1, RVals vs) ->
  s_super_invoke S st1 c n (List.length vs) = Err k m ->
  ev S (Datatypes.S f) c (TE (ESuperInvoke n args)) st = (st1, RErr k m).
Proof. exact super_invoke_error_at_any_depth. Qed.
Theorem C07_super_ops_ignore_depth : forall st c d n k,
  s_super_invoke sem_mech st (ctx_at c d) n k = s_super_invoke sem_mech st c n k /\
  s_super_get sem_mech st (ctx_at c d) n = s_super_get sem_mech st c n /\
  s_super_invoke sem_spec st (ctx_at c d) n k = s_super_invoke sem_spec st c n k /\
  s_super_get sem_spec st (ctx_at c d) n = s_super_get sem_spec st c n.
Proof. exact super_ops_ignore_depth. Qed.

Theorem C07_frame_limit_exact : forall S f c fid slot0 vs st cl,
  nth_error (closures st) fid = Some cl -> c_depth c = frames_max ->
  ev S (Datatypes.S f) c (TEnter (TClosure fid slot0) vs) st = (st, RErr kind_stack_overflow msg_stack_overflow).
Proof. exact frame_limit_exact. Qed.
Theorem C07_native_ignores_frame_limit : forall S f c d slot0 vs st,
  ev S (Datatypes.S f) (ctx_at c d) (TEnter (TNative NDerives slot0) vs) st =
  ev S (Datatypes.S f) c (TEnter (TNative NDerives slot0) vs) st.
Proof. exact native_ignores_frame_limit. Qed.

(* both conditions true at once: the wrong arity wins, through `f(a)` (bound method or closure) and through `x.m(a)` *)
Theorem C07_wrong_arity_wins_at_frame_limit : forall S f c e1 args st st1 st2 callee r fid vs a,
  c_depth c = frames_max ->
  callee = VBound r fid \/ callee = VClosure fid ->
  ev S f c (TE e1) st = (st1, RVal callee) -> ev S f c (TA args) st1 = (st2, RVals vs) ->
  nth_error (arities st2) fid = Some a -> List.length vs <> a - 1 ->
  ev S (Datatypes.S f) c (TE (ECall e1 args)) st = (st2, RErr TypeError (expected_args (a - 1) (List.length vs))).
Proof. exact wrong_arity_wins_at_frame_limit. Qed.
Theorem C07_wrong_arity_invoke_wins_at_frame_limit : forall f c e1 n args st st1 st2 recv fid vs a,
  c_depth c = frames_max ->
  ev sem_mech f c (TE e1) st = (st1, RVal recv) -> ev sem_mech f c (TA args) st1 = (st2, RVals vs) ->
  get_property (world_of st2) recv n = Ok (VBound recv fid) ->
  nth_error (arities st2) fid = Some a -> List.length vs <> a - 1 ->
  ev sem_mech (Datatypes.S f) c (TE (EInvoke e1 n args)) st = (st2, RErr TypeError (expected_args (a - 1) (List.length vs))).
Proof. exact wrong_arity_invoke_wins_at_frame_limit. Qed.
Theorem C07_right_arity_at_frame_limit : forall S f c e1 args st st1 st2 callee r fid vs cl,
  c_depth c = frames_max ->
  callee = VBound r fid \/ callee = VClosure fid ->
  ev S (Datatypes.S f) c (TE e1) st = (st1, RVal callee) -> ev S (Datatypes.S f) c (TA args) st1 = (st2, RVals vs) ->
  nth_error (closures st2) fid = Some cl -> List.length vs = List.length (cl_params cl) ->
  ev S (Datatypes.S (Datatypes.S f)) c (TE (ECall e1 args)) st = (st2, RErr kind_stack_overflow msg_stack_overflow).
Proof. exact right_arity_at_frame_limit. Qed.

(* computed: a self-limiting descent reaches exactly frames_max frames (frames_max - 1 levels below the script), and there
   wrong arity -> TypeError (invoke, bound method, constructor), right arity -> IndexError, unknown member ->
   AttributeError, non-callable -> TypeError, non-class superclass -> RuntimeError, a native call succeeds *)
Theorem C07_ex_limit_outcome :
  show_outcome (eval_mech ex_limit) = show_outcome (eval_spec ex_limit) /\
  snd (eval_spec ex_limit) = RNext [] /\
  firstn (frames_max - 1) (rev (out (fst (eval_spec ex_limit)))) = repeat "lv" (frames_max - 1) /\
  skipn (frames_max - 1) (rev (out (fst (eval_spec ex_limit)))) = ex_limit_tail.
Proof. exact ex_limit_outcome. Qed.

Print Assumptions C07_side_call_closure_checks.
Print Assumptions C07_call_error_at_any_depth.
Print Assumptions C07_invoke_error_at_any_depth.
Print Assumptions C07_super_invoke_error_at_any_depth.
Print Assumptions C07_super_ops_ignore_depth.
Print Assumptions C07_frame_limit_exact.
Print Assumptions C07_native_ignores_frame_limit.
Print Assumptions C07_wrong_arity_wins_at_frame_limit.
Print Assumptions C07_wrong_arity_invoke_wins_at_frame_limit.
Print Assumptions C07_right_arity_at_frame_limit.
Print Assumptions C07_ex_limit_outcome.
