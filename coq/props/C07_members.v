(* C07 (round 9) - member access forms x places, and the STATE member lookup depends on.  ONLY statements: each is closed by
   `exact` of a lemma of theories/ClassMembersProofs.v, the side condition by computation.  It compares the fields of `struct Vm`, the
   per-function lookup signatures (`self.<name>` touched, `.fields` / `.methods` reads) and the (class, name) helper
   functions re-read from the CURRENT vm.rs (YVGen.ClassSrc, translator/translate_c07.py) with the tables the model was
   written against: a method cache, a counter, a merged lookup helper, a lookup that starts to read the instance's fields
   breaks it and names the function. *)
From Coq Require Import List String Bool Arith.
From YVGen Require Import ClassSrc.
From YV Require Import Show Classes ClassSpec ClassLang ClassMembers ClassMembersProofs.
Import ListNotations.
Open Scope string_scope.

Theorem C07_side_member_lookup_state_and_shape :
  str_list_eqb src_vm_state_fields model_vm_state_fields = true /\
  pair_list_eqb src_member_lookup_shapes model_member_lookup_shapes = true /\
  str_list_eqb src_class_and_name_functions model_class_and_name_functions = true.
Proof. vm_compute. repeat split; reflexivity. Qed.

Theorem C07_bind_method_depends_on_class_store_only : forall w1 w2 c recv n,
  w_cs w1 = w_cs w2 -> bind_method w1 c recv n = bind_method w2 c recv n.
Proof. exact bind_method_depends_on_class_store_only. Qed.

Theorem C07_invoke_from_class_depends_on_class_store_only : forall w1 w2 c slot0 n argc,
  w_cs w1 = w_cs w2 -> w_arity w1 = w_arity w2 ->
  invoke_from_class w1 c slot0 n argc = invoke_from_class w2 c slot0 n argc.
Proof. exact invoke_from_class_depends_on_class_store_only. Qed.

Theorem C07_super_access_ignores_heap : forall cs h1 h2 ar sup recv n argc,
  get_super (mkW cs h1 ar) sup recv n = get_super (mkW cs h2 ar) sup recv n /\
  super_invoke (mkW cs h1 ar) sup recv n argc = super_invoke (mkW cs h2 ar) sup recv n argc.
Proof. exact super_access_ignores_heap. Qed.

Theorem C07_field_visible_only_through_receiver_access : forall w a i n v s argc,
  nth_error (w_heap w) a = Some i -> fld_get n (fields i) = Some v ->
  get_property w (VInst a) n = Ok v /\
  invoke w (VInst a) n argc = call_value (w_arity w) v argc /\
  get_super w (VClass s) (VInst a) n = bind_method w (CUser s) (VInst a) n /\
  super_invoke w (VClass s) (VInst a) n argc = invoke_from_class w (CUser s) (VInst a) n argc.
Proof. exact field_visible_only_through_receiver_access. Qed.

Theorem C07_no_field_every_form_uses_a_class_table : forall w a i n s argc,
  nth_error (w_heap w) a = Some i -> fld_get n (fields i) = None ->
  get_property w (VInst a) n = bind_method w (CUser (iclass i)) (VInst a) n /\
  invoke w (VInst a) n argc = invoke_from_class w (CUser (iclass i)) (VInst a) n argc /\
  get_super w (VClass s) (VInst a) n = bind_method w (CUser s) (VInst a) n /\
  super_invoke w (VClass s) (VInst a) n argc = invoke_from_class w (CUser s) (VInst a) n argc.
Proof. exact no_field_every_form_uses_a_class_table. Qed.

Theorem C07_class_value_access_uses_metaclass_table : forall w c n argc,
  get_property w (VClass c) n = bind_method w (CMeta c) (VClass c) n /\
  invoke w (VClass c) n argc = invoke_from_class w (CMeta c) (VClass c) n argc.
Proof. exact class_value_access_uses_metaclass_table. Qed.

Theorem C07_super_invoke_eq_super_get_then_call : forall w sup recv n argc,
  super_invoke w sup recv n argc = rbind (get_super w sup recv n) (fun v => call_value (w_arity w) v argc).
Proof. exact super_invoke_eq_super_get_then_call. Qed.

Theorem C07_ex_super_value_field :
  show_outcome (eval_mech ex_super_value_field) = ex_super_value_field_outcome /\
  show_outcome (eval_spec ex_super_value_field) = ex_super_value_field_outcome.
Proof. exact ex_super_value_field_ok. Qed.

Print Assumptions C07_side_member_lookup_state_and_shape.
Print Assumptions C07_bind_method_depends_on_class_store_only.
Print Assumptions C07_invoke_from_class_depends_on_class_store_only.
Print Assumptions C07_super_access_ignores_heap.
Print Assumptions C07_field_visible_only_through_receiver_access.
Print Assumptions C07_no_field_every_form_uses_a_class_table.
Print Assumptions C07_class_value_access_uses_metaclass_table.
Print Assumptions C07_super_invoke_eq_super_get_then_call.
Print Assumptions C07_ex_super_value_field.
