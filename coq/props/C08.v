(* C08 - Exceptions reach the innermost active handler; finally always runs.
   ONLY statements: each is closed by `exact` of a lemma of theories/HandlersProofs.v (or VerifierProofs.v); the
   configuration of the emitters / VM is the one regenerated from /repo's compiler.rs, vm.rs, object.rs
   (YVGen.TryArms); its side conditions are decided here by computation. *)
From Coq Require Import List Bool Arith NArith.
From YVGen Require Import TryArms Consts.
From YV Require Skeleton Verifier VerifierProofs.
From YV Require Import TryLang TrySpec Handlers TryRun HandlersProofs.
Import ListNotations.
Local Open Scope nat_scope.

Definition cfg_gen : cfg :=
  cfg_flags gen_catch_emits_pop gen_break_pops_mode
            gen_return_in_try_uses_jump_finally gen_unwind_he_mode
            gen_throw_sets_he gen_vmfail_sets_he gen_nativefail_sets_he.
(* the theorems hold for today's emitters and an unwind_stack that DERIVES handling_exception from the handler,
   whichever raise sites set the flag first *)
Local Notation gts := gen_throw_sets_he.
Local Notation gvs := gen_vmfail_sets_he.
Local Notation gns := gen_nativefail_sets_he.
Definition Kg : cfg := cfg_assign gts gvs gns.

(* --- side conditions on the current sources --- *)
Theorem C08_side_cfg : cfg_gen = Kg.
Proof. vm_compute; reflexivity. Qed.
Theorem C08_side_shapes :
  gen_try_shape_recognised && gen_try_operands_recognised && negb gen_break_runs_finally
  && gen_break_scope_pops_before_jump && gen_unwind_pops_innermost && gen_unwind_truncates_and_jumps_to_catch
  && gen_handler_records_heights && gen_end_finally_rethrows && gen_end_finally_resumes_return
  && gen_jump_finally_targets_finally && gen_throw_unwinds && gen_push_handler_offsets
  && gen_error_pushed_by_vm_poked_by_native && gen_return_jump_finally_for_every_function_kind
  && gen_call_closure_limits_are_thrown = true.
Proof. vm_compute; reflexivity. Qed.
Theorem C08_side_frames : N.to_nat Consts.FRAMES_MAX = Handlers.FRAMES_MAX.
Proof. vm_compute; reflexivity. Qed.

(* --- M refines S: every program of the mini-language outside the known classes --- *)
Theorem C08_handlers_refine_spec : forall p fuel res,
  wf_prog p = true -> in_known_class p = None -> fuel <= 63 ->
  eval_spec p fuel = Some res -> exists n, run_m cfg_gen p n = Some res.
Proof. exact (handlers_refine_spec_cfg cfg_gen gts gvs gns C08_side_cfg). Qed.

(* --- statement level (every statement of every function, any machine state satisfying `entered`) --- *)
Theorem C08_stmt_sim : forall p, wf_prog p = true -> in_known_class p = None -> forall f' s, Sim gts gvs gns p f' s.
Proof. exact (stmt_sim gts gvs gns). Qed.

Theorem C08_throw_reaches_innermost :
  forall p, wf_prog p = true -> in_known_class p = None ->
  forall f' s c k pc0 g il ic e stk fr frs h hs rp he d out o v,
    entered gts gvs gns p f' s c k pc0 g il ic e stk fr frs (h :: hs) rp he d ->
    eval_stmt (eval_fn p f') e s = Some (o, OExc v) ->
    exists frs', skipn (S (length frs) - h_frames h) (fr :: frs) = frs' /\ frs' <> [] /\
      steps gts gvs gns (compile_prog Kg p) (inl (mkS g pc0 stk (fr :: frs) (h :: hs) rp he out))
            (inl (mkS (h_fn h) (h_catch h) (firstn (h_height h) stk ++ [v]) frs' hs rp
                      (h_catch h =? h_fin h) (out ++ o))).
Proof. exact (throw_reaches_innermost gts gvs gns). Qed.

Theorem C08_uncaught_names_value :
  forall p, wf_prog p = true -> in_known_class p = None ->
  forall f' s c k pc0 g il ic e stk fr frs rp he d out o v,
    entered gts gvs gns p f' s c k pc0 g il ic e stk fr frs [] rp he d ->
    eval_stmt (eval_fn p f') e s = Some (o, OExc v) ->
    steps gts gvs gns (compile_prog Kg p) (inl (mkS g pc0 stk (fr :: frs) [] rp he out)) (inr (FUncaught v, out ++ o)).
Proof. exact (uncaught_names_value gts gvs gns). Qed.

Theorem C08_handler_stack_balanced :
  forall p, wf_prog p = true -> in_known_class p = None ->
  forall f' s c k pc0 g il ic e stk fr frs hs rp he d out o r,
    entered gts gvs gns p f' s c k pc0 g il ic e stk fr frs hs rp he d ->
    eval_stmt (eval_fn p f') e s = Some (o, r) ->
    exists cf, steps gts gvs gns (compile_prog Kg p) (inl (mkS g pc0 stk (fr :: frs) hs rp he out)) cf /\
               handlers_after c r hs cf.
Proof. exact (handler_stack_balanced gts gvs gns). Qed.

Theorem C08_left_try_never_intercepts :
  forall p, wf_prog p = true -> in_known_class p = None ->
  forall f' b c0 f c k pc0 g il ic e stk fr frs hs rp he d out o r,
    entered gts gvs gns p f' (Try b c0 f) c k pc0 g il ic e stk fr frs hs rp he d ->
    eval_stmt (eval_fn p f') e (Try b c0 f) = Some (o, r) ->
    exists cf, steps gts gvs gns (compile_prog Kg p) (inl (mkS g pc0 stk (fr :: frs) hs rp he out)) cf /\
               handlers_after c r hs cf.
Proof. exact (left_try_never_intercepts gts gvs gns). Qed.

Theorem C08_finally_exactly_once :
  forall p, wf_prog p = true -> in_known_class p = None ->
  forall f' b c0 f1 c k pc0 g il ic e stk fr frs hs rp he d out o r,
    entered gts gvs gns p f' (Try b c0 (Some f1)) c k pc0 g il ic e stk fr frs hs rp he d ->
    eval_stmt (eval_fn p f') e (Try b c0 (Some f1)) = Some (o, r) ->
    exists o12 r12 o3 r3,
      eval_stmt (eval_fn p f') e (Try b c0 None) = Some (o12, r12) /\
      eval_stmt (eval_fn p f') e f1 = Some (o3, r3) /\
      o = o12 ++ o3 /\ r = fin_outcome r12 r3 /\
      exists cf, steps gts gvs gns (compile_prog Kg p) (inl (mkS g pc0 stk (fr :: frs) hs rp he out)) cf /\
                 post gts gvs gns p c g pc0 (csize Kg c (Try b c0 (Some f1))) (fin_outcome r12 r3) stk fr frs hs rp he
                      (out ++ o12 ++ o3) cf.
Proof. exact (finally_exactly_once gts gvs gns). Qed.

Theorem C08_outcome_continues :
  forall p, wf_prog p = true -> in_known_class p = None ->
  forall f' b c0 f1 c k pc0 g il ic e stk fr frs hs rp he d out o12 r12 o3,
    entered gts gvs gns p f' (Try b c0 (Some f1)) c k pc0 g il ic e stk fr frs hs rp he d ->
    eval_stmt (eval_fn p f') e (Try b c0 None) = Some (o12, r12) ->
    eval_stmt (eval_fn p f') e f1 = Some (o3, ONormal) ->
    exists cf, steps gts gvs gns (compile_prog Kg p) (inl (mkS g pc0 stk (fr :: frs) hs rp he out)) cf /\
               post gts gvs gns p c g pc0 (csize Kg c (Try b c0 (Some f1))) r12 stk fr frs hs rp he (out ++ o12 ++ o3) cf.
Proof. exact (outcome_continues gts gvs gns). Qed.

Theorem C08_catch_does_not_disable_outer :
  forall p, wf_prog p = true -> in_known_class p = None ->
  forall f' b c1 c k pc0 g il ic e stk fr frs hs rp he d out o1 v o2,
    entered gts gvs gns p f' (Try b (Some c1) None) c k pc0 g il ic e stk fr frs hs rp he d ->
    eval_stmt (eval_fn p f') e b = Some (o1, OExc v) ->
    eval_stmt (eval_fn p f') {| e_exc := v; e_iter := e_iter e |} c1 = Some (o2, ONormal) ->
    steps gts gvs gns (compile_prog Kg p) (inl (mkS g pc0 stk (fr :: frs) hs rp he out))
          (inl (mkS g (pc0 + csize Kg c (Try b (Some c1) None)) stk (fr :: frs) hs rp he (out ++ o1 ++ o2))).
Proof. exact (catch_does_not_disable_outer gts gvs gns). Qed.

(* --- the hypotheses are satisfiable --- *)
Theorem C08_example : wf_prog ex_prog = true /\ in_known_class ex_prog = None /\
  eval_spec ex_prog 10 = run_m cfg_today ex_prog 400 /\ exists r, eval_spec ex_prog 10 = Some r.
Proof. exact ex_prog_ok. Qed.

(* --- one witness per open class: M deviates from S (each witness is replayed on the real binary by the check) --- *)
Theorem C08_early_exit_skips_finally_refuted : refutes cfg_today wit_early_exit_break (Some EarlyExitSkipsFinally).
Proof. exact early_exit_skips_finally_refuted. Qed.
Theorem C08_return_through_two_tries_refuted : refutes cfg_today wit_early_exit_return2 (Some EarlyExitSkipsFinally).
Proof. exact return_through_two_tries_refuted. Qed.
Theorem C08_return_in_catch_skips_finally_refuted : refutes cfg_today wit_early_exit_catch (Some EarlyExitSkipsFinally).
Proof. exact return_in_catch_skips_finally_refuted. Qed.
Theorem C08_return_in_try_catch_no_finally_refuted : refutes cfg_today wit_return_no_finally (Some ReturnInTryCatchNoFinally).
Proof. exact return_in_try_catch_no_finally_refuted. Qed.
Theorem C08_finally_local_refuted : refutes cfg_today wit_finally_local (Some FinallyLocal).
Proof. exact finally_local_refuted. Qed.
Theorem C08_handling_exception_global_refuted : refutes cfg_today wit_he_global_nested (Some HandlingExceptionGlobal).
Proof. exact handling_exception_global_refuted. Qed.
Theorem C08_handling_exception_global_callee_refuted : refutes cfg_today wit_he_global_callee (Some HandlingExceptionGlobal).
Proof. exact handling_exception_global_callee_refuted. Qed.
Theorem C08_abrupt_exit_from_finally_refuted : refutes cfg_today wit_abrupt_finally (Some AbruptExitFromFinally).
Proof. exact abrupt_exit_from_finally_refuted. Qed.
Theorem C08_pending_return_survives_throw_refuted : refutes cfg_today wit_pending_return (Some PendingReturnSurvivesThrow).
Proof. exact pending_return_survives_throw_refuted. Qed.
(* the repaired defects on the model variants of the old emitters (programs outside every class) *)
Theorem C08_catch_pops_outer_refuted_old : refutes cfg_old_catch_pops wit_catch_pops_outer None.
Proof. exact catch_pops_outer_refuted_old. Qed.
Theorem C08_break_in_try_refuted_old : refutes cfg_old_break wit_break_in_try None.
Proof. exact break_in_try_refuted_old. Qed.
(* an unwind_stack that no longer derives the flag needs it set at EVERY raise site (three: throw, VM failure, native
   failure); with the native site left out a native failure under a finally-only handler is dropped *)
(* emit_exc_handler_pops must pop EVERY handler of the try blocks a break/continue leaves *)
Theorem C08_break_pops_all_refuted_one : refutes cfg_break_pops_one wit_break_two_tries None.
Proof. exact break_pops_all_refuted_one. Qed.
Theorem C08_native_site_needs_flag_refuted : refutes cfg_flag_at_sites_but_native wit_native_finally None.
Proof. exact native_site_needs_flag_refuted. Qed.

(* --- from the bytecode verifier: in verified code with a unique frame-local handler stack per pc, the run-time
   handler stack (and height) of the frame at a pc is the static one --- *)
Theorem C08_handler_static_dynamic : forall b p f a,
  Verifier.check_fn b p f a = true -> Verifier.unique_height a = true ->
  forall s1 s2, VerifierProofs.reachable b p f s1 -> VerifierProofs.reachable b p f s2 ->
  Skeleton.pc s1 = Skeleton.pc s2 ->
  Skeleton.h s1 = Skeleton.h s2 /\ Skeleton.handlers s1 = Skeleton.handlers s2.
Proof. exact VerifierProofs.unique_height_sound. Qed.

Print Assumptions C08_side_cfg.
Print Assumptions C08_side_shapes.
Print Assumptions C08_side_frames.
Print Assumptions C08_handlers_refine_spec.
Print Assumptions C08_stmt_sim.
Print Assumptions C08_throw_reaches_innermost.
Print Assumptions C08_uncaught_names_value.
Print Assumptions C08_handler_stack_balanced.
Print Assumptions C08_left_try_never_intercepts.
Print Assumptions C08_finally_exactly_once.
Print Assumptions C08_outcome_continues.
Print Assumptions C08_catch_does_not_disable_outer.
Print Assumptions C08_example.
Print Assumptions C08_early_exit_skips_finally_refuted.
Print Assumptions C08_return_through_two_tries_refuted.
Print Assumptions C08_return_in_catch_skips_finally_refuted.
Print Assumptions C08_return_in_try_catch_no_finally_refuted.
Print Assumptions C08_finally_local_refuted.
Print Assumptions C08_handling_exception_global_refuted.
Print Assumptions C08_handling_exception_global_callee_refuted.
Print Assumptions C08_abrupt_exit_from_finally_refuted.
Print Assumptions C08_pending_return_survives_throw_refuted.
Print Assumptions C08_catch_pops_outer_refuted_old.
Print Assumptions C08_break_in_try_refuted_old.
Print Assumptions C08_break_pops_all_refuted_one.
Print Assumptions C08_native_site_needs_flag_refuted.
Print Assumptions C08_handler_static_dynamic.

(* ======================================================================================================== *)
(* R2G block (added; see notes/R2G.md): ExcHandler::has_catch_block, TRANSLATED from the current object.rs into
   gen/PureHandlers.v by translator/rust2gallina.py on every run, equals the convention of the hand-written model
   (Handlers.he_after: true iff the two offsets coincide, i.e. iff there is NO catch clause).  A change of the Rust
   function changes the generated text and breaks THIS named statement. *)
From Coq Require ZArith.
From YVGen Require PureHandlers.
From YV Require PureEquivHandlers.
Theorem C08_gen_has_catch_block_eq_model : forall h : handler,
  PureHandlers.ExcHandler_has_catch_block (BinInt.Z.of_nat (h_catch h)) (BinInt.Z.of_nat (h_fin h)) =
  Nat.eqb (h_catch h) (h_fin h).
Proof. exact PureEquivHandlers.gen_has_catch_block_eq_model. Qed.
Print Assumptions C08_gen_has_catch_block_eq_model.
(* ================================================ end of the R2G block ================================= *)
