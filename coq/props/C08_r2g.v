(* props/C08_r2g.v - statements only: regenerated-from-source definitions (translator/rust2gallina.py) equal the hand models
   that the theorems of props/C08.v are about.  Counted and re-checked by the driver together with props/C08.v. *)
From Coq Require Import ZArith NArith List Bool String.
From Coq.Strings Require Import Byte.
Import ListNotations.
(* ---- R2G block 2 ---- *)
From YVGen Require PureFiber.
From YV Require R2G R2GStr PureEquivFiber.

Theorem C08_pure_push_exc_handler_eq :
  forall (ip : nat -> nat -> Z) (T : Type) (frames : list T) (hs : list Handlers.handler)
           (g c f height : nat),
         PureFiber.ObjFiber_push_exc_handler frames (PureEquivFiber.handlers_view ip hs) 
           (Z.of_nat height) (ip g c) (ip g f) =
         PureEquivFiber.handlers_view ip
           ({|
              Handlers.h_fn := g;
              Handlers.h_catch := c;
              Handlers.h_fin := f;
              Handlers.h_height := height;
              Handlers.h_frames := Datatypes.length frames
            |} :: hs).
Proof. exact PureEquivFiber.pure_push_exc_handler_eq. Qed.

Theorem C08_pure_pop_exc_handler_eq :
  forall (ip : nat -> nat -> Z) (hs : list Handlers.handler),
         PureFiber.ObjFiber_pop_exc_handler (PureEquivFiber.handlers_view ip hs) =
         (option_map (PureEquivFiber.handler_view ip) (hd_error hs), PureEquivFiber.handlers_view ip (tl hs)).
Proof. exact PureEquivFiber.pure_pop_exc_handler_eq. Qed.

Theorem C08_pure_fiber_fields :
  PureFiber.r2g_fields =
         [("ObjFiber_push_exc_handler"%string, ["self.frames"%string; "self.exc_handlers"%string]);
          ("ObjFiber_pop_exc_handler"%string, ["self.exc_handlers"%string])].
Proof. exact PureEquivFiber.pure_fiber_fields. Qed.

Print Assumptions C08_pure_push_exc_handler_eq.
Print Assumptions C08_pure_pop_exc_handler_eq.
Print Assumptions C08_pure_fiber_fields.
