(* C09 - Fibers transfer control and values faithfully and keep their own state.
   ONLY statements: each is closed by `exact` of a lemma of theories/FibersProofs.v, the mechanism's parameters
   instantiated with the constants regenerated from /repo's vm.rs and core.rs (YVGen.FiberArms), whose side
   conditions are decided here by computation. *)
From Coq Require Import List String Bool Arith.
From YVGen Require FiberArms.
From YV Require Import FiberBase Coroutines Fibers FiberLang FibersProofs FiberArity FiberArityProofs.
Import ListNotations.

Definition pn : bool := FiberArms.poke_nil_on_resume.

(* --- side conditions on the current source's shape --- *)
(* both checks of load_fiber are present (their order cannot be observed: C09_check_order_irrelevant) *)
Definition checks_ok (l : list (option check)) : bool :=
  match l with
  | [Some CkFinished; Some CkCaller] | [Some CkCaller; Some CkFinished] => true
  | _ => false
  end.
Theorem C09_side_checks : checks_ok FiberArms.load_checks = true.
Proof. reflexivity. Qed.
Theorem C09_side_messages :
  FiberArms.msg_finished = Fibers.msg_finished /\ FiberArms.msg_already = Fibers.msg_already /\
  FiberArms.msg_outside = Fibers.msg_outside /\ FiberArms.error_kinds_runtime = true.
Proof. repeat split; reflexivity. Qed.
Theorem C09_side_handover :
  FiberArms.load_pops_arg = true /\ FiberArms.load_pushes_closure_and_arg = true /\
  forallb (Nat.eqb 0) FiberArms.load_poke_depths = true /\
  FiberArms.unload_pops_arg = true /\ FiberArms.unload_clears_caller = true /\ FiberArms.unload_saves_ip = true /\
  FiberArms.unload_poke_arg_or_nil = true /\ FiberArms.unload_poke_depths = [0] /\
  FiberArms.return_poke_depths = [0] /\ FiberArms.return_pokes_result = true.
Proof. repeat split; reflexivity. Qed.
Theorem C09_side_arity :
  FiberArms.call_new_exact_arity = true /\ FiberArms.call_resumed_at_most_one = true /\
  FiberArms.yield_at_most_one = true.
Proof. repeat split; reflexivity. Qed.

(* the interpreter's cached registers (ip, active_chunk, active_module) are not state of M (Fibers.v, header): that is
   sound only if every switch site restores the SAME register set, all three through load_frame *)
Theorem C09_side_registers : FiberArms.switch_sites_restore_same_registers = true.
Proof. reflexivity. Qed.

(* the record of the arity of the native in progress (ObjFiber.native_arity) is not state of M either: sound only if
   nothing but the natives' own argument accessors reads it (C09_recorded_arity_stale_outside_native: outside a native
   the record of the RUNNING fiber can be stale, a hand-over that trusts it drops a slot too many) *)
Theorem C09_side_arity_scope :
  FiberArms.arity_read_only_by_native_accessors = true /\
  FiberArms.arity_readers = ["native_frame_slot"%string; "unchecked_native_frame_slot"%string].
Proof. split; reflexivity. Qed.
Theorem C09_arity_fresh_inside_native : forall s n,
  a_reachable s -> a_native s = Some n -> a_rec s (a_cur s) = Some n /\ a_recorded s = a_pending s.
Proof. exact arity_fresh_and_pending. Qed.
Theorem C09_recorded_arity_stale_outside_native :
  exists s, a_reachable s /\ a_native s = None /\ a_pending s = 0 /\ a_recorded s = 1.
Proof. exact recorded_arity_stale_outside_native. Qed.

(* --- the property: M delivers what S delivers, for every program = every interleaving --- *)
Theorem C09_transfer_faithful : forall p, eval_mech pn p = eval_coroutine p.
Proof. exact transfer_faithful. Qed.

(* the unrepaired shape of load_fiber does not have the property *)
Theorem C09_resume_without_arg_refuted : exists p, eval_mech false p <> eval_coroutine p.
Proof. exact resume_without_arg_refuted. Qed.

(* --- rejected operations leave every fiber's state untouched --- *)
Theorem C09_errors_leave_state : forall m o ip m' e c,
  current m = Some c ->
  exec_op pn m o ip = NErr m' e ->
  current m' = current m /\ handling m' = handling m /\
  (forall k, k <> c -> fibers m' k = fibers m k) /\
  caller (fibers m' c) = caller (fibers m c) /\
  frames_shape (fibers m' c) = frames_shape (fibers m c) /\
  handlers (fibers m' c) = handlers (fibers m c) /\
  open_upvalues (fibers m' c) = open_upvalues (fibers m c) /\
  firstn (List.length (stack (fibers m c)) - operands o) (stack (fibers m' c)) = below (operands o) (fibers m c).
Proof. exact (errors_leave_state pn). Qed.

(* --- an operation of one fiber touches no other fiber except the hand-over slot --- *)
Theorem C09_fiber_state_private : forall m o m' c,
  current m = Some c -> op_post pn m o = Some m' -> private_post m m' c.
Proof. exact (fiber_state_private pn). Qed.

(* --- the caller links form a simple chain from the running fiber to the root --- *)
Theorem C09_caller_chain_acyclic : forall m, reachable pn m ->
  exists c l, current m = Some c /\ is_chain m c l /\ NoDup l /\ last l 0 = 0 /\
    (forall k, ~ In k l -> caller (fibers m k) = None) /\
    (forall k, In k l -> has_finished (fibers m k) = false).
Proof. exact (caller_chain_acyclic pn). Qed.
Theorem C09_current_is_chain_head : forall m, reachable pn m ->
  exists c l, current m = Some c /\ is_chain m c l /\ hd 0 l = c.
Proof. exact (current_is_chain_head pn). Qed.
Theorem C09_check_order_irrelevant : forall m t, reachable pn m ->
  first_failing (fibers m t) [CkCaller; CkFinished] = first_failing (fibers m t) [CkFinished; CkCaller].
Proof. exact (check_order_irrelevant pn). Qed.

Print Assumptions C09_side_checks.
Print Assumptions C09_side_messages.
Print Assumptions C09_side_handover.
Print Assumptions C09_side_arity.
Print Assumptions C09_side_registers.
Print Assumptions C09_side_arity_scope.
Print Assumptions C09_arity_fresh_inside_native.
Print Assumptions C09_recorded_arity_stale_outside_native.
Print Assumptions C09_transfer_faithful.
Print Assumptions C09_resume_without_arg_refuted.
Print Assumptions C09_errors_leave_state.
Print Assumptions C09_fiber_state_private.
Print Assumptions C09_caller_chain_acyclic.
Print Assumptions C09_current_is_chain_head.
Print Assumptions C09_check_order_irrelevant.
