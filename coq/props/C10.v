(* C10 - Optimised and checked builds behave identically.
   ONLY statements: each is closed by `exact` of a lemma of theories/ (ConfigProofs.v), or is a side condition on
   tables regenerated from /repo's current sources (YVGen.CfgSites, YVGen.FiberSites, YVGen.Opcodes) decided here
   by computation. *)
From Coq Require Import List ZArith NArith Bool String.
From YVGen Require Import CfgSites FiberSites Opcodes.
From YV Require Import StackModel ConfigModel ConfigProofs.
From YV Require Heap HeapTablesRef Collect Mutator MutatorProofs Bytecode Skeleton Verifier VerifierProofs.
Import ListNotations.

(* --- tie: every cfg!/#[cfg] site of the current sources is one the model knows, attributed to its fork.
   A new or changed site breaks this obligation by name. --- *)
Theorem C10_cfg_sites_known : sites_match YVGen.CfgSites.cfg_sites = true.
Proof. vm_compute; reflexivity. Qed.
Theorem C10_cfg_sites_equal : map site_key cfg_sites_ref = YVGen.CfgSites.cfg_sites.
Proof. vm_compute; reflexivity. Qed.
Theorem C10_cfg_sites_per_fork :
  (count_fork F_GC, count_fork F_STACK, count_fork F_FIBER, count_fork F_OPCODES, count_fork F_CLASS) = (1, 5, 4, 1, 1)%nat.
Proof. vm_compute; reflexivity. Qed.

(* --- tie: the assignment / read sites of Vm.fiber and Vm.unsafe_fiber are those the fiber model is written
   after (execute, load_fiber, unload_fiber, is_loading_module, reset_stack, capture_upvalue, active_fiber, active_fiber_mut, new). --- *)
Theorem C10_fiber_sites_known : fiber_sites_match YVGen.FiberSites.fiber_sites = true.
Proof. vm_compute; reflexivity. Qed.

(* --- tie (round 9): every debug-only construct of yarel/src (debug_assert!*, debug_assertions, overflow_checks) is one
   of the 12 fork guards the model knows, in the function the model attributes it to.  A NEW debug-only assertion or
   branch breaks this obligation by name; the plug-in's search is then aimed at the function it sits in. --- *)
Theorem C10_debug_sites_known : debug_sites_match YVGen.FiberSites.debug_sites = true.
Proof. vm_compute; reflexivity. Qed.
Theorem C10_debug_sites_are_fork_guards : debug_sites_are_fork_guards = true.
Proof. vm_compute; reflexivity. Qed.

(* --- tie: run()'s dispatch has an arm for every opcode of the enum, and the verifier's opcode numbering has
   exactly as many opcodes as the enum --- *)
Theorem C10_dispatch_covers_enum :
  forallb (fun n => existsb (String.eqb n) vm_dispatch_names) opcode_names = true /\
  List.length vm_dispatch_names = List.length opcode_names /\
  Bytecode.opcode_of_N (N.of_nat (List.length opcode_names)) = None /\
  Bytecode.opcode_of_N (N.of_nat (List.length opcode_names) - 1) <> None.
Proof. repeat split; try (vm_compute; reflexivity). vm_compute; discriminate. Qed.

(* --- configurations --- *)
Theorem C10_config_of_build_dev_all_checked : forall features, config_of_build true features = all_checked.
Proof. exact config_of_build_dev_all_checked. Qed.
Theorem C10_configs_count :
  List.length release_mixes = 32%nat /\ List.length all_builds = 33%nat /\
  List.length all_configs = 32%nat /\
  (forall c, List.length (filter (config_eqb c) (map (config_of_build false) release_mixes)) = 1%nat) /\
  (forall c, In c all_configs) /\
  config_of_build true [] = config_of_build false five_features.
Proof. exact configs_count. Qed.
Theorem C10_every_config_is_built : forall c, exists fs, In fs release_mixes /\ config_of_build false fs = c.
Proof. exact every_config_is_built. Qed.

(* --- stack fork --- *)
Theorem C10_stack_raw_refines_checked : forall (T : Type) (dflt : T) (CAP : nat) ops (s : stack T),
  wf T CAP s -> no_misuse T dflt CAP ops s = true ->
  StackModel.run T dflt CAP false ops s = StackModel.run T dflt CAP true ops s /\
  has_ub T (fst (StackModel.run T dflt CAP false ops s)) = false /\
  Forall (fun r => stops T r = false /\ r <> RNone) (fst (StackModel.run T dflt CAP false ops s)) /\
  wf T CAP (snd (StackModel.run T dflt CAP false ops s)).
Proof. exact stack_raw_refines_checked. Qed.
Theorem C10_stack_checked_diverges_only_on_misuse : forall (T : Type) (dflt : T) (CAP : nat) o (s : stack T),
  wf T CAP s ->
  (step T dflt CAP true o s <> step T dflt CAP false o s <-> misuse T CAP o s = true).
Proof. exact stack_checked_diverges_only_on_misuse. Qed.

(* --- fiber fork --- *)
Theorem C10_fiber_ptr_inv : forall cell ops, ptr_ok (snd (frun cell ops f_init)).
Proof. exact fiber_ptr_inv. Qed.
Theorem C10_fiber_ptr_eq_after_ok : forall cell o s s', ptr_ok s -> fstep cell o s = (FOk, s') ->
  unsafe_fiber s' = fiber s' /\ fiber s' <> None.
Proof. exact fiber_ptr_eq_after_ok. Qed.
Theorem C10_fiber_repr_equiv : forall ops s, ptr_ok s ->
  ~ In FPanic (fst (frun true ops s)) ->
  frun false ops s = frun true ops s /\ ~ In FUB (fst (frun false ops s)).
Proof. exact fiber_repr_equiv. Qed.
Theorem C10_capture_owner_is_active : forall cell ops a o s',
  fstep cell OCapture (snd (frun cell ops f_init)) = (FCaptured a o, s') -> a = o.
Proof. exact capture_owner_is_active. Qed.
Theorem C10_fiber_ptr_strict_refuted : exists cell ops,
  let s := snd (frun cell ops f_init) in unsafe_fiber s <> fiber s /\ fiber s = None.
Proof. exact fiber_ptr_strict_refuted. Qed.

(* --- gc fork (C01's schedule_independence for the two pacing policies; repaired tables) --- *)
Theorem C10_gc_config_irrelevant :
  forall nregs (p : list Mutator.mop) (c1 c2 : config) (paced1 paced2 : list bool),
    let run := Mutator.run HeapTablesRef.marks_fixed HeapTablesRef.blackens_black_fixed
                           HeapTablesRef.blackens_mark_fixed HeapTablesRef.holds_ref HeapTablesRef.pinned_ref in
    run nregs (gc_schedule c1 paced1 (List.length p)) p = run nregs (gc_schedule c2 paced2 (List.length p)) p /\
    Mutator.has_uaf (run nregs (gc_schedule c1 paced1 (List.length p)) p) = false /\
    Mutator.has_diverged (run nregs (gc_schedule c1 paced1 (List.length p)) p) = false.
Proof. exact gc_config_irrelevant. Qed.
Theorem C10_gc_config_relevant_today_refuted : exists nregs p paced,
    let run := Mutator.run HeapTablesRef.marks_ref HeapTablesRef.blackens_black_ref
                           HeapTablesRef.blackens_mark_ref HeapTablesRef.holds_ref HeapTablesRef.pinned_ref in
    run nregs (gc_schedule all_checked paced (List.length p)) p <> run nregs (gc_schedule all_raw paced (List.length p)) p /\
    Mutator.has_uaf (run nregs (gc_schedule all_checked paced (List.length p)) p) = true /\
    Mutator.has_uaf (run nregs (gc_schedule all_raw paced (List.length p)) p) = false.
Proof. exact gc_config_relevant_today_refuted. Qed.

(* --- opcodes fork --- *)
Theorem C10_dispatch_assumed_ok : forall b p f a, Verifier.check_fn b p f a = true ->
  forall s, VerifierProofs.reachable b p f s ->
  exists byte o, Bytecode.byte_at (Bytecode.code f) (Skeleton.pc s) = Some byte /\
                 Bytecode.opcode_of_N byte = Some o /\ (Skeleton.pc s < Bytecode.code_len f)%N.
Proof. exact dispatch_assumed_ok. Qed.

Print Assumptions C10_cfg_sites_known.
Print Assumptions C10_cfg_sites_equal.
Print Assumptions C10_cfg_sites_per_fork.
Print Assumptions C10_fiber_sites_known.
Print Assumptions C10_debug_sites_known.
Print Assumptions C10_debug_sites_are_fork_guards.
Print Assumptions C10_dispatch_covers_enum.
Print Assumptions C10_config_of_build_dev_all_checked.
Print Assumptions C10_configs_count.
Print Assumptions C10_every_config_is_built.
Print Assumptions C10_stack_raw_refines_checked.
Print Assumptions C10_stack_checked_diverges_only_on_misuse.
Print Assumptions C10_fiber_ptr_inv.
Print Assumptions C10_fiber_ptr_eq_after_ok.
Print Assumptions C10_fiber_repr_equiv.
Print Assumptions C10_capture_owner_is_active.
Print Assumptions C10_fiber_ptr_strict_refuted.
Print Assumptions C10_gc_config_irrelevant.
Print Assumptions C10_gc_config_relevant_today_refuted.
Print Assumptions C10_dispatch_assumed_ok.

(* ======================================================================================================== *)
(* R2G block (added; see notes/R2G.md): the `cfg!(..) && cond` guards of Stack::{peek,peek_mut,push,pop} and the
   clamp of Stack::truncate, TRANSLATED from the current stack.rs into gen/PureStack.v by
   translator/rust2gallina.py on every run (the cfg! as a boolean parameter, Stack::len as the abstract value
   `self_len`), equal the guards of the hand-written model StackModel.  A change of one of these conditions changes
   the generated text and breaks the NAMED statement. *)
From YVGen Require PureStack.
From YV Require R2G R2GProofs PureEquivStack.
Theorem C10_gen_stack_peek_guard_eq_model : forall (T : Type) chk depth (s : StackModel.stack T),
  PureStack.Stack_peek_guard chk (PureEquivStack.zlen T s) (Z.of_nat depth) = chk && (len_u T s <=? depth)%nat.
Proof. exact PureEquivStack.gen_stack_peek_guard_eq_model. Qed.
Theorem C10_gen_stack_peek_mut_guard_eq_model : forall (T : Type) chk depth (s : StackModel.stack T),
  PureStack.Stack_peek_mut_guard chk (PureEquivStack.zlen T s) (Z.of_nat depth) = chk && (len_u T s <=? depth)%nat.
Proof. exact PureEquivStack.gen_stack_peek_mut_guard_eq_model. Qed.
Theorem C10_gen_stack_push_guard_eq_model : forall (T : Type) (CAP : nat) chk (s : StackModel.stack T),
  PureStack.Stack_push_guard chk (Z.of_nat CAP) (PureEquivStack.zlen T s) = chk && (len_u T s =? CAP)%nat.
Proof. exact PureEquivStack.gen_stack_push_guard_eq_model. Qed.
Theorem C10_gen_stack_pop_guard_eq_model : forall (T : Type) chk (s : StackModel.stack T),
  PureStack.Stack_pop_guard chk (PureEquivStack.zlen T s) = chk && (len_u T s =? 0)%nat.
Proof. exact PureEquivStack.gen_stack_pop_guard_eq_model. Qed.
Theorem C10_gen_stack_truncate_size_eq_model : forall (T : Type) chk size (s : StackModel.stack T),
  PureStack.Stack_truncate_size chk (PureEquivStack.zlen T s) (Z.of_nat size) =
  Z.of_nat (if chk && (len_u T s <? size)%nat then len_u T s else size).
Proof. exact PureEquivStack.gen_stack_truncate_size_eq_model. Qed.
(* every guard is under the same build condition *)
Theorem C10_gen_stack_guard_cfgs :
  PureStack.Stack_peek_guard_cfgs = PureEquivStack.safe_stack_cfg /\
  PureStack.Stack_peek_mut_guard_cfgs = PureEquivStack.safe_stack_cfg /\
  PureStack.Stack_push_guard_cfgs = PureEquivStack.safe_stack_cfg /\
  PureStack.Stack_pop_guard_cfgs = PureEquivStack.safe_stack_cfg /\
  PureStack.Stack_truncate_size_cfgs = PureEquivStack.safe_stack_cfg.
Proof. exact PureEquivStack.gen_stack_guard_cfgs. Qed.
Print Assumptions C10_gen_stack_peek_guard_eq_model.
Print Assumptions C10_gen_stack_peek_mut_guard_eq_model.
Print Assumptions C10_gen_stack_push_guard_eq_model.
Print Assumptions C10_gen_stack_pop_guard_eq_model.
Print Assumptions C10_gen_stack_truncate_size_eq_model.
Print Assumptions C10_gen_stack_guard_cfgs.
(* ================================================ end of the R2G block ================================= *)

(* ======================================================================================================== *)
(* Arithmetic that is overflow-checked in a dev build and wrapping in a release build (theories/ArithNoFault.v).
   (a) the hashing code outside the r2g subset (closures): the regenerated operator table must show NO checked
       operator (+ - * / % << >>) in `impl Hash for Value`, `impl Hash for Gc<ObjTuple>`, `impl Hash for Gc<ObjString>`
       and PassThroughHasher, the tuple combiner must be the total `a ^ b`, and the set of Hash/Hasher impls must be the
       known one (a new hashable kind has to be looked at);
   (b) for the functions regenerated by the r2g translator: the fault branch (the dev panic) is unreachable for all
       inputs. *)
From YVGen Require HashArith PureNum PureIntern PureIndex.
From YV Require R2G Index ArithNoFault.
Theorem C10_hash_no_checked_arith :
  map (fun r => (fst (fst r), snd (fst r))) YVGen.HashArith.hash_arith =
    [("value.rs: impl Hash for Value", []); ("object.rs: impl Hash for Gc < ObjTuple >", []);
     ("object.rs: impl Hash for Gc < ObjString >", []); ("hash.rs: impl Hasher for PassThroughHasher", []);
     ("hash.rs: impl Default for PassThroughHasher", [])]%string.
Proof. vm_compute; reflexivity. Qed.
Theorem C10_hash_tuple_combiner_total :
  map snd YVGen.HashArith.hash_arith = [[") ^ utils"; ") ^ utils"]; ["a ^ b"]; []; []; []]%string.
Proof. vm_compute; reflexivity. Qed.
Theorem C10_hash_impls_known :
  YVGen.HashArith.hash_impls =
    ["hash.rs: impl Hasher for FnvHasher"; "hash.rs: impl Hasher for PassThroughHasher";
     "hash.rs: impl BuildHasher for BuildPassThroughHasher"; "object.rs: impl Hash for Gc < ObjString >";
     "object.rs: impl Hash for Gc < ObjTuple >"; "value.rs: impl Hash for Value"]%string.
Proof. vm_compute; reflexivity. Qed.
Theorem C10_hash_number_total_u64 : forall x, (0 <= PureNum.hash_number x < 2 ^ 64)%Z.
Proof. exact ArithNoFault.hash_number_total_u64. Qed.
Theorem C10_fnv_write_no_fault : forall l h, (0 <= h < 2 ^ 64)%Z ->
  exists v, PureIntern.FnvHasher_write h l = R2G.Val v.
Proof. exact ArithNoFault.fnv_write_no_fault. Qed.
Theorem C10_bounded_index_no_fault : forall x shown bound kind, (0 <= bound <= Index.isize_max)%Z ->
  exists v, PureIndex.try_as_bounded_index (R2G.RNumber x) shown bound kind = R2G.Val v.
Proof. exact ArithNoFault.bounded_index_no_fault. Qed.
Theorem C10_bounded_range_no_fault : forall rb re limit kind,
  Index.in_isize rb = true -> Index.in_isize re = true -> (0 <= limit <= Index.isize_max)%Z ->
  exists v, PureIndex.make_bounded_range rb re limit kind = R2G.Val v.
Proof. exact ArithNoFault.bounded_range_no_fault. Qed.
Print Assumptions C10_hash_no_checked_arith.
Print Assumptions C10_hash_tuple_combiner_total.
Print Assumptions C10_hash_impls_known.
Print Assumptions C10_hash_number_total_u64.
Print Assumptions C10_fnv_write_no_fault.
Print Assumptions C10_bounded_index_no_fault.
Print Assumptions C10_bounded_range_no_fault.
