(* C11 - Strings are equal exactly when their contents are equal.
   ONLY statements: each is closed by `exact` of a lemma of theories/, instantiated with the constants
   regenerated from /repo's vm.rs (YVGen.Consts), whose side conditions are decided here by computation. *)
From Coq Require Import List NArith Arith Lia.
From YVGen Require Import Consts.
From YV Require Import SideCond Intern InternRun InternProofs InternRefine.
Import ListNotations.

Definition cap := N.to_nat INIT_CAPACITY.
Definition ln := N.to_nat MAX_LOAD_NUM.
Definition ld := N.to_nat MAX_LOAD_DEN.

(* --- side conditions on the current source's constants --- *)
Theorem C11_side_consts_known : consts_all_known = true /\ MAX_LOAD_dyadic = true.
Proof. split; reflexivity. Qed.
Theorem C11_side_load : 0 < ln < ld.
Proof. vm_compute; lia. Qed.
Theorem C11_side_cap : exists k, cap = 2 ^ k.
Proof. apply is_pow2b_sound; vm_compute; reflexivity. Qed.
Theorem C11_side_lim : 1 <= load_limit ln ld cap.
Proof. vm_compute; lia. Qed.

(* --- the table invariant holds initially and is preserved by every insert (also across growth) --- *)
Theorem C11_empty_inv : Inv ln ld (empty_table cap).
Proof. exact (empty_inv cap ln ld C11_side_load C11_side_cap C11_side_lim). Qed.
Theorem C11_insert_inv : forall t e, Inv ln ld t ->
  exists t' old, insert ln ld t e = Some (t', old) /\ Inv ln ld t' /\
    old = lookup t (ehash e) (etext e) /\
    size t' = match old with None => S (size t) | Some _ => size t end.
Proof. exact (insert_inv ln ld C11_side_load). Qed.

(* --- the unbounded probe loop of find_index terminates, inside the table --- *)
Theorem C11_find_index_total : forall t h s, Inv ln ld t ->
  exists i, find_index (entries t) h s (mask t) = Some i /\ i < length (entries t).
Proof. exact (find_index_total ln ld C11_side_load). Qed.

(* --- get is a correct lookup; insert changes exactly one key --- *)
Theorem C11_get_spec : forall t h s, Inv ln ld t -> get t h s = Some (lookup t h s).
Proof. exact (get_spec ln ld C11_side_load). Qed.
Theorem C11_insert_lookup : forall t t' e old, Inv ln ld t -> insert ln ld t e = Some (t', old) ->
  lookup t' (ehash e) (etext e) = Some e /\
  (forall h s, ~ (h = ehash e /\ s = etext e) -> lookup t' h s = lookup t h s) /\
  old = lookup t (ehash e) (etext e).
Proof. exact (insert_lookup ln ld C11_side_load). Qed.

(* --- main theorem: for EVERY hash function and every history of string creations the table never
   gets stuck and hands out the identities of a byte-keyed map --- *)
Theorem C11_intern_refines_map : forall (hashf : text -> N) (l : list text),
  exists st, intern_all ln ld hashf (init_state cap) l = Some (st, spec_intern_all [] 0%N l)
             /\ Inv ln ld (tbl st).
Proof. exact (intern_refines_map cap ln ld C11_side_load C11_side_cap C11_side_lim). Qed.

(* --- the property: same identity iff same bytes --- *)
Theorem C11_identity_iff_equal : forall (hashf : text -> N) l st ids,
  intern_all ln ld hashf (init_state cap) l = Some (st, ids) ->
  length ids = length l /\
  forall i j, i < length l -> j < length l ->
    (nth i ids 0%N = nth j ids 0%N <-> nth i l [] = nth j l []).
Proof. exact (intern_identity_iff_equal cap ln ld C11_side_load C11_side_cap C11_side_lim). Qed.

(* --- the interface driven through hook H3 (caller-chosen hashes): never stuck, refines the Spec --- *)
Theorem C11_run_ops_never_stuck : forall ops next,
  ~ In RStuck (fst (run_ops ln ld (empty_table cap) next ops)) /\
  Inv ln ld (snd (run_ops ln ld (empty_table cap) next ops)).
Proof. exact (run_ops_never_stuck cap ln ld C11_side_load C11_side_cap C11_side_lim). Qed.
Theorem C11_run_ops_refines_spec : forall ops,
  fst (run_ops ln ld (empty_table cap) 0%N ops) = spec_run_ops [] 0%N ops.
Proof. exact (run_ops_refines_spec cap ln ld C11_side_load C11_side_cap C11_side_lim). Qed.

Print Assumptions C11_side_consts_known.
Print Assumptions C11_side_load.
Print Assumptions C11_side_cap.
Print Assumptions C11_side_lim.
Print Assumptions C11_empty_inv.
Print Assumptions C11_insert_inv.
Print Assumptions C11_find_index_total.
Print Assumptions C11_get_spec.
Print Assumptions C11_insert_lookup.
Print Assumptions C11_intern_refines_map.
Print Assumptions C11_identity_iff_equal.
Print Assumptions C11_run_ops_never_stuck.
Print Assumptions C11_run_ops_refines_spec.

(* ======================================================================================================== *)
(* R2G block (added; see notes/R2G.md): hash::FnvHasher::{default,write,finish}, string_store::find_index and the
   growth test of ObjStringStore::insert, TRANSLATED from the current hash.rs / vm.rs into gen/PureIntern.v by
   translator/rust2gallina.py on every run, equal the hand-written models (Num.fnv_*, Intern.probe / find_index /
   load_limit).  A change of one of these Rust functions changes the generated text and breaks the NAMED statement. *)
From Coq Require Import ZArith.
From YVGen Require PureIntern.
From YV Require Num R2G R2GProofs PureEquivIntern.
Theorem C11_gen_fnv_write_eq_model : forall l h, (0 <= h < Num.two64)%Z ->
  PureIntern.FnvHasher_write h l = R2G.Val (Num.fnv_write h l).
Proof. exact PureEquivIntern.gen_fnv_write_eq_model. Qed.
Theorem C11_gen_fnv_hash_eq_model : forall l,
  R2G.rbind (PureIntern.FnvHasher_write PureIntern.FnvHasher_default l) (fun h =>
  R2G.rbind (PureIntern.FnvHasher_write h [Byte.xff]) (fun h => R2G.Val (PureIntern.FnvHasher_finish h)))
  = R2G.Val (Num.fnv_hash l).
Proof. exact PureEquivIntern.gen_fnv_hash_eq_model. Qed.
(* the probe loop: for EVERY fuel, table, key and mask (a fault of the generated code = the model's None) *)
Theorem C11_gen_find_index_eq_model : forall fuel es h s m,
  (Z.of_nat (length es) < 2 ^ 64)%Z ->
  R2GProofs.to_opt (PureIntern.find_index fuel (PureEquivIntern.table_view es) (Z.of_N h, s) (Z.of_N m)) =
  option_map Z.of_nat (probe fuel es h s m (N.land h m)).
Proof. exact PureEquivIntern.gen_find_index_eq_model. Qed.
(* BOUNDED CHECK (the float expression is evaluated, not reasoned about): every capacity up to 4096 and every
   power of two up to 2^62; the general statement is in theories/PureEquivIntern.v *)
Theorem C11_gen_insert_growth_test_eq_model_partial : forall es size,
  In (R2G.list_len es) PureEquivIntern.checked_caps -> (0 <= size)%Z -> (size + 1 < 2 ^ 64)%Z ->
  PureIntern.insert_growth_test es size =
  R2G.Val (Nat.ltb (load_limit (Z.to_nat PureEquivIntern.ln) (Z.to_nat PureEquivIntern.ld) (length es))
                   (Z.to_nat size + 1)).
Proof. exact PureEquivIntern.gen_insert_growth_test_eq_model_partial. Qed.
(* the constant the generated test uses is the one the theorems above are instantiated with *)
Theorem C11_gen_load_consts : Z.to_nat PureEquivIntern.ln = ln /\ Z.to_nat PureEquivIntern.ld = ld.
Proof. split; reflexivity. Qed.
Print Assumptions C11_gen_fnv_write_eq_model.
Print Assumptions C11_gen_fnv_hash_eq_model.
Print Assumptions C11_gen_find_index_eq_model.
Print Assumptions C11_gen_insert_growth_test_eq_model_partial.
Print Assumptions C11_gen_load_consts.
(* ================================================ end of the R2G block ================================= *)

(* ======================================================================================================== *)
(* Round 9 block: every ROUTE by which a string object comes into existence goes through the intern table.
   gen/StrSites.v (translator/translate_c11.py) lists EVERY construction of an ObjString value in the current
   yarel/src; the only ones allowed are the constructor itself, the interner and hook H3.  A new site (an error
   message, a type name, a conversion that allocates its own ObjString) changes the table and breaks the statement. *)
From Coq Require Import String.
From YVGen Require StrSites.
Theorem C11_objstring_construction_sites_all_intern :
  StrSites.objstring_construction_sites =
  [("object.rs", "ObjString::new", "struct literal");
   ("vm.rs", "Vm::new_gc_obj_string", "ObjString::new");
   ("vm.rs", "verif_intern::InternTable::insert", "ObjString::new")]%string.
Proof. reflexivity. Qed.
(* Vm::new_gc_obj_string: ONE table lookup, ONE construction and ONE registration, all directly in the function body
   (depth 1 = not under any condition), and one early return (the hit, inside the `if let Some`) *)
Theorem C11_interner_registers_unconditionally :
  StrSites.intern_fn_get_depths = [1] /\ StrSites.intern_fn_ctor_depths = [1] /\
  StrSites.intern_fn_insert_depths = [1] /\ StrSites.intern_fn_return_depths = [2].
Proof. repeat split; reflexivity. Qed.
(* the derive list of struct ObjString is the known one (Clone is there and unused on ObjString values: see notes/C11.md) *)
Theorem C11_objstring_derives_known : StrSites.objstring_derives = ["Clone"; "Debug"]%string.
Proof. reflexivity. Qed.
Print Assumptions C11_objstring_construction_sites_all_intern.
Print Assumptions C11_interner_registers_unconditionally.
Print Assumptions C11_objstring_derives_known.
(* ================================================ end of the round 9 block ============================== *)
