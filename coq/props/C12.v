(* C12 - HashMap behaves as a map keyed by value equality.
   ONLY statements: each is closed by `exact` of a lemma of theories/, instantiated with the tables and
   parameters regenerated from /repo's sources (YVGen.ValueArms, YVGen.Consts); table equalities and side
   conditions are decided by computation. *)
From Coq Require Import List ZArith NArith Bool String Permutation.
From YVGen Require Import Consts ValueArms.
From YV Require Import Num ValueEq HashMapModel HashMapProofs RangeCache RangeCacheModel HashMapScaleProofs.
Import ListNotations.

Definition norm_neg_zero : bool := ValueArms.hash_number_normalises_neg_zero.
Definition hc : hconsts := mkH bool_hash_true bool_hash_false none_hash tuple_fold_seed tuple_fold_add.
Definition cache_size : nat := N.to_nat RANGE_CACHE_SIZE.

(* --- the source still has the arms that ValueEq.v models (a changed arm breaks the named obligation) --- *)
Theorem C12_has_hash_arms : has_hash_arms = model_has_hash_arms /\ tuple_has_hash = model_tuple_has_hash.
Proof. split; reflexivity. Qed.
Theorem C12_hash_arms : hash_arms = model_hash_arms /\ tuple_hash = model_tuple_hash.
Proof. split; reflexivity. Qed.
Theorem C12_eq_arms : eq_arms = model_eq_arms /\ tuple_eq = model_tuple_eq /\ gc_eq = model_gc_eq.
Proof. repeat split; reflexivity. Qed.
Theorem C12_key_error_format :
  key_error_formats = [(err_prefix ++ "{}" ++ err_suffix)%string; (err_prefix ++ "{}" ++ err_suffix)%string].
Proof. vm_compute; reflexivity. Qed.
Theorem C12_hash_params_known : hash_number_shape_known = true /\ hash_params_known = true.
Proof. split; reflexivity. Qed.
Theorem C12_cache_size : cache_size = 8%nat.
Proof. vm_compute; reflexivity. Qed.

(* --- == values hash equally: ALL values (needs hash_number to normalise -0: norm_neg_zero = true) --- *)
Theorem C12_coherent_hashable : coherent norm_neg_zero hc.
Proof. exact (coherent_hashable hc). Qed.

(* --- the property: for EVERY operation sequence the bucket mechanism of std::HashMap with Value's hash and ==
   returns what an association list under == returns (enumerations as multisets) --- *)
Theorem C12_buckets_refine_assoc : forall (V : Type) (ops : list (op kv V)),
  Forall2 (res_equiv kv V) (fst (m_run kv V veq (vhash norm_neg_zero hc) has_hash [] ops))
                           (fst (s_run kv V veq has_hash [] ops)).
Proof. exact (fun V => refines_when_coherent V norm_neg_zero hc C12_coherent_hashable). Qed.

(* the same for any key type: coherence on the keys used is all that is needed *)
Theorem C12_buckets_refine_assoc_generic : forall (K V : Type) keq khash khashable (ops : list (op K V)),
  coherent_on K keq khash khashable (flat_map (op_keys K V) ops) ->
  Forall2 (res_equiv K V) (fst (m_run K V keq khash khashable [] ops)) (fst (s_run K V keq khashable [] ops)).
Proof. exact buckets_refine_assoc. Qed.

Theorem C12_enumerate_once : forall (V : Type) (ops : list (op kv V)),
  let m := snd (m_run kv V veq (vhash norm_neg_zero hc) has_hash [] ops) in
  let s := snd (s_run kv V veq has_hash [] ops) in
  Permutation (m_items kv V m) s /\ Permutation (m_keys kv V m) (map fst s) /\
  Permutation (m_values kv V m) (map snd s) /\ m_len kv V m = List.length s /\ nodupk kv V veq s.
Proof.
  exact (fun V ops => enumerate_once kv V veq (vhash norm_neg_zero hc) has_hash ops
                        (coherent_on_all norm_neg_zero hc C12_coherent_hashable _)).
Qed.

Theorem C12_unhashable_rejected_unchanged : forall (V : Type) m s (o : op kv V) k,
  key_of_op kv V has_hash o = Some k -> has_hash k = false ->
  m_step kv V veq (vhash norm_neg_zero hc) has_hash m o = (m, RErr k) /\
  s_step kv V veq has_hash s o = (s, RErr k).
Proof. exact (fun V => unhashable_rejected_unchanged kv V veq (vhash norm_neg_zero hc) has_hash). Qed.

Theorem C12_nan_keys : forall (V : Type) (v : V),
  (forall m, NoDup (map fst m) ->
     snd (m_insert kv V veq (vhash norm_neg_zero hc) m (KNum f64_nan) v) = None /\
     m_len kv V (fst (m_insert kv V veq (vhash norm_neg_zero hc) m (KNum f64_nan) v)) = S (m_len kv V m) /\
     m_get kv V veq (vhash norm_neg_zero hc) (fst (m_insert kv V veq (vhash norm_neg_zero hc) m (KNum f64_nan) v)) (KNum f64_nan) = None /\
     m_get kv V veq (vhash norm_neg_zero hc) m (KNum f64_nan) = None /\
     NoDup (map fst (fst (m_insert kv V veq (vhash norm_neg_zero hc) m (KNum f64_nan) v)))) /\
  (forall s, snd (s_insert kv V veq s (KNum f64_nan) v) = None /\
     List.length (fst (s_insert kv V veq s (KNum f64_nan) v)) = S (List.length s) /\
     s_get kv V veq (fst (s_insert kv V veq s (KNum f64_nan) v)) (KNum f64_nan) = None /\
     s_get kv V veq s (KNum f64_nan) = None).
Proof. exact (fun V => nan_keys V norm_neg_zero hc). Qed.

Theorem C12_tuple_hash_structural : forall i l j m,
  Forall2 (fun a b => vhash norm_neg_zero hc a = vhash norm_neg_zero hc b) l m ->
  vhash norm_neg_zero hc (KTuple i l) = vhash norm_neg_zero hc (KTuple j m).
Proof. exact (tuple_hash_structural norm_neg_zero hc). Qed.

(* --- what the code did before the repair of hash_number (kept: the check must notice a regression) --- *)
Theorem C12_coherent_refuted_without_normalisation : ~ coherent false hc.
Proof. exact (coherent_refuted_num hc). Qed.
Theorem C12_coherent_except_neg_zero : forall a b, no_neg_zero a = true -> no_neg_zero b = true ->
  veq a b = true -> vhash false hc a = vhash false hc b.
Proof. exact (coherent_except_neg_zero hc). Qed.

(* --- ranges: `a..b == a..b` depends on the cache; both sides of the boundary --- *)
Theorem C12_range_identity_within : forall n, (n <= cache_size - 1)%nat ->
  exists x y, twice_with_gap cache_size 0 3 n = Some (x, y) /\ veq x y = true.
Proof. exact range_identity_within_8. Qed.
Theorem C12_range_identity_beyond :
  exists x y, twice_with_gap cache_size 0 3 cache_size = Some (x, y) /\ veq x y = false /\
              forall norm h, vhash norm h x = vhash norm h y.
Proof. exact range_identity_beyond_8. Qed.

(* --- SCALE (round 9): nothing depends on how deep or how wide a key is.  `path ids node leaf n` = the cons-list
   key `(node, rest)` with n links of the nesting-depth ladder of tools/props/C12.py, for EVERY n --- *)
Theorem C12_deep_key_hashable : forall ids node leaf n,
  (forall i, has_hash (node i) = true) -> has_hash leaf = true -> has_hash (path ids node leaf n) = true.
Proof. exact deep_key_hashable. Qed.
Theorem C12_deep_key_unhashable : forall ids node leaf n,
  has_hash leaf = false -> has_hash (path ids node leaf n) = false.
Proof. exact deep_key_unhashable. Qed.
Theorem C12_wide_key_hashable : forall id l, Forall (fun x => has_hash x = true) l -> has_hash (KTuple id l) = true.
Proof. exact wide_key_hashable. Qed.
Theorem C12_wide_key_unhashable : forall id l x, In x l -> has_hash x = false -> has_hash (KTuple id l) = false.
Proof. exact wide_key_unhashable. Qed.
Theorem C12_deep_key_eq : forall ids ids' node leaf n,
  (forall i, veq (node i) (node i) = true) -> veq leaf leaf = true ->
  veq (path ids node leaf n) (path ids' node leaf n) = true.
Proof. exact deep_key_eq. Qed.
Theorem C12_deep_key_neq : forall ids ids' node leaf leaf' n,
  veq leaf leaf' = false -> kv_same leaf leaf' = false ->
  veq (path ids node leaf n) (path ids' node leaf' n) = false /\
  kv_same (path ids node leaf n) (path ids' node leaf' n) = false.
Proof. exact deep_key_neq. Qed.
(* the session of the ladder on the mechanism M, at every depth n: p and q are the same path built twice, o differs
   at the innermost position only *)
Theorem C12_deep_key_roundtrip : forall (V : Type) ids ids' node leaf leaf' n (v w : V),
  (forall i, has_hash (node i) = true) -> (forall i, veq (node i) (node i) = true) ->
  has_hash leaf = true -> veq leaf leaf = true ->
  has_hash leaf' = true -> veq leaf' leaf = false -> kv_same leaf' leaf = false ->
  let p := path ids node leaf n in
  let q := path ids' node leaf n in
  let o := path ids' node leaf' n in
  fst (m_run kv V veq (vhash norm_neg_zero hc) has_hash []
         [OInsert p v; OHasKey q; OGet q; OLen; OHasKey o; OInsert o w; OLen; OGet p]) =
  [RVal None; RBool true; RVal (Some v); RLen 1; RBool false; RVal None; RLen 2; RVal (Some v)].
Proof. exact (fun V => deep_key_roundtrip V norm_neg_zero hc C12_coherent_hashable). Qed.

Print Assumptions C12_has_hash_arms.
Print Assumptions C12_hash_arms.
Print Assumptions C12_eq_arms.
Print Assumptions C12_key_error_format.
Print Assumptions C12_hash_params_known.
Print Assumptions C12_cache_size.
Print Assumptions C12_coherent_hashable.
Print Assumptions C12_buckets_refine_assoc.
Print Assumptions C12_buckets_refine_assoc_generic.
Print Assumptions C12_enumerate_once.
Print Assumptions C12_unhashable_rejected_unchanged.
Print Assumptions C12_nan_keys.
Print Assumptions C12_tuple_hash_structural.
Print Assumptions C12_coherent_refuted_without_normalisation.
Print Assumptions C12_coherent_except_neg_zero.
Print Assumptions C12_range_identity_within.
Print Assumptions C12_range_identity_beyond.
Print Assumptions C12_deep_key_hashable.
Print Assumptions C12_deep_key_unhashable.
Print Assumptions C12_wide_key_hashable.
Print Assumptions C12_wide_key_unhashable.
Print Assumptions C12_deep_key_eq.
Print Assumptions C12_deep_key_neq.
Print Assumptions C12_deep_key_roundtrip.

(* ======================================================================================================== *)
(* R2G block (added; see notes/R2G.md): utils::hash_number, TRANSLATED from the current utils.rs into
   gen/PureNum.v by translator/rust2gallina.py on every run, equals the model used above (hash_number' with the
   -0 normalisation), for every valid double.  A change of the Rust function changes the generated text and breaks
   THIS named statement. *)
From YVGen Require PureNum.
From YV Require PureEquivNum.
Theorem C12_gen_hash_number_eq_model : forall x, f64_valid x = true ->
  PureNum.hash_number x = hash_number' true x.
Proof. exact PureEquivNum.gen_hash_number_eq_model. Qed.
Print Assumptions C12_gen_hash_number_eq_model.
(* ================================================ end of the R2G block ================================= *)
