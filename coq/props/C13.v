(* C13 - Indexing, slicing and string functions match a byte-exact model.
   ONLY statements: each is closed by `exact` of a lemma of theories/ (Utf8Proofs, IndexProofs, StrProofs,
   StrRunProofs), or - for the tie to the source - decided by computation on the tables regenerated from
   /repo's utils.rs, value.rs, object.rs, vm.rs, core.rs (YVGen.StrMsgs).
   M = Index.v / StrFns.v (what the Rust code computes), S = StrSpec.v (characters, boundaries, code points). *)
From Coq Require Import String List NArith ZArith Bool Arith Lia.
From Coq Require Import Strings.Byte Floats.SpecFloat.
From YVGen Require Import StrMsgs.
From YV Require Import Show Utf8 Index StrFns StrSpec Num NumText
     Utf8Proofs IndexProofs StrProofs StrRun StrRunProofs StrMsg.
Import ListNotations.
Local Open Scope string_scope.

(* ================= UTF-8 reference model ================= *)
Theorem C13_decode_encode : forall cps bs, encode cps = Some bs -> decode bs = Some cps.
Proof. exact decode_encode. Qed.
Theorem C13_encode_decode : forall bs cps, decode bs = Some cps -> encode cps = Some bs.
Proof. exact encode_decode. Qed.
Theorem C13_chars_concat : forall s, valid_utf8 s = true -> concat (chars s) = s.
Proof. exact chars_concat. Qed.
Theorem C13_chars_single : forall s c, In c (chars s) ->
  (1 <= length c <= 4)%nat /\ exists cp, decode c = Some [cp] /\ encode_cp cp = Some c.
Proof. exact chars_single. Qed.
Theorem C13_boundary_iff : forall s i, valid_utf8 s = true ->
  (is_char_boundary s i = true <-> In i (boundaries s)).
Proof. exact boundary_iff. Qed.
Theorem C13_boundary_iff_offset : forall s i, valid_utf8 s = true ->
  (is_char_boundary s i = true <->
   exists k, (k <= length (chars s))%nat /\ i = length (concat (firstn k (chars s)))).
Proof. exact boundary_iff_offset. Qed.
Theorem C13_valid_up_to_none : forall s, valid_up_to s = None <-> valid_utf8 s = true.
Proof. exact valid_up_to_none. Qed.
Theorem C13_valid_up_to_some : forall s i, valid_up_to s = Some i ->
  (i < length s)%nat /\ valid_utf8 (firstn i s) = true /\ valid_utf8 s = false.
Proof. exact valid_up_to_some. Qed.

(* ================= integer index logic: every number, every length ================= *)
Theorem C13_isize_add_no_overflow : forall a b,
  (isize_min <= a < 0)%Z -> (0 <= b <= isize_max)%Z -> isize_add a b = (a + b)%Z.
Proof. exact isize_add_no_overflow. Qed.
Theorem C13_bounded_index_exact : forall kind shown i b,
  (0 <= b <= isize_max)%Z -> idx_wf i = true ->
  bounded_index kind shown i b =
  match i with
  | INotNumber => Error (TypeError ("Expected an integer value but found '" ++ shown ++ "'."))
  | INotIntegral => Error (ValueError ("Expected an integer value but found '" ++ shown ++ "'."))
  | IInt z =>
    match spec_index z b with
    | Some k => Ok k
    | None => Error (IndexError (kind ++ " index out of bounds."))
    end
  end.
Proof. exact bounded_index_exact. Qed.
Theorem C13_spec_index_iff : forall z b k,
  spec_index z b = Some k <-> ((- b <= z < b)%Z /\ k = Z.to_nat (z mod b)).
Proof. exact spec_index_iff. Qed.
(* over ALL binary64 values (NaN, +-inf, fractions, |x| >= 2^63 saturating) *)
Theorem C13_idx_of_f64 : forall x,
  idx_of_num (num_of_f64 x) = if is_integral x then IInt (to_isize x) else INotIntegral.
Proof. exact idx_of_f64. Qed.
Theorem C13_bounded_index_all_floats : forall kind shown x b,
  (0 <= b <= isize_max)%Z ->
  bounded_index kind shown (idx_of_num (num_of_f64 x)) b =
  if is_integral x then
    match spec_index (to_isize x) b with
    | Some k => Ok k
    | None => Error (IndexError (kind ++ " index out of bounds."))
    end
  else Error (ValueError ("Expected an integer value but found '" ++ shown ++ "'.")).
Proof. exact bounded_index_all_floats. Qed.
Theorem C13_bounded_range_exact : forall kind rb re limit,
  (0 <= limit <= isize_max)%Z -> in_isize rb = true -> in_isize re = true ->
  bounded_range kind rb re limit =
  let b := norm_pos rb limit in
  let e := norm_pos re limit in
  if negb ((0 <=? b) && (b <? limit))%Z then Error (IndexError (kind ++ " slice start out of range."))
  else if negb ((0 <=? e) && (e <=? limit))%Z then Error (IndexError (kind ++ " slice end out of range."))
  else Ok (Z.to_nat b, Z.to_nat (Z.max b e)).
Proof. exact bounded_range_exact. Qed.

(* ================= string indexing and slicing ================= *)
Theorem C13_get_item_index_spec : forall s n sh, valid_utf8 s = true -> len_ok s ->
  string_get_item s (mkArg (ANum n) sh) = lift_str (spec_string_index s sh (idx_of_num n)).
Proof. exact get_item_index_spec. Qed.
Theorem C13_get_item_range_spec : forall s rb re sh, valid_utf8 s = true -> len_ok s ->
  in_isize rb = true -> in_isize re = true ->
  string_get_item s (mkArg (ARange rb re) sh) = lift_str (spec_string_range s rb re).
Proof. exact get_item_range_spec. Qed.
Theorem C13_slice_valid_utf8 : forall s a t, valid_utf8 s = true -> len_ok s -> arg_wf a = true ->
  string_get_item s a = Ok (RStr t) ->
  valid_utf8 t = true /\
  match av a with
  | ANum n => spec_string_index s (shown a) (idx_of_num n) = Ok t
  | ARange rb re => spec_string_range s rb re = Ok t
  | _ => False
  end.
Proof. exact slice_valid_utf8. Qed.
Theorem C13_get_item_is_char : forall s n sh t, valid_utf8 s = true -> len_ok s ->
  string_get_item s (mkArg (ANum n) sh) = Ok (RStr t) -> In t (chars s).
Proof. exact get_item_is_char. Qed.
Theorem C13_get_item_no_panic : forall s a, valid_utf8 s = true -> len_ok s -> arg_wf a = true ->
  is_panic (string_get_item s a) = false.
Proof. exact get_item_no_panic. Qed.

(* ================= Vec / Tuple ================= *)
Theorem C13_slice_get_item_spec : forall (A : Type) (v : list A) kind a, len_ok v -> arg_wf a = true ->
  slice_get_item v kind a =
  match av a with
  | ANum n => lift_scalar (spec_seq_index v kind (shown a) (idx_of_num n))
  | ARange rb re => lift_slice (spec_seq_range v kind rb re)
  | _ => Error (TypeError "Expected an integer or range.")
  end.
Proof. exact (@slice_get_item_spec). Qed.
Theorem C13_slice_get_item_no_panic : forall (A : Type) (v : list A) kind a, len_ok v -> arg_wf a = true ->
  is_panic (slice_get_item v kind a) = false.
Proof. exact (@slice_get_item_no_panic). Qed.

(* ================= iteration ================= *)
Theorem C13_iter_visits_chars : forall s n, valid_utf8 s = true ->
  iter_collect s 0 n
  = firstn n (map (fun c => Ok (RStr c)) (spec_iter s) ++ repeat (Ok RStopIter) n).
Proof. exact iter_visits_chars. Qed.
Theorem C13_iter_next_preserves : forall s pos, valid_utf8 s = true ->
  is_char_boundary s pos = true -> (pos <= length s)%nat ->
  is_char_boundary s (snd (string_iter_next s pos [])) = true
  /\ (snd (string_iter_next s pos []) <= length s)%nat
  /\ (forall v, fst (string_iter_next s pos []) = Ok v -> rvalue_valid v)
  /\ is_panic (fst (string_iter_next s pos [])) = false.
Proof. exact iter_next_preserves. Qed.

(* ================= natives ================= *)
Theorem C13_count_chars_spec : forall s args, valid_utf8 s = true ->
  string_count_chars s args =
  match args with
  | [] => Ok (RNum (Z.of_nat (spec_count_chars s)))
  | _ => Error (TypeError ("Expected 0 parameters but found " ++ show_nat (length args) ++ "."))
  end.
Proof. exact count_chars_spec. Qed.
Theorem C13_char_byte_index_spec : forall s a, valid_utf8 s = true -> len_ok s ->
  string_char_byte_index s [a] =
  match spec_char_byte_index s (shown a) (idx_of_arg a) with
  | Ok i => Ok (RNum (Z.of_nat i))
  | Error e => Error e
  end.
Proof. exact char_byte_index_spec. Qed.
Theorem C13_find_least_match : forall s sub asub astart,
  valid_utf8 s = true -> len_ok s -> valid_utf8 sub = true -> av asub = AStr sub ->
  string_find s [asub; astart] = lift_find (spec_find s sub (shown astart) (idx_of_arg astart)).
Proof. exact find_least_match. Qed.
Theorem C13_spec_find_from_least : forall s sub start,
  match spec_find_from s sub start with
  | Some i => (start <= i < length s)%nat /\ occurs_at s sub i = true
              /\ forall j, (start <= j < i)%nat -> occurs_at s sub j = false
  | None => forall j, (start <= j < length s)%nat -> occurs_at s sub j = false
  end.
Proof. exact spec_find_from_least. Qed.
Theorem C13_to_from_bytes_roundtrip : forall s, valid_utf8 s = true ->
  string_to_bytes s [] = Ok (RVecNum (bytes_as_ints s))
  /\ string_from_utf8 [vec_arg (bytes_as_ints s)] = Ok (RStr s).
Proof. exact to_from_bytes_roundtrip. Qed.
Theorem C13_from_utf8_ok : forall a t, string_from_utf8 [a] = Ok (RStr t) ->
  valid_utf8 t = true /\
  exists l, av a = AVec l /\ elems_ints l = Some (bytes_as_ints t)
            /\ string_to_bytes t [] = Ok (RVecNum (bytes_as_ints t)).
Proof. exact from_utf8_ok. Qed.
Theorem C13_to_from_code_points_roundtrip : forall s, valid_utf8 s = true ->
  string_to_code_points s [] = Ok (RVecNum (cps_as_ints (code_points s)))
  /\ string_from_code_points [vec_arg (cps_as_ints (code_points s))] = Ok (RStr s).
Proof. exact to_from_code_points_roundtrip. Qed.
Theorem C13_from_code_points_ok : forall a t, string_from_code_points [a] = Ok (RStr t) ->
  valid_utf8 t = true /\
  exists l, av a = AVec l /\ elems_ints l = Some (cps_as_ints (code_points t)).
Proof. exact from_code_points_ok. Qed.
Theorem C13_from_ascii_valid : forall args,
  (forall t, string_from_ascii args = Ok (RStr t) -> valid_utf8 t = true)
  /\ string_from_ascii args <> Error (ValueError "Unable to create a string from byte sequence.")
  /\ is_panic (string_from_ascii args) = false.
Proof. exact from_ascii_valid. Qed.
Theorem C13_from_ascii_char : forall z, (0 <= z <= 255)%Z ->
  string_from_ascii [vec_arg [z]] = Ok (RStr (enc1 (from_ascii_cp (Z.to_N z)))).
Proof. exact from_ascii_char. Qed.
Theorem C13_classify_spec : forall s, valid_utf8 s = true ->
  string_is_alpha s [] = Ok (RBool (spec_classify byte_is_alpha s))
  /\ string_is_digit s [] = Ok (RBool (spec_classify byte_is_digit s))
  /\ string_is_hexdigit s [] = Ok (RBool (spec_classify byte_is_hexdigit s)).
Proof. exact classify_spec. Qed.
Theorem C13_starts_ends_with_spec : forall s p,
  string_starts_with s [str_arg p] = Ok (RBool (spec_starts_with s p))
  /\ string_ends_with s [str_arg p] = Ok (RBool (spec_ends_with s p)).
Proof. exact starts_ends_with_spec. Qed.
Theorem C13_split_join : forall d s, d <> [] -> join d (split_bytes d s) = s.
Proof. exact split_join. Qed.
Theorem C13_replace_is_join_split : forall old new s, old <> [] ->
  replace_bytes old new s = join new (split_bytes old s).
Proof. exact replace_is_join_split. Qed.
Theorem C13_replace_valid : forall old new s, valid_utf8 old = true -> old <> [] ->
  valid_utf8 new = true -> valid_utf8 s = true -> valid_utf8 (replace_bytes old new s) = true.
Proof. exact replace_valid. Qed.
Theorem C13_split_valid : forall d s, valid_utf8 d = true -> d <> [] -> valid_utf8 s = true ->
  Forall (fun t => valid_utf8 t = true) (split_bytes d s).
Proof. exact split_valid. Qed.

(* ================= every produced string is valid UTF-8; nothing panics ================= *)
Theorem C13_every_native_preserves_utf8 : forall s args a v,
  valid_utf8 s = true -> len_ok s -> args_valid args -> arg_wf a = true ->
  (string_get_item s a = Ok v -> rvalue_valid v)
  /\ (string_replace s args = Ok v -> rvalue_valid v)
  /\ (string_split s args = Ok v -> rvalue_valid v)
  /\ (string_from_ascii args = Ok v -> rvalue_valid v)
  /\ (string_from_utf8 args = Ok v -> rvalue_valid v)
  /\ (string_from_code_points args = Ok v -> rvalue_valid v)
  /\ (forall pos, is_char_boundary s pos = true -> (pos <= length s)%nat ->
        fst (string_iter_next s pos []) = Ok v -> rvalue_valid v).
Proof. exact every_native_preserves_utf8. Qed.
Theorem C13_natives_no_panic : forall s args, valid_utf8 s = true -> len_ok s -> args_valid args ->
  is_panic (string_len s args) = false
  /\ is_panic (string_count_chars s args) = false
  /\ is_panic (string_char_byte_index s args) = false
  /\ is_panic (string_find s args) = false
  /\ is_panic (string_is_alpha s args) = false
  /\ is_panic (string_is_digit s args) = false
  /\ is_panic (string_is_hexdigit s args) = false
  /\ is_panic (string_to_bytes s args) = false
  /\ is_panic (string_to_code_points s args) = false
  /\ is_panic (string_starts_with s args) = false
  /\ is_panic (string_ends_with s args) = false
  /\ is_panic (string_replace s args) = false
  /\ is_panic (string_split s args) = false
  /\ is_panic (string_from_ascii args) = false
  /\ is_panic (string_from_utf8 args) = false
  /\ is_panic (string_from_code_points args) = false.
Proof. exact natives_no_panic. Qed.
Theorem C13_from_utf8_no_panic : forall args, is_panic (string_from_utf8 args) = false.
Proof. exact from_utf8_no_panic. Qed.

(* ================= tie to the source: the regenerated (ErrorKind, message) literals are what M raises ===========
   witnesses: e1 = "é" (C3 A9), placeholders filled with the marker "<1>" / the values the model prints *)
Definition e1 : list byte := [xc3; xa9].
Definition other (sh : string) : arg := mkArg AOther sh.
Definition badnum : arg := mkArg (ANum NumNonIntegral) "<1>".
Definition velem (l : list elem) : arg := mkArg (AVec l) "<v>".

Theorem C13_msg_validate_integer :
  raises (validate_integer "<1>" INotIntegral) msgs_validate_integer ["<1>"] = true
  /\ raises (validate_integer "<1>" INotNumber) msgs_validate_integer ["<1>"] = true.
Proof. vm_compute. split; reflexivity. Qed.
Theorem C13_msg_try_as_bounded_index :
  raises (bounded_index "<1>" "" (IInt 5) 3) msgs_try_as_bounded_index ["<1>"] = true
  /\ raises (bounded_index "<1>" "" (IInt (-4)) 3) msgs_try_as_bounded_index ["<1>"] = true.
Proof. vm_compute. split; reflexivity. Qed.
Theorem C13_msg_make_bounded_range :
  raises (bounded_range "<1>" 3 3 3) msgs_make_bounded_range ["<1>"] = true
  /\ raises (bounded_range "<1>" 0 4 3) msgs_make_bounded_range ["<1>"] = true.
Proof. vm_compute. split; reflexivity. Qed.
Theorem C13_msg_validate_char_boundary :
  raises (validate_char_boundary e1 1 "<1>") msgs_validate_char_boundary ["<1>"] = true.
Proof. vm_compute. reflexivity. Qed.
(* vm.rs string_get_item: its own error, and the kind / descriptions it passes to the helpers *)
Theorem C13_msg_string_get_item :
  raises (string_get_item e1 (other "")) msgs_string_get_item [] = true
  /\ raises_with (string_get_item e1 (num_arg 5)) msgs_try_as_bounded_index lits_string_get_item = true
  /\ raises_with (string_get_item e1 (num_arg 1)) msgs_validate_char_boundary lits_string_get_item = true
  /\ raises_with (string_get_item e1 (range_arg 2 2)) msgs_make_bounded_range lits_string_get_item = true
  /\ raises_with (string_get_item e1 (range_arg 0 3)) msgs_make_bounded_range lits_string_get_item = true
  /\ raises_with (string_get_item e1 (range_arg 1 2)) msgs_validate_char_boundary lits_string_get_item = true
  /\ raises_with (string_get_item e1 (range_arg 0 1)) msgs_validate_char_boundary lits_string_get_item = true.
Proof. vm_compute. repeat split; reflexivity. Qed.
Theorem C13_msg_slice_get_item :
  raises (slice_get_item [1%nat] "Vec" (other "")) msgs_slice_get_item [] = true
  /\ raises_with (slice_get_item [1%nat] "Vec" (num_arg 5)) msgs_try_as_bounded_index lits_vec_get_item = true
  /\ raises_with (slice_get_item [1%nat] "Tuple" (num_arg 5)) msgs_try_as_bounded_index lits_tuple_get_item = true
  /\ raises_with (slice_get_item [1%nat] "Vec" (range_arg 1 1)) msgs_make_bounded_range lits_vec_get_item = true
  /\ raises_with (slice_get_item [1%nat] "Tuple" (range_arg 0 2)) msgs_make_bounded_range lits_tuple_get_item = true.
Proof. vm_compute. repeat split; reflexivity. Qed.
Theorem C13_msg_get_set_item :
  raises (mech_index (prep (EA ANil)) (num_arg 0)) msgs_get_item_impl ["nil"] = true
  /\ raises_with (mech_set_item [ANil] (num_arg 1) ANil) msgs_try_as_bounded_index lits_set_item_impl = true.
Proof. vm_compute. split; reflexivity. Qed.
Theorem C13_msg_check_num_args :
  raises (check_num_args 3 1) msgs_check_num_args ["1"; ""; "3"] = true
  /\ raises (check_num_args 1 2) msgs_check_num_args ["2"; "s"; "1"] = true
  /\ raises (check_num_args 1 0) msgs_check_num_args ["0"; "s"; "1"] = true.
Proof. vm_compute. repeat split; reflexivity. Qed.
Theorem C13_msg_from_ascii :
  raises (string_from_ascii [other "<1>"]) msgs_string_from_ascii ["<1>"] = true
  /\ raises (string_from_ascii [velem [EOther "<1>"]]) msgs_string_from_ascii ["<1>"] = true
  /\ raises (string_from_ascii [velem [ENum (NumInt 256) "<1>"]]) msgs_string_from_ascii ["<1>"] = true
  /\ raises (string_from_ascii [velem [ENum NumNonIntegral "<1>"]]) msgs_string_from_ascii ["<1>"] = true
  /\ raises (string_from_ascii []) msgs_check_num_args ["1"; ""; "0"] = true.
Proof. vm_compute. repeat split; reflexivity. Qed.
Theorem C13_msg_from_utf8 :
  raises (string_from_utf8 [other "<1>"]) msgs_string_from_utf8 ["<1>"] = true
  /\ raises (string_from_utf8 [velem [EOther "<1>"]]) msgs_string_from_utf8 ["<1>"] = true
  /\ raises (string_from_utf8 [velem [ENum (NumInt (-1)) "<1>"]]) msgs_string_from_utf8 ["<1>"] = true
  /\ raises (string_from_utf8 [vec_arg [97; 195; 40]%Z]) msgs_string_from_utf8 ["195"; "1"] = true.
Proof. vm_compute. repeat split; reflexivity. Qed.
Theorem C13_msg_from_code_points :
  raises (string_from_code_points [other "<1>"]) msgs_string_from_code_points ["<1>"] = true
  /\ raises (string_from_code_points [velem [EOther "<1>"]]) msgs_string_from_code_points ["<1>"] = true
  /\ raises (string_from_code_points [velem [ENum (NumInt 4294967296) "<1>"]]) msgs_string_from_code_points ["4294967295"; "<1>"] = true
  /\ raises (string_from_code_points [vec_arg [55296]%Z]) msgs_string_from_code_points ["55296"] = true.
Proof. vm_compute. repeat split; reflexivity. Qed.
Theorem C13_msg_char_byte_index :
  raises_with (string_char_byte_index e1 [num_arg 1]) msgs_try_as_bounded_index lits_string_char_byte_index = true
  /\ raises (string_char_byte_index e1 [badnum]) msgs_validate_integer ["<1>"] = true.
Proof. vm_compute. split; reflexivity. Qed.
Theorem C13_msg_find :
  raises (string_find e1 [other "<1>"; num_arg 0]) msgs_string_find ["<1>"] = true
  /\ raises (string_find e1 [str_arg []; num_arg 0]) msgs_string_find [] = true
  /\ raises (string_find e1 [str_arg e1; num_arg 2]) msgs_string_find [] = true
  /\ raises (string_find e1 [str_arg e1; badnum]) msgs_validate_integer ["<1>"] = true
  /\ raises_with (string_find e1 [str_arg e1; num_arg 1]) msgs_validate_char_boundary lits_string_find = true.
Proof. vm_compute. repeat split; reflexivity. Qed.
Theorem C13_msg_replace_split :
  raises (string_replace e1 [other "<1>"; str_arg e1]) msgs_string_replace ["<1>"] = true
  /\ raises (string_replace e1 [str_arg e1; other "<1>"]) msgs_string_replace ["<1>"] = true
  /\ raises (string_replace e1 [str_arg []; str_arg e1]) msgs_string_replace [] = true
  /\ raises (string_split e1 [other "<1>"]) msgs_string_split ["<1>"] = true
  /\ raises (string_split e1 [str_arg []]) msgs_string_split [] = true.
Proof. vm_compute. repeat split; reflexivity. Qed.
Theorem C13_msg_starts_ends_to_num :
  raises (string_starts_with e1 [other "<1>"]) msgs_string_starts_with ["<1>"] = true
  /\ raises (string_ends_with e1 [other "<1>"]) msgs_string_ends_with ["<1>"] = true
  /\ raises (to_num [x78] []) msgs_string_to_num ["x"] = true.
Proof. vm_compute. repeat split; reflexivity. Qed.
(* the natives registered on String are exactly the modelled ones *)
Theorem C13_natives_modelled :
  same_names string_method_names
    ["iter"; "len"; "is_alpha"; "is_digit"; "is_hexdigit"; "count_chars"; "char_byte_index"; "find"; "replace";
     "split"; "starts_with"; "ends_with"; "to_num"; "to_bytes"; "to_code_points"] = true
  /\ same_names string_static_method_names ["from"; "from_ascii"; "from_utf8"; "from_code_points"] = true.
Proof. vm_compute. split; reflexivity. Qed.

Print Assumptions C13_decode_encode.
Print Assumptions C13_encode_decode.
Print Assumptions C13_chars_concat.
Print Assumptions C13_chars_single.
Print Assumptions C13_boundary_iff.
Print Assumptions C13_boundary_iff_offset.
Print Assumptions C13_valid_up_to_none.
Print Assumptions C13_valid_up_to_some.
Print Assumptions C13_isize_add_no_overflow.
Print Assumptions C13_bounded_index_exact.
Print Assumptions C13_spec_index_iff.
Print Assumptions C13_idx_of_f64.
Print Assumptions C13_bounded_index_all_floats.
Print Assumptions C13_bounded_range_exact.
Print Assumptions C13_get_item_index_spec.
Print Assumptions C13_get_item_range_spec.
Print Assumptions C13_slice_valid_utf8.
Print Assumptions C13_get_item_is_char.
Print Assumptions C13_get_item_no_panic.
Print Assumptions C13_slice_get_item_spec.
Print Assumptions C13_slice_get_item_no_panic.
Print Assumptions C13_iter_visits_chars.
Print Assumptions C13_iter_next_preserves.
Print Assumptions C13_count_chars_spec.
Print Assumptions C13_char_byte_index_spec.
Print Assumptions C13_find_least_match.
Print Assumptions C13_spec_find_from_least.
Print Assumptions C13_to_from_bytes_roundtrip.
Print Assumptions C13_from_utf8_ok.
Print Assumptions C13_to_from_code_points_roundtrip.
Print Assumptions C13_from_code_points_ok.
Print Assumptions C13_from_ascii_valid.
Print Assumptions C13_from_ascii_char.
Print Assumptions C13_classify_spec.
Print Assumptions C13_starts_ends_with_spec.
Print Assumptions C13_split_join.
Print Assumptions C13_replace_is_join_split.
Print Assumptions C13_replace_valid.
Print Assumptions C13_split_valid.
Print Assumptions C13_every_native_preserves_utf8.
Print Assumptions C13_natives_no_panic.
Print Assumptions C13_from_utf8_no_panic.
Print Assumptions C13_msg_validate_integer.
Print Assumptions C13_msg_try_as_bounded_index.
Print Assumptions C13_msg_make_bounded_range.
Print Assumptions C13_msg_validate_char_boundary.
Print Assumptions C13_msg_string_get_item.
Print Assumptions C13_msg_slice_get_item.
Print Assumptions C13_msg_get_set_item.
Print Assumptions C13_msg_check_num_args.
Print Assumptions C13_msg_from_ascii.
Print Assumptions C13_msg_from_utf8.
Print Assumptions C13_msg_from_code_points.
Print Assumptions C13_msg_char_byte_index.
Print Assumptions C13_msg_find.
Print Assumptions C13_msg_replace_split.
Print Assumptions C13_msg_starts_ends_to_num.
Print Assumptions C13_natives_modelled.

(* ======================================================================================================== *)
(* R2G block (added; see notes/R2G.md): utils::validate_integer, Value::try_as_bounded_index,
   ObjRange::make_bounded_range and ObjStringIter::next, TRANSLATED from the current utils.rs / value.rs / object.rs
   into gen/PureIndex.v by translator/rust2gallina.py on every run, equal the hand-written models
   (Index.validate_integer / bounded_index / bounded_range, StrFns.iter_next).  A change of one of these Rust
   functions changes the generated text and breaks the NAMED statement. *)
From YVGen Require PureIndex.
From YV Require R2G R2GProofs StrRun PureEquivIndex.
Theorem C13_gen_validate_integer_eq_model : forall x shown,
  PureIndex.validate_integer (R2G.RNumber x) shown =
  PureEquivIndex.result_view (fun z => z) (Index.validate_integer shown (idx_of_num (StrRun.num_of_f64 x))).
Proof. exact PureEquivIndex.gen_validate_integer_eq_model. Qed.
Theorem C13_gen_try_as_bounded_index_eq_model : forall x shown bound kind,
  (0 <= bound <= isize_max)%Z ->
  PureIndex.try_as_bounded_index (R2G.RNumber x) shown bound kind =
  R2G.Val (PureEquivIndex.result_view Z.of_nat (bounded_index kind shown (idx_of_num (StrRun.num_of_f64 x)) bound)).
Proof. exact PureEquivIndex.gen_try_as_bounded_index_eq_model. Qed.
Theorem C13_gen_make_bounded_range_eq_model : forall rb re limit kind,
  in_isize rb = true -> in_isize re = true -> (0 <= limit <= isize_max)%Z ->
  PureIndex.make_bounded_range rb re limit kind =
  R2G.Val (PureEquivIndex.result_view PureEquivIndex.pair_view (bounded_range kind rb re limit)).
Proof. exact PureEquivIndex.gen_make_bounded_range_eq_model. Qed.
Theorem C13_gen_string_iter_next_eq_model : forall s pos fuel,
  (length s < fuel)%nat -> (Z.of_nat (length s) < 2 ^ 64)%Z -> (Z.of_nat pos + 1 < 2 ^ 64)%Z ->
  PureIndex.ObjStringIter_next fuel s (Z.of_nat pos) = R2G.Val (PureEquivIndex.iter_view (iter_next s pos)).
Proof. exact PureEquivIndex.gen_string_iter_next_eq_model. Qed.
Print Assumptions C13_gen_validate_integer_eq_model.
Print Assumptions C13_gen_try_as_bounded_index_eq_model.
Print Assumptions C13_gen_make_bounded_range_eq_model.
Print Assumptions C13_gen_string_iter_next_eq_model.
(* ================================================ end of the R2G block ================================= *)
