(* props/C13_r2g.v - statements only: regenerated-from-source definitions (translator/rust2gallina.py) equal the hand models
   that the theorems of props/C13.v are about.  Counted and re-checked by the driver together with props/C13.v. *)
From Coq Require Import ZArith NArith List Bool String.
From Coq.Strings Require Import Byte.
Import ListNotations.
(* ---- R2G block 2 ---- *)
From YVGen Require PureStr.
From YVGen Require PureIndex.
From YV Require R2G R2GStr PureEquivStr.

Theorem C13_pure_check_num_args_eq :
  forall n e : nat,
         PureStr.check_num_args (Z.of_nat n) (Z.of_nat e) = PureEquivStr.unit_view (StrFns.check_num_args n e).
Proof. exact PureEquivStr.pure_check_num_args_eq. Qed.

Theorem C13_pure_validate_char_boundary_eq :
  forall (h : Z) (s : list byte) (pos : nat) (desc : string),
         PureStr.ObjString_validate_char_boundary (h, s) (Z.of_nat pos) desc =
         PureEquivStr.unit_view (StrFns.validate_char_boundary s pos desc).
Proof. exact PureEquivStr.pure_validate_char_boundary_eq. Qed.

Theorem C13_pure_validate_integer_x_eq_model :
  forall (v : R2GStr.xvalue) (sh : string),
         PureStr.validate_integer_x v sh =
         PureEquivIndex.result_view (fun z : Z => z)
           (Index.validate_integer sh (StrFns.idx_of_arg (PureEquivStr.arg_of_x v sh))).
Proof. exact PureEquivStr.pure_validate_integer_x_eq_model. Qed.

Theorem C13_pure_try_as_bounded_index_x_eq_model :
  forall (v : R2GStr.xvalue) (sh : string) (bound : Z) (kind : string),
         (0 <= bound <= Index.isize_max)%Z ->
         PureStr.try_as_bounded_index_x v sh bound kind =
         R2G.Val
           (PureEquivIndex.result_view Z.of_nat
              (Index.bounded_index kind sh (StrFns.idx_of_arg (PureEquivStr.arg_of_x v sh)) bound)).
Proof. exact PureEquivStr.pure_try_as_bounded_index_x_eq_model. Qed.

Theorem C13_pure_string_len_eq :
  forall (args : list StrFns.arg) (h : Z) (s : list byte) (v0 : R2GStr.xvalue),
         (args = [] -> v0 = R2GStr.XObjString (h, s)) ->
         PureStr.string_len (Z.of_nat (Datatypes.length args)) v0 =
         R2G.Val (PureEquivStr.res_view (StrFns.string_len s args)).
Proof. exact PureEquivStr.pure_string_len_eq. Qed.

Theorem C13_pure_string_is_alpha_eq :
  forall (args : list StrFns.arg) (h : Z) (s : list byte) (v0 : R2GStr.xvalue),
         (args = [] -> v0 = R2GStr.XObjString (h, s)) ->
         PureStr.string_is_alpha (Z.of_nat (Datatypes.length args)) v0 =
         R2G.Val (PureEquivStr.res_view (StrFns.string_is_alpha s args)).
Proof. exact PureEquivStr.pure_string_is_alpha_eq. Qed.

Theorem C13_pure_string_is_digit_eq :
  forall (args : list StrFns.arg) (h : Z) (s : list byte) (v0 : R2GStr.xvalue),
         (args = [] -> v0 = R2GStr.XObjString (h, s)) ->
         PureStr.string_is_digit (Z.of_nat (Datatypes.length args)) v0 =
         R2G.Val (PureEquivStr.res_view (StrFns.string_is_digit s args)).
Proof. exact PureEquivStr.pure_string_is_digit_eq. Qed.

Theorem C13_pure_string_is_hexdigit_eq :
  forall (args : list StrFns.arg) (h : Z) (s : list byte) (v0 : R2GStr.xvalue),
         (args = [] -> v0 = R2GStr.XObjString (h, s)) ->
         PureStr.string_is_hexdigit (Z.of_nat (Datatypes.length args)) v0 =
         R2G.Val (PureEquivStr.res_view (StrFns.string_is_hexdigit s args)).
Proof. exact PureEquivStr.pure_string_is_hexdigit_eq. Qed.

Theorem C13_pure_string_count_chars_eq :
  forall (args : list StrFns.arg) (h : Z) (s : list byte) (v0 : R2GStr.xvalue),
         Utf8.valid_utf8 s = true ->
         (args = [] -> v0 = R2GStr.XObjString (h, s)) ->
         PureStr.string_count_chars (Z.of_nat (Datatypes.length args)) v0 =
         R2G.Val (PureEquivStr.res_view (StrFns.string_count_chars s args)).
Proof. exact PureEquivStr.pure_string_count_chars_eq. Qed.

Theorem C13_pure_string_starts_with_eq :
  forall (args : list StrFns.arg) (h : Z) (s : list byte) (v0 : R2GStr.xvalue) 
           (sh0 : string) (v1 : R2GStr.xvalue),
         (forall a : StrFns.arg,
          args = [a] -> a = PureEquivStr.arg_of_x v0 sh0 /\ v1 = R2GStr.XObjString (h, s)) ->
         PureStr.string_starts_with (Z.of_nat (Datatypes.length args)) v0 sh0 v1 =
         R2G.Val (PureEquivStr.res_view (StrFns.string_starts_with s args)).
Proof. exact PureEquivStr.pure_string_starts_with_eq. Qed.

Theorem C13_pure_string_ends_with_eq :
  forall (args : list StrFns.arg) (h : Z) (s : list byte) (v0 : R2GStr.xvalue) 
           (sh0 : string) (v1 : R2GStr.xvalue),
         (forall a : StrFns.arg,
          args = [a] -> a = PureEquivStr.arg_of_x v0 sh0 /\ v1 = R2GStr.XObjString (h, s)) ->
         PureStr.string_ends_with (Z.of_nat (Datatypes.length args)) v0 sh0 v1 =
         R2G.Val (PureEquivStr.res_view (StrFns.string_ends_with s args)).
Proof. exact PureEquivStr.pure_string_ends_with_eq. Qed.

Theorem C13_pure_string_replace_eq :
  forall (args : list StrFns.arg) (h : Z) (s : list byte) (v0 : R2GStr.xvalue) 
           (sh0 : string) (v1 : R2GStr.xvalue) (sh1 : string) (v2 : R2GStr.xvalue),
         (forall a b : StrFns.arg,
          args = [a; b] ->
          a = PureEquivStr.arg_of_x v1 sh1 /\ b = PureEquivStr.arg_of_x v0 sh0 /\ v2 = R2GStr.XObjString (h, s)) ->
         PureStr.string_replace (Z.of_nat (Datatypes.length args)) v0 sh0 v1 sh1 v2 =
         R2G.Val (PureEquivStr.res_view (StrFns.string_replace s args)).
Proof. exact PureEquivStr.pure_string_replace_eq. Qed.

Theorem C13_pure_string_char_byte_index_eq :
  forall (args : list StrFns.arg) (h : Z) (s : list byte) (v0 : R2GStr.xvalue) 
           (sh0 : string) (v1 : R2GStr.xvalue),
         Utf8.valid_utf8 s = true ->
         (Z.of_nat (Datatypes.length s) < 2 ^ 63)%Z ->
         (forall a : StrFns.arg,
          args = [a] -> a = PureEquivStr.arg_of_x v0 sh0 /\ v1 = R2GStr.XObjString (h, s)) ->
         PureStr.string_char_byte_index (Z.of_nat (Datatypes.length args)) v0 sh0 v1 =
         R2G.Val (PureEquivStr.res_view (StrFns.string_char_byte_index s args)).
Proof. exact PureEquivStr.pure_string_char_byte_index_eq. Qed.

Theorem C13_pure_string_find_eq :
  forall (args : list StrFns.arg) (h : Z) (s : list byte) (v0 : R2GStr.xvalue) 
           (sh0 : string) (v1 : R2GStr.xvalue) (sh1 : string) (v2 : R2GStr.xvalue),
         (Z.of_nat (Datatypes.length s) < 2 ^ 63)%Z ->
         (forall a b : StrFns.arg,
          args = [a; b] ->
          a = PureEquivStr.arg_of_x v1 sh1 /\
          b = PureEquivStr.arg_of_x v0 sh0 /\
          v2 = R2GStr.XObjString (h, s) /\
          (Z.of_nat (Datatypes.length s) +
           Z.of_nat (Datatypes.length match v1 with
                                      | R2GStr.XObjString o => snd o
                                      | _ => []
                                      end) < 2 ^ 64)%Z) ->
         PureStr.string_find (Z.of_nat (Datatypes.length args)) v0 sh0 v1 sh1 v2 =
         R2G.Val (PureEquivStr.res_view (StrFns.string_find s args)).
Proof. exact PureEquivStr.pure_string_find_eq. Qed.

Theorem C13_pure_make_bounded_range_x_eq :
  forall (rb re limit : Z) (kind : string),
         PureStr.make_bounded_range_x rb re limit kind = PureIndex.make_bounded_range rb re limit kind.
Proof. exact PureEquivStr.pure_make_bounded_range_x_eq. Qed.

Theorem C13_pure_string_get_item_eq :
  forall (fuel : nat) (fx0 : list R2GStr.stack_fx) (h : Z) (s : list byte) (v0 : R2GStr.xvalue)
           (sh0 : string),
         (Z.of_nat (Datatypes.length s) + 1 < 2 ^ 63)%Z ->
         Datatypes.length s < fuel ->
         match v0 with
         | R2GStr.XObjRange b e => Index.in_isize b = true /\ Index.in_isize e = true
         | _ => True
         end ->
         PureStr.Vm_string_get_item fuel fx0 v0 sh0 (R2GStr.XObjString (h, s)) =
         PureEquivStr.get_item_view fx0 (StrFns.string_get_item s (PureEquivStr.arg_of_x v0 sh0)).
Proof. exact PureEquivStr.pure_string_get_item_eq. Qed.

Theorem C13_pure_natives_peeks :
  PureStr.string_len_peeks = [0%Z] /\
         PureStr.string_is_alpha_peeks = [0%Z] /\
         PureStr.string_is_digit_peeks = [0%Z] /\
         PureStr.string_is_hexdigit_peeks = [0%Z] /\
         PureStr.string_count_chars_peeks = [0%Z] /\
         PureStr.string_char_byte_index_peeks = [0%Z; 1%Z] /\
         PureStr.string_find_peeks = [0%Z; 1%Z; 2%Z] /\
         PureStr.string_replace_peeks = [0%Z; 1%Z; 2%Z] /\
         PureStr.string_starts_with_peeks = [0%Z; 1%Z] /\
         PureStr.string_ends_with_peeks = [0%Z; 1%Z] /\ PureStr.Vm_string_get_item_peeks = [0%Z; 1%Z].
Proof. exact PureEquivStr.pure_natives_peeks. Qed.

Theorem C13_pure_str_fields :
  PureStr.r2g_fields =
         [("make_bounded_range_x"%string, ["self.begin"%string; "self.end"%string]);
          ("Vm_string_get_item"%string, ["self.#fx"%string])].
Proof. exact PureEquivStr.pure_str_fields. Qed.

Print Assumptions C13_pure_check_num_args_eq.
Print Assumptions C13_pure_validate_char_boundary_eq.
Print Assumptions C13_pure_validate_integer_x_eq_model.
Print Assumptions C13_pure_try_as_bounded_index_x_eq_model.
Print Assumptions C13_pure_string_len_eq.
Print Assumptions C13_pure_string_is_alpha_eq.
Print Assumptions C13_pure_string_is_digit_eq.
Print Assumptions C13_pure_string_is_hexdigit_eq.
Print Assumptions C13_pure_string_count_chars_eq.
Print Assumptions C13_pure_string_starts_with_eq.
Print Assumptions C13_pure_string_ends_with_eq.
Print Assumptions C13_pure_string_replace_eq.
Print Assumptions C13_pure_string_char_byte_index_eq.
Print Assumptions C13_pure_string_find_eq.
Print Assumptions C13_pure_make_bounded_range_x_eq.
Print Assumptions C13_pure_string_get_item_eq.
Print Assumptions C13_pure_natives_peeks.
Print Assumptions C13_pure_str_fields.
