(* C14 - Modules load once, keep their own globals, and cycles are reported.
   ONLY statements: each is closed by `exact` of a lemma of theories/ModulesProofs.v, instantiated with the
   constants regenerated from /repo (YVGen.Consts, YVGen.ImportArms); side conditions on what the translator
   read from vm.rs / compiler.rs / core.yl are decided here by computation.
   The loader and the compiler stay universally quantified: every statement holds for EVERY host loader,
   EVERY compiler outcome and EVERY sequence of import / call / return / throw / handler / global / attribute
   events. *)
From Coq Require Import List String NArith Arith Bool.
From YVGen Require Import Consts ImportArms.
From YV Require Import Modules ModuleSpec ModLang ModulesProofs ModulesScaleProofs ModRefine.
Import ListNotations.
Open Scope string_scope.

Definition B : list name := gen_builtin_names.           (* names defined by init_built_in_globals *)
Definition C : list name := gen_core_class_names.        (* classes core.yl defines in module "main" *)
Definition FM : nat := N.to_nat FRAMES_MAX.
Definition main_attrs : list (name * value) := builtin_attrs (B ++ C).
Definition main_only : list name := filter (fun c => negb (existsb (String.eqb c) B)) C.

(* the code variant, as read from the current sources (both true since 367eb72) *)
Definition CHK : bool := gen_registry_hit_checks_loading.
Definition GRD : bool := gen_builtins_init_guarded.
(* is_loading_module walks the whole caller chain of fibers (a loop over `.caller`), not a fixed number of levels *)
Definition CHAIN : bool := gen_loading_walks_chain.
(* closure_impl gives a new closure Vm.active_module (not, e.g., the module registered under the function's path) *)
Definition CLO : bool := gen_closure_takes_active_module.
Theorem C14_side_variant : CHK = true /\ GRD = true /\ gen_is_loading_is_body_frame_of_module = true /\ CHAIN = true /\ CLO = true.
Proof. vm_compute; repeat split; reflexivity. Qed.
(* is_loading_module recognises a module body by the EMPTY function name: only the script compiler gets it
   (functions and methods are named by an identifier token, initialisers by an attribute argument, lambdas
   "lambda-N"), so a running lambda or function of a failed module is never mistaken for its body *)
Theorem C14_side_only_script_has_empty_name : gen_only_script_has_empty_name = true /\ gen_lambda_name_fmt = "lambda-{}".
Proof. vm_compute; split; reflexivity. Qed.

Section Oracles.
  Variables SrcId Body : Type.
  Variable loader : path -> load_result SrcId.
  Variable compiler : path -> SrcId -> comp_result Body.
  Notation stepM := (step SrcId Body loader compiler B FM CHK GRD CHAIN).
  Notation runM := (run_events SrcId Body loader compiler B FM CHK GRD CHAIN).
  Notation loadrunM := (load_and_run SrcId Body loader compiler B FM GRD).
  Notation init := (init_state main_attrs).

  Theorem C14_side_main_has_builtins : forall b, In b B -> In b (akeys main_attrs).
  Proof. exact (main_attrs_have_builtins B C). Qed.

  (* the invariant behind every statement below *)
  Theorem C14_invariant : forall evs, Inv B (runM init evs).
  Proof. exact (run_init_inv SrcId Body loader compiler B FM CHK GRD main_attrs C14_side_main_has_builtins). Qed.

  (* a module's top-level code: at most once per module object; a started body whose object is not the registered
     object of its path is a FAILED import (never imported, not running); no path twice among the live ones *)
  Theorem C14_body_runs_at_most_once : forall evs,
    let st := runM init evs in
    NoDup (ran st)
    /\ (forall id, In id (ran st) -> registered st id \/ (m_imported (getmod st id) = false /\ is_loading st id = false))
    /\ (forall i j, In i (ran st) -> In j (ran st) -> registered st i -> registered st j ->
                    m_path (getmod st i) = m_path (getmod st j) -> i = j).
  Proof. exact (body_runs_at_most_once SrcId Body loader compiler B FM CHK GRD main_attrs C14_side_main_has_builtins). Qed.

  (* a body is started only for an unregistered path or over the leftover of a failed import: never while the
     module is loaded or loading *)
  Theorem C14_body_starts_only_if_absent_or_failed : forall st p st' id b,
    dead st = None -> stepM st (EStartImport p) = (st', OEntered id b) ->
    absent_or_failed CHK st p /\ id = List.length (heap st) /\ ran st' = id :: ran st /\ loads st' = p :: loads st
    /\ alookup (reg st') p = Some id /\ active st' = id.
  Proof. exact (body_starts_only_if_absent_or_failed SrcId Body loader compiler B FM CHK GRD). Qed.

  Theorem C14_loader_called_only_if_absent_or_failed : forall st e,
    loads (fst (stepM st e)) = loads st
    \/ exists p, e = EStartImport p /\ loads (fst (stepM st e)) = p :: loads st /\ absent_or_failed CHK st p.
  Proof. exact (loader_called_only_if_absent_or_failed SrcId Body loader compiler B FM CHK GRD). Qed.

  (* loaded at most once per successful load: a module that finished loading stays registered and imported for
     ever, and importing it is the cached arm: no loader call, no body *)
  Theorem C14_loaded_module_is_settled : forall evs1 evs2 p id,
    settled (runM init evs1) p id -> settled (runM (runM init evs1) evs2) p id.
  Proof. exact (loaded_module_is_settled SrcId Body loader compiler B FM CHK GRD main_attrs C14_side_main_has_builtins). Qed.

  Theorem C14_settled_import_is_cached : forall st p id,
    dead st = None -> settled st p id -> stepM st (EStartImport p) = (log_yield p id st, OModule id).
  Proof. exact (settled_import_is_cached SrcId Body loader compiler B FM CHK GRD). Qed.

  Theorem C14_yielded_is_settled : forall evs p id,
    let st := runM init evs in In (p, id) (yielded st) -> settled st p id.
  Proof. exact (yielded_is_settled SrcId Body loader compiler B FM CHK GRD main_attrs C14_side_main_has_builtins). Qed.

  Theorem C14_same_module_object : forall evs p i j,
    let st := runM init evs in In (p, i) (yielded st) -> In (p, j) (yielded st) -> i = j.
  Proof. exact (same_module_object SrcId Body loader compiler B FM CHK GRD main_attrs C14_side_main_has_builtins). Qed.

  Theorem C14_module_object_determines_path : forall evs p q i,
    let st := runM init evs in In (p, i) (yielded st) -> In (q, i) (yielded st) -> p = q.
  Proof. exact (module_object_determines_path SrcId Body loader compiler B FM CHK GRD main_attrs C14_side_main_has_builtins). Qed.

  Theorem C14_cycle_is_import_error : forall st p id,
    dead st = None -> alookup (reg st) p = Some id -> m_imported (getmod st id) = false -> is_loading st id = true ->
    stepM st (EStartImport p) = raise Body st (XErr (mkerr KImport [cyc_msg p])).
  Proof. exact (cycle_is_import_error SrcId Body loader compiler B FM CHK GRD). Qed.

  Theorem C14_loading_module_is_cycle_error : forall evs f,
    let st := runM init evs in
    dead st = None -> In f (frames st) -> f_body f = true ->
    let p := m_path (getmod st (f_mod f)) in
    stepM st (EStartImport p) = raise Body st (XErr (mkerr KImport [cyc_msg p])).
  Proof. exact (loading_module_is_cycle_error SrcId Body loader compiler B FM CHK GRD main_attrs C14_side_main_has_builtins). Qed.

  (* the leftover of a failed import (body threw, or the call failed at the frame limit) is removed and the module
     loaded afresh: loader asked again, new module object, body from the start *)
  Theorem C14_failed_import_is_retried : forall st p old,
    dead st = None -> alookup (reg st) p = Some old -> m_imported (getmod st old) = false ->
    is_loading st old = false ->
    stepM st (EStartImport p) = loadrunM (set_reg st (aremove (reg st) p)) p.
  Proof.
    exact (fun st p old => failed_import_is_retried SrcId Body loader compiler B FM CHK GRD st p old
                             (proj1 C14_side_variant)).
  Qed.

  Theorem C14_failed_load_is_import_error : forall st p e,
    dead st = None -> alookup (reg st) p = None -> loader p = LoadErr e ->
    stepM st (EStartImport p) = raise Body (log_load p st) (XErr e).
  Proof. exact (failed_load_is_import_error SrcId Body loader compiler B FM CHK GRD). Qed.

  Theorem C14_failed_compile_is_import_error : forall st p s msgs,
    dead st = None -> alookup (reg st) p = None -> loader p = LoadOk s -> compiler p s = CompErr msgs ->
    stepM st (EStartImport p)
    = raise Body (log_load p st) (XErr (mkerr KImport (comp_head :: map (append comp_indent) msgs))).
  Proof. exact (failed_compile_is_import_error SrcId Body loader compiler B FM CHK GRD). Qed.

  Theorem C14_failed_import_registers_nothing : forall st p,
    dead st = None ->
    (exists id, alookup (reg st) p = Some id /\ m_imported (getmod st id) = false /\ is_loading st id = true)
    \/ (alookup (reg st) p = None /\ ((exists e, loader p = LoadErr e) \/ exists s msgs, loader p = LoadOk s /\ compiler p s = CompErr msgs)) ->
    let st' := fst (stepM st (EStartImport p)) in
    reg st' = reg st /\ heap st' = heap st /\ ran st' = ran st /\ yielded st' = yielded st
    /\ exists x, snd (stepM st (EStartImport p)) = OCaught x \/ snd (stepM st (EStartImport p)) = ODead x.
  Proof. exact (failed_import_registers_nothing SrcId Body loader compiler B FM CHK GRD). Qed.

  Theorem C14_raise_delivers : forall st x,
    (exists h hs, handlers st = h :: hs /\ base_len st < h /\ snd (raise Body st x) = OCaught x /\ dead (fst (raise Body st x)) = dead st
                  /\ handlers (fst (raise Body st x)) = hs
                  /\ List.length (frames (fst (raise Body st x))) <= h)
    \/ ((handlers st = [] \/ exists h hs, handlers st = h :: hs /\ h <= base_len st)
        /\ snd (raise Body st x) = ODead x /\ dead (fst (raise Body st x)) = Some x).
  Proof. exact (raise_delivers Body). Qed.

  Theorem C14_globals_isolated : forall evs,
    let st := runM init evs in dead st = None -> active st = top_mod st.
  Proof. exact (globals_isolated SrcId Body loader compiler B FM CHK GRD main_attrs C14_side_main_has_builtins). Qed.

  Theorem C14_call_enters_defining_module : forall st m,
    dead st = None -> m < List.length (heap st) -> fiber_depth (frames st) <> FM ->
    let st' := fst (stepM st (ECall m)) in
    frames st' = mkframe m false false :: frames st /\ active st' = m /\ top_mod st' = m.
  Proof. exact (call_enters_defining_module SrcId Body loader compiler B FM CHK GRD). Qed.

  (* a function of an OLD module object (its load failed, its path was loaded again as another object) still runs in,
     reads and writes the old object; the new module of the path is untouched *)
  Theorem C14_function_of_old_object_uses_its_own_globals : forall st m id x v w,
    dead st = None -> m < List.length (heap st) -> id < List.length (heap st) -> id <> m ->
    fiber_depth (frames st) <> FM -> alookup (attrs_of st m) x = Some w ->
    let st1 := fst (stepM st (ECall m)) in
    let st2 := fst (stepM st1 (ESetGlobal x v)) in
    active st1 = m /\ attrs_of st2 id = attrs_of st id /\ alookup (attrs_of st2 m) x = Some v.
  Proof. exact (function_of_old_object_uses_its_own_globals SrcId Body loader compiler B FM CHK GRD). Qed.

  (* a new fiber runs in the module of its closure; the chain of waiting fibers below it is what is_loading sees *)
  Theorem C14_fiber_call_enters_module : forall st m,
    dead st = None -> m < List.length (heap st) ->
    let st' := fst (stepM st (EFiberCall m)) in
    frames st' = mkframe m false true :: frames st /\ active st' = m /\ fiber_depth (frames st') = 1
    /\ forall id, is_loading st' id = is_loading st id.
  Proof. exact (fiber_call_enters_module SrcId Body loader compiler B FM CHK GRD). Qed.

  Theorem C14_return_restores_caller_module : forall st f0 f r,
    dead st = None -> frames st = f0 :: f :: r ->
    let st' := fst (stepM st EReturn) in frames st' = f :: r /\ active st' = f_mod f.
  Proof. exact (return_restores_caller_module SrcId Body loader compiler B FM CHK GRD). Qed.

  Theorem C14_global_read_is_local : forall st x,
    dead st = None -> active st = top_mod st ->
    stepM st (EGetGlobal x) =
    match alookup (attrs_of st (top_mod st)) x with
    | Some v => (st, OValue v)
    | None => raise Body st (XErr (mkerr KName [undefined_variable x]))
    end.
  Proof. exact (global_read_is_local SrcId Body loader compiler B FM CHK GRD). Qed.

  Theorem C14_global_write_is_local : forall st x v q,
    active st = top_mod st -> q <> top_mod st ->
    attrs_of (fst (stepM st (ESetGlobal x v))) q = attrs_of st q
    /\ attrs_of (fst (stepM st (EDefineGlobal x v))) q = attrs_of st q.
  Proof. exact (global_write_is_local SrcId Body loader compiler B FM CHK GRD). Qed.

  (* no exclusion any more: an import (also one that fails at the frame limit) never touches an existing module *)
  Theorem C14_attrs_frame : forall st e q,
    Inv B st -> q < List.length (heap st) ->
    match e with
    | ESetGlobal _ _ | EDefineGlobal _ _ => active st <> q
    | ESetAttr m _ _ => m <> q
    | _ => True
    end ->
    attrs_of (fst (stepM st e)) q = attrs_of st q.
  Proof.
    exact (fun st e q I Hq He =>
             attrs_frame SrcId Body loader compiler B FM CHK GRD st e q I Hq
               (match e as e0 return
                      (match e0 with
                       | ESetGlobal _ _ | EDefineGlobal _ _ => active st <> q
                       | ESetAttr m _ _ => m <> q
                       | _ => True end) ->
                      (match e0 with
                       | ESetGlobal _ _ | EDefineGlobal _ _ => active st <> q
                       | ESetAttr m _ _ => m <> q
                       | EStartImport _ => GRD = true \/ fiber_depth (frames st) <> FM
                       | _ => True end)
                with
                | EStartImport _ => fun _ => or_introl (proj1 (proj2 C14_side_variant))
                | _ => fun h => h
                end He)).
  Qed.

  Theorem C14_builtins_in_every_module : forall evs id b,
    let st := runM init evs in
    id = 0 \/ In id (ran st) -> In b B -> exists v, alookup (attrs_of st id) b = Some v.
  Proof. exact (builtins_in_every_module SrcId Body loader compiler B FM CHK GRD main_attrs C14_side_main_has_builtins). Qed.

  (* a fresh module has the names of init_built_in_globals and NOTHING else (so `main_only` below must be empty) *)
  Theorem C14_fresh_module_has_only_builtins : forall st p s b,
    dead st = None -> alookup (reg st) p = None -> loader p = LoadOk s -> compiler p s = CompOk b ->
    fiber_depth (frames st) <> FM ->
    let st' := fst (stepM st (EStartImport p)) in
    snd (stepM st (EStartImport p)) = OEntered (List.length (heap st)) b
    /\ active st' = List.length (heap st)
    /\ forall c, ~ In c B -> alookup (attrs_of st' (List.length (heap st))) c = None.
  Proof. exact (fresh_module_has_only_builtins SrcId Body loader compiler B FM CHK GRD). Qed.
  (* round 9: an import does not depend on the history of the run - after ANY event sequence (any number of failed, refused,
     cached or successful imports before it) a path the registry does not know, delivered by the loader, accepted by the
     compiler, with a frame to spare, enters its body in a new module object *)
  Theorem C14_fresh_import_enters_body_after_any_history : forall evs p src body,
    let st := runM init evs in
    dead st = None -> alookup (reg st) p = None -> loader p = LoadOk src -> compiler p src = CompOk body ->
    fiber_depth (frames st) <> FM ->
    exists st', stepM st (EStartImport p) = (st', OEntered (List.length (heap st)) body).
  Proof. exact (fun evs => fresh_import_enters_body_in_any_state SrcId Body loader compiler B FM CHK GRD CHAIN (runM init evs)). Qed.
End Oracles.

(* --- what the translator read from the current sources agrees with what Modules.v hard-wires --- *)
Theorem C14_side_stage_order : gen_import_order = map stage_name import_order.
Proof. vm_compute; reflexivity. Qed.
Theorem C14_side_cycle_format : forall p, fill gen_cyc_fmt p = cyc_msg p.
Proof. intros p; reflexivity. Qed.
Theorem C14_side_compile_format : gen_comp_head = comp_head /\ forall m, fill gen_comp_line_fmt m = comp_indent ++ m.
Proof. split; [reflexivity|intros m; reflexivity]. Qed.
Theorem C14_side_error_kinds : gen_cyc_kind = "ImportError" /\ gen_comp_kind = "ImportError" /\ gen_loader_error_thrown_as_is = true.
Proof. vm_compute; repeat split; reflexivity. Qed.
Theorem C14_side_main_literal :
  gen_import_main_literal = main_path /\ gen_reset_keeps = main_path /\ gen_with_built_ins_module = main_path
  /\ gen_default_module_path = main_path /\ gen_import_main_msg = "Cannot import top-level module.".
Proof. vm_compute; repeat split; reflexivity. Qed.
Theorem C14_side_import_shape :
  gen_hit_imported_pushes_else_error = true /\ gen_body_closure_gets_new_module = true
  /\ gen_finish_sets_imported = true /\ gen_module_get_or_create = true
  /\ gen_builtins_target = builtins_target /\ gen_import_emits_start_finish_define = true
  /\ gen_default_alias_file_name = true.
Proof. vm_compute; repeat split; reflexivity. Qed.
Theorem C14_side_active_module_sites :
  gen_load_frame_sets_active_from_closure = true /\ gen_call_pushes_then_loads = true
  /\ gen_frame_limit_eq_frames_max = true /\ gen_return_pops_then_loads = true
  /\ gen_unwind_truncates_then_loads = true /\ gen_globals_use_active_module = true
  /\ gen_closure_takes_active_module = true.
Proof. vm_compute; repeat split; reflexivity. Qed.
(* round 7 - WHERE the registers that say "which code runs" are written (vm.rs, every function): Vm.active_module only by
   reset and load_frame; active_chunk only by init_heap_allocated_data and load_frame (nobody restores chunk / ip by hand and
   forgets the module); the running fiber is switched only by load_fiber / unload_fiber (execute clears it), each calling
   load_frame unconditionally after the switch; frames are popped only by return_impl (a finished fiber hands back through
   unload_fiber), truncated only by unwind_stack, pushed only by call_closure; those five are exactly the callers of load_frame *)
Theorem C14_side_frame_switch_sites :
  gen_frame_switch_sites =
  [("active_module=", ["reset"; "load_frame"]); ("active_chunk=", ["init_heap_allocated_data"; "load_frame"]);
   ("fiber.replace", ["load_fiber"; "unload_fiber"]); ("fiber=", ["execute"]); ("unsafe_fiber=", ["load_fiber"; "unload_fiber"]);
   ("frames.pop", ["return_impl"]); ("frames.truncate", ["unwind_stack"]); ("push_call_frame", ["call_closure"]);
   ("load_frame()", ["load_fiber"; "unload_fiber"; "return_impl"; "call_closure"; "unwind_stack"]);
   ("load_fiber()", ["execute"]); ("unload_fiber()", ["return_impl"])]
  /\ gen_fiber_switch_then_loads = true /\ gen_return_finished_fiber_unloads = true.
Proof. vm_compute; repeat split; reflexivity. Qed.
(* round 9: census of the import path.  Modules.v gives an import no state beyond registry, module objects, frames, handlers
   and `active`, three ways to fail before the body (cycle, loader, compiler) plus the frame limit inside call_value, and
   built-ins that come from the VM alone.  The table lists every `self.<name>` the three functions mention and the number of
   `error!(` / `try_handle_error(` / `return` sites of start_import_impl: a counter / cache / flag consulted or updated by an
   import, one more refusal arm, a look into another module's globals while a module gets its built-ins - each changes it *)
Theorem C14_side_import_census :
  gen_import_census =
  [("start_import_impl", ["active_module"; "call_value"; "init_built_in_globals"; "is_loading_module"; "module"; "module_loader";
                          "modules"; "new_root_obj_closure"; "peek"; "push"; "read_string"; "try_handle_error"]);
   ("finish_import_impl", ["peek"; "pop"]);
   ("init_built_in_globals", ["class_store"; "define_native"; "printer"; "set_global"; "string_class"])]
  /\ gen_import_exit_counts = ["2"; "3"; "4"].
Proof. vm_compute; split; reflexivity. Qed.
(* the built-in file loader (default_read_module_source, used when the host installs none): the file is
   Path(path).with_extension("yl"); EVERY failure of fs::read_to_string is an ImportError
   "Unable to read file '<file>' (<reason>)." - reason by io::ErrorKind, "other" for the kinds not listed; the host loader
   of the correspondence run (harness `mods`) answers a missing module with the NotFound instance of it *)
Theorem C14_side_default_loader :
  gen_default_loader_read_error_kinds = ["ImportError"] /\ gen_default_loader_fmts = ["Unable to read file '{}' ({})."]
  /\ gen_default_loader_default_reason = "other" /\ gen_default_loader_extension = "yl"
  /\ forallb (fun kr => existsb (fun g => String.eqb (fst g) (fst kr) && String.eqb (snd g) (snd kr)) gen_default_loader_reasons)
              [("NotFound", "file not found"); ("PermissionDenied", "permission denied"); ("InvalidData", "invalid data")] = true
  /\ not_found_msg "m" = "Unable to read file 'm.yl' (file not found).".
Proof. vm_compute; repeat split; reflexivity. Qed.
(* every global init_built_in_globals installs goes into the module it was called for (its `module_path` argument), none
   into a fixed module such as "main"; B = exactly those names *)
Theorem C14_side_builtin_names_known :
  gen_builtin_misinstalled = [] /\ map fst gen_builtin_installs = B /\ existsb (String.eqb "print") B = true.
Proof. vm_compute; repeat split; reflexivity. Qed.

(* --- every name module main has at start-up is defined by init_built_in_globals, hence in every module --- *)
Theorem C14_side_no_main_only_names : main_only = [].
Proof. vm_compute; reflexivity. Qed.

Theorem C14_startup_names_in_every_module :
  forall (SrcId Body : Type) (loader : path -> load_result SrcId) (compiler : path -> SrcId -> comp_result Body) evs id b,
  let st := run_events SrcId Body loader compiler B FM CHK GRD CHAIN (init_state main_attrs) evs in
  id = 0 \/ In id (ran st) -> In b (B ++ C) -> exists v, alookup (attrs_of st id) b = Some v.
Proof.
  exact (fun SrcId Body loader compiler evs id b =>
           startup_names_in_every_module SrcId Body loader compiler B C FM CHK GRD evs id b C14_side_no_main_only_names).
Qed.

(* --- refinement of the Spec by the Mechanism on the module mini-language (ModRefine.v): for EVERY program without
       try/catch (any import graph: chains, DAGs, diamonds, self-imports and longer cycles, missing and uncompilable
       members, functions exported across modules, the frame limit), every module map and fuel, the printed lines,
       the loader calls and the outcome of ModLang.eval_mech's run equal those of the Spec's run --- *)
Theorem C14_core_in_builtins : forall c, In c C -> In c B.
Proof. exact (fun c Hc => main_only_empty_incl B C C14_side_no_main_only_names c (in_or_app B C c (or_intror Hc))). Qed.

Theorem C14_mech_refines_spec_tryfree : forall (prog : program) (cm : list (list (list string))) (fuel : nat),
  ef_prog prog = true -> tf_prog prog = true ->
  mech_obs prog cm B FM CHK GRD CHAIN CLO fuel C = spec_obs prog (B ++ C) FM fuel.
Proof. exact (fun prog cm fuel Hef => mech_refines_spec_tryfree prog cm B C FM C14_core_in_builtins Hef fuel). Qed.

(* THE REFINEMENT.  Full statement: for EVERY ModLang program, module map and fuel
       mech_obs prog cm B FM CHK GRD CHAIN CLO fuel C = spec_obs prog (B ++ C) FM fuel.
   Proved for the escape-free programs (no statement `<alias>.f<g> = f<f>;` storing a function value in another
   module): try/catch - caught cycle / load / compile errors and thrown values followed by further work -, re-imports
   after a failed import, imports in functions called from try blocks, imports through nested fibers, closures created
   and called at run time, the frame limit.  Missing: programs in which a function outlives the failed load that defined
   it (the Spec's retired instances); for those M = S is checked by evaluation on every generated program and by
   C14_escaped_function_keeps_old_instance below. *)
Theorem C14_mech_refines_spec_partial : forall (prog : program) (cm : list (list (list string))) (fuel : nat),
  ef_prog prog = true -> mech_obs prog cm B FM CHK GRD CHAIN CLO fuel C = spec_obs prog (B ++ C) FM fuel.
Proof. exact (fun prog cm fuel Hef => mech_refines_spec_partial prog cm B C FM C14_core_in_builtins Hef fuel). Qed.

(* stage 1: single-module programs *)
Theorem C14_refines_single_module : forall (ts : list top) (cm : list (list (list string))) (fuel : nat),
  ef_prog [MOk ts] = true -> tf_prog [MOk ts] = true ->
  mech_obs [MOk ts] cm B FM CHK GRD CHAIN CLO fuel C = spec_obs [MOk ts] (B ++ C) FM fuel.
Proof. exact (fun ts cm fuel Hef => mech_refines_spec_tryfree [MOk ts] cm B C FM C14_core_in_builtins Hef fuel). Qed.

(* --- a function that outlives the failed load that defined it (it was stored in another module before the load
       failed): after the path is loaded again, the old function, and the closures it creates, read and write the OLD
       instance's globals; the new module's globals are untouched.  Two fixed programs (reload inside the old function /
       by the main script), Mechanism = Spec = the listed lines; on the variant of closure_impl that binds a new closure
       to the module REGISTERED under the function's path the closure writes the new module: refuted --- *)
Theorem C14_escaped_function_keeps_old_instance :
  ex_obs ex_escape_reload_inside
  = mkobs ["<class AttributeError>"; undefined_property "x5"; "1"; "7"; "7"; "100"; "100"] ["m3"; "m1"; "m1"] ObOk
  /\ ex_obs ex_escape_reload_outside
  = mkobs ["<class AttributeError>"; undefined_property "x5"; "1"; "7"; "7"; "100"] ["m3"; "m1"; "lib/m2"; "m1"] ObOk
  /\ ex_obs ex_escape_reload_inside = ex_spec ex_escape_reload_inside
  /\ ex_obs ex_escape_reload_outside = ex_spec ex_escape_reload_outside.
Proof. exact ex_escape_obs. Qed.

(* --- a fiber whose first frame is a function of ANOTHER module than its caller's (round 7): the function runs in its
       own module's globals on the first call and after every resumption, the caller is back in its own globals after
       every Fiber.yield and after the function has finished.  Event level: C14_fiber_call_enters_module (load_fiber) and
       C14_return_restores_caller_module (unload_fiber) for every reachable state; here two fixed programs of the
       mini-language (statement SGen), Mechanism = Spec = the listed lines --- *)
Theorem C14_generator_fiber_keeps_module_globals :
  ex_obs ex_gen_cross = mkobs ["11"; "1"; "5"; "77"; "5"; "5"; "77"] ["m1"] ObOk
  /\ ex_obs ex_gen_cycle = mkobs ["11"; "31"; "<class ImportError>"; cyc_msg "m3"; "12"; "31"; "t32"; "12"; "1"] ["m1"; "m3"] ObOk
  /\ ex_obs ex_gen_cross = ex_spec ex_gen_cross /\ ex_obs ex_gen_cycle = ex_spec ex_gen_cycle
  /\ wf_prog (parse_prog ex_gen_cross) = true /\ wf_prog (parse_prog ex_gen_cycle) = true.
Proof. exact ex_gen_obs. Qed.

Theorem C14_closure_of_registered_module_refuted :
  ex_obs_reg ex_escape_reload_inside
  = mkobs ["<class AttributeError>"; undefined_property "x5"; "1"; "7"; "100"; "7"; "7"] ["m3"; "m1"; "m1"] ObOk
  /\ ex_obs_reg ex_escape_reload_inside <> ex_spec ex_escape_reload_inside
  /\ ex_obs_reg ex_escape_reload_outside <> ex_spec ex_escape_reload_outside.
Proof. exact ex_escape_refuted_registered. Qed.

(* --- fibers: the cycle test looks at the whole caller chain.  Current variant: a cycle closing through two nested
       fibers is an ImportError; an exception does not cross a fiber boundary.  The variant that looks only at the
       running fiber and its direct caller (loading_walks_chain = false) re-runs the body: refuted --- *)
Theorem C14_cycle_through_fibers_is_import_error :
  let st := w_run w_init [EStartImport "m"; EFiberCall 1; EFiberCall 1; EPushHandler] in
  fiber_depth (frames st) = 1 /\ List.length (frames st) = 4 /\ is_loading st 1 = true
  /\ snd (w_step st (EStartImport "m")) = OCaught (XErr (mkerr KImport [cyc_msg "m"]))
  /\ ran (fst (w_step st (EStartImport "m"))) = [1] /\ loads (fst (w_step st (EStartImport "m"))) = ["m"].
Proof. exact cycle_through_fibers_is_import_error. Qed.

Theorem C14_exception_does_not_cross_fibers :
  let st := w_run w_init [EStartImport "m"; EPushHandler; EFiberCall 1] in
  snd (w_step st (EStartImport "m")) = ODead (XErr (mkerr KImport [cyc_msg "m"])).
Proof. exact exception_does_not_cross_fibers. Qed.

Theorem C14_cycle_through_two_fibers_refuted_shallow :
  (let st := w_run_shallow w_init [EStartImport "m"; EFiberCall 1; EPushHandler] in
   snd (w_step_shallow st (EStartImport "m")) = OCaught (XErr (mkerr KImport [cyc_msg "m"])))
  /\ (let st := w_run_shallow w_init [EStartImport "m"; EFiberCall 1; EFiberCall 1; EPushHandler] in
      is_loading st 1 = true
      /\ snd (w_step_shallow st (EStartImport "m")) = OEntered 2 tt
      /\ ran (fst (w_step_shallow st (EStartImport "m"))) = [2; 1]
      /\ loads (fst (w_step_shallow st (EStartImport "m"))) = ["m"; "m"]
      /\ alookup (reg (fst (w_step_shallow st (EStartImport "m")))) "m" = Some 2
      /\ is_loading (fst (w_step_shallow st (EStartImport "m"))) 1 = true).
Proof. exact cycle_through_two_fibers_refuted_shallow. Qed.

(* --- the two repaired defects: behaviour of the current variant, and the old behaviour as refutations on the
       model variant with both booleans false (witnesses by computation; frames_max = 3 instance) --- *)
Theorem C14_reimport_after_failed_body_reloads :
  exists evs, let st := w_run w_init evs in
    frames st = [mkframe 0 true true] /\ ran st = [1] /\ alookup (reg st) "m" = Some 1 /\ is_loading st 1 = false
    /\ snd (w_step st (EStartImport "m")) = OEntered 2 tt
    /\ ran (fst (w_step st (EStartImport "m"))) = [2; 1] /\ loads (fst (w_step st (EStartImport "m"))) = ["m"; "m"]
    /\ alookup (reg (fst (w_step st (EStartImport "m")))) "m" = Some 2.
Proof. exact reimport_after_failed_body_reloads. Qed.

Theorem C14_import_at_frame_limit_is_clean :
  exists evs, let st0 := w_run w_init evs in let st := fst (w_step st0 (EStartImport "q")) in
    alookup (attrs_of st0 0) "print" = Some (VNum 7) /\ List.length (frames st0) = 3
    /\ snd (w_step st0 (EStartImport "q")) = OCaught (XErr (mkerr KIndex [stack_overflow_msg]))
    /\ alookup (attrs_of st 0) "print" = Some (VNum 7) /\ ran st = []
    /\ snd (w_step (fst (w_step st EPushHandler)) (EStartImport "q")) = OEntered 2 tt.
Proof. exact import_at_frame_limit_is_clean. Qed.

Theorem C14_import_at_frame_limit_refuted_old :
  exists evs, let st0 := w_run_old w_init evs in let st := fst (w_step_old st0 (EStartImport "q")) in
    alookup (attrs_of st0 0) "print" = Some (VNum 7)
    /\ List.length (frames st0) = 3
    /\ alookup (attrs_of st 0) "print" = Some (VBuiltin "print")
    /\ alookup (reg st) "q" = Some 1 /\ ran st = [] /\ m_imported (getmod st 1) = false
    /\ snd (w_step_old (fst (w_step_old st EPushHandler)) (EStartImport "q")) = OCaught (XErr (mkerr KImport [cyc_msg "q"])).
Proof. exact import_at_frame_limit_refuted_old. Qed.

Theorem C14_reimport_after_failed_body_reports_cycle_refuted_old :
  exists evs, let st := w_run_old w_init evs in
    frames st = [mkframe 0 true true] /\ ran st = [1] /\ is_loading st 1 = false
    /\ snd (w_step_old st (EStartImport "m")) = OCaught (XErr (mkerr KImport [cyc_msg "m"])).
Proof. exact reimport_after_failed_body_reports_cycle_refuted_old. Qed.

Print Assumptions C14_side_variant.
Print Assumptions C14_side_main_has_builtins.
Print Assumptions C14_invariant.
Print Assumptions C14_body_runs_at_most_once.
Print Assumptions C14_body_starts_only_if_absent_or_failed.
Print Assumptions C14_loader_called_only_if_absent_or_failed.
Print Assumptions C14_loaded_module_is_settled.
Print Assumptions C14_settled_import_is_cached.
Print Assumptions C14_yielded_is_settled.
Print Assumptions C14_same_module_object.
Print Assumptions C14_module_object_determines_path.
Print Assumptions C14_cycle_is_import_error.
Print Assumptions C14_loading_module_is_cycle_error.
Print Assumptions C14_failed_import_is_retried.
Print Assumptions C14_failed_load_is_import_error.
Print Assumptions C14_failed_compile_is_import_error.
Print Assumptions C14_failed_import_registers_nothing.
Print Assumptions C14_raise_delivers.
Print Assumptions C14_globals_isolated.
Print Assumptions C14_call_enters_defining_module.
Print Assumptions C14_return_restores_caller_module.
Print Assumptions C14_global_read_is_local.
Print Assumptions C14_global_write_is_local.
Print Assumptions C14_attrs_frame.
Print Assumptions C14_builtins_in_every_module.
Print Assumptions C14_fresh_module_has_only_builtins.
Print Assumptions C14_side_stage_order.
Print Assumptions C14_side_cycle_format.
Print Assumptions C14_side_compile_format.
Print Assumptions C14_side_error_kinds.
Print Assumptions C14_side_main_literal.
Print Assumptions C14_side_import_shape.
Print Assumptions C14_side_active_module_sites.
Print Assumptions C14_side_frame_switch_sites.
Print Assumptions C14_side_import_census.
Print Assumptions C14_fresh_import_enters_body_after_any_history.
Print Assumptions C14_generator_fiber_keeps_module_globals.
Print Assumptions C14_side_builtin_names_known.
Print Assumptions C14_side_default_loader.
Print Assumptions C14_side_no_main_only_names.
Print Assumptions C14_startup_names_in_every_module.
Print Assumptions C14_side_only_script_has_empty_name.
Print Assumptions C14_core_in_builtins.
Print Assumptions C14_mech_refines_spec_tryfree.
Print Assumptions C14_mech_refines_spec_partial.
Print Assumptions C14_escaped_function_keeps_old_instance.
Print Assumptions C14_closure_of_registered_module_refuted.
Print Assumptions C14_function_of_old_object_uses_its_own_globals.
Print Assumptions C14_refines_single_module.
Print Assumptions C14_fiber_call_enters_module.
Print Assumptions C14_cycle_through_fibers_is_import_error.
Print Assumptions C14_exception_does_not_cross_fibers.
Print Assumptions C14_cycle_through_two_fibers_refuted_shallow.
Print Assumptions C14_reimport_after_failed_body_reloads.
Print Assumptions C14_import_at_frame_limit_is_clean.
Print Assumptions C14_import_at_frame_limit_refuted_old.
Print Assumptions C14_reimport_after_failed_body_reports_cycle_refuted_old.
