(* C16 - Garbage is reclaimed: heap size is bounded by live data.
   ONLY statements: each is closed by `exact` of a lemma of theories/, instantiated with the constants
   regenerated from /repo's common.rs / vm.rs (YVGen.Consts), whose side conditions are decided here by
   computation.  The collector's tables are the hand transcription HeapTablesRef (C01 owns their tie). *)
From Coq Require Import List NArith ZArith Arith Lia.
From YVGen Require Consts.
From YV Require Import SideCond Heap HeapTablesRef Collect CollectProofs Pacing PacingProofs PacingRun
  PacingRunProofs Roots RootsProofs RangeCache RangeCacheProofs PacingRule PacingRuleProofs.
Import ListNotations.

Definition INIT : N := YVGen.Consts.HEAP_INIT_BYTES_MAX.
Definition GROWTH : N := YVGen.Consts.HEAP_GROWTH_FACTOR.
Definition RSIZE : nat := N.to_nat YVGen.Consts.RANGE_CACHE_SIZE.

(* --- the constants are the ones the property text states: growth factor 2, initial budget 64 KiB --- *)
Theorem C16_constants_as_stated : (GROWTH = 2 /\ INIT = 65536)%N.
Proof. split; reflexivity. Qed.

(* --- side conditions on the current source's constants --- *)
Theorem C16_side_consts_known : YVGen.Consts.consts_all_known = true.
Proof. reflexivity. Qed.
Theorem C16_side_growth : (1 <= GROWTH)%N.
Proof. apply N.leb_le. vm_compute. reflexivity. Qed.
Theorem C16_side_cache : (1 <= RSIZE)%nat.
Proof. apply Nat.leb_le. vm_compute. reflexivity. Qed.

(* --- pacing: at every allocation of every history the heap is within max(INIT, GROWTH * bytes after the
   previous collection) + the allocation in flight --- *)
Theorem C16_pacing_bound : forall hist,
  Forall (fun r => within_bound INIT GROWTH r = true) (run_hist (alloc_paced GROWTH) hist (p_init INIT) 0%N).
Proof. exact (pacing_bound INIT GROWTH C16_side_growth). Qed.
Theorem C16_pacing_bound_nth : forall hist i r,
  nth_error (run_hist (alloc_paced GROWTH) hist (p_init INIT) 0%N) i = Some r ->
  (bytes (r_state r) <= N.max INIT (GROWTH * r_last r) + r_size r)%N.
Proof. exact (pacing_bound_nth INIT GROWTH C16_side_growth). Qed.
(* from any state satisfying the invariant (a log that starts after the Vm's own start-up allocations) *)
Theorem C16_pacing_bound_from : forall hist s last, pinv INIT GROWTH s last ->
  Forall (fun r => within_bound INIT GROWTH r = true) (run_hist (alloc_paced GROWTH) hist s last).
Proof. exact (pacing_bound_gen INIT GROWTH C16_side_growth). Qed.
(* a real log that replays through the model satisfies the bound at every record *)
Theorem C16_replay_sound : forall log,
  model_verdict INIT GROWTH log = None -> spec_verdict INIT GROWTH log = None.
Proof. exact (replay_sound INIT GROWTH C16_side_growth). Qed.
(* the collect-at-every-allocation configuration *)
Theorem C16_stress_collects_every_time : forall hist s last,
  Forall (fun r => r_collected r = true) (run_hist (alloc_stress GROWTH) hist s last).
Proof. exact (stress_collects_every_time GROWTH). Qed.
Theorem C16_stress_bytes : forall freed size s,
  bytes (fst (alloc_stress GROWTH freed size s)) = (bytes s - freed + size)%N.
Proof. exact (stress_bytes GROWTH). Qed.
(* the byte counter is the sum of the sizes of the live boxes, both configurations *)
Theorem C16_bytes_is_live_sum : forall alloc, alloc = alloc_paced GROWTH \/ alloc = alloc_stress GROWTH ->
  forall hist s live, bytes s = sum_sizes live -> hist_sub hist s live alloc ->
  Forall (fun p => bytes (fst p) = sum_sizes (snd p)) (run_live alloc hist s live).
Proof. exact (bytes_is_live_sum GROWTH C16_side_growth). Qed.

(* --- the collector: nothing unreachable survives; with today's tables exactly the reachable boxes survive;
   what sweep reports as freed is what it removed --- *)
Theorem C16_collect_only_reach : forall h h' a, wf h ->
  collect_opt marks_ref blackens_black_ref blackens_mark_ref h = Some h' ->
  lookup h' a <> None -> reach_any marks_ref blackens_black_ref blackens_mark_ref h a.
Proof. exact (collect_only_reach marks_ref blackens_black_ref blackens_mark_ref). Qed.
Theorem C16_collect_exact : forall h h' a, wf h ->
  collect_opt marks_ref blackens_black_ref blackens_mark_ref h = Some h' ->
  (lookup h' a <> None <-> reach_marks marks_ref h a).
Proof.
  exact (fun h h' a => collect_exact_when_tables_agree marks_ref blackens_black_ref blackens_mark_ref h h' a
                         (proj1 tables_agree_ref)).
Qed.
Theorem C16_freed_exact : forall sf pf h h' fr,
  collect_with marks_ref blackens_black_ref blackens_mark_ref sf pf h = Some h' ->
  freed_with marks_ref blackens_black_ref blackens_mark_ref sf pf h = Some fr ->
  (fr + total_size h' = total_size h)%N.
Proof. exact (freed_exact_with marks_ref blackens_black_ref blackens_mark_ref). Qed.

(* --- handles: num_roots is exactly the number of live handles, so the last drop returns it to zero --- *)
Theorem C16_num_roots_exact : forall ops,
  let s := run_ops ops r_init in (forall a, cnt s a = nlive (live s) a) /\ underflow s = false.
Proof. exact num_roots_exact. Qed.
Theorem C16_last_drop_zero : forall ops h k a,
  let s := run_ops ops r_init in
  hfind (live s) h = Some (k, a) -> nlive (live s) a = 1%nat ->
  (cnt (apply_op (DropHandle h) s) a = 0 /\ nlive (live (apply_op (DropHandle h) s)) a = 0)%nat.
Proof. exact last_drop_zero. Qed.
Theorem C16_zero_count_no_handle : forall ops a,
  cnt (run_ops ops r_init) a = 0%nat -> forall h k, hfind (live (run_ops ops r_init)) h <> Some (k, a).
Proof. exact zero_count_no_handle. Qed.

(* --- the range cache roots at most RANGE_CACHE_SIZE ranges, for all request sequences --- *)
Theorem C16_range_cache_bounded : forall reqs,
  (length (entries (snd (run_reqs RSIZE reqs rc_init))) <= RSIZE)%nat.
Proof. exact (range_cache_bounded RSIZE). Qed.
Theorem C16_range_cache_hit_identity : forall reqs0 b e,
  let c := snd (run_reqs RSIZE reqs0 rc_init) in
  exists x, In x (entries (snd (request RSIZE c b e))) /\ e_id x = fst (request RSIZE c b e) /\
    forall reqs, let c2 := snd (run_reqs RSIZE reqs (snd (request RSIZE c b e))) in
      In x (entries c2) -> request RSIZE c2 b e = (fst (request RSIZE c b e), c2).
Proof. exact (fun reqs0 b e => range_cache_hit_identity_run RSIZE reqs0 b e C16_side_cache). Qed.
Theorem C16_range_cache_ids_distinct : forall reqs x y,
  let c := snd (run_reqs RSIZE reqs rc_init) in
  In x (entries c) -> In y (entries c) -> e_id x = e_id y -> x = y.
Proof. exact (range_cache_ids_distinct RSIZE). Qed.
Theorem C16_range_cache_no_panic : forall reqs, panicked (snd (run_reqs RSIZE reqs rc_init)) = false.
Proof. exact (fun reqs => range_cache_no_panic RSIZE reqs C16_side_cache). Qed.

Print Assumptions C16_constants_as_stated.
Print Assumptions C16_side_consts_known.
Print Assumptions C16_side_growth.
Print Assumptions C16_side_cache.
Print Assumptions C16_pacing_bound.
Print Assumptions C16_pacing_bound_nth.
Print Assumptions C16_pacing_bound_from.
Print Assumptions C16_replay_sound.
Print Assumptions C16_stress_collects_every_time.
Print Assumptions C16_stress_bytes.
Print Assumptions C16_bytes_is_live_sum.
Print Assumptions C16_collect_only_reach.
Print Assumptions C16_collect_exact.
Print Assumptions C16_freed_exact.
Print Assumptions C16_num_roots_exact.
Print Assumptions C16_last_drop_zero.
Print Assumptions C16_zero_count_no_handle.
Print Assumptions C16_range_cache_bounded.
Print Assumptions C16_range_cache_hit_identity.
Print Assumptions C16_range_cache_ids_distinct.
Print Assumptions C16_range_cache_no_panic.

(* --- round 7: the threshold update as a parameter.  ANY rule bounded by max(INIT, GROWTH * survivors) keeps the
   bound; the source's rule is one (and the parametrised step with it is Pacing.alloc_paced); the rules of the seeded
   changes (ratchet, damping) and the averaging sibling coincide with it while the survivors do not shrink and are
   refuted by a grow-then-drop history: the input class of the live-set profile programs --- *)
Theorem C16_pacing_bound_any_rule : forall f : rule, rule_ok INIT GROWTH f -> forall hist,
  Forall (fun r => within_bound INIT GROWTH r = true) (run_hist (alloc_paced_rule f) hist (p_init INIT) 0%N).
Proof. exact (pacing_bound_rule INIT GROWTH C16_side_growth). Qed.
Theorem C16_source_rule_ok : rule_ok INIT GROWTH (rule_exact GROWTH) /\
  forall freed size s, alloc_paced_rule (rule_exact GROWTH) freed size s = alloc_paced GROWTH freed size s.
Proof. exact (conj (rule_exact_ok INIT GROWTH C16_side_growth) (alloc_paced_rule_exact GROWTH)). Qed.
Theorem C16_floor_rule_ok : rule_ok INIT GROWTH (rule_floor INIT GROWTH).
Proof. exact (rule_floor_ok INIT GROWTH C16_side_growth). Qed.
Theorem C16_damped_rule_steady_eq : forall s t, (t / GROWTH <= s * GROWTH)%N -> rule_damped GROWTH s t = rule_exact GROWTH s t.
Proof. exact (damped_eq_exact_when_not_halved GROWTH C16_side_growth). Qed.
Theorem C16_ratchet_rule_steady_eq : forall s t, (t <= s * GROWTH)%N -> rule_ratchet GROWTH s t = rule_exact GROWTH s t.
Proof. exact (ratchet_eq_exact_when_grown GROWTH C16_side_growth). Qed.
Theorem C16_pacing_bound_damped_refuted :
  all_within INIT GROWTH (grow_then_drop INIT (rule_damped GROWTH) (N.to_nat 4096) (N.to_nat 6000) 48) = false.
Proof. exact pacing_bound_damped_refuted. Qed.
Theorem C16_pacing_bound_ratchet_refuted :
  all_within INIT GROWTH (grow_then_drop INIT (rule_ratchet GROWTH) (N.to_nat 4096) (N.to_nat 6000) 48) = false.
Proof. exact pacing_bound_ratchet_refuted. Qed.
Theorem C16_pacing_bound_average_refuted :
  all_within INIT GROWTH (grow_then_drop INIT (rule_average GROWTH) (N.to_nat 4096) (N.to_nat 6000) 48) = false.
Proof. exact pacing_bound_average_refuted. Qed.
Theorem C16_source_rule_survives_grow_then_drop :
  all_within INIT GROWTH (grow_then_drop INIT (rule_exact GROWTH) (N.to_nat 4096) (N.to_nat 6000) 48) = true.
Proof. exact exact_rule_survives_grow_then_drop. Qed.
Print Assumptions C16_pacing_bound_any_rule.
Print Assumptions C16_source_rule_ok.
Print Assumptions C16_floor_rule_ok.
Print Assumptions C16_damped_rule_steady_eq.
Print Assumptions C16_ratchet_rule_steady_eq.
Print Assumptions C16_pacing_bound_damped_refuted.
Print Assumptions C16_pacing_bound_ratchet_refuted.
Print Assumptions C16_pacing_bound_average_refuted.
Print Assumptions C16_source_rule_survives_grow_then_drop.

(* ======================================================================================================== *)
(* R2G block (added; see notes/R2G.md): the accounting lines of Heap::collect, Heap::collect_if_required and the
   pacing decision + accounting line of Heap::allocate_raw, TRANSLATED from the current memory.rs into
   gen/PureHeap.v by translator/rust2gallina.py on every run, equal the hand-written model (Pacing.do_collect /
   alloc_paced / alloc_stress).  A change of one of these lines changes the generated text and breaks the NAMED
   statement.  Side conditions: a collection never frees more than is allocated, the counters stay below 2^64. *)
From YVGen Require PureHeap.
From YV Require R2G R2GProofs PureEquivHeap.
Theorem C16_gen_heap_collect_eq_model : forall s freed,
  (freed <= bytes s)%N -> (Z.of_N ((bytes s - freed) * PureEquivHeap.G) < 2 ^ 64)%Z -> (Z.of_N (bytes s) < 2 ^ 64)%Z ->
  PureHeap.Heap_collect (Z.of_N (threshold s)) (Z.of_N (bytes s)) (Z.of_N freed) =
  R2G.Val (PureEquivHeap.heap_view (do_collect PureEquivHeap.G freed s)).
Proof. exact PureEquivHeap.gen_heap_collect_eq_model. Qed.
Theorem C16_gen_heap_collect_if_required_eq_model : forall s freed,
  PureEquivHeap.collect_ok s freed ->
  PureHeap.Heap_collect_if_required (Z.of_N (threshold s)) (Z.of_N (bytes s)) (Z.of_N freed) =
  R2G.Val (PureEquivHeap.heap_view (if (threshold s <=? bytes s)%N then do_collect PureEquivHeap.G freed s else s)).
Proof. exact PureEquivHeap.gen_heap_collect_if_required_eq_model. Qed.
Theorem C16_gen_heap_allocate_raw_eq_model : forall (stress : bool) s freed size,
  PureEquivHeap.collect_ok s freed ->
  (Z.of_N (bytes (fst ((if stress then alloc_stress PureEquivHeap.G else alloc_paced PureEquivHeap.G) freed size s)))
   < 2 ^ 64)%Z ->
  PureHeap.Heap_allocate_raw stress (Z.of_N (threshold s)) (Z.of_N (bytes s)) (Z.of_N freed) (Z.of_N size) =
  R2G.Val (PureEquivHeap.heap_view
             (fst ((if stress then alloc_stress PureEquivHeap.G else alloc_paced PureEquivHeap.G) freed size s))).
Proof. exact PureEquivHeap.gen_heap_allocate_raw_eq_model. Qed.
(* the growth factor the generated lines multiply by is the one the theorems above are instantiated with *)
Theorem C16_gen_growth_factor : PureEquivHeap.G = GROWTH.
Proof. reflexivity. Qed.
Print Assumptions C16_gen_heap_collect_eq_model.
Print Assumptions C16_gen_heap_collect_if_required_eq_model.
Print Assumptions C16_gen_heap_allocate_raw_eq_model.
Print Assumptions C16_gen_growth_factor.
(* ================================================ end of the R2G block ================================= *)
