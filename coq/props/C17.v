(* C17 - Errors carry the right class, message and source lines.
   ONLY statements: each is closed by `exact` of a lemma of theories/LinesProofs.v, instantiated with the
   tables and shape booleans regenerated from /repo's sources (YVGen.ErrKinds, YVGen.UnwindArms), whose
   side conditions are decided here by computation. *)
From Coq Require Import List String NArith Bool Arith Lia.
From Coq Require Import Strings.Byte.
From YVGen Require Import ErrKinds UnwindArms.
From YV Require Import Scanner Parser ParseRun Bytecode Skeleton Verifier VerifierProofs Lines LinesSpec LinesProofs ErrLang ErrLang2 ErrLang3 ErrLang3Proofs ParserInv.
Import ListNotations.

(* the mechanism model instantiated with the shape of today's unwind_stack / try_handle_error / call_native *)
Definition fl : flags :=
  mkFlags unwind_clears_error_ip_on_catch unwind_rebases_error_ip_on_frame_drop
          failure_records_error_ip_vm failure_records_error_ip_native.

(* --- side conditions on the current sources --- *)
Theorem C17_side_shape :
  unwind_rebases_error_ip_on_frame_drop = true /\
  throw_records_error_ip = true /\
  trace_falls_back_to_live_ip = true /\ trace_innermost_first = true /\
  trace_index_offset_minus_one = true /\ store_prefers_error_ip = true /\
  unhandled_names_instance_class = true /\ error_at_uses_token_line = true /\
  emit_byte_uses_previous_line = true /\
  dispatch_errors_go_through_handlers = true /\
  line_types_wide = true /\
  scanner_counts_every_newline = true.
Proof. repeat split; reflexivity. Qed.
(* a catch clause clears the error position, or every way of raising an exception overwrites it *)
Theorem C17_side_clear : clear_on_catch fl = true \/ records_all fl = true.
Proof. exact (proj1 (orb_true_iff (clear_on_catch fl) (records_all fl)) (eq_refl true)). Qed.
(* both places that turn a failure of the VM / of a native into an exception record its position: the known
   class builtin_failure_no_error_ip is empty *)
Theorem C17_side_records : fail_records_vm fl = true /\ fail_records_native fl = true.
Proof. split; reflexivity. Qed.
Theorem C17_known_class_empty : forall s ops, known_classb fl s ops = false.
Proof. exact (fun s ops => known_class_empty fl ops s (proj1 C17_side_records) (proj2 C17_side_records)). Qed.
Theorem C17_side_formats : strings_eqb gen_format_templates format_templates = true.
Proof. vm_compute; reflexivity. Qed.
Theorem C17_side_roundtrip :
  forallb (fun k => String.eqb (kind_of_class_in class_to_kind class_to_kind_default
                                                 (class_of_kind_in kind_to_class k)) k)
          (runtime_kinds_of error_kinds) = true.
Proof. vm_compute; reflexivity. Qed.
Theorem C17_side_kinds_complete :
  forallb (fun k => match assoc kind_to_class k with Some _ => true | None => false end) error_kinds = true /\
  List.length error_kinds = 8%nat.
Proof. split; vm_compute; reflexivity. Qed.

(* the mini-language the differential check runs on (ErrLang.v): Spec and Mechanism, instantiated with the
   regenerated flags / tables / templates, agree on the directed examples (this also puts ErrLang.v into the
   closure of this file, so the check rebuilds it whenever a generated file changes) *)
Theorem C17_errlang_directed_examples : forallb agreeb directed_examples = true.
Proof. vm_compute; reflexivity. Qed.

(* the same for the two-failure family (ErrLang2.v): first x second failure in {throw, VM, native} x the four
   places where the second one is raised *)
Theorem C17_errlang2_directed_examples : forallb agree2b directed_examples2 = true.
Proof. vm_compute; reflexivity. Qed.

(* the same for the recursion family (ErrLang3.v): several activations of ONE function on the stack, per-level and
   uniform layouts, every kind of recursive callee (function, method, lambda, through a second function) *)
Theorem C17_errlang3_directed_examples : forallb agree3b directed_examples3 = true.
Proof. vm_compute; reflexivity. Qed.
(* unwind_stack must COUNT frames to know that the raising activation is being discarded: the variant that asks whether
   the recorded position lies in the handling frame's function names a line of a dead activation as soon as a function
   has two activations on the stack (witness: script -> r -> r -> r, throw at line 3, try/finally around the call at
   line 6); the mechanism with today's flags gives the Spec's trace on the same history *)
Theorem C17_rebase_by_owner_refuted :
  wf_ops (sinit (fd_script witness3)) witness3_ops = true /\
  s_raised (srun (sinit (fd_script witness3)) witness3_ops) = true /\
  spec_uncaught (srun (sinit (fd_script witness3)) witness3_ops) = Some [("main", 6%N, "r"); ("main", 12%N, "")]%string /\
  muncaught (mrun fl_all (init_vm (fd_script witness3)) witness3_ops) = Some [("main", 6%N, "r"); ("main", 12%N, "")]%string /\
  muncaught (o_vm (mrun_own fl_all (init_vmo (fd_script witness3)) witness3_ops)) = Some [("main", 3%N, "r"); ("main", 12%N, "")]%string.
Proof. exact rebase_by_owner_refuted. Qed.
(* ... and the two tests are the same machine on every single-fiber history in which no function ever has two
   activations on the stack: recursion is exactly the class of programs on which they differ (partial: fibers) *)
Theorem C17_rebase_by_owner_agrees_without_recursion_partial : forall fl0 fd0 ops,
  records_all fl0 = true -> rebase_on_drop fl0 = true ->
  wf_ops (sinit fd0) ops = true -> no_fiber_ops ops = true ->
  distinct_along fl0 (init_vm fd0) ops = true ->
  o_vm (mrun_own fl0 (init_vmo fd0) ops) = mrun fl0 (init_vm fd0) ops.
Proof. exact rebase_by_owner_agrees_without_recursion_partial. Qed.

(* --- ErrorKind -> class -> ErrorKind is the identity on every kind a running program can produce --- *)
Theorem C17_kind_class_roundtrip : forall k,
  In k error_kinds -> k <> "CompileError"%string -> kind_of_class (class_of_kind k) = k.
Proof. exact (kind_class_roundtrip_gen kind_to_class class_to_kind class_to_kind_default error_kinds C17_side_roundtrip). Qed.
(* ... and CompileError, which has no class of its own, shares RuntimeError's (by design) *)
Theorem C17_compile_error_shares_class : kind_of_class (class_of_kind "CompileError") = "RuntimeError"%string.
Proof.
  exact (compile_error_shares_class_gen kind_to_class class_to_kind class_to_kind_default
           ltac:(vm_compute; reflexivity) ltac:(vm_compute; reflexivity)).
Qed.

(* --- the trace has one entry per frame of the running fiber, innermost first --- *)
Theorem C17_trace_one_entry_per_frame : forall fd0 ops t,
  muncaught (mrun fl (init_vm fd0) ops) = Some t ->
  map entry_who t = map frame_who (fb_frames (v_fib (mrun fl (init_vm fd0) ops))) /\
  List.length t = List.length (fb_frames (v_fib (mrun fl (init_vm fd0) ops))).
Proof. exact (trace_one_entry_per_frame fl). Qed.

(* --- M refines S: the whole trace is the Spec's, for every well-formed history --- *)
Theorem C17_mech_refines_spec : forall fd0 ops,
  wf_ops (sinit fd0) ops = true ->
  s_raised (srun (sinit fd0) ops) = true ->
  muncaught (mrun fl (init_vm fd0) ops) = spec_uncaught (srun (sinit fd0) ops).
Proof.
  exact (fun fd0 ops Hwf => mech_refines_spec fl C17_side_clear (proj1 C17_side_shape) fd0 ops Hwf
                              (C17_known_class_empty (sinit fd0) ops)).
Qed.

(* --- the position used for the top frame is the failing instruction's --- *)
Theorem C17_error_ip_scoped : forall fd0 ops,
  wf_ops (sinit fd0) ops = true ->
  s_raised (srun (sinit fd0) ops) = true ->
  top_position (mrun fl (init_vm fd0) ops) = spec_top_position (srun (sinit fd0) ops).
Proof.
  exact (fun fd0 ops Hwf => error_ip_scoped fl C17_side_clear (proj1 C17_side_shape) fd0 ops Hwf
                              (C17_known_class_empty (sinit fd0) ops)).
Qed.
(* the general form, for a tree in which one of the two sites does not record: outside the known class *)
Theorem C17_error_ip_scoped_general : forall fl0 fd0 ops,
  (clear_on_catch fl0 = true \/ records_all fl0 = true) -> rebase_on_drop fl0 = true ->
  wf_ops (sinit fd0) ops = true -> known_classb fl0 (sinit fd0) ops = false ->
  s_raised (srun (sinit fd0) ops) = true ->
  top_position (mrun fl0 (init_vm fd0) ops) = spec_top_position (srun (sinit fd0) ops).
Proof. exact (fun fl0 fd0 ops H1 H2 => error_ip_scoped fl0 H1 H2 fd0 ops). Qed.
(* this was false before 60972d3 / dbae469 / 3f29ec2: witnesses on the model variants *)
Theorem C17_error_ip_scoped_refuted_old :
  exists ops, wf_ops (sinit fd_main) ops = true /\
    known_classb (mkFlags false true false false) (sinit fd_main) ops = false /\
    s_raised (srun (sinit fd_main) ops) = true /\
    top_position (mrun (mkFlags false true false false) (init_vm fd_main) ops)
      <> spec_top_position (srun (sinit fd_main) ops).
Proof. exact error_ip_scoped_refuted_old. Qed.
Theorem C17_error_ip_rebase_refuted_old :
  exists ops, wf_ops (sinit fd_main) ops = true /\
    known_classb (mkFlags true false true true) (sinit fd_main) ops = false /\
    s_raised (srun (sinit fd_main) ops) = true /\
    muncaught (mrun (mkFlags true false true true) (init_vm fd_main) ops) = None /\
    spec_uncaught (srun (sinit fd_main) ops) = Some [("main", 3, "")]%N%string.
Proof. exact error_ip_rebase_refuted_old. Qed.
Theorem C17_error_ip_scoped_refuted_builtin :
  exists ops, wf_ops (sinit fd_main) ops = true /\
    known_classb (mkFlags true true true false) (sinit fd_main) ops = true /\
    s_raised (srun (sinit fd_main) ops) = true /\
    top_position (mrun (mkFlags true true true false) (init_vm fd_main) ops) = 6%nat /\
    spec_top_position (srun (sinit fd_main) ops) = 2%nat /\
    top_position (mrun (mkFlags true true true true) (init_vm fd_main) ops) = 2%nat.
Proof. exact error_ip_scoped_refuted_builtin. Qed.

(* --- `chunk.lines[offset - 1]` is in range for verified code with a parallel line table --- *)
Theorem C17_line_index_in_range : forall b p f a (nm md : string) (lines : list N),
  check_fn b p f a = true ->
  List.length lines = List.length (code f) ->
  forall s, reachable b p f s ->
  exists i nx, decode p f (pc s) = Some (i, nx) /\
               (0 < N.to_nat nx <= List.length lines)%nat /\
               exists l, line_at (mkFd nm md lines) (N.to_nat nx) = Some l.
Proof. exact line_index_in_range. Qed.

(* --- compile errors: token lines are lines of the source; parser errors by the token-line invariant of ParserInv.v --- *)
Theorem C17_token_lines_in_range : forall src t,
  In t (scan_all src) -> (1 <= tline t <= 1 + N.of_nat (count_nl src))%N.
Proof. exact token_lines_in_range. Qed.
(* the line of a first error of the parser model is the line of a token the scanner produced for this source
   (ParserInv.v: token-line invariant through every function of Parser.v, for every source) *)
Theorem C17_parse_error_line_from_token : forall src l a m,
  parse_source src = PErr l a m -> exists t, In t (scan_all src) /\ l = tline t.
Proof. exact parse_error_line_from_token. Qed.
(* ... hence a line of the source: NO side condition *)
Theorem C17_compile_error_has_line : forall src l a m,
  parse_source src = PErr l a m -> (1 <= l <= N.of_nat (count_nl src) + 1)%N.
Proof. exact compile_error_has_line. Qed.
(* the side condition the check still evaluates per generated program (`tok=` of ErrLang.compile_msg_hex) is a theorem:
   a `tok=F` seen by the driver contradicts it *)
Theorem C17_err_line_from_tokenb_true : forall src, err_line_from_tokenb src = true.
Proof. exact err_line_from_tokenb_true. Qed.
(* the location part: the quoted lexeme is the text of a token of the source on the reported line; an error without
   location part is a scanner error with the line and message of an Error token of the source *)
Theorem C17_parse_error_at_token : forall src l a m,
  parse_source src = PErr l a m ->
  match a with
  | AtToken lex => exists t, In t (scan_all src) /\ tline t = l /\ tsource t = lex /\ tk t <> TEof /\ tk t <> TError
  | AtNothing => exists t, In t (scan_all src) /\ tline t = l /\ tk t = TError /\ m = str_of (tsource t)
  | AtEnd => exists t, In t (scan_all src) /\ tline t = l
  end.
Proof. exact parse_error_at_token. Qed.

Print Assumptions C17_side_shape.
Print Assumptions C17_side_clear.
Print Assumptions C17_side_records.
Print Assumptions C17_known_class_empty.
Print Assumptions C17_error_ip_scoped_general.
Print Assumptions C17_errlang_directed_examples.
Print Assumptions C17_errlang2_directed_examples.
Print Assumptions C17_errlang3_directed_examples.
Print Assumptions C17_rebase_by_owner_refuted.
Print Assumptions C17_rebase_by_owner_agrees_without_recursion_partial.
Print Assumptions C17_side_formats.
Print Assumptions C17_side_roundtrip.
Print Assumptions C17_side_kinds_complete.
Print Assumptions C17_kind_class_roundtrip.
Print Assumptions C17_compile_error_shares_class.
Print Assumptions C17_trace_one_entry_per_frame.
Print Assumptions C17_mech_refines_spec.
Print Assumptions C17_error_ip_scoped.
Print Assumptions C17_error_ip_scoped_refuted_old.
Print Assumptions C17_error_ip_rebase_refuted_old.
Print Assumptions C17_error_ip_scoped_refuted_builtin.
Print Assumptions C17_line_index_in_range.
Print Assumptions C17_token_lines_in_range.
Print Assumptions C17_parse_error_line_from_token.
Print Assumptions C17_compile_error_has_line.
Print Assumptions C17_err_line_from_tokenb_true.
Print Assumptions C17_parse_error_at_token.
