(* C17 - the exact line of every token (ScannerLineExact.v; unconditional since /repo 914ba97 + e81033c). *)
From Coq Require Import List String NArith Bool Arith Lia.
From Coq Require Import Strings.Byte.
From YV Require Import Utf8 Scanner ScannerProofs Parser ParseRun Lines ScannerLineExact.
From YV Require ParserInv.
Import ListNotations.
Local Open Scope N_scope.

(* the line counter is a function of the offset: every line break the scanner consumes is counted *)
Theorem C17_scanner_line_exact : forall src st, nl_cleanb src = true ->
  reachable src st -> s_line st = line_of_offset src (s_pos st).
Proof. exact scanner_line_exact. Qed.

(* every token: its line = 1 + newline bytes before its offset (its end; for a blind-character Error token that ends
   with a line break, that line break) *)
Theorem C17_token_line_exact : forall src, nl_cleanb src = true ->
  forall t e, In (t, e) (scan_ends src) -> tline t = line_of_offset src (token_offset src (t, e)).
Proof. exact token_line_exact. Qed.

Theorem C17_scan_ends_tokens : forall src, map fst (scan_ends src) = scan_all src.
Proof. exact scan_ends_tokens. Qed.

(* the side condition is true of every Rust String *)
Theorem C17_valid_nl_clean : forall src, valid_utf8 src = true -> nl_cleanb src = true.
Proof. exact valid_nl_clean. Qed.

(* every token that is not an Error token (more generally: not a late-break Error token): the end offset *)
Theorem C17_token_line_exact_plain : forall src, nl_cleanb src = true ->
  forall t e, In (t, e) (scan_ends src) ->
    (late_breakb src (t, e) = false -> tline t = line_of_offset src e) /\
    (tk t <> TError -> tline t = line_of_offset src e).
Proof. exact token_line_exact_plain. Qed.

(* the Error clause: "Invalid escape sequence." / "Expected '{' in string interpolation." ending with a raw line break *)
Theorem C17_late_break_error_line : forall src, nl_cleanb src = true ->
  forall t e, In (t, e) (scan_ends src) -> late_breakb src (t, e) = true ->
    tline t = line_of_offset src (e - 1) /\ line_of_offset src e = tline t + 1.
Proof. exact late_break_error_line. Qed.

(* the Eof clause: the synthetic Eof token ends at the end of the source and carries the last line *)
Theorem C17_eof_line_exact : forall src, nl_cleanb src = true ->
  forall t e, In (t, e) (scan_ends src) -> tk t = TEof ->
    e = List.length src /\ tline t = 1 + N.of_nat (count_nl src).
Proof. exact eof_line_exact. Qed.

(* the first compile error of every source *)
Theorem C17_compile_error_line_exact : forall src l a m,
  valid_utf8 src = true ->
  parse_source src = PErr l a m ->
  exists t e, In (t, e) (scan_ends src) /\ l = tline t /\ l = line_of_offset src (token_offset src (t, e)).
Proof. exact compile_error_line_exact_utf8. Qed.

(* "Error at '<lexeme>'": the quoted lexeme is a token that ends on the reported line *)
Theorem C17_compile_error_at_token_line : forall src l lex m,
  nl_cleanb src = true ->
  parse_source src = PErr l (AtToken lex) m ->
  exists t e, In (t, e) (scan_ends src) /\ tsource t = lex /\ l = line_of_offset src e.
Proof. exact compile_error_at_token_line. Qed.

(* the parser half: the reported line is the line of a token with no Error token before it *)
Theorem C17_parse_error_before_scan_error : forall src l a m,
  parse_source src = PErr l a m ->
  exists t, (exists pre post, scan_all src = pre ++ t :: post /\ Forall (fun x => tk x <> TError) pre) /\ tline t = l.
Proof. exact ParserInv.parse_error_before_scan_error. Qed.

Print Assumptions C17_scanner_line_exact.
Print Assumptions C17_token_line_exact.
Print Assumptions C17_scan_ends_tokens.
Print Assumptions C17_valid_nl_clean.
Print Assumptions C17_token_line_exact_plain.
Print Assumptions C17_late_break_error_line.
Print Assumptions C17_eof_line_exact.
Print Assumptions C17_compile_error_line_exact.
Print Assumptions C17_compile_error_at_token_line.
Print Assumptions C17_parse_error_before_scan_error.
