(* C17 - the exact line of every token (ScannerLineExact.v; possible since /repo 914ba97). *)
From Coq Require Import List String NArith Bool Arith Lia.
From Coq Require Import Strings.Byte.
From YV Require Import Utf8 Scanner Parser ParseRun Lines ScannerLineExact.
From YV Require ParserInv.
Import ListNotations.
Local Open Scope N_scope.

(* every token: its line + the swallowing error tokens up to it = 1 + newline bytes before its end *)
Theorem C17_token_line_exact : forall src, nl_cleanb src = true ->
  forall l1 t e l2, scan_ends src = l1 ++ (t, e) :: l2 ->
    tline t + swallowed src (l1 ++ [(t, e)]) = line_of_offset src e.
Proof. exact token_line_exact. Qed.

Theorem C17_scan_ends_tokens : forall src, map fst (scan_ends src) = scan_all src.
Proof. exact scan_ends_tokens. Qed.

(* the side condition is true of every Rust String *)
Theorem C17_valid_nl_clean : forall src, valid_utf8 src = true -> nl_cleanb src = true.
Proof. exact valid_nl_clean. Qed.

(* up to and including the first Error token *)
Theorem C17_token_line_exact_first_error : forall src, nl_cleanb src = true ->
  forall l1 t e l2, scan_ends src = l1 ++ (t, e) :: l2 ->
    Forall (fun te => tk (fst te) <> TError) l1 ->
    tline t + (if swallowb src (t, e) then 1 else 0) = line_of_offset src e /\
    (tk t <> TError -> tline t = line_of_offset src e).
Proof. exact token_line_exact_first_error. Qed.

(* no "Invalid escape sequence." / "Expected '{' in string interpolation." token: all lines exact *)
Theorem C17_token_line_exact_all : forall src, nl_cleanb src = true -> no_swallow_tokens src = true ->
  forall t e, In (t, e) (scan_ends src) -> tline t = line_of_offset src e.
Proof. exact token_line_exact_all. Qed.

(* the first compile error *)
Theorem C17_compile_error_line_exact : forall src l a m,
  nl_cleanb src = true ->
  parse_source src = PErr l a m ->
  exists t e, In (t, e) (scan_ends src) /\ l = tline t /\
              l <= line_of_offset src e <= l + swallowed src (scan_ends src) /\
              (no_swallow_tokens src = true -> l = line_of_offset src e).
Proof. exact compile_error_line_exact. Qed.

(* the synthetic Eof token ends at the end of the source: it carries the last line (minus the deficit) *)
Theorem C17_eof_line_exact : forall src, nl_cleanb src = true ->
  forall t e, In (t, e) (scan_ends src) -> tk t = TEof ->
    e = List.length src /\
    tline t + swallowed src (scan_ends src) = 1 + N.of_nat (count_nl src).
Proof. exact eof_line_exact. Qed.

(* a swallowing Error token (the first Error token of the scan) carries the line on which the swallowed break stands *)
Theorem C17_swallowing_error_line : forall src, nl_cleanb src = true ->
  forall l1 t e l2, scan_ends src = l1 ++ (t, e) :: l2 ->
    Forall (fun te => tk (fst te) <> TError) l1 -> swallowb src (t, e) = true ->
    tline t = line_of_offset src (e - 1).
Proof. exact swallowing_error_line. Qed.

(* the FIRST compile error of every source: exact, no side condition beyond UTF-8 *)
Theorem C17_compile_error_line_exact_first : forall src l a m,
  valid_utf8 src = true ->
  parse_source src = PErr l a m ->
  exists t e, In (t, e) (scan_ends src) /\ l = tline t /\
    (if swallowb src (t, e) then l = line_of_offset src (e - 1) else l = line_of_offset src e).
Proof. exact compile_error_line_exact_first_utf8. Qed.

(* the parser half: the reported line is the line of a token with no Error token before it *)
Theorem C17_parse_error_before_scan_error : forall src l a m,
  parse_source src = PErr l a m ->
  exists t, (exists pre post, scan_all src = pre ++ t :: post /\ Forall (fun x => tk x <> TError) pre) /\ tline t = l.
Proof. exact ParserInv.parse_error_before_scan_error. Qed.

(* OPEN defect class literal_error_swallows_newline (notes/C17-findings.json): later tokens one line short *)
Theorem C17_line_exact_refuted_escape :
  exists src l1 t e l2, valid_utf8 src = true /\ scan_ends src = l1 ++ (t, e) :: l2 /\
    tk t = TEqual /\ tline t = 2 /\ line_of_offset src e = 3.
Proof. exact line_exact_refuted_escape. Qed.

Theorem C17_line_exact_refuted_dollar :
  exists src l1 t e l2, valid_utf8 src = true /\ scan_ends src = l1 ++ (t, e) :: l2 /\
    tk t = TEqual /\ tline t = 2 /\ line_of_offset src e = 3.
Proof. exact line_exact_refuted_dollar. Qed.

Print Assumptions C17_token_line_exact.
Print Assumptions C17_scan_ends_tokens.
Print Assumptions C17_valid_nl_clean.
Print Assumptions C17_token_line_exact_first_error.
Print Assumptions C17_token_line_exact_all.
Print Assumptions C17_compile_error_line_exact.
Print Assumptions C17_line_exact_refuted_escape.
Print Assumptions C17_line_exact_refuted_dollar.
Print Assumptions C17_eof_line_exact.
Print Assumptions C17_swallowing_error_line.
Print Assumptions C17_compile_error_line_exact_first.
Print Assumptions C17_parse_error_before_scan_error.
