(* C17 - representations of Chunk.lines (round 9; LineTable.v / LineTableProofs.v).  ONLY statements.
   A run-length encoded line table is the flat table of today's tree when its run counter is unbounded; with a counter that
   saturates at c it is the flat table exactly for the chunks in which no source line owns more than c consecutive code
   bytes, and wrong (another line / out of range = panic) outside that class - the class the scale family of
   tools/props/C17.py builds (one source line of 100 ... 280000 code bytes). *)
From Coq Require Import List NArith Bool.
From YV Require Import Lines LineTable LineTableProofs.
Import ListNotations.
Local Open Scope N_scope.

Theorem C17_rle_unbounded_exact : forall ls off, rle_line None ls off = flat_index ls off.
Proof. exact rle_unbounded_exact. Qed.

(* ... and that is the mechanism's `line_at` (Lines.v), for every function description and saved ip *)
Theorem C17_rle_unbounded_is_line_at : forall fd i, rle_line None (fd_lines fd) (N.of_nat i) = line_at fd (S i).
Proof. exact rle_unbounded_is_line_at. Qed.

Theorem C17_rle_capped_exact_within : forall c ls off, runs_within c (rle_build None ls) = true ->
  rle_line (Some c) ls off = flat_index ls off.
Proof. exact rle_capped_exact_within. Qed.

(* the seeded change of round 9 (16-bit saturating counter): 65536 bytes from line 2, then lines 3 and 5 *)
Theorem C17_rle_saturating_u16_refuted :
  flat_index long_line_chunk 65536 = Some 3 /\ rle_line (Some 65535) long_line_chunk 65536 = Some 5 /\
  flat_index long_line_chunk 65537 = Some 5 /\ rle_line (Some 65535) long_line_chunk 65537 = None /\
  runs_within 65535 (rle_build None long_line_chunk) = false /\
  rle_line None long_line_chunk 65536 = Some 3.
Proof. exact rle_saturating_u16_refuted. Qed.

Theorem C17_rle_saturating_refuted_every_cap : forall c a b, 1 <= c -> a <> b ->
  let ls := repeat a (S (N.to_nat c)) ++ [b; b] in
  flat_index ls c = Some a /\ rle_line (Some c) ls c = Some b.
Proof. exact rle_saturating_refuted_every_cap. Qed.

Print Assumptions C17_rle_unbounded_exact.
Print Assumptions C17_rle_unbounded_is_line_at.
Print Assumptions C17_rle_capped_exact_within.
Print Assumptions C17_rle_saturating_u16_refuted.
Print Assumptions C17_rle_saturating_refuted_every_cap.
