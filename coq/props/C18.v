(* C18 - Iteration is uniform over built-in and user-defined iterables.
   ONLY statements: each is closed by `exact` of a lemma of theories/IterProofs.v. *)
From Coq Require Import String.
From Coq Require Import List ZArith NArith Arith Lia.
From Coq Require Import Strings.Byte.
From YVGen Require Import IterFns.
From YVGen Require ClassSrc.
From YV Require Import Utf8 IterModel IterSpec IterLang IterProofs IterLangProofs.
Import ListNotations.

(* --- the sentinel test of the for loop (vm.rs) and of the adapters (core.yl) is the same test --- *)
Theorem C18_sentinel_uniform : forall v, is_stop v = derives_stop v.
Proof. exact sentinel_uniform. Qed.

(* --- next_enumerates: n calls of next() on a fresh native iterator / the user iterator Count give the elements
   the iterable denotes, in order, once each, then the sentinel for ever (ranges in both directions, all bounds) --- *)
Theorem C18_next_enumerates : forall n,
  (forall xs, run_cursor (vec_next xs) n 0 = firstn n (elements (SrcVec xs) ++ repeat VStop n)) /\
  (forall xs, run_cursor (vec_next xs) n 0 = firstn n (elements (SrcTup xs) ++ repeat VStop n)) /\
  (forall a e, run_cursor (range_step e) n (range_new a e) = firstn n (elements (SrcRange a e) ++ repeat VStop n)) /\
  (forall s, valid_utf8 s = true -> run_cursor (str_next s) n 0 = firstn n (elements (SrcStr s) ++ repeat VStop n)) /\
  (forall lo hi, run_cursor (count_next hi) n lo = firstn n (elements (SrcCount lo hi) ++ repeat VStop n)).
Proof. exact next_enumerates. Qed.

(* --- the same on the heap of iterator objects: a fresh iterator object hands out the elements --- *)
Theorem C18_fresh_iter_rep : forall st id,
  (forall vid, nth_error (heap st) id = Some (OVecIter vid 0) -> Rep 1 st id (until_stop (get_vec st vid))) /\
  (forall xs, nth_error (heap st) id = Some (OTupIter xs 0) -> Rep 1 st id (until_stop xs)) /\
  (forall xs, nth_error (heap st) id = Some (OScript xs 0) -> Rep 1 st id (elements (SrcScript xs))) /\
  (forall a e, nth_error (heap st) id = Some (ORangeIter e (fst (range_new a e)) (snd (range_new a e))) ->
               Rep 1 st id (elements (SrcRange a e))) /\
  (forall s, valid_utf8 s = true -> nth_error (heap st) id = Some (OStrIter s 0) -> Rep 1 st id (elements (SrcStr s))) /\
  (forall lo hi, nth_error (heap st) id = Some (OCount hi lo) -> Rep 1 st id (elements (SrcCount lo hi))).
Proof. exact fresh_iter_rep. Qed.

(* --- map_filter_collect_reduce_spec: every chain of MapIter / FilterIter objects over an object that hands out l:
   collect() = List.map / List.filter composed on l, reduce(g, init) = fold_left g of that --- *)
Theorem C18_map_filter_collect_reduce_spec : forall st x ops top F l, Chain st x ops top -> Rep F st x l ->
  exists F', forall ofuel fuel, F' <= ofuel -> length (chain_spec ops l) < fuel ->
    (exists v st', collect_loop fuel ofuel st top = (CNormal, (chain_spec ops l, v, st'))) /\
    (forall g init, exists v st',
        fold_loop fuel ofuel (apply_rd g) init st top = (CNormal, (fold_left (apply_rd g) (chain_spec ops l) init, v, st'))).
Proof. exact map_filter_collect_reduce_spec. Qed.

(* --- ... and for every fresh chain EXPRESSION of the mini-language, as the Mechanism builds it --- *)
Theorem C18_lang_chain_collect_reduce : forall e m id m', fresh e = true -> eval_iter e m = (id, m') ->
  let l := chain_spec (snd (chain_of e)) (base_elems e m) in
  exists F, forall ofuel fuel, F <= ofuel -> length l < fuel ->
    (exists v st', collect_loop fuel ofuel (ms m') id = (CNormal, (l, v, st'))) /\
    (forall g init, exists v st',
       fold_loop fuel ofuel (apply_rd g) init (ms m') id = (CNormal, (fold_left (apply_rd g) l init, v, st'))).
Proof. exact lang_chain_collect_reduce. Qed.

(* --- for_loop_visits_elements: the IterNext / SetLocal / JumpIfStopIter protocol runs the body once per element,
   in order, with the loop variable set to it, for any body that keeps the iterator's denotation --- *)
Theorem C18_for_loop_visits_elements : forall (M : Type) nextf setv body (R : M -> list value -> Prop),
  (forall m, R m [] -> exists v m', nextf m = Some (v, m') /\ is_stop v = true) ->
  (forall m x l, R m (x :: l) -> is_stop x = false /\ exists m', nextf m = Some (x, m') /\
      (forall m3, snd (body (setv m' x)) = m3 -> R m3 l)) ->
  forall l m fuel, R m l -> length l < fuel ->
    for_rounds nextf setv body fuel m = visit nextf setv body l m.
Proof. exact (@for_rounds_visits). Qed.

(* --- loops_independent: next() on one native iterator changes no other iterator object and no vector --- *)
Theorem C18_loops_independent : forall n k st id1 o vs st', nth_error (heap st) id1 = Some o -> is_native o = true ->
  nexts k n st id1 = Some (vs, st') ->
  vecs st' = vecs st /\ forall j, j <> id1 -> nth_error (heap st') j = nth_error (heap st) j.
Proof. exact loops_independent. Qed.
Theorem C18_loops_independent_vec : forall n k st id1 id2 vid c1 c2 vs st', id1 <> id2 ->
  nth_error (heap st) id1 = Some (OVecIter vid c1) -> nth_error (heap st) id2 = Some (OVecIter vid c2) ->
  nexts k n st id1 = Some (vs, st') ->
  Rep 1 st' id2 (until_stop (skipn c2 (get_vec st vid))).
Proof. exact loops_independent_vec. Qed.

(* --- vec_mutation_indexed: a loop over a vector that its body changes reads index 0, 1, 2, .. of the CURRENT
   vector while i < its CURRENT length: defined, total --- *)
Theorem C18_vec_mutation_indexed : forall rounds mut i st id vid,
  nth_error (heap st) id = Some (OVecIter vid i) -> vid < length (vecs st) ->
  vec_rounds rounds mut i st id vid = indexed_visits mut i (get_vec st vid) rounds.
Proof. exact vec_mutation_indexed. Qed.

(* --- break / continue / normal end leave no iteration state: the stack of hidden locals has its old height
   after any statement list of the mini-language (unless the function returned) --- *)
Theorem C18_exec_stack : forall k ofuel loc d ss m c m', exec k ofuel loc d ss m = (c, m') -> ok_ctl c -> slen m' = slen m.
Proof. exact exec_stack. Qed.
Theorem C18_for_leaves_no_state : forall k ofuel loc d e body m c m',
  exec (S k) ofuel loc d [SFor e body] m = (c, m') -> ok_ctl c -> length (stack m') = length (stack m).
Proof. exact for_leaves_no_state. Qed.

(* --- side conditions on the CURRENT core.yl (gen/IterFns.v, regenerated by translator/translate_c18.py):
   every method of class Iter obtains the iterator of its receiver through iter() (it IS iter, calls self.iter(), or
   loops `for v in self`) - never hands the bare receiver on; the mini-language covers exactly these methods;
   MapIter.iter / FilterIter.iter return self --- *)
Theorem C18_side_consumers_call_iter : consumers_call_iter iter_fns = true.
Proof. vm_compute; reflexivity. Qed.
Theorem C18_side_consumers_covered : consumers_covered iter_fns = true.
Proof. vm_compute; reflexivity. Qed.
Theorem C18_side_adapter_iter_is_self : adapter_iter_is_self mapiter_fns = true /\ adapter_iter_is_self filteriter_fns = true.
Proof. split; vm_compute; reflexivity. Qed.

(* no method of Iter / MapIter / FilterIter calls itself: the adapters search with loops, so the number of elements a
   filter rejects in a row costs no call frames (FRAMES_MAX = 64, no tail calls) *)
Theorem C18_side_adapters_not_recursive : iter_self_calls = [].
Proof. vm_compute; reflexivity. Qed.
(* vm.rs iter_next_impl sends `next` through the plain `invoke` (instance fields first, then the class), like
   `it.next()` and the adapters' `self.iterable.next()`; the for statement fetches the iterator by a plain Invoke of
   "iter" (table regenerated by translator/translate_c07.py, restated here because for C18 a for loop that skipped
   the instance's field would see another sequence than the other consumers) *)
Theorem C18_side_for_next_by_plain_invoke :
  ClassSrc.src_iter_next_code = 0 /\ ClassSrc.src_for_fetches_iterator_by_plain_invoke = true.
Proof. split; vm_compute; reflexivity. Qed.

(* --- an iterator whose instance FIELD next wraps its class's next hands out what the FIELD produces --- *)
Theorem C18_field_next_rep : forall st id items,
  (forall z, nth_error (heap st) id = Some (OWrapped items 0 (WScale z) 0) -> Rep 1 st id (obj_elems KScaled items z)) /\
  (forall z, nth_error (heap st) id = Some (OWrapped items 0 (WLimit (Z.to_nat z)) 0) -> Rep 1 st id (obj_elems KLimited items z)) /\
  (nth_error (heap st) id = Some (OWrapped items 0 WCount 0) -> Rep 1 st id (obj_elems KCounted items 0)).
Proof. exact field_next_rep. Qed.

(* --- user-defined iterables whose iter() does real work (rewinds a cursor, returns a separate cursor, a built-in
   iterator of an inner vec, an adapter chain): what iter() returns hands out the whole denoted sequence, whatever
   was traversed before; and iter() of that result is the identity --- *)
Theorem C18_obj_iter_rep : forall st id,
  (forall cards pos, nth_error (heap st) id = Some (ODeck cards pos) ->
     Rep 1 (snd (obj_iter st id)) (fst (obj_iter st id)) (obj_elems KDeck cards 0)) /\
  (forall items, nth_error (heap st) id = Some (OBag items) ->
     Rep 1 (snd (obj_iter st id)) (fst (obj_iter st id)) (obj_elems KBag items 0)) /\
  (forall vid, nth_error (heap st) id = Some (OVBag vid) ->
     Rep 1 (snd (obj_iter st id)) (fst (obj_iter st id)) (obj_elems KVBag (get_vec st vid) 0)) /\
  (forall vid k, nth_error (heap st) id = Some (OChained vid k) ->
     exists F, Rep F (snd (obj_iter st id)) (fst (obj_iter st id)) (obj_elems KChained (get_vec st vid) k)).
Proof. exact obj_iter_rep. Qed.
(* --- a range value is immutable: its elements depend only on its bounds (language-level consequence of the range
   cache handing out objects that are never written after creation; the cache itself is C16's) --- *)
Theorem C18_range_value_immutable : forall st id a e, nth_error (heap st) id = Some (ORange a e) ->
  Rep 1 (snd (obj_iter st id)) (fst (obj_iter st id)) (elements (SrcRange a e)).
Proof. exact range_value_immutable. Qed.
Theorem C18_obj_iter_idem : forall st id, obj_iter (snd (obj_iter st id)) (fst (obj_iter st id)) = obj_iter st id.
Proof. exact obj_iter_idem. Qed.

Print Assumptions C18_side_consumers_call_iter.
Print Assumptions C18_side_consumers_covered.
Print Assumptions C18_side_adapter_iter_is_self.
Print Assumptions C18_side_adapters_not_recursive.
Print Assumptions C18_side_for_next_by_plain_invoke.
Print Assumptions C18_field_next_rep.
Print Assumptions C18_obj_iter_rep.
Print Assumptions C18_obj_iter_idem.
Print Assumptions C18_range_value_immutable.
Print Assumptions C18_sentinel_uniform.
Print Assumptions C18_next_enumerates.
Print Assumptions C18_fresh_iter_rep.
Print Assumptions C18_map_filter_collect_reduce_spec.
Print Assumptions C18_lang_chain_collect_reduce.
Print Assumptions C18_for_loop_visits_elements.
Print Assumptions C18_loops_independent.
Print Assumptions C18_loops_independent_vec.
Print Assumptions C18_vec_mutation_indexed.
Print Assumptions C18_exec_stack.
Print Assumptions C18_for_leaves_no_state.

(* ======================================================================================================== *)
(* R2G block (added; see notes/R2G.md): ObjVecIter::next, ObjTupleIter::next, ObjRangeIter::{new,next}, TRANSLATED
   from the current object.rs into gen/PureIter.v by translator/rust2gallina.py on every run, equal the native
   cursors of the hand-written model (IterModel.vec_next / range_new / range_next).  A change of one of these Rust
   functions changes the generated text and breaks the NAMED statement. *)
From YVGen Require PureIter.
From YV Require Index R2G R2GProofs PureEquivIter.
Theorem C18_gen_vec_iter_next_eq_model : forall (xs : list value) cur,
  (Z.of_nat (length xs) < 2 ^ 64)%Z ->
  PureIter.ObjVecIter_next xs (Z.of_nat cur) = R2G.Val (PureEquivIter.cursor_view (vec_next xs cur)).
Proof. exact PureEquivIter.gen_vec_iter_next_eq_model. Qed.
Theorem C18_gen_tuple_iter_next_eq_model : forall (xs : list value) cur,
  (Z.of_nat (length xs) < 2 ^ 64)%Z ->
  PureIter.ObjTupleIter_next xs (Z.of_nat cur) = R2G.Val (PureEquivIter.cursor_view (vec_next xs cur)).
Proof. exact PureEquivIter.gen_tuple_iter_next_eq_model. Qed.
Theorem C18_gen_range_iter_new_eq_model : forall b e, PureIter.ObjRangeIter_new b e = range_new b e.
Proof. exact PureEquivIter.gen_range_iter_new_eq_model. Qed.
Theorem C18_gen_range_iter_next_eq_model : forall e cur step,
  Index.in_isize (cur + step) = true ->
  PureIter.ObjRangeIter_next e cur step =
  R2G.Val (PureEquivIter.range_item_view (fst (range_next e cur step)), snd (range_next e cur step)).
Proof. exact PureEquivIter.gen_range_iter_next_eq_model. Qed.
Print Assumptions C18_gen_vec_iter_next_eq_model.
Print Assumptions C18_gen_tuple_iter_next_eq_model.
Print Assumptions C18_gen_range_iter_new_eq_model.
Print Assumptions C18_gen_range_iter_next_eq_model.
(* ================================================ end of the R2G block ================================= *)
