(* C19 - Numbers survive text: printing and parsing round-trip exactly; number lexing never absorbs a
   "." that starts a method call or a range.
   ONLY statements: each is closed by `exact` of a lemma of theories/ (Num*Proofs.v, NumSrcProofs.v,
   NumRound.v).  The structure of the hand-written Rust pieces is regenerated from /repo's current sources
   (YVGen.NumSrc) and instantiates the parameters of YV.NumSrcModel; the side conditions are decided here. *)
From Coq Require Import ZArith List Bool String.
From Coq Require Import Floats.SpecFloat.
From Coq Require Import Strings.Byte.
From YVGen Require Import NumSrc.
From YV Require Import Num NumText NumLex NumProofs NumTextProofs NumLexProofs NumSrcModel NumSrcProofs NumRound.
Import ListNotations.
Open Scope list_scope.
Open Scope Z_scope.

(* --- side conditions on the current sources --- *)
Theorem C19_src_display : display_neg_zero_branch = true /\ display_neg_zero_text = "-0"%string
                          /\ display_default_format = "{}"%string.
Proof. repeat split; reflexivity. Qed.
Theorem C19_src_scanner : number_int_loop = true /\ number_dot_guard = true /\ number_peek_next_guard = true
  /\ number_frac_body = true /\ number_makes_number_token = true /\ number_single_if_two_loops = true
  /\ number_is_digit_ascii_only = true /\ number_dispatch_on_digit = true.
Proof. repeat split; reflexivity. Qed.
Theorem C19_src_parse_sites : to_num_parses_directly = true /\ literal_parses_directly = true.
Proof. split; reflexivity. Qed.

(* the model instantiated with what the sources say *)
Definition lex_number_cur := lex_number_src number_peek_next_guard.
Definition print_f64_cur (platform_signed_zero : bool) := print_f64_src display_neg_zero_branch platform_signed_zero.

(* --- printing then parsing gives back the identical number: ALL valid doubles, NaN to NaN, -0 keeps its
   sign; whatever the platform formatter does with -0.0 --- *)
Theorem C19_print_parse_roundtrip : forall p x, f64_valid x = true ->
  parse_f64 (print_f64_cur p x) = Some x.
Proof. exact (fun p x => print_parse_roundtrip_src display_neg_zero_branch p x eq_refl). Qed.
Theorem C19_print_parse_roundtrip_model : forall x, f64_valid x = true -> parse_f64 (print_f64 x) = Some x.
Proof. exact print_parse_roundtrip. Qed.
Theorem C19_print_parse_literal_roundtrip : forall x, f64_valid x = true ->
  parse_literal (print_f64 x) = Some x.
Proof. exact print_parse_literal_roundtrip. Qed.
Theorem C19_print_f64_injective : forall x y, f64_valid x = true -> f64_valid y = true ->
  print_f64 x = print_f64 y -> x = y.
Proof. exact print_f64_injective. Qed.
Theorem C19_bits_roundtrip : forall x, f64_valid x = true -> f64_of_bits (bits_of_f64 x) = x.
Proof. exact bits_roundtrip. Qed.
Theorem C19_f64_of_bits_valid : forall b, f64_valid (f64_of_bits b) = true.
Proof. exact f64_of_bits_valid. Qed.

(* --- shape: -?[0-9]+(\.[0-9]+)? , no exponent (that integral values have no fraction part is only
   checked empirically: it needs shortest-ness of the digit search, which is not proved) --- *)
Theorem C19_print_shape : forall s m e, num_shape (print_f64 (S754_finite s m e)) = true.
Proof. exact print_shape. Qed.

(* --- a literal / to_num text denotes the nearest double --- *)
Theorem C19_nearest_double_exact : forall s m e, finite_ok m e ->
  let c := norm_cand (exact_digits m e) in
  0 < fst c /\ nearest_double s (fst c) (snd c) = S754_finite s m e.
Proof. exact nearest_double_exact. Qed.
Theorem C19_parse_f64_valid : forall s x, parse_f64 s = Some x -> f64_valid x = true.
Proof. exact parse_f64_valid. Qed.
Theorem C19_round_ratio_nearest : forall neg num den s m e, 0 < num -> 0 < den ->
  round_ratio neg num den = S754_finite s m e ->
  s = neg /\ forall m' e', finite_ok m' e' -> closer_eq num den (Zpos m) e (Zpos m') e'.
Proof. exact round_ratio_nearest. Qed.
Theorem C19_round_ratio_zero_nearest : forall neg num den s, 0 < num -> 0 < den ->
  round_ratio neg num den = S754_zero s ->
  s = neg /\ forall m' e', finite_ok m' e' -> closer_eq num den 0 (-1074) (Zpos m') e'.
Proof. exact round_ratio_zero_nearest. Qed.
Theorem C19_round_ratio_inf_threshold : forall neg num den s, 0 < num -> 0 < den ->
  round_ratio neg num den = S754_infinity s -> s = neg /\ (2 ^ 54 - 1) * 2 ^ 970 * den <= num.
Proof. exact round_ratio_inf_threshold. Qed.
Theorem C19_nearest_double_correct_partial : forall neg d e10 s m e, 0 < d -> -1100 <= e10 <= 310 ->
  nearest_double neg d e10 = S754_finite s m e ->
  s = neg /\ forall m' e', finite_ok m' e' ->
    closer_eq (d * 10 ^ Z.max e10 0) (10 ^ Z.max (- e10) 0) (Zpos m) e (Zpos m') e'.
Proof. exact nearest_double_correct_partial. Qed.

(* --- lexing, for EVERY digit string and continuation --- *)
Theorem C19_lex_fraction : forall d1 d2 r,
  all_digits d1 = true -> d1 <> [] -> all_digits d2 = true -> d2 <> [] -> no_digit_head r = true ->
  lex_number_cur (d1 ++ "."%byte :: d2 ++ r) = (d1 ++ "."%byte :: d2, r).
Proof. exact (fun d1 d2 r => lex_fraction_src number_peek_next_guard d1 d2 r eq_refl). Qed.
Theorem C19_lex_range : forall d1 r, all_digits d1 = true -> d1 <> [] ->
  lex_number_cur (d1 ++ "."%byte :: "."%byte :: r) = (d1, "."%byte :: "."%byte :: r).
Proof. exact (fun d1 r => lex_range_src number_peek_next_guard d1 r eq_refl). Qed.
Theorem C19_lex_method : forall d1 r, all_digits d1 = true -> d1 <> [] -> no_digit_head r = true ->
  lex_number_cur (d1 ++ "."%byte :: r) = (d1, "."%byte :: r).
Proof. exact (fun d1 r => lex_method_src number_peek_next_guard d1 r eq_refl). Qed.
Theorem C19_lex_integer : forall d1 r, all_digits d1 = true -> d1 <> [] -> stops_number r = true ->
  lex_number_cur (d1 ++ r) = (d1, r).
Proof. exact (fun d1 r => lex_integer_src number_peek_next_guard d1 r eq_refl). Qed.
Theorem C19_lex_number_cur : forall l, lex_number_cur l = lex_number l.
Proof. exact (fun l => lex_number_src_guarded number_peek_next_guard l eq_refl). Qed.

(* --- printed text of a non-negative finite number is ONE Number token whose literal value is the number --- *)
Theorem C19_printed_relexes : forall m e r, stops_number r = true ->
  let t := print_f64 (S754_finite false m e) in
  starts_number (t ++ r) = true /\ lex_number (t ++ r) = (t, r).
Proof. exact printed_relexes. Qed.
Theorem C19_print_lex_parse_roundtrip : forall m e r,
  f64_valid (S754_finite false m e) = true -> stops_number r = true ->
  let x := S754_finite false m e in
  let '(lexeme, rest) := lex_number (print_f64 x ++ r) in
  rest = r /\ parse_literal lexeme = Some x.
Proof. exact print_lex_parse_roundtrip. Qed.
Theorem C19_negative_not_number :
  starts_number (print_f64 (f64_of_bits 13826050856027422720)) = false /\
  starts_number (print_f64 f64_inf) = false /\ starts_number (print_f64 f64_nan) = false.
Proof. exact negative_not_number. Qed.

(* --- what goes wrong without the hand-written guards (why the side conditions matter) --- *)
Theorem C19_lookahead_needed :
  lex_number_src false ["1"; "."; "."; "3"]%byte = (["1"; "."]%byte, ["."; "3"]%byte) /\
  lex_number_src false ["7"; "."; "f"; "o"; "o"]%byte = (["7"; "."]%byte, ["f"; "o"; "o"]%byte).
Proof. exact lex_number_src_unguarded_refuted. Qed.
Theorem C19_neg_zero_branch_needed :
  parse_f64 (print_f64_src false false f64_neg_zero) = Some f64_zero /\
  parse_f64 (print_f64_src false true f64_neg_zero) = Some f64_neg_zero.
Proof. exact print_f64_src_no_branch_refuted. Qed.

Print Assumptions C19_src_display.
Print Assumptions C19_src_scanner.
Print Assumptions C19_src_parse_sites.
Print Assumptions C19_print_parse_roundtrip.
Print Assumptions C19_print_parse_roundtrip_model.
Print Assumptions C19_print_parse_literal_roundtrip.
Print Assumptions C19_print_f64_injective.
Print Assumptions C19_bits_roundtrip.
Print Assumptions C19_f64_of_bits_valid.
Print Assumptions C19_print_shape.
Print Assumptions C19_nearest_double_exact.
Print Assumptions C19_parse_f64_valid.
Print Assumptions C19_round_ratio_nearest.
Print Assumptions C19_round_ratio_zero_nearest.
Print Assumptions C19_round_ratio_inf_threshold.
Print Assumptions C19_nearest_double_correct_partial.
Print Assumptions C19_lex_fraction.
Print Assumptions C19_lex_range.
Print Assumptions C19_lex_method.
Print Assumptions C19_lex_integer.
Print Assumptions C19_lex_number_cur.
Print Assumptions C19_printed_relexes.
Print Assumptions C19_print_lex_parse_roundtrip.
Print Assumptions C19_negative_not_number.
Print Assumptions C19_lookahead_needed.
Print Assumptions C19_neg_zero_branch_needed.
