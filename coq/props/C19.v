(* C19 - Numbers survive text: printing and parsing round-trip exactly; number lexing never absorbs a
   "." that starts a method call or a range.
   ONLY statements: each is closed by `exact` of a lemma of theories/ (Num*Proofs.v, NumSrcProofs.v,
   NumRound.v).  The structure of the hand-written Rust pieces is regenerated from /repo's current sources
   (YVGen.NumSrc) and instantiates the parameters of YV.NumSrcModel; the side conditions are decided here. *)
From Coq Require Import ZArith List Bool String.
From Coq Require Import Floats.SpecFloat.
From Coq Require Import Strings.Byte.
From YVGen Require Import NumSrc.
From YV Require Import Num NumText NumLex NumProofs NumTextProofs NumLexProofs NumSrcModel NumSrcProofs NumRound
  NumInterval NumShortest NumDigits.
Import ListNotations.
Open Scope list_scope.
Open Scope Z_scope.

(* --- side conditions on the current sources --- *)
Theorem C19_src_display : display_neg_zero_branch = true /\ display_neg_zero_text = "-0"%string
                          /\ display_default_format = "{}"%string.
Proof. repeat split; reflexivity. Qed.
Theorem C19_src_scanner : number_int_loop = true /\ number_dot_guard = true /\ number_peek_next_guard = true
  /\ number_frac_body = true /\ number_makes_number_token = true /\ number_single_if_two_loops = true
  /\ number_is_digit_ascii_only = true /\ number_dispatch_on_digit = true.
Proof. repeat split; reflexivity. Qed.
Theorem C19_src_parse_sites : to_num_parses_directly = true /\ literal_parses_directly = true.
Proof. split; reflexivity. Qed.
(* a number becomes text only at run time through Display: every `${}` part is followed by FormatString and the
   compiler never rewrites what it emitted (no compile-time formatting of literals); String.from and the `print`
   native use Display; none of these, nor the Display impls of Value / vec / tuple / map, contains a numeric cast *)
Theorem C19_src_text_routes : interpolation_formats_every_part = true /\ interpolation_never_edits_chunk = true
  /\ format_string_uses_display = true /\ string_from_uses_display = true
  /\ print_uses_display = true /\ print_has_no_numeric_code = true
  /\ text_routes_have_no_numeric_cast = true /\ display_impls_have_no_numeric_cast = true.
Proof. repeat split; reflexivity. Qed.

(* round 9 - no number->text route has MEMORY: no field of `struct Vm` and no static of vm.rs / core.rs / value.rs / object.rs has a
   float in its type (src_vm_fields is the regenerated field list), the bodies of format_string_impl / String.from / print
   touch no state (every self./vm. access is a method call; no static, thread_local, Cell), build_string_impl writes no field,
   and the Display impl of Value names no static / Cell.  What each route prints for a number is then a function of that
   number alone - the sequence family of tools/props/C19.py tests exactly this. *)
Theorem C19_src_no_number_memory : vm_has_no_float_field = true /\ no_float_static = true
  /\ text_routes_are_stateless = true /\ build_string_writes_no_field = true /\ display_is_stateless = true
  /\ src_vm_fields <> nil.
Proof. repeat split; try reflexivity; discriminate. Qed.

(* the model instantiated with what the sources say *)
Definition lex_number_cur := lex_number_src number_peek_next_guard.
Definition print_f64_cur (platform_signed_zero : bool) := print_f64_src display_neg_zero_branch platform_signed_zero.

(* --- printing then parsing gives back the identical number: ALL valid doubles, NaN to NaN, -0 keeps its
   sign; whatever the platform formatter does with -0.0 --- *)
Theorem C19_print_parse_roundtrip : forall p x, f64_valid x = true ->
  parse_f64 (print_f64_cur p x) = Some x.
Proof. exact (fun p x => print_parse_roundtrip_src display_neg_zero_branch p x eq_refl). Qed.
Theorem C19_print_parse_roundtrip_model : forall x, f64_valid x = true -> parse_f64 (print_f64 x) = Some x.
Proof. exact print_parse_roundtrip. Qed.
Theorem C19_print_parse_literal_roundtrip : forall x, f64_valid x = true ->
  parse_literal (print_f64 x) = Some x.
Proof. exact print_parse_literal_roundtrip. Qed.
Theorem C19_print_f64_injective : forall x y, f64_valid x = true -> f64_valid y = true ->
  print_f64 x = print_f64 y -> x = y.
Proof. exact print_f64_injective. Qed.
Theorem C19_bits_roundtrip : forall x, f64_valid x = true -> f64_of_bits (bits_of_f64 x) = x.
Proof. exact bits_roundtrip. Qed.
Theorem C19_f64_of_bits_valid : forall b, f64_valid (f64_of_bits b) = true.
Proof. exact f64_of_bits_valid. Qed.

(* --- shape: -?[0-9]+(\.[0-9]+)? , no exponent --- *)
Theorem C19_print_shape : forall s m e, num_shape (print_f64 (S754_finite s m e)) = true.
Proof. exact print_shape. Qed.

(* --- a literal / to_num text denotes the nearest double --- *)
Theorem C19_nearest_double_exact : forall s m e, finite_ok m e ->
  let c := norm_cand (exact_digits m e) in
  0 < fst c /\ nearest_double s (fst c) (snd c) = S754_finite s m e.
Proof. exact nearest_double_exact. Qed.
Theorem C19_parse_f64_valid : forall s x, parse_f64 s = Some x -> f64_valid x = true.
Proof. exact parse_f64_valid. Qed.
Theorem C19_round_ratio_nearest : forall neg num den s m e, 0 < num -> 0 < den ->
  round_ratio neg num den = S754_finite s m e ->
  s = neg /\ forall m' e', finite_ok m' e' -> closer_eq num den (Zpos m) e (Zpos m') e'.
Proof. exact round_ratio_nearest. Qed.
Theorem C19_round_ratio_zero_nearest : forall neg num den s, 0 < num -> 0 < den ->
  round_ratio neg num den = S754_zero s ->
  s = neg /\ forall m' e', finite_ok m' e' -> closer_eq num den 0 (-1074) (Zpos m') e'.
Proof. exact round_ratio_zero_nearest. Qed.
Theorem C19_round_ratio_inf_threshold : forall neg num den s, 0 < num -> 0 < den ->
  round_ratio neg num den = S754_infinity s -> s = neg /\ (2 ^ 54 - 1) * 2 ^ 970 * den <= num.
Proof. exact round_ratio_inf_threshold. Qed.
Theorem C19_nearest_double_correct_partial : forall neg d e10 s m e, 0 < d -> -1100 <= e10 <= 310 ->
  nearest_double neg d e10 = S754_finite s m e ->
  s = neg /\ forall m' e', finite_ok m' e' ->
    closer_eq (d * 10 ^ Z.max e10 0) (10 ^ Z.max (- e10) 0) (Zpos m) e (Zpos m') e'.
Proof. exact nearest_double_correct_partial. Qed.


(* --- FULL statement for what a decimal text d * 10^e10 denotes, early exits included:
   a nearest double / zero only when nothing is nearer / infinity only at or above MAX + ulp/2 --- *)
Theorem C19_nearest_double_correct : forall neg d e10, 0 < d ->
  match nearest_double neg d e10 with
  | S754_finite s m e =>
    s = neg /\ forall m' e', finite_ok m' e' ->
      closer_eq (nd_num d e10) (nd_den e10) (Zpos m) e (Zpos m') e'
  | S754_zero s =>
    s = neg /\ forall m' e', finite_ok m' e' ->
      closer_eq (nd_num d e10) (nd_den e10) 0 (-1074) (Zpos m') e'
  | S754_infinity s => s = neg /\ (2 ^ 54 - 1) * 2 ^ 970 * nd_den e10 <= nd_num d e10
  | S754_nan => False
  end.
Proof. exact nearest_double_correct. Qed.

(* --- the rounding interval: num/dn rounds to x = m*2^e IF AND ONLY IF it lies between the two midpoints
   around x (closed exactly when m is even: ties to even).  A = num*2^1074, U = one ulp, V = x, all scaled --- *)
Theorem C19_round_ratio_interval : forall neg m e num dn, finite_ok m e -> 0 < num -> 0 < dn ->
  in_rint_s m e (num * 2 ^ 1074) (2 ^ (e + 1074) * dn) (Zpos m * (2 ^ (e + 1074) * dn)) ->
  round_ratio neg num dn = S754_finite neg m e.
Proof. exact round_ratio_interval_s. Qed.
Theorem C19_round_ratio_interval_inv : forall neg s m e num dn, 0 < num -> 0 < dn ->
  round_ratio neg num dn = S754_finite s m e ->
  s = neg /\ in_rint_s m e (num * 2 ^ 1074) (2 ^ (e + 1074) * dn) (Zpos m * (2 ^ (e + 1074) * dn)).
Proof. exact round_ratio_interval_inv_s. Qed.
Theorem C19_round_ratio_monotone : forall neg n1 d1 n2 d2 s1 m1 e1 s2 m2 e2,
  0 < n1 -> 0 < d1 -> 0 < n2 -> 0 < d2 -> n1 * d2 <= n2 * d1 ->
  round_ratio neg n1 d1 = S754_finite s1 m1 e1 -> round_ratio neg n2 d2 = S754_finite s2 m2 e2 ->
  Zpos m1 * 2 ^ (e1 + 1074) <= Zpos m2 * 2 ^ (e2 + 1074).
Proof. exact round_ratio_monotone. Qed.

(* --- integral values print without a fraction part, and conversely (integral_fin m e: m*2^e is an integer) --- *)
Theorem C19_integral_prints_without_fraction : forall s m e, finite_ok m e -> integral_fin m e ->
  ~ In "."%byte (print_f64 (S754_finite s m e)).
Proof. exact integral_prints_without_fraction. Qed.
Theorem C19_print_without_fraction_integral : forall s m e, finite_ok m e ->
  ~ In "."%byte (print_f64 (S754_finite s m e)) -> integral_fin m e.
Proof. exact print_without_fraction_integral. Qed.
Theorem C19_integral_finb_iff : forall m e, integral_finb m e = true <-> integral_fin m e.
Proof. exact integral_finb_iff. Qed.

(* --- the printed digits (fst (shortest_digits s m e), no trailing zeros) are the SHORTEST: no decimal d' * 10^j'
   with fewer significant digits reads back as the same double; at most 17 digits; the re-check of print_f64
   never fails, so its fallback (the exact expansion) is never taken --- *)
Theorem C19_print_is_shortest : forall s m e d' j' n, finite_ok m e -> 1 <= n ->
  0 < d' < 10 ^ n -> nearest_double s d' j' = S754_finite s m e ->
  fst (shortest_digits s m e) < 10 ^ n.
Proof. exact print_is_shortest_all. Qed.
Theorem C19_print_at_most_17_digits : forall s m e, finite_ok m e ->
  0 < fst (shortest_digits s m e) < 10 ^ 17.
Proof. exact shortest_digits_at_most_17. Qed.
Theorem C19_print_never_falls_back : forall s m e, finite_ok m e ->
  exists d j, sd_search 17 (sd_make m e) 16 = Some (d, j) /\
              shortest_digits s m e = strip_zeros 20 d j.
Proof. exact shortest_digits_no_fallback. Qed.

(* --- lexing, for EVERY digit string and continuation --- *)
Theorem C19_lex_fraction : forall d1 d2 r,
  all_digits d1 = true -> d1 <> [] -> all_digits d2 = true -> d2 <> [] -> no_digit_head r = true ->
  lex_number_cur (d1 ++ "."%byte :: d2 ++ r) = (d1 ++ "."%byte :: d2, r).
Proof. exact (fun d1 d2 r => lex_fraction_src number_peek_next_guard d1 d2 r eq_refl). Qed.
Theorem C19_lex_range : forall d1 r, all_digits d1 = true -> d1 <> [] ->
  lex_number_cur (d1 ++ "."%byte :: "."%byte :: r) = (d1, "."%byte :: "."%byte :: r).
Proof. exact (fun d1 r => lex_range_src number_peek_next_guard d1 r eq_refl). Qed.
Theorem C19_lex_method : forall d1 r, all_digits d1 = true -> d1 <> [] -> no_digit_head r = true ->
  lex_number_cur (d1 ++ "."%byte :: r) = (d1, "."%byte :: r).
Proof. exact (fun d1 r => lex_method_src number_peek_next_guard d1 r eq_refl). Qed.
Theorem C19_lex_integer : forall d1 r, all_digits d1 = true -> d1 <> [] -> stops_number r = true ->
  lex_number_cur (d1 ++ r) = (d1, r).
Proof. exact (fun d1 r => lex_integer_src number_peek_next_guard d1 r eq_refl). Qed.
Theorem C19_lex_number_cur : forall l, lex_number_cur l = lex_number l.
Proof. exact (fun l => lex_number_src_guarded number_peek_next_guard l eq_refl). Qed.

(* --- printed text of a non-negative finite number is ONE Number token whose literal value is the number --- *)
Theorem C19_printed_relexes : forall m e r, stops_number r = true ->
  let t := print_f64 (S754_finite false m e) in
  starts_number (t ++ r) = true /\ lex_number (t ++ r) = (t, r).
Proof. exact printed_relexes. Qed.
Theorem C19_print_lex_parse_roundtrip : forall m e r,
  f64_valid (S754_finite false m e) = true -> stops_number r = true ->
  let x := S754_finite false m e in
  let '(lexeme, rest) := lex_number (print_f64 x ++ r) in
  rest = r /\ parse_literal lexeme = Some x.
Proof. exact print_lex_parse_roundtrip. Qed.
Theorem C19_negative_not_number :
  starts_number (print_f64 (f64_of_bits 13826050856027422720)) = false /\
  starts_number (print_f64 f64_inf) = false /\ starts_number (print_f64 f64_nan) = false.
Proof. exact negative_not_number. Qed.

(* --- what goes wrong without the hand-written guards (why the side conditions matter) --- *)
Theorem C19_lookahead_needed :
  lex_number_src false ["1"; "."; "."; "3"]%byte = (["1"; "."]%byte, ["."; "3"]%byte) /\
  lex_number_src false ["7"; "."; "f"; "o"; "o"]%byte = (["7"; "."]%byte, ["f"; "o"; "o"]%byte).
Proof. exact lex_number_src_unguarded_refuted. Qed.
Theorem C19_neg_zero_branch_needed :
  parse_f64 (print_f64_src false false f64_neg_zero) = Some f64_zero /\
  parse_f64 (print_f64_src false true f64_neg_zero) = Some f64_neg_zero.
Proof. exact print_f64_src_no_branch_refuted. Qed.

Print Assumptions C19_src_display.
Print Assumptions C19_src_scanner.
Print Assumptions C19_src_parse_sites.
Print Assumptions C19_src_text_routes.
Print Assumptions C19_src_no_number_memory.
Print Assumptions C19_print_parse_roundtrip.
Print Assumptions C19_print_parse_roundtrip_model.
Print Assumptions C19_print_parse_literal_roundtrip.
Print Assumptions C19_print_f64_injective.
Print Assumptions C19_bits_roundtrip.
Print Assumptions C19_f64_of_bits_valid.
Print Assumptions C19_print_shape.
Print Assumptions C19_nearest_double_exact.
Print Assumptions C19_parse_f64_valid.
Print Assumptions C19_round_ratio_nearest.
Print Assumptions C19_round_ratio_zero_nearest.
Print Assumptions C19_round_ratio_inf_threshold.
Print Assumptions C19_nearest_double_correct_partial.
Print Assumptions C19_nearest_double_correct.
Print Assumptions C19_round_ratio_interval.
Print Assumptions C19_round_ratio_interval_inv.
Print Assumptions C19_round_ratio_monotone.
Print Assumptions C19_integral_prints_without_fraction.
Print Assumptions C19_print_without_fraction_integral.
Print Assumptions C19_integral_finb_iff.
Print Assumptions C19_print_is_shortest.
Print Assumptions C19_print_at_most_17_digits.
Print Assumptions C19_print_never_falls_back.
Print Assumptions C19_lex_fraction.
Print Assumptions C19_lex_range.
Print Assumptions C19_lex_method.
Print Assumptions C19_lex_integer.
Print Assumptions C19_lex_number_cur.
Print Assumptions C19_printed_relexes.
Print Assumptions C19_print_lex_parse_roundtrip.
Print Assumptions C19_negative_not_number.
Print Assumptions C19_lookahead_needed.
Print Assumptions C19_neg_zero_branch_needed.
