(* props/C19_r2g.v - statements only: regenerated-from-source definitions (translator/rust2gallina.py) equal the hand models
   that the theorems of props/C19.v are about.  Counted and re-checked by the driver together with props/C19.v. *)
From Coq Require Import ZArith NArith List Bool String.
From Coq.Strings Require Import Byte.
Import ListNotations.
(* ---- R2G block 2 ---- *)
From YVGen Require PureScan.
From YV Require R2G R2GStr PureEquivScan.

Theorem C19_pure_is_at_end_eq :
  forall (src : list byte) (pre rest : list Scanner.chr),
         Scanner.chars_of src = pre ++ rest ->
         PureScan.Scanner_is_at_end src (Z.of_nat (Scanner.clen pre)) =
         match rest with
         | [] => true
         | _ :: _ => false
         end.
Proof. exact PureEquivScan.pure_is_at_end_eq. Qed.

Theorem C19_pure_get_next_char_boundary_eq :
  forall (src : list byte) (pre : list Scanner.chr) (c : Scanner.chr) (r : list Scanner.chr),
         Scanner.chars_of src = pre ++ c :: r ->
         (Z.of_nat (Datatypes.length src) < 2 ^ 64)%Z ->
         PureScan.Scanner_get_next_char_boundary src (Z.of_nat (Scanner.clen pre)) =
         R2G.Val (Z.of_nat (Scanner.clen pre + Datatypes.length c)).
Proof. exact PureEquivScan.pure_get_next_char_boundary_eq. Qed.

Theorem C19_pure_peek_eq :
  forall (src : list byte) (pre : list Scanner.chr) (c : Scanner.chr) (r : list Scanner.chr),
         Scanner.chars_of src = pre ++ c :: r ->
         (Z.of_nat (Datatypes.length src) < 2 ^ 64)%Z ->
         PureScan.Scanner_peek src (Z.of_nat (Scanner.clen pre)) = R2G.Val c.
Proof. exact PureEquivScan.pure_peek_eq. Qed.

Theorem C19_pure_advance_eq :
  forall (src : list byte) (pre : list Scanner.chr) (c : Scanner.chr) (r : list Scanner.chr),
         Scanner.chars_of src = pre ++ c :: r ->
         (Z.of_nat (Datatypes.length src) < 2 ^ 64)%Z ->
         PureScan.Scanner_advance src (Z.of_nat (Scanner.clen pre)) =
         R2G.Val (c, Z.of_nat (Scanner.clen (pre ++ [c]))).
Proof. exact PureEquivScan.pure_advance_eq. Qed.

Theorem C19_pure_match_char_eq :
  forall (src : list byte) (pre rest : list Scanner.chr) (b : byte),
         Scanner.chars_of src = pre ++ rest ->
         (Z.of_nat (Datatypes.length src) < 2 ^ 64)%Z ->
         PureScan.Scanner_match_char src (Z.of_nat (Scanner.clen pre)) [b] =
         R2G.Val
           (fst (Scanner.match_chr rest b),
            Z.of_nat (Scanner.clen pre + (if fst (Scanner.match_chr rest b) then 1 else 0))).
Proof. exact PureEquivScan.pure_match_char_eq. Qed.

Theorem C19_pure_peek_next_eq :
  forall (src : list byte) (pre rest : list Scanner.chr),
         Scanner.chars_of src = pre ++ rest ->
         (Z.of_nat (Datatypes.length src) + 1 < 2 ^ 64)%Z ->
         PureScan.Scanner_peek_next src (Z.of_nat (Scanner.clen pre)) =
         R2G.Val match rest with
                 | _ :: c2 :: _ => c2
                 | _ => []
                 end.
Proof. exact PureEquivScan.pure_peek_next_eq. Qed.

Theorem C19_pure_is_alpha_eq :
  forall c : list byte,
         c = [] \/ (exists cp : N, Utf8.decode c = Some [cp]) -> PureScan.is_alpha c = Scanner.is_alpha c.
Proof. exact PureEquivScan.pure_is_alpha_eq. Qed.

Theorem C19_pure_is_digit_eq :
  forall c : list byte,
         c = [] \/ (exists cp : N, Utf8.decode c = Some [cp]) -> PureScan.is_digit c = Scanner.is_digit_chr c.
Proof. exact PureEquivScan.pure_is_digit_eq. Qed.

Theorem C19_pure_skip_whitespace_eq :
  forall (src : list byte) (fuel : nat) (pre rest : list Scanner.chr) (line : N),
         Scanner.chars_of src = pre ++ rest ->
         (Z.of_nat (Datatypes.length src) + 1 < 2 ^ 64)%Z ->
         Datatypes.length (Scanner.chars_of src) < fuel ->
         (Z.of_N line + Z.of_nat (Datatypes.length rest) < 2 ^ 64)%Z ->
         PureScan.Scanner_skip_whitespace fuel src (Z.of_nat (Scanner.clen pre)) (Z.of_N line) =
         R2G.Val
           (Z.of_nat (snd (fst (Scanner.skip_ws false rest (Scanner.clen pre) line))),
            Z.of_N (snd (Scanner.skip_ws false rest (Scanner.clen pre) line))).
Proof. exact PureEquivScan.pure_skip_whitespace_eq. Qed.

Theorem C19_pure_peek_end_eq :
  forall (src : list byte) (pre : list Scanner.chr),
         Scanner.chars_of src = pre ->
         (Z.of_nat (Datatypes.length src) + 1 < 2 ^ 64)%Z ->
         PureScan.Scanner_peek src (Z.of_nat (Scanner.clen pre)) = R2G.Val [].
Proof. exact PureEquivScan.pure_peek_end_eq. Qed.

Theorem C19_pure_make_token_eq :
  forall (src : list byte) (pre mid rest : list Scanner.chr) (line kind : Z),
         Scanner.chars_of src = pre ++ mid ++ rest ->
         PureScan.Scanner_make_token src (Z.of_nat (Scanner.clen pre))
           (Z.of_nat (Scanner.clen pre + Scanner.clen mid)) line kind = R2G.Val (kind, line, List.concat mid).
Proof. exact PureEquivScan.pure_make_token_eq. Qed.

Theorem C19_pure_number_eq :
  forall (src : list byte) (fuel : nat) (pre0 : list Scanner.chr) (c : Scanner.chr)
           (cs : list Scanner.chr) (line : Z),
         Scanner.chars_of src = (pre0 ++ [c]) ++ cs ->
         (Z.of_nat (Datatypes.length src) + 1 < 2 ^ 64)%Z ->
         Datatypes.length (Scanner.chars_of src) < fuel ->
         PureEquivScan.chars_valid src ->
         PureScan.Scanner_number fuel src (Z.of_nat (Scanner.clen pre0))
           (Z.of_nat (Scanner.clen (pre0 ++ [c]))) line =
         R2G.Val
           (PureScan.TokenKind_Number, line, c ++ fst (Scanner.number_tail cs),
            Z.of_nat (Scanner.clen (pre0 ++ [c]) + Datatypes.length (fst (Scanner.number_tail cs)))).
Proof. exact PureEquivScan.pure_number_eq. Qed.


(* ---- R2G block 2 ---- *)
From YVGen Require PureScan.
From YV Require R2G R2GStr PureEquivScanKw.

Theorem C19_pure_check_keyword_eq :
  forall (src p lex q : list byte) (start : nat) (rest : string) (kind : Z),
         PureEquivScanKw.lexeme_at src p lex q ->
         (Z.of_nat start + Z.of_nat (Datatypes.length (Scanner.bs rest)) < 2 ^ 62)%Z ->
         PureScan.Scanner_check_keyword src (Z.of_nat (Datatypes.length p))
           (Z.of_nat (Datatypes.length p + Datatypes.length lex)) (Z.of_nat start) 
           (R2GStr.str_lit rest) kind =
         R2G.Val
           (if
             (Datatypes.length lex =? start + Datatypes.length (Scanner.bs rest)) &&
             Utf8.bytes_eqb (skipn start lex) (Scanner.bs rest)
            then kind
            else PureScan.TokenKind_Identifier).
Proof. exact PureEquivScanKw.pure_check_keyword_eq. Qed.

Theorem C19_pure_check_keyword_eq_model :
  forall (src p lex q : list byte) (start : nat) (rest : string) (k : Scanner.tkind),
         PureEquivScanKw.lexeme_at src p lex q ->
         (Z.of_nat start + Z.of_nat (Datatypes.length (Scanner.bs rest)) < 2 ^ 62)%Z ->
         PureScan.Scanner_check_keyword src (Z.of_nat (Datatypes.length p))
           (Z.of_nat (Datatypes.length p + Datatypes.length lex)) (Z.of_nat start) 
           (R2GStr.str_lit rest) (PureEquivScanKw.tk_view k) =
         R2G.Val (PureEquivScanKw.tk_view (Scanner.check_keyword lex start rest k)).
Proof. exact PureEquivScanKw.pure_check_keyword_eq_model. Qed.

Theorem C19_pure_identifier_type_eq :
  forall src p lex q : list byte,
         PureEquivScanKw.lexeme_at src p lex q ->
         lex <> [] ->
         PureScan.Scanner_identifier_type src (Z.of_nat (Datatypes.length p))
           (Z.of_nat (Datatypes.length p + Datatypes.length lex)) =
         R2G.Val (PureEquivScanKw.tk_view (Scanner.identifier_type lex)).
Proof. exact PureEquivScanKw.pure_identifier_type_eq. Qed.

Theorem C19_pure_error_token_eq :
  forall (line : N) (msg : string),
         PureScan.Scanner_error_token (Z.of_N line) (R2GStr.str_lit msg) =
         (PureEquivScanKw.tk_view (Scanner.tk (Scanner.error_token line msg)),
          Z.of_N (Scanner.tline (Scanner.error_token line msg)), Scanner.tsource (Scanner.error_token line msg)).
Proof. exact PureEquivScanKw.pure_error_token_eq. Qed.

Theorem C19_pure_binary_token_eq :
  forall (src : list byte) (pre0 mid rest : list Scanner.chr) (line bare assign : Z),
         Scanner.chars_of src = pre0 ++ mid ++ rest ->
         (Z.of_nat (Datatypes.length src) < 2 ^ 64)%Z ->
         PureScan.Scanner_binary_token src (Z.of_nat (Scanner.clen pre0))
           (Z.of_nat (Scanner.clen pre0 + Scanner.clen mid)) line bare assign =
         R2G.Val
           (if fst (Scanner.match_chr rest "=")
            then
             (assign, line, List.concat mid ++ ["="%byte], Z.of_nat (Scanner.clen pre0 + Scanner.clen mid + 1))
            else (bare, line, List.concat mid, Z.of_nat (Scanner.clen pre0 + Scanner.clen mid))).
Proof. exact PureEquivScanKw.pure_binary_token_eq. Qed.

Theorem C19_pure_identifier_eq :
  forall (src : list byte) (fuel : nat) (pre0 : list (list byte)) (b0 : byte) 
           (cs : list (list byte)) (line : Z),
         Scanner.chars_of src = (pre0 ++ [[b0]]) ++ cs ->
         (Z.of_nat (Datatypes.length src) + 1 < 2 ^ 63)%Z ->
         Datatypes.length (Scanner.chars_of src) < fuel ->
         PureEquivScan.chars_valid src ->
         PureScan.Scanner_identifier fuel src (Z.of_nat (Scanner.clen pre0))
           (Z.of_nat (Scanner.clen (pre0 ++ [[b0]]))) line =
         R2G.Val
           (PureEquivScanKw.tk_view (Scanner.identifier_type (b0 :: fst (Scanner.span_ident cs))), line,
            b0 :: fst (Scanner.span_ident cs),
            Z.of_nat (Scanner.clen (pre0 ++ [[b0]]) + Datatypes.length (fst (Scanner.span_ident cs)))).
Proof. exact PureEquivScanKw.pure_identifier_eq. Qed.

Theorem C19_pure_scan_fields :
  PureScan.r2g_fields =
         [("Scanner_is_at_end"%string, ["self.source"%string; "self.current"%string]);
          ("Scanner_get_next_char_boundary"%string, ["self.source"%string]);
          ("Scanner_peek"%string, ["self.source"%string; "self.current"%string]);
          ("Scanner_peek_next"%string, ["self.source"%string; "self.current"%string]);
          ("Scanner_advance"%string, ["self.source"%string; "self.current"%string]);
          ("Scanner_match_char"%string, ["self.source"%string; "self.current"%string]);
          ("Scanner_skip_whitespace"%string, ["self.source"%string; "self.current"%string; "self.line"%string]);
          ("Scanner_make_token"%string,
           ["self.source"%string; "self.start"%string; "self.current"%string; "self.line"%string]);
          ("Scanner_number"%string,
           ["self.source"%string; "self.start"%string; "self.current"%string; "self.line"%string]);
          ("Scanner_check_keyword"%string, ["self.source"%string; "self.start"%string; "self.current"%string]);
          ("Scanner_identifier_type"%string, ["self.source"%string; "self.start"%string; "self.current"%string]);
          ("Scanner_identifier"%string,
           ["self.source"%string; "self.start"%string; "self.current"%string; "self.line"%string]);
          ("Scanner_binary_token"%string,
           ["self.source"%string; "self.start"%string; "self.current"%string; "self.line"%string]);
          ("Scanner_error_token"%string, ["self.line"%string])].
Proof. exact PureEquivScanKw.pure_scan_fields. Qed.

Print Assumptions C19_pure_is_at_end_eq.
Print Assumptions C19_pure_get_next_char_boundary_eq.
Print Assumptions C19_pure_peek_eq.
Print Assumptions C19_pure_advance_eq.
Print Assumptions C19_pure_match_char_eq.
Print Assumptions C19_pure_peek_next_eq.
Print Assumptions C19_pure_is_alpha_eq.
Print Assumptions C19_pure_is_digit_eq.
Print Assumptions C19_pure_skip_whitespace_eq.
Print Assumptions C19_pure_peek_end_eq.
Print Assumptions C19_pure_make_token_eq.
Print Assumptions C19_pure_number_eq.
Print Assumptions C19_pure_check_keyword_eq.
Print Assumptions C19_pure_check_keyword_eq_model.
Print Assumptions C19_pure_identifier_type_eq.
Print Assumptions C19_pure_error_token_eq.
Print Assumptions C19_pure_binary_token_eq.
Print Assumptions C19_pure_identifier_eq.
Print Assumptions C19_pure_scan_fields.
