(* ArithNoFault.v - C10: arithmetic that is overflow-CHECKED in a dev build (panic) and WRAPPING in a release build.
   For the functions translated from the current Rust text by the r2g translator (coq/gen/Pure*.v; a checked operator
   is a `Fault` branch of the generated definition) the claim "both builds agree" is: the fault branch is unreachable
   for ALL inputs.  Stated here for the hashing and index functions, as corollaries of the equivalence theorems of
   PureEquiv*.v.  For the hashing code outside the translator's subset (closures) the regenerated operator table
   gen/HashArith.v must contain no checked operator at all (props/C10.v). *)
From Coq Require Import List ZArith Bool String Lia.
From YVGen Require PureNum PureIntern PureIndex.
From YV Require Import Num R2G R2GProofs.
From YV Require Index PureEquivNum PureEquivIntern PureEquivIndex.
Import ListNotations.
Open Scope Z_scope.

(* utils::hash_number: the generated definition is a TOTAL function into Z (its type: no checked operator is used,
   only wrapping_*, shifts by literals, ^, !), and its value is a full-width u64 *)
Theorem hash_number_total_u64 : forall x, 0 <= PureNum.hash_number x < 2 ^ 64.
Proof. intros x. unfold PureNum.hash_number. cbv zeta. apply Z.mod_pos_bound. reflexivity. Qed.

(* FnvHasher::write (`hash as u128 * 16777619`): the u128 multiplication never overflows, for every message and every
   u64 state *)
Theorem fnv_write_no_fault : forall l h, 0 <= h < 2 ^ 64 -> exists v, PureIntern.FnvHasher_write h l = Val v.
Proof. intros l h Hh. eexists. apply PureEquivIntern.gen_fnv_write_eq_model. exact Hh. Qed.

(* Value::try_as_bounded_index (indices of strings / vecs / tuples): for EVERY number (NaN, infinities, +-2^53, +-2^63,
   fractions) and every container length up to isize::MAX no checked operator overflows *)
Theorem bounded_index_no_fault : forall x shown bound kind, 0 <= bound <= Index.isize_max ->
  exists v, PureIndex.try_as_bounded_index (RNumber x) shown bound kind = Val v.
Proof. intros. eexists. apply PureEquivIndex.gen_try_as_bounded_index_eq_model. assumption. Qed.

Theorem bounded_index_other_no_fault : forall tag shown bound kind,
  exists v, PureIndex.try_as_bounded_index (ROther tag) shown bound kind = Val v.
Proof. intros. eexists. apply PureEquivIndex.gen_try_as_bounded_index_other_eq_model. Qed.

(* ObjRange::make_bounded_range (slices): for every pair of isize bounds, also the extreme ones *)
Theorem bounded_range_no_fault : forall rb re limit kind,
  Index.in_isize rb = true -> Index.in_isize re = true -> 0 <= limit <= Index.isize_max ->
  exists v, PureIndex.make_bounded_range rb re limit kind = Val v.
Proof. intros. eexists. apply PureEquivIndex.gen_make_bounded_range_eq_model; assumption. Qed.

Print Assumptions hash_number_total_u64.
Print Assumptions fnv_write_no_fault.
Print Assumptions bounded_index_no_fault.
Print Assumptions bounded_range_no_fault.
