(* Abstract syntax of yarel as the single-pass compiler (compiler.rs) parses it.
   Shared interface between the parser model (Scanner.v / Parser.v: text -> ast), the pretty
   printer (Pretty.v: ast -> text) and the reference interpreter (Spec*.v).  DEFINITIONS ONLY. *)
From Coq Require Import List NArith ZArith.
From Coq Require Import Strings.Byte.
From Coq Require Import Floats.SpecFloat.
Import ListNotations.

Definition name := list byte.          (* identifier text (UTF-8 bytes) *)
Definition lineno := N.                (* 1-based source line *)

Inductive binop :=
| BAdd | BSub | BMul | BDiv | BMod
| BEq | BNe | BLt | BLe | BGt | BGe
| BBitAnd | BBitOr | BBitXor | BShl | BShr.

Inductive unop := UNeg | UNot | UBitNot.

(* compound assignment operators  -= += /= *= &= |= ^= %= <<= >>=  reuse binop:
   BSub BAdd BDiv BMul BBitAnd BBitOr BBitXor BMod BShl BShr *)

Inductive expr :=
| ENil | ETrue | EFalse
| ENum (x : spec_float)                       (* value of the literal: NumText.parse_literal lexeme *)
| EStr (s : list byte)                        (* string literal after escape processing *)
| EInterp (parts : list interp_part)          (* "a${e}b": pieces in source order; empty literal pieces omitted *)
| EVar (x : name)
| ESelf                                       (* `self`  *)
| ECapSelf                                    (* `Self`  *)
| ESuperGet (m : name)                        (* super.m            *)
| ESuperCall (m : name) (args : list expr)    (* super.m(args)      *)
| EAssign (x : name) (e : expr)               (* x = e              *)
| ECompound (x : name) (op : binop) (e : expr)(* x op= e            *)
| EUnary (op : unop) (e : expr)
| EBinary (op : binop) (a b : expr)
| EAnd (a b : expr)                           (* a && b *)
| EOr (a b : expr)                            (* a || b *)
| ERange (a b : expr)                         (* a..b   *)
| ECall (f : expr) (args : list expr)         (* f(args)  — Call instruction *)
| EGet (o : expr) (m : name)                  (* o.m      — GetProperty  *)
| ESet (o : expr) (m : name) (e : expr)       (* o.m = e  — SetProperty  *)
| ESetCompound (o : expr) (m : name) (op : binop) (e : expr)   (* o.m op= e *)
| EInvoke (o : expr) (m : name) (args : list expr)             (* o.m(args) — Invoke instruction *)
| EIndex (o i : expr)                         (* o[i]     *)
| ESetIndex (o i e : expr)                    (* o[i] = e *)
| ETuple (es : list expr)                     (* (), (a,), (a, b)   *)
| EVec (es : list expr)                       (* [a, b]   *)
| EMap (kvs : list (expr * expr))             (* {k: v}   *)
| ELambda (params : list name) (body : lambda_body)            (* |x| e   or  |x| { ... } *)
with interp_part :=
| IPStr (s : list byte)
| IPExpr (e : expr)
with lambda_body :=
| LExpr (e : expr)
| LBlock (b : list stmt)
with stmt :=
| SExpr (l : lineno) (e : expr)
| SVar (l : lineno) (x : name) (init : option expr)
| SFn (l : lineno) (f : name) (params : list name) (body : list stmt)
| SClass (l : lineno) (c : class_decl)
| SBlock (l : lineno) (b : list stmt)
| SIf (l : lineno) (c : expr) (t : list stmt) (e : option stmt)  (* else branch: an SBlock or an SIf *)
| SWhile (l : lineno) (c : expr) (b : list stmt)
| SFor (l : lineno) (x : name) (it : expr) (b : list stmt)
| SReturn (l : lineno) (e : option expr)
| SBreak (l : lineno)
| SContinue (l : lineno)
| SThrow (l : lineno) (e : expr)
| STry (l : lineno) (b : list stmt) (c : option (name * list stmt)) (f : option (list stmt))
| SImport (l : lineno) (path : list byte) (alias : name)   (* alias = explicit `as` name or last path component *)
with class_decl :=
| ClassDecl (cname : name)
            (super : option name)            (* #[derive(B)]            *)
            (default_ctor : option name)     (* #[constructor(new)] on the class *)
            (methods : list method_decl)
with method_decl :=
| MethodDecl (kind : method_kind) (m : name) (params : list name) (body : list stmt)
             (* params exclude the leading `self` of methods/initialisers *)
with method_kind := MMethod | MStatic | MInit.   (* plain, #[static], #[constructor] *)

Definition program := list stmt.
