(* BcVM: an executable model of the WHOLE interpreter loop of yarel/src/vm.rs, running the byte code
   produced by the real compiler (function trees dumped by the harness command `compile`).
   Values, heap cells, operators, natives, Display and error texts are those of the reference
   interpreter (SpecValues / SpecHeap / SpecOps / SpecNatives); what is new here is everything that is
   specific to the byte-code machine: fibers with a value stack that keeps stale slots, call frames,
   open / closed upvalues, exception handlers, the [handling_exception] flag, the pending-return
   registers of JumpFinally / EndFinally, the working class definition, the module registry.
   FAITHFUL to vm.rs, known finally defects included.  DEFINITIONS ONLY (proofs: BcVMProofs.v). *)
From Coq Require Import List NArith ZArith PArith Bool String.
From Coq Require Import Strings.Byte FSets.FMapPositive.
From Coq Require Import Floats.SpecFloat.
From YV Require StrFns Bytecode Skeleton Verifier.
From YV Require Import Ast Show Num NumText Index SpecValues SpecHeap SpecOps SpecNatives SpecMachine.
Import ListNotations.
Local Close Scope Z_scope.
Local Open Scope list_scope.

Definition nkey (n : N) : positive := N.succ_pos n.

(* ---------- functions as dumped by the harness ---------- *)
Inductive bconst :=
| KStr (s : bytes)
| KNum (x : spec_float)
| KFun (fid : N)          (* index into the program *)
| KOther.

Record bfn := mkBFn {
  bf_raw : Bytecode.fn;                    (* code bytes, constant kinds, arity, upvalue count *)
  bf_name : bytes;                         (* [] = a script *)
  bf_consts : PM.t bconst;                 (* nkey index |-> constant *)
  bf_lines : list (N * N);                 (* chunk.lines, run-length encoded: (line, count) *)
  bf_imap : PM.t (Bytecode.instr * N) }.   (* nkey pc |-> decoded instruction, next pc (built once) *)

Definition bf_arity (f : bfn) : N := Bytecode.arity (bf_raw f).

(* decode at EVERY byte offset: [bf_imap] is the tabulation of [Bytecode.decode] *)
Fixpoint build_imap (get : N -> option N) (p : Bytecode.program) (f : Bytecode.fn) (n : nat) (pc : N)
         (m : PM.t (Bytecode.instr * N)) : PM.t (Bytecode.instr * N) :=
  match n with
  | O => m
  | S n' =>
    build_imap get p f n' (N.succ pc)
               (match Bytecode.decode_at get p f pc with
                | Some r => PM.add (nkey pc) r m
                | None => m
                end)
  end.

Definition imap_of (p : Bytecode.program) (f : Bytecode.fn) : PM.t (Bytecode.instr * N) :=
  build_imap (Verifier.map_get (Verifier.code_map f)) p f (List.length (Bytecode.code f)) 0%N
             (PM.empty _).

Fixpoint line_at (l : list (N * N)) (off : N) : N :=
  match l with
  | [] => 0%N
  | (ln, cnt) :: r => if (off <? cnt)%N then ln else line_at r (off - cnt)%N
  end.

(* ---------- module sources ---------- *)
Inductive bmodsrc :=
| BMFn (fid : N)                       (* the module's script function *)
| BMCompileError (msgs : list bytes).

Record benv := mkEnv {
  be_prog : PM.t bfn;                  (* nkey fid |-> function *)
  be_srcs : list (bytes * bmodsrc) }.  (* what the module loader + compiler produce per path *)

Definition get_fn (e : benv) (fid : N) : option bfn := PM.find (nkey fid) (be_prog e).

Fixpoint src_find (p : bytes) (l : list (bytes * bmodsrc)) : option bmodsrc :=
  match l with
  | [] => None
  | (q, x) :: r => if bytes_eqb p q then Some x else src_find p r
  end.

(* ---------- fibers ---------- *)
Record bframe := mkFrame {
  fr_cl : addr;            (* the closure *)
  fr_fid : N;              (* its function *)
  fr_ipf : N;              (* saved ip: function whose code it points into ... *)
  fr_pc : N;               (* ... and offset (the top frame's copy is stale while it runs) *)
  fr_base : N }.           (* slot_base *)

Record bhandler := mkHandler {
  bh_fid : N;              (* function whose code catch_ip / finally_ip point into *)
  bh_catch : N;
  bh_finally : N;
  bh_size : N;             (* init_stack_size *)
  bh_frames : nat }.       (* frame_count *)

Record bfiber := mkFib {
  fb_stack : PM.t value;           (* nkey slot |-> value; slots >= fb_sp are STALE, not absent *)
  fb_sp : N;                       (* stack.len() *)
  fb_frames : list bframe;         (* innermost first *)
  fb_handlers : list bhandler;     (* innermost first *)
  fb_open : list (N * addr);       (* open upvalues (slot, upvalue), strictly descending slots *)
  fb_caller : option addr;
  fb_call_arity : N;
  fb_retval : value;
  fb_retip : option (N * N);
  fb_errip : option (N * N) }.

Definition w_stack (f : bfiber) (st : PM.t value) (sp : N) : bfiber :=
  mkFib st sp (fb_frames f) (fb_handlers f) (fb_open f) (fb_caller f) (fb_call_arity f)
        (fb_retval f) (fb_retip f) (fb_errip f).
Definition w_frames (f : bfiber) (fr : list bframe) : bfiber :=
  mkFib (fb_stack f) (fb_sp f) fr (fb_handlers f) (fb_open f) (fb_caller f) (fb_call_arity f)
        (fb_retval f) (fb_retip f) (fb_errip f).
Definition w_handlers (f : bfiber) (h : list bhandler) : bfiber :=
  mkFib (fb_stack f) (fb_sp f) (fb_frames f) h (fb_open f) (fb_caller f) (fb_call_arity f)
        (fb_retval f) (fb_retip f) (fb_errip f).
Definition w_open (f : bfiber) (o : list (N * addr)) : bfiber :=
  mkFib (fb_stack f) (fb_sp f) (fb_frames f) (fb_handlers f) o (fb_caller f) (fb_call_arity f)
        (fb_retval f) (fb_retip f) (fb_errip f).
Definition w_caller (f : bfiber) (c : option addr) : bfiber :=
  mkFib (fb_stack f) (fb_sp f) (fb_frames f) (fb_handlers f) (fb_open f) c (fb_call_arity f)
        (fb_retval f) (fb_retip f) (fb_errip f).
Definition w_ret (f : bfiber) (v : value) (ip : option (N * N)) : bfiber :=
  mkFib (fb_stack f) (fb_sp f) (fb_frames f) (fb_handlers f) (fb_open f) (fb_caller f) (fb_call_arity f)
        v ip (fb_errip f).
Definition w_errip (f : bfiber) (ip : option (N * N)) : bfiber :=
  mkFib (fb_stack f) (fb_sp f) (fb_frames f) (fb_handlers f) (fb_open f) (fb_caller f) (fb_call_arity f)
        (fb_retval f) (fb_retip f) ip.

(* stack.rs: a fixed array and a top pointer *)
Definition sget (f : bfiber) (i : N) : value :=
  match PM.find (nkey i) (fb_stack f) with Some v => v | None => VNil end.
Definition sset (f : bfiber) (i : N) (v : value) : bfiber :=
  w_stack f (PM.add (nkey i) v (fb_stack f)) (fb_sp f).
Definition spush (f : bfiber) (v : value) : bfiber :=
  w_stack f (PM.add (nkey (fb_sp f)) v (fb_stack f)) (N.succ (fb_sp f)).
Definition speek (f : bfiber) (d : N) : option value :=
  if (d <? fb_sp f)%N then Some (sget f (fb_sp f - 1 - d)%N) else None.
Definition spoke (f : bfiber) (d : N) (v : value) : bfiber := sset f (fb_sp f - 1 - d)%N v.
Definition strunc (f : bfiber) (n : N) : bfiber := w_stack f (fb_stack f) n.
Definition sdiscard (f : bfiber) (n : N) : bfiber := strunc f (fb_sp f - n)%N.

Fixpoint sslice_go (f : bfiber) (n : nat) (i : N) : list value :=
  match n with
  | O => []
  | S k => sget f i :: sslice_go f k (N.succ i)
  end.
(* the top [n] values, bottom-most first *)
Definition stop (f : bfiber) (n : N) : list value := sslice_go f (N.to_nat n) (fb_sp f - n)%N.

Definition empty_fiber : bfiber := mkFib (PM.empty value) 0%N [] [] [] None 0%N VNil None None.

(* ---------- upvalues ---------- *)
Inductive upval :=
| UOpen (fib : addr) (slot : N)     (* points into the stack of fiber [fib] *)
| UClosed (v : value).

(* ---------- the class being defined (vm.rs working_class_def) ---------- *)
Record bclassdef := mkCD {
  cd_name : bytes;
  cd_super : option addr;
  cd_methods : list (name * value);
  cd_mname : bytes;
  cd_mmethods : list (name * value) }.

(* ---------- machine state ---------- *)
Record bstate := mkBS {
  bs_store : store;
  bs_fid : addr;                         (* the running fiber *)
  bs_fib : bfiber;                       (* ... unpacked; its entry in [bs_fibers] is stale *)
  bs_fibers : PM.t bfiber;
  bs_ipf : N;                            (* vm.ip: function whose code it points into, offset *)
  bs_pc : N;
  bs_mod : addr;                         (* active_module *)
  bs_chunk : N;                          (* active_chunk (constants): the current frame's function *)
  bs_he : bool;                          (* handling_exception *)
  bs_cdef : option bclassdef;            (* working_class_def *)
  bs_closures : PM.t (N * list addr);    (* closure |-> function, upvalues *)
  bs_upvals : PM.t upval;
  bs_modules : list (bytes * addr);
  bs_env : benv }.

Definition w_store (s : bstate) (st : store) : bstate :=
  mkBS st (bs_fid s) (bs_fib s) (bs_fibers s) (bs_ipf s) (bs_pc s) (bs_mod s) (bs_chunk s) (bs_he s)
       (bs_cdef s) (bs_closures s) (bs_upvals s) (bs_modules s) (bs_env s).
Definition w_fib (s : bstate) (f : bfiber) : bstate :=
  mkBS (bs_store s) (bs_fid s) f (bs_fibers s) (bs_ipf s) (bs_pc s) (bs_mod s) (bs_chunk s) (bs_he s)
       (bs_cdef s) (bs_closures s) (bs_upvals s) (bs_modules s) (bs_env s).
Definition w_sf (s : bstate) (st : store) (f : bfiber) : bstate :=
  mkBS st (bs_fid s) f (bs_fibers s) (bs_ipf s) (bs_pc s) (bs_mod s) (bs_chunk s) (bs_he s)
       (bs_cdef s) (bs_closures s) (bs_upvals s) (bs_modules s) (bs_env s).
Definition w_ip (s : bstate) (ipf pc : N) : bstate :=
  mkBS (bs_store s) (bs_fid s) (bs_fib s) (bs_fibers s) ipf pc (bs_mod s) (bs_chunk s) (bs_he s)
       (bs_cdef s) (bs_closures s) (bs_upvals s) (bs_modules s) (bs_env s).
Definition w_pc (s : bstate) (pc : N) : bstate := w_ip s (bs_ipf s) pc.
Definition w_he (s : bstate) (b : bool) : bstate :=
  mkBS (bs_store s) (bs_fid s) (bs_fib s) (bs_fibers s) (bs_ipf s) (bs_pc s) (bs_mod s) (bs_chunk s) b
       (bs_cdef s) (bs_closures s) (bs_upvals s) (bs_modules s) (bs_env s).
Definition w_cdef (s : bstate) (c : option bclassdef) : bstate :=
  mkBS (bs_store s) (bs_fid s) (bs_fib s) (bs_fibers s) (bs_ipf s) (bs_pc s) (bs_mod s) (bs_chunk s) (bs_he s)
       c (bs_closures s) (bs_upvals s) (bs_modules s) (bs_env s).
Definition w_closures (s : bstate) (c : PM.t (N * list addr)) : bstate :=
  mkBS (bs_store s) (bs_fid s) (bs_fib s) (bs_fibers s) (bs_ipf s) (bs_pc s) (bs_mod s) (bs_chunk s) (bs_he s)
       (bs_cdef s) c (bs_upvals s) (bs_modules s) (bs_env s).
Definition w_upvals (s : bstate) (u : PM.t upval) : bstate :=
  mkBS (bs_store s) (bs_fid s) (bs_fib s) (bs_fibers s) (bs_ipf s) (bs_pc s) (bs_mod s) (bs_chunk s) (bs_he s)
       (bs_cdef s) (bs_closures s) u (bs_modules s) (bs_env s).
Definition w_modules (s : bstate) (m : list (bytes * addr)) : bstate :=
  mkBS (bs_store s) (bs_fid s) (bs_fib s) (bs_fibers s) (bs_ipf s) (bs_pc s) (bs_mod s) (bs_chunk s) (bs_he s)
       (bs_cdef s) (bs_closures s) (bs_upvals s) m (bs_env s).
Definition w_fibers (s : bstate) (m : PM.t bfiber) : bstate :=
  mkBS (bs_store s) (bs_fid s) (bs_fib s) m (bs_ipf s) (bs_pc s) (bs_mod s) (bs_chunk s) (bs_he s)
       (bs_cdef s) (bs_closures s) (bs_upvals s) (bs_modules s) (bs_env s).
(* make [fid]/[f] the running fiber *)
Definition w_running (s : bstate) (fid : addr) (f : bfiber) : bstate :=
  mkBS (bs_store s) fid f (bs_fibers s) (bs_ipf s) (bs_pc s) (bs_mod s) (bs_chunk s) (bs_he s)
       (bs_cdef s) (bs_closures s) (bs_upvals s) (bs_modules s) (bs_env s).
(* vm.rs load_frame's three registers *)
Definition w_regs (s : bstate) (ipf pc : N) (m : addr) (chunk : N) : bstate :=
  mkBS (bs_store s) (bs_fid s) (bs_fib s) (bs_fibers s) ipf pc m chunk (bs_he s)
       (bs_cdef s) (bs_closures s) (bs_upvals s) (bs_modules s) (bs_env s).

Inductive bres :=
| BNext (s : bstate)
| BDone (s : bstate) (v : value)                          (* the main fiber's script returned *)
| BFail (s : bstate) (kind : bytes) (msgs : list bytes)   (* uncaught exception (vm.rs runtime_error) *)
| BStuck (why : string)                                   (* a panic / unchecked-memory site of vm.rs *)
| BFuel.                                                  (* Display / == recursion budget exhausted *)

Definition push (s : bstate) (v : value) : bstate := w_fib s (spush (bs_fib s) v).
Definition peek (s : bstate) (d : N) : option value := speek (bs_fib s) d.

Definition fiber_of (s : bstate) (f : addr) : option bfiber :=
  if Pos.eqb f (bs_fid s) then Some (bs_fib s) else PM.find f (bs_fibers s).

Definition put_fiber (s : bstate) (f : addr) (fb : bfiber) : bstate :=
  if Pos.eqb f (bs_fid s) then w_fib s fb else w_fibers s (PM.add f fb (bs_fibers s)).

(* ---------- upvalue access ---------- *)
Definition upv_get (s : bstate) (u : addr) : option value :=
  match PM.find u (bs_upvals s) with
  | Some (UClosed v) => Some v
  | Some (UOpen f slot) =>
    match fiber_of s f with Some fb => Some (sget fb slot) | None => None end
  | None => None
  end.

Definition upv_set (s : bstate) (u : addr) (v : value) : option bstate :=
  match PM.find u (bs_upvals s) with
  | Some (UClosed _) => Some (w_upvals s (PM.add u (UClosed v) (bs_upvals s)))
  | Some (UOpen f slot) =>
    match fiber_of s f with Some fb => Some (put_fiber s f (sset fb slot v)) | None => None end
  | None => None
  end.

(* object.rs close_upvalues: close every open upvalue whose slot is >= idx *)
Fixpoint close_go (fb : bfiber) (idx : N) (open : list (N * addr)) (uv : PM.t upval)
  : list (N * addr) * PM.t upval :=
  match open with
  | (sl, u) :: r =>
    if (idx <=? sl)%N then close_go fb idx r (PM.add u (UClosed (sget fb sl)) uv) else (open, uv)
  | [] => ([], uv)
  end.

Definition close_upvalues (s : bstate) (idx : N) : bstate :=
  let fb := bs_fib s in
  match fb_open fb with
  | [] => s
  | _ =>
    let '(op, uv) := close_go fb idx (fb_open fb) (bs_upvals s) in
    w_upvals (w_fib s (w_open fb op)) uv
  end.

(* vm.rs capture_upvalue *)
Fixpoint capture_go (loc : N) (open : list (N * addr)) (fresh : addr) : list (N * addr) * addr * bool :=
  match open with
  | (sl, u) :: r =>
    if (loc <? sl)%N then
      let '(r', a, isnew) := capture_go loc r fresh in ((sl, u) :: r', a, isnew)
    else if (sl =? loc)%N then (open, u, false)
    else ((loc, fresh) :: open, fresh, true)
  | [] => ([(loc, fresh)], fresh, true)
  end.

Definition capture_upvalue (s : bstate) (loc : N) : bstate * addr :=
  let st := bs_store s in
  let fr := s_next st in
  let '(op, a, isnew) := capture_go loc (fb_open (bs_fib s)) fr in
  if isnew then
    let '(st1, _) := fresh st in
    (w_upvals (w_sf s st1 (w_open (bs_fib s) op)) (PM.add a (UOpen (bs_fid s) loc) (bs_upvals s)), a)
  else (s, a).

(* ---------- frames ---------- *)
Definition cur_frame (s : bstate) : option bframe :=
  match fb_frames (bs_fib s) with f :: _ => Some f | [] => None end.

Definition cur_base (s : bstate) : N :=
  match cur_frame s with Some f => fr_base f | None => 0%N end.

Definition set_frame_ip (f : bframe) (ipf pc : N) : bframe :=
  mkFrame (fr_cl f) (fr_fid f) ipf pc (fr_base f).

(* current_frame_mut().ip = self.ip *)
Definition save_ip (s : bstate) : bstate :=
  match fb_frames (bs_fib s) with
  | f :: r => w_fib s (w_frames (bs_fib s) (set_frame_ip f (bs_ipf s) (bs_pc s) :: r))
  | [] => s
  end.

Definition closure_module (st : store) (cl : addr) : addr :=
  match get_obj st cl with Some (OClosure _ _ m) => m | _ => xH end.

(* vm.rs load_frame *)
Definition load_frame (s : bstate) : option bstate :=
  match cur_frame s with
  | Some f => Some (w_regs s (fr_ipf f) (fr_pc f) (closure_module (bs_store s) (fr_cl f)) (fr_fid f))
  | None => None
  end.

(* ---------- constants ---------- *)
Definition get_const (s : bstate) (c : N) : option bconst :=
  match get_fn (bs_env s) (bs_chunk s) with
  | Some f => PM.find (nkey c) (bf_consts f)
  | None => None
  end.

Definition const_str (s : bstate) (c : N) : option bytes :=
  match get_const s c with Some (KStr t) => Some t | _ => None end.

(* ---------- uncaught exceptions (vm.rs new_error_from_value + runtime_error) ---------- *)
Definition frame_trace (s : bstate) (f : bframe) : bytes :=
  let line := match get_fn (bs_env s) (fr_fid f) with
              | Some fn => line_at (bf_lines fn) (fr_pc f - 1)%N
              | None => 0%N
              end in
  trace_entry (bs_store s) (fr_cl f) line.

Definition uncaught (s : bstate) (exc : value) : bres :=
  let st := bs_store s in
  let '(kind, desc, ctx) := error_kind_of st exc in
  match show_value st ctx with
  | None => BFuel
  | Some t =>
    let fb := bs_fib s in
    let '(tf, tp) := match fb_errip fb with Some p => p | None => (bs_ipf s, bs_pc s) end in
    let frames := match fb_frames fb with f :: r => set_frame_ip f tf tp :: r | [] => [] end in
    BFail s kind (split_lines (B "Unhandled " ++ desc ++ B ": " ++ t) ++ map (frame_trace s) frames)
  end.

(* ---------- vm.rs unwind_stack ---------- *)
Fixpoint drop {A} (n : nat) (l : list A) : list A :=
  match n, l with
  | O, _ => l
  | S k, _ :: r => drop k r
  | S _, [] => []
  end.

Definition unwind (s : bstate) : bres :=
  let fb := bs_fib s in
  match speek fb 0 with
  | None => BStuck "unwind_stack: empty stack"
  | Some exc =>
    match fb_handlers fb with
    | [] => uncaught s exc
    | h :: hs =>
      let s1 := close_upvalues s (bh_size h) in
      let fb1 := bs_fib s1 in
      let fb2 := spush (strunc fb1 (bh_size h)) exc in
      let nfr := List.length (fb_frames fb2) in
      let dropped := (nfr - bh_frames h)%nat in
      let frames' := drop dropped (fb_frames fb2) in
      let errip := if Nat.ltb (bh_frames h) nfr
                   then match frames' with f :: _ => Some (fr_ipf f, fr_pc f) | [] => fb_errip fb2 end
                   else fb_errip fb2 in
      let he := (bh_finally h =? bh_catch h)%N in
      match frames' with
      | [] => BStuck "unwind_stack: no frame"
      | f :: r =>
        let f' := set_frame_ip f (bh_fid h) (bh_catch h) in
        let fb3 := w_errip (w_handlers (w_frames fb2 (f' :: r)) hs) (if he then errip else None) in
        match load_frame (w_he (w_fib s1 fb3) he) with
        | Some s2 => BNext s2
        | None => BStuck "unwind_stack: load_frame"
        end
      end
    end
  end.

(* vm.rs try_handle_error *)
Definition raise (s : bstate) (k : ekind) (msg : bytes) : bres :=
  let '(st1, v) := mk_error (bs_store s) k msg in
  let fb := spush (bs_fib s) v in
  unwind (w_sf s st1 (w_errip fb (Some (bs_ipf s, bs_pc s)))).

(* ---------- calls ---------- *)
Definition closure_info (s : bstate) (cl : addr) : option (N * list addr) := PM.find cl (bs_closures s).

Definition nat_textN (n : N) : bytes := B (show_N n).

(* vm.rs call_closure *)
Definition call_closure (s : bstate) (cl : addr) (argc : N) : bres :=
  match closure_info s cl with
  | None => BStuck "call_closure: not a byte-code closure"
  | Some (fid, _) =>
    match get_fn (bs_env s) fid with
    | None => BStuck "call_closure: no such function"
    | Some fn =>
      let arity := (bf_arity fn - 1)%N in
      if negb (argc =? arity)%N then
        raise s ETypeError (B "Expected " ++ nat_textN arity ++ B " arguments but found " ++ nat_textN argc ++ B ".")
      else if Nat.eqb (List.length (fb_frames (bs_fib s))) FRAMES_MAX then
        raise s EIndexError (B "Stack overflow.")
      else
        let s1 := save_ip s in
        let fb := bs_fib s1 in
        let fr := mkFrame cl fid fid 0%N (fb_sp fb - bf_arity fn)%N in
        match load_frame (w_fib s1 (w_frames fb (fr :: fb_frames fb))) with
        | Some s2 => BNext s2
        | None => BStuck "call_closure: load_frame"
        end
    end
  end.

Definition is_new_fiber (fb : bfiber) : bool :=
  match fb_frames fb with
  | [f] => (fr_ipf f =? fr_fid f)%N && (fr_pc f =? 0)%N
  | _ => false
  end.

(* call_native's error path *)
Definition native_fail (s : bstate) (manages : bool) (argc : N) (st : store) (k : ekind) (msg : bytes) : bres :=
  let '(st1, v) := mk_error st k msg in
  let fb := bs_fib s in
  let fb1 := if manages then fb else sdiscard fb argc in
  if (fb_sp fb1 =? 0)%N then BStuck "call_native: poke on an empty stack" else
  unwind (w_sf s st1 (w_errip (spoke fb1 0 v) (Some (bs_ipf s, bs_pc s)))).

Definition native_fail_err (s : bstate) (manages : bool) (argc : N) (e : Index.err) : bres :=
  let '(k, m) := conv_err e in native_fail s manages argc (bs_store s) k m.

(* switch the running fiber: the current one is stored, [t] is unpacked *)
Definition switch_to (s : bstate) (t : addr) (tf : bfiber) : bstate :=
  if Pos.eqb t (bs_fid s) then w_fib s tf
  else w_running (w_fibers s (PM.add (bs_fid s) (bs_fib s) (bs_fibers s))) t tf.

(* vm.rs load_fiber (the running fiber exists) + core.rs fiber_call *)
Definition fiber_call (s : bstate) (argc : N) : bres :=
  match peek s argc with
  | Some (VFiber t) =>
    match fiber_of s t with
    | None => BStuck "fiber_call: unknown fiber"
    | Some tf =>
      let isnew := is_new_fiber tf in
      let arity_err :=
        if isnew then
          match StrFns.check_num_args (N.to_nat argc) (N.to_nat (fb_call_arity tf - 1)) with
          | Error e => Some (native_fail_err s true argc e)
          | Ok _ => None
          end
        else if (1 <? argc)%N then
          Some (native_fail s true argc (bs_store s) ETypeError
                  (B "Expected at most 1 parameter but found " ++ nat_textN argc ++ B "."))
        else None in
      match arity_err with
      | Some r => r
      | None =>
        let arg := if (argc =? 1)%N then peek s 0 else None in
        match fb_frames tf with
        | [] => native_fail s true argc (bs_store s) ERuntimeError (B "Cannot call a finished fiber.")
        | f0 :: _ =>
          match fb_caller tf with
          | Some _ => native_fail s true argc (bs_store s) ERuntimeError
                                  (B "Cannot call a fiber that has already been called.")
          | None =>
            let s1 := match arg with Some _ => w_fib s (sdiscard (bs_fib s) 1) | None => s end in
            let s2 := save_ip s1 in
            let caller := bs_fid s2 in
            (* re-read the target: it may be the running fiber itself *)
            let tf1 := match fiber_of s2 t with Some x => x | None => tf end in
            let s3 := switch_to s2 t (w_caller tf1 (Some caller)) in
            let fb := bs_fib s3 in
            let fb1 :=
              if isnew then
                let fb' := spush fb (VClosure (fr_cl f0)) in
                match arg with Some a => spush fb' a | None => fb' end
              else spoke fb 0 (match arg with Some a => a | None => VNil end) in
            if negb isnew && (fb_sp fb =? 0)%N then BStuck "load_fiber: poke on an empty stack" else
            match load_frame (w_fib s3 fb1) with
            | Some s4 => BNext s4
            | None => BStuck "load_fiber: load_frame"
            end
          end
        end
      end
    end
  | Some _ => BStuck "fiber_call: Expected ObjFiber."
  | None => BStuck "fiber_call: stack"
  end.

(* vm.rs unload_fiber after the optional pop; [fin] = the fiber has finished *)
Definition unload_to_caller (s : bstate) (arg : option value) : option bres :=
  let fb := bs_fib s in
  match fb_caller fb with
  | None => None
  | Some c =>
    match PM.find c (bs_fibers s) with
    | None => Some (BStuck "unload_fiber: unknown caller")
    | Some cf =>
      let s1 := switch_to (w_fib s (w_caller fb None)) c cf in
      if (fb_sp cf =? 0)%N then Some (BStuck "unload_fiber: poke on an empty stack") else
      let s2 := w_fib s1 (spoke (bs_fib s1) 0 (match arg with Some a => a | None => VNil end)) in
      match load_frame s2 with
      | Some s3 => Some (BNext s3)
      | None => Some (BStuck "unload_fiber: load_frame")
      end
    end
  end.

Definition fiber_yield (s : bstate) (argc : N) : bres :=
  if (1 <? argc)%N then
    native_fail s true argc (bs_store s) ETypeError
                (B "Expected at most 1 parameter but found " ++ nat_textN argc ++ B ".")
  else
    let arg := if (argc =? 1)%N then peek s 0 else None in
    let s1 := match arg with Some _ => w_fib s (sdiscard (bs_fib s) 1) | None => s end in
    let s2 := match fb_frames (bs_fib s1) with [] => s1 | _ => save_ip s1 end in
    match unload_to_caller s2 arg with
    | Some r => r
    | None => native_fail s2 true argc (bs_store s2) ERuntimeError (B "Cannot yield from module-level code.")
    end.

(* a fiber created by Fiber.new gets its machine part *)
Definition register_fiber (s : bstate) (a : addr) (cl : addr) : bstate :=
  match closure_info s cl with
  | Some (fid, _) =>
    let ar := match get_fn (bs_env s) fid with Some fn => bf_arity fn | None => 1%N end in
    let fb := mkFib (PM.empty value) 0%N [mkFrame cl fid fid 0%N 0%N] [] [] None ar VNil None None in
    w_fibers s (PM.add a fb (bs_fibers s))
  | None => s
  end.

(* vm.rs call_native *)
Definition call_native (s : bstate) (n : native_id) (argc : N) : bres :=
  match n with
  | NFiberCall => fiber_call s argc
  | NFiberYield => fiber_yield s argc
  | _ =>
    match peek s argc with
    | None => BStuck "call_native: stack"
    | Some recv =>
      let args := stop (bs_fib s) argc in
      let r :=
        match n with
        | NFiberHasFinished =>
          arity_check (bs_store s) (List.length args) 0 (fun _ =>
            match recv with
            | VFiber a =>
              match fiber_of s a with
              | Some fb => NVal (bs_store s) (VBool (match fb_frames fb with [] => true | _ => false end))
              | None => panic (bs_store s) "fiber"
              end
            | _ => panic (bs_store s) "Expected ObjFiber."
            end)
        | _ => native_store n (bs_store s) recv args
        end in
      match r with
      | NFuel => BFuel
      | NErr st k m => native_fail s false argc st k m
      | NVal st v =>
        let fb := spoke (sdiscard (bs_fib s) argc) 0 v in
        let s1 := w_sf s st fb in
        match n, v, args with
        | NFiberNew, VFiber a, [VClosure cl] => BNext (register_fiber s1 a cl)
        | _, _, _ => BNext s1
        end
      end
    end
  end.

(* vm.rs call_value *)
Definition call_value (s : bstate) (f : value) (argc : N) : bres :=
  let st := bs_store s in
  match f with
  | VBound a =>
    match get_obj st a with
    | Some (OBound recv cl) => call_closure (w_fib s (spoke (bs_fib s) argc recv)) cl argc
    | _ => BStuck "call_value: bound method"
    end
  | VBoundNat a =>
    match get_obj st a with
    | Some (OBoundNat recv n) => call_native (w_fib s (spoke (bs_fib s) argc recv)) n argc
    | _ => BStuck "call_value: bound native"
    end
  | VClosure a => call_closure s a argc
  | VNative n _ => call_native s n argc
  | _ => raise s ETypeError (B "Can only call functions and methods.")
  end.

(* vm.rs invoke_from_class *)
Definition invoke_from_class (s : bstate) (c : addr) (m : name) (argc : N) : bres :=
  match alist_find m (class_methods (bs_store s) c) with
  | Some (VClosure cl) => call_closure s cl argc
  | Some (VNative n _) => call_native s n argc
  | Some _ => BStuck "invoke_from_class: unreachable"
  | None => raise s EAttributeError (B "Undefined property '" ++ m ++ B "'.")
  end.

(* vm.rs invoke *)
Definition invoke (s : bstate) (m : name) (argc : N) : bres :=
  let st := bs_store s in
  match peek s argc with
  | None => BStuck "invoke: stack"
  | Some recv =>
    match recv with
    | VInst a =>
      match get_obj st a with
      | Some (OInst c fs) =>
        match alist_find m fs with
        | Some f => call_value (w_fib s (spoke (bs_fib s) argc f)) f argc
        | None => invoke_from_class s c m argc
        end
      | _ => BStuck "invoke: instance"
      end
    | VModule a =>
      match alist_find m (module_globals st a) with
      | Some f => call_value (w_fib s (spoke (bs_fib s) argc f)) f argc
      | None => invoke_from_class s (cc_module (s_cc st)) m argc
      end
    | _ => invoke_from_class s (class_of st recv) m argc
    end
  end.

(* ---------- result plumbing ---------- *)
(* the instruction replaces its [pops] operands by the result *)
Definition finish_nres (s : bstate) (pops : N) (r : nres) : bres :=
  match r with
  | NVal st v => BNext (w_sf s st (spush (sdiscard (bs_fib s) pops) v))
  | NErr st k m => raise (w_store s st) k m
  | NFuel => BFuel
  end.

Definition finish_opres (s : bstate) (pops : N) (r : option opres) : bres :=
  match r with
  | Some (OpVal v) => BNext (w_fib s (spush (sdiscard (bs_fib s) pops) v))
  | Some (OpErr k m) => raise (w_fib s (sdiscard (bs_fib s) pops)) k m
  | None => BFuel
  end.

Definition binop_of (o : Bytecode.opcode) : option binop :=
  match o with
  | Bytecode.OpGreater => Some BGt | Bytecode.OpLess => Some BLt | Bytecode.OpAdd => Some BAdd
  | Bytecode.OpSubtract => Some BSub | Bytecode.OpMultiply => Some BMul | Bytecode.OpDivide => Some BDiv
  | Bytecode.OpBitwiseAnd => Some BBitAnd | Bytecode.OpBitwiseOr => Some BBitOr
  | Bytecode.OpBitwiseXor => Some BBitXor | Bytecode.OpModulo => Some BMod
  | Bytecode.OpBitShiftLeft => Some BShl | Bytecode.OpBitShiftRight => Some BShr
  | Bytecode.OpEqual => Some BEq
  | _ => None
  end.

Definition unop_of (o : Bytecode.opcode) : option unop :=
  match o with
  | Bytecode.OpLogicalNot => Some UNot | Bytecode.OpBitwiseNot => Some UBitNot
  | Bytecode.OpNegate => Some UNeg
  | _ => None
  end.

(* ---------- closures ---------- *)
Fixpoint repeat_name (n : nat) : list name := match n with O => [] | S k => [] :: repeat_name k end.

Definition closure_obj (fn : bfn) (m : addr) : obj :=
  OClosure (SpecValues.mkFn (bf_name fn)
                            (match bf_name fn with [] => FKScript | _ => FKFunction end)
                            (repeat_name (N.to_nat (bf_arity fn - 1))) FBDefaultInit) [] m.

(* vm.rs new_root_obj_closure (the placeholder upvalues are not modelled) *)
Definition new_closure (s : bstate) (fid : N) (fn : bfn) (m : addr) : bstate * addr :=
  let '(st1, a) := alloc (bs_store s) (closure_obj fn m) in
  (w_closures (w_store s st1) (PM.add a (fid, []) (bs_closures s)), a).

Fixpoint capture_all (s : bstate) (base : N) (mine : list addr) (uvs : list (bool * N)) (acc : list addr)
  : option (bstate * list addr) :=
  match uvs with
  | [] => Some (s, rev acc)
  | (true, ix) :: r =>
    let '(s1, u) := capture_upvalue s (base + ix)%N in capture_all s1 base mine r (u :: acc)
  | (false, ix) :: r =>
    match nth_error mine (N.to_nat ix) with
    | Some u => capture_all s base mine r (u :: acc)
    | None => None
    end
  end.

(* ---------- imports ---------- *)
Fixpoint frames_load (st : store) (s : bstate) (m : addr) (l : list bframe) : bool :=
  match l with
  | [] => false
  | f :: r =>
    (Pos.eqb (closure_module st (fr_cl f)) m &&
     match get_fn (bs_env s) (fr_fid f) with Some fn => match bf_name fn with [] => true | _ => false end
                                        | None => false end)
    || frames_load st s m r
  end.

Fixpoint chain_loading (fuel : nat) (s : bstate) (m : addr) (f : option addr) : bool :=
  match fuel, f with
  | S n, Some a =>
    match fiber_of s a with
    | Some fb => frames_load (bs_store s) s m (fb_frames fb) || chain_loading n s m (fb_caller fb)
    | None => false
    end
  | _, _ => false
  end.

Definition is_loading_module (s : bstate) (m : addr) : bool := chain_loading 4000 s m (Some (bs_fid s)).

Definition start_import (s : bstate) (path : bytes) : bres :=
  let load (s : bstate) : bres :=
    match src_find path (be_srcs (bs_env s)) with
    | None => raise s EImportError (B "Unable to read file '" ++ path ++ B ".yl' (file not found).")
    | Some (BMCompileError msgs) =>
      raise s EImportError (join_bytes [x0a] (B "Error compiling module:" :: map (fun m => B "    " ++ m) msgs))
    | Some (BMFn fid) =>
      match get_fn (bs_env s) fid with
      | None => BStuck "start_import: no such function"
      | Some fn =>
        (* vm.module(path): the registry entry exists (a failed earlier import was removed) or is created *)
        let '(s1, m) :=
          match registry_find path (bs_modules s) with
          | Some m => (s, m)
          | None =>
            let '(st1, m) := alloc (bs_store s) (OModule path false []) in
            (w_modules (w_store s st1) ((path, m) :: bs_modules s), m)
          end in
        let s2 := push s1 (VModule m) in
        let '(s3, cl) := new_closure s2 fid fn m in
        let s4 := push s3 (VClosure cl) in
        match call_closure s4 cl 0 with
        | BNext s5 =>
          if Pos.eqb (bs_mod s5) m then BNext (w_store s5 (install_builtins (bs_store s5) m)) else BNext s5
        | r => r
        end
      end
    end in
  match registry_find path (bs_modules s) with
  | Some m =>
    match get_obj (bs_store s) m with
    | Some (OModule _ true _) => BNext (push (push s (VModule m)) VNil)
    | _ =>
      if is_loading_module s m then
        raise s EImportError (B "Circular dependency encountered when importing module '" ++ path ++ B "'.")
      else load (w_modules s (registry_remove path (bs_modules s)))
    end
  | None => load s
  end.

(* ---------- one instruction ---------- *)
Definition value_of_const (k : bconst) : option value :=
  match k with
  | KStr t => Some (VStr t)
  | KNum x => Some (VNum x)
  | _ => None
  end.

Fixpoint concat_strs (l : list value) : option bytes :=
  match l with
  | [] => Some []
  | VStr t :: r => match concat_strs r with Some x => Some (t ++ x) | None => None end
  | _ :: _ => None
  end.

Definition is_class_or_inst_or_module (v : value) : bool :=
  match v with VInst _ | VModule _ => true | _ => false end.

Definition define_method (s : bstate) (nm : name) (is_static : bool) : bres :=
  match peek s 0, bs_cdef s with
  | Some m, Some cd =>
    let cd' := mkCD (cd_name cd) (cd_super cd) (alist_set nm m (cd_methods cd)) (cd_mname cd)
                    (if is_static then alist_set nm m (cd_mmethods cd) else alist_remove nm (cd_mmethods cd)) in
    BNext (w_cdef (w_fib s (sdiscard (bs_fib s) 1)) (Some cd'))
  | None, _ => BStuck "define_method: stack"
  | _, None => BStuck "define_method: no class definition"
  end.

Definition exec (s0 : bstate) (pc0 : N) (i : Bytecode.instr) (nx : N) : bres :=
  let s := w_pc s0 nx in
  let fb := bs_fib s in
  let st := bs_store s in
  let a := Bytecode.ia i in
  let b := Bytecode.ib i in
  let op := Bytecode.iop i in
  let stuck := BStuck "stack underflow" in
  match op with
  | Bytecode.OpConstant =>
    match get_const s a with
    | Some k => match value_of_const k with Some v => BNext (push s v) | None => BStuck "Constant: kind" end
    | None => BStuck "Constant: index"
    end
  | Bytecode.OpNil => BNext (push s VNil)
  | Bytecode.OpTrue => BNext (push s (VBool true))
  | Bytecode.OpFalse => BNext (push s (VBool false))
  | Bytecode.OpPop => if (fb_sp fb =? 0)%N then stuck else BNext (w_fib s (sdiscard fb 1))
  | Bytecode.OpCopyTop => match speek fb 0 with Some v => BNext (push s v) | None => stuck end
  | Bytecode.OpGetLocal => BNext (push s (sget fb (cur_base s + a)%N))
  | Bytecode.OpSetLocal =>
    match speek fb 0 with Some v => BNext (w_fib s (sset fb (cur_base s + a)%N v)) | None => stuck end
  | Bytecode.OpGetGlobal =>
    match const_str s a with
    | None => BStuck "GetGlobal: name"
    | Some nm =>
      match alist_find nm (module_globals st (bs_mod s)) with
      | Some v => BNext (push s v)
      | None => raise s ENameError (B "Undefined variable '" ++ nm ++ B "'.")
      end
    end
  | Bytecode.OpDefineGlobal =>
    match const_str s a, speek fb 0 with
    | Some nm, Some v =>
      BNext (w_sf s (set_module_globals st (bs_mod s) (alist_set nm v (module_globals st (bs_mod s))))
                  (sdiscard fb 1))
    | None, _ => BStuck "DefineGlobal: name"
    | _, None => stuck
    end
  | Bytecode.OpSetGlobal =>
    match const_str s a, speek fb 0 with
    | Some nm, Some v =>
      match alist_replace nm v (module_globals st (bs_mod s)) with
      | Some gs => BNext (w_store s (set_module_globals st (bs_mod s) gs))
      | None => raise s ENameError (B "Undefined variable '" ++ nm ++ B "'.")
      end
    | None, _ => BStuck "SetGlobal: name"
    | _, None => stuck
    end
  | Bytecode.OpGetUpvalue =>
    match cur_frame s with
    | Some f =>
      match closure_info s (fr_cl f) with
      | Some (_, uvs) =>
        match nth_error uvs (N.to_nat a) with
        | Some u => match upv_get s u with Some v => BNext (push s v) | None => BStuck "GetUpvalue: dangling" end
        | None => BStuck "GetUpvalue: index"
        end
      | None => BStuck "GetUpvalue: closure"
      end
    | None => BStuck "GetUpvalue: frame"
    end
  | Bytecode.OpSetUpvalue =>
    match cur_frame s, speek fb 0 with
    | Some f, Some v =>
      match closure_info s (fr_cl f) with
      | Some (_, uvs) =>
        match nth_error uvs (N.to_nat a) with
        | Some u => match upv_set s u v with Some s1 => BNext s1 | None => BStuck "SetUpvalue: dangling" end
        | None => BStuck "SetUpvalue: index"
        end
      | None => BStuck "SetUpvalue: closure"
      end
    | _, _ => stuck
    end
  | Bytecode.OpGetProperty =>
    match const_str s a, speek fb 0 with
    | Some nm, Some o => finish_nres s 1 (get_property st o nm)
    | None, _ => BStuck "GetProperty: name"
    | _, None => stuck
    end
  | Bytecode.OpSetProperty =>
    match speek fb 1, speek fb 0 with
    | Some o, Some v =>
      if is_class_or_inst_or_module o then
        match const_str s a with
        | Some nm => finish_nres s 2 (set_property st o nm v)
        | None => BStuck "SetProperty: name"
        end
      else
        (* the error is raised BEFORE the operand is read *)
        raise (w_pc s (pc0 + 1)%N) EAttributeError (B "Only instances have fields.")
    | _, _ => stuck
    end
  | Bytecode.OpGetClass =>
    match speek fb 0 with
    | Some (VClass _) => BNext s
    | Some v => BNext (w_fib s (spoke fb 0 (VClass (class_of st v))))
    | None => stuck
    end
  | Bytecode.OpGetSuper =>
    match const_str s a, speek fb 0, speek fb 1 with
    | Some nm, Some (VClass c), Some inst =>
      (* pop the superclass, bind_method on the receiver below it *)
      finish_nres (w_fib s (sdiscard fb 1)) 1 (bind_method st c nm inst)
    | None, _, _ => BStuck "GetSuper: name"
    | _, Some _, _ => BStuck "GetSuper: Expected ObjClass."
    | _, _, _ => stuck
    end
  | Bytecode.OpEqual | Bytecode.OpGreater | Bytecode.OpLess | Bytecode.OpAdd | Bytecode.OpSubtract
  | Bytecode.OpMultiply | Bytecode.OpDivide | Bytecode.OpBitwiseAnd | Bytecode.OpBitwiseOr
  | Bytecode.OpBitwiseXor | Bytecode.OpModulo | Bytecode.OpBitShiftLeft | Bytecode.OpBitShiftRight =>
    match binop_of op, speek fb 1, speek fb 0 with
    | Some bo, Some x, Some y => finish_opres s 2 (apply_binop st bo x y)
    | _, _, _ => stuck
    end
  | Bytecode.OpLogicalNot | Bytecode.OpBitwiseNot | Bytecode.OpNegate =>
    match unop_of op, speek fb 0 with
    | Some uo, Some x => finish_opres s 1 (Some (apply_unop uo x))
    | _, _ => stuck
    end
  | Bytecode.OpGetItem =>
    match speek fb 1, speek fb 0 with
    | Some o, Some ix => finish_nres s 2 (get_item st o ix)
    | _, _ => stuck
    end
  | Bytecode.OpSetItem =>
    match speek fb 2, speek fb 1, speek fb 0 with
    | Some o, Some ix, Some v => finish_nres s 3 (set_item st o ix v)
    | _, _, _ => stuck
    end
  | Bytecode.OpFormatString =>
    match speek fb 0 with
    | Some (VStr _) => BNext s
    | Some v =>
      match show_value st v with
      | Some t => BNext (w_fib s (spoke fb 0 (VStr t)))
      | None => BFuel
      end
    | None => stuck
    end
  | Bytecode.OpBuildHashMap =>
    if (fb_sp fb <? 2 * a)%N then stuck else finish_nres s (2 * a) (build_map st (stop fb (2 * a)))
  | Bytecode.OpBuildRange =>
    match speek fb 1, speek fb 0 with
    | Some vb, Some ve => finish_nres s 2 (build_range st vb ve)
    | _, _ => stuck
    end
  | Bytecode.OpBuildString =>
    if (a =? 1)%N then BNext s
    else if (fb_sp fb <? a)%N then stuck
    else match concat_strs (stop fb a) with
         | Some t => BNext (w_fib s (spush (sdiscard fb a) (VStr t)))
         | None => BStuck "BuildString: operand is not a string"
         end
  | Bytecode.OpBuildTuple =>
    if (fb_sp fb <? a)%N then stuck else
    let '(st1, id) := fresh st in
    BNext (w_sf s st1 (spush (sdiscard fb a) (VTuple id (stop fb a))))
  | Bytecode.OpBuildVec =>
    if (fb_sp fb <? a)%N then stuck else
    let '(st1, v) := alloc st (OVec (stop fb a)) in
    BNext (w_sf s st1 (spush (sdiscard fb a) (VVec v)))
  | Bytecode.OpIterNext =>
    match speek fb 0 with
    | Some it => invoke (push s it) (B "next") 0
    | None => stuck
    end
  | Bytecode.OpJump => BNext (w_pc s (nx + a)%N)
  | Bytecode.OpJumpIfFalse =>
    match speek fb 0 with
    | Some v => BNext (if truthy v then s else w_pc s (nx + a)%N)
    | None => stuck
    end
  | Bytecode.OpJumpIfStopIter =>
    match speek fb 0 with
    | Some v => BNext (if is_stop_iter st v then w_pc s (nx + a)%N else s)
    | None => stuck
    end
  | Bytecode.OpLoop => if (nx <? a)%N then BStuck "Loop: before the code" else BNext (w_pc s (nx - a)%N)
  | Bytecode.OpJumpFinally =>
    match speek fb 0, fb_handlers fb with
    | Some rv, h :: hs =>
      let fb1 := w_handlers (w_ret (sdiscard fb 1) rv (Some (bs_ipf s, bs_pc s))) hs in
      let s1 := close_upvalues (w_fib s fb1) (bh_size h) in
      BNext (w_ip (w_fib s1 (strunc (bs_fib s1) (bh_size h))) (bh_fid h) (bh_finally h))
    | None, _ => stuck
    | _, [] => BStuck "JumpFinally: Expected ExcHandler."
    end
  | Bytecode.OpEndFinally =>
    let take (s : bstate) : bres :=
      let fb := bs_fib s in
      match fb_retip fb with
      | Some (rf, rp) => BNext (w_ip (w_fib s (spush (w_ret fb VNil None) (fb_retval fb))) rf rp)
      | None => BNext s
      end in
    if bs_he s then
      match unwind s with
      | BNext s1 => take s1
      | r => r
      end
    else take s
  | Bytecode.OpPushExcHandler =>
    let h := mkHandler (bs_ipf s) (nx + a)%N (nx + a + b)%N (fb_sp fb) (List.length (fb_frames fb)) in
    BNext (w_fib s (w_handlers fb (h :: fb_handlers fb)))
  | Bytecode.OpPopExcHandler =>
    BNext (w_fib s (w_handlers fb (match fb_handlers fb with _ :: r => r | [] => [] end)))
  | Bytecode.OpThrow =>
    unwind (w_he (w_fib s (w_errip fb (Some (bs_ipf s, bs_pc s)))) true)
  | Bytecode.OpCall =>
    match speek fb a with Some f => call_value s f a | None => stuck end
  | Bytecode.OpConstruct =>
    match speek fb a with
    | Some (VClass c) =>
      let '(st1, x) := alloc st (OInst c []) in BNext (w_sf s st1 (spoke fb a (VInst x)))
    | Some _ => BNext s
    | None => stuck
    end
  | Bytecode.OpInvoke =>
    match const_str s a with Some nm => invoke s nm b | None => BStuck "Invoke: name" end
  | Bytecode.OpSuperInvoke =>
    match const_str s a, speek fb 0 with
    | Some nm, Some (VClass c) => invoke_from_class (w_fib s (sdiscard fb 1)) c nm b
    | None, _ => BStuck "SuperInvoke: name"
    | _, Some _ => BStuck "SuperInvoke: unreachable"
    | _, None => stuck
    end
  | Bytecode.OpClosure =>
    match get_const s a, cur_frame s with
    | Some (KFun fid), Some f =>
      match get_fn (bs_env s) fid with
      | Some fn =>
        let '(s1, cl) := new_closure s fid fn (bs_mod s) in
        let s2 := push s1 (VClosure cl) in
        let mine := match closure_info s (fr_cl f) with Some (_, u) => u | None => [] end in
        match capture_all s2 (fr_base f) mine (Bytecode.iuvs i) [] with
        | Some (s3, uvs) => BNext (w_closures s3 (PM.add cl (fid, uvs) (bs_closures s3)))
        | None => BStuck "Closure: upvalue index"
        end
      | None => BStuck "Closure: no such function"
      end
    | _, None => BStuck "Closure: frame"
    | _, _ => BStuck "Closure: Expected ObjFunction."
    end
  | Bytecode.OpCloseUpvalue =>
    if (fb_sp fb =? 0)%N then stuck else
    let s1 := close_upvalues s (fb_sp fb - 1)%N in
    BNext (w_fib s1 (sdiscard (bs_fib s1) 1))
  | Bytecode.OpReturn =>
    match speek fb 0, cur_frame s with
    | Some result, Some f =>
      let s1 := close_upvalues (w_fib s (sdiscard fb 1)) (fr_base f) in
      let fb1 := bs_fib s1 in
      let prev := fr_base f in
      match fb_frames fb1 with
      | [] => BStuck "Return: frame"
      | _ :: [] =>
        let fb2 := w_frames fb1 [] in
        match fb_caller fb2 with
        | Some _ =>
          match unload_to_caller (w_fib s1 (strunc fb2 prev)) None with
          | Some (BNext s2) => BNext (w_fib s2 (spoke (bs_fib s2) 0 result))
          | Some r => r
          | None => BStuck "Return: caller"
          end
        | None =>
          match speek fb2 0 with
          | Some v => BDone (w_fib s1 (sdiscard fb2 1)) v
          | None => BStuck "Return: Expected Value."
          end
        end
      | _ :: rest =>
        match load_frame (w_fib s1 (w_frames fb1 rest)) with
        | Some s2 => BNext (w_fib s2 (spush (strunc (bs_fib s2) prev) result))
        | None => BStuck "Return: load_frame"
        end
      end
    | None, _ => stuck
    | _, None => BStuck "Return: frame"
    end
  | Bytecode.OpDeclareClass =>
    match const_str s a with
    | Some nm =>
      let om := class_methods st (cc_object (s_cc st)) in
      BNext (push (w_cdef s (Some (mkCD nm (Some (cc_object (s_cc st))) om (nm ++ B "Class") om))) VNil)
    | None => BStuck "DeclareClass: name"
    end
  | Bytecode.OpDefineClass =>
    match bs_cdef s with
    | Some cd =>
      if (fb_sp fb =? 0)%N then stuck else
      let cc := s_cc st in
      let '(st1, ma) := alloc st (OClass (cd_mname cd) (cc_type cc) (Some (cc_object cc)) (cd_mmethods cd)) in
      let '(st2, ca) := alloc st1 (OClass (cd_name cd) ma (cd_super cd) (cd_methods cd)) in
      BNext (w_cdef (w_sf s st2 (spoke fb 0 (VClass ca))) None)
    | None => BStuck "DefineClass: Expected ClassDef."
    end
  | Bytecode.OpInherit =>
    match speek fb 1 with
    | Some (VClass sup) =>
      match bs_cdef s with
      | Some cd =>
        let ms := fold_left (fun t kv => alist_set (fst kv) (snd kv) t) (class_methods st sup) (cd_methods cd) in
        BNext (w_cdef (w_fib s (sdiscard fb 1))
                      (Some (mkCD (cd_name cd) (Some sup) ms (cd_mname cd) (cd_mmethods cd))))
      | None => BStuck "Inherit: no class definition"
      end
    | Some _ => raise s ERuntimeError (B "Superclass must be a class.")
    | None => stuck
    end
  | Bytecode.OpMethod =>
    match const_str s a with Some nm => define_method s nm false | None => BStuck "Method: name" end
  | Bytecode.OpStaticMethod =>
    match const_str s a with Some nm => define_method s nm true | None => BStuck "StaticMethod: name" end
  | Bytecode.OpStartImport =>
    match const_str s a with Some p => start_import s p | None => BStuck "StartImport: name" end
  | Bytecode.OpFinishImport =>
    match speek fb 1 with
    | Some (VModule m) =>
      match get_obj st m with
      | Some (OModule p _ gs) => BNext (w_sf s (put_obj st m (OModule p true gs)) (sdiscard fb 1))
      | _ => BStuck "FinishImport: module"
      end
    | Some _ => BStuck "FinishImport: Expected ObjModule."
    | None => stuck
    end
  end.

(* instructions that read a constant of the active chunk *)
Definition uses_const (o : Bytecode.opcode) : bool :=
  match Bytecode.layout_of o with
  | Bytecode.L16 =>
    match o with
    | Bytecode.OpJump | Bytecode.OpJumpIfFalse | Bytecode.OpJumpIfStopIter | Bytecode.OpLoop => false
    | _ => true
    end
  | Bytecode.L16_8 | Bytecode.LClosure => true
  | _ => false
  end.

Definition fetch (s : bstate) : option (Bytecode.instr * N) :=
  match get_fn (bs_env s) (bs_ipf s) with
  | Some fn => PM.find (nkey (bs_pc s)) (bf_imap fn)
  | None => None
  end.

Definition step (s : bstate) : bres :=
  match fetch s with
  | None => BStuck "fetch: not an instruction"
  | Some (i, nx) =>
    (* code of one chunk running with the constants of another (a return address taken by a foreign
       EndFinally): only constant-free instructions have a meaning independent of the byte layout *)
    if negb (bs_ipf s =? bs_chunk s)%N && uses_const (Bytecode.iop i)
    then BStuck "foreign code reads a constant"
    else exec s (bs_pc s) i nx
  end.

Inductive brres :=
| BRMore (s : bstate)
| BRDone (s : bstate) (v : value)
| BRFail (s : bstate) (kind : bytes) (msgs : list bytes)
| BRStuck (why : string)
| BRFuel.

Fixpoint run (fuel : nat) (s : bstate) : brres :=
  match fuel with
  | O => BRMore s
  | S f =>
    match step s with
    | BNext s' => run f s'
    | BDone s' v => BRDone s' v
    | BFail s' k m => BRFail s' k m
    | BStuck w => BRStuck w
    | BFuel => BRFuel
    end
  end.

Fixpoint run_blocks (n : nat) (s : bstate) : brres :=
  match n with
  | O => BRMore s
  | S n' =>
    match run 1000 s with
    | BRMore s' => run_blocks n' s'
    | r => r
    end
  end.

(* ---------- vm.rs execute: a script function on a new main fiber ---------- *)
Definition execute (s : bstate) (fid : N) (m : addr) : option bstate :=
  match get_fn (bs_env s) fid with
  | None => None
  | Some fn =>
    let '(s1, cl) := new_closure (w_he s false) fid fn m in
    let '(st1, fa) := alloc (bs_store s1) (OFiber (mkFiber FStarted None [] 0%N m O)) in
    let fb := mkFib (PM.empty value) 0%N [mkFrame cl fid fid 0%N 0%N] [] [] None (bf_arity fn) VNil None None in
    (* load_fiber on a VM without a running fiber: the old fiber (if any) is dropped *)
    let s2 := w_running (w_store s1 st1) fa (spush fb (VClosure cl)) in
    load_frame s2
  end.
