(* BcVM: theorems.  See notes/BcVM.md for the list and their status. *)
From Coq Require Import List NArith ZArith PArith Bool String Lia.
From Coq Require Import Strings.Byte FSets.FMapPositive.
From YV Require Bytecode Skeleton Verifier VerifierProofs Wire.
From YV Require Import Ast Show Num SpecValues SpecHeap SpecOps SpecNatives SpecMachine BcVM BcVMRun.
Import ListNotations.
Local Close Scope Z_scope.
Local Open Scope list_scope.

(* ------------------------------------------------------------------ *)
(** * 1. The instruction map is the tabulation of the reference decoder *)

Lemma nkey_inj : forall i j, nkey i = nkey j -> i = j.
Proof. exact VerifierProofs.key_inj. Qed.

Lemma build_imap_find : forall get p f n pc0 m q,
    PM.find (nkey q) (build_imap get p f n pc0 m) =
    if ((pc0 <=? q) && (q <? pc0 + N.of_nat n))%N
    then match Bytecode.decode_at get p f q with Some r => Some r | None => PM.find (nkey q) m end
    else PM.find (nkey q) m.
Proof.
  intros get p f n; induction n as [|n IH]; intros pc0 m q.
  - cbn [build_imap]. replace (pc0 + N.of_nat 0)%N with pc0 by lia.
    destruct (pc0 <=? q)%N eqn:E1, (q <? pc0)%N eqn:E2; cbn; try reflexivity.
    apply N.leb_le in E1; apply N.ltb_lt in E2; lia.
  - cbn [build_imap]. rewrite IH. clear IH.
    destruct (N.eq_dec q pc0) as [->|Hne].
    + assert (A : ((N.succ pc0 <=? pc0) && (pc0 <? N.succ pc0 + N.of_nat n))%N = false).
      { apply andb_false_iff; left. apply N.leb_gt. lia. }
      rewrite A.
      assert (B : ((pc0 <=? pc0) && (pc0 <? pc0 + N.of_nat (S n)))%N = true).
      { apply andb_true_iff; split; [apply N.leb_le | apply N.ltb_lt]; lia. }
      rewrite B.
      destruct (Bytecode.decode_at get p f pc0) as [r|]; [|reflexivity].
      rewrite PositiveMap.gss. reflexivity.
    + assert (F : forall r : unit, PM.find (nkey q)
                   (match Bytecode.decode_at get p f pc0 with Some r' => PM.add (nkey pc0) r' m | None => m end)
                   = PM.find (nkey q) m).
      { intros _. destruct (Bytecode.decode_at get p f pc0); [|reflexivity].
        rewrite PositiveMap.gso; [reflexivity|]. intro E; apply nkey_inj in E; congruence. }
      rewrite (F tt).
      assert (C : ((N.succ pc0 <=? q) && (q <? N.succ pc0 + N.of_nat n))%N =
                  ((pc0 <=? q) && (q <? pc0 + N.of_nat (S n)))%N).
      { destruct (N.succ pc0 <=? q)%N eqn:E1, (pc0 <=? q)%N eqn:E3,
                 (q <? N.succ pc0 + N.of_nat n)%N eqn:E2, (q <? pc0 + N.of_nat (S n))%N eqn:E4; cbn; try reflexivity;
          rewrite ?N.leb_le, ?N.leb_gt, ?N.ltb_lt, ?N.ltb_ge in *; lia. }
      rewrite C. reflexivity.
Qed.

Theorem imap_is_decode : forall p f q,
    PM.find (nkey q) (imap_of p f) = Bytecode.decode p f q.
Proof.
  intros p f q. unfold imap_of. rewrite build_imap_find.
  rewrite PositiveMap.gempty.
  assert (E : Bytecode.decode_at (Verifier.map_get (Verifier.code_map f)) p f q = Bytecode.decode p f q).
  { unfold Bytecode.decode. apply VerifierProofs.decode_at_ext. intro i. apply VerifierProofs.map_get_code_map. }
  rewrite E.
  destruct ((0 <=? q) && (q <? 0 + N.of_nat (List.length (Bytecode.code f))))%N eqn:R.
  - destruct (Bytecode.decode p f q); reflexivity.
  - (* outside the code nothing decodes *)
    unfold Bytecode.decode, Bytecode.decode_at, Bytecode.byte_at.
    assert (H : nth_error (Bytecode.code f) (N.to_nat q) = None).
    { apply nth_error_None. apply andb_false_iff in R as [R|R].
      - apply N.leb_gt in R. lia.
      - apply N.ltb_ge in R. lia. }
    rewrite H. reflexivity.
Qed.
Print Assumptions imap_is_decode.

(* ------------------------------------------------------------------ *)
(** * 2. An unconditional invariant: the open-upvalue lists stay strictly descending

   For ALL byte code (verified or not) and all states: capture_upvalue inserts in order, close_upvalues
   removes a prefix, nothing else touches the list; this holds for the running fiber and for every
   suspended fiber. *)

Fixpoint desc_lt (b : N) (l : list (N * addr)) : Prop :=
  match l with
  | [] => True
  | (s, _) :: r => (s < b)%N /\ desc_lt s r
  end.

Definition desc (l : list (N * addr)) : Prop := exists b, desc_lt b l.

Lemma desc_lt_mono : forall l b b', desc_lt b l -> (b <= b')%N -> desc_lt b' l.
Proof. intros [|[s u] r] b b' H Hle; cbn in *; [exact I|]. destruct H; split; [lia | assumption]. Qed.

Lemma desc_nil : desc [].
Proof. exists 0%N; exact I. Qed.

Lemma close_go_desc_lt : forall fb idx l uv b, desc_lt b l -> desc_lt b (fst (close_go fb idx l uv)).
Proof.
  intros fb idx l; induction l as [|[s u] r IH]; intros uv b H; cbn [close_go]; [exact I|].
  destruct (idx <=? s)%N.
  - destruct H as [Hs Hr]. apply IH. eapply desc_lt_mono; [exact Hr | lia].
  - exact H.
Qed.

Lemma close_go_desc : forall fb idx l uv, desc l -> desc (fst (close_go fb idx l uv)).
Proof. intros fb idx l uv [b H]; exists b; apply close_go_desc_lt; exact H. Qed.

Lemma capture_go_desc_lt : forall loc l fr b,
    desc_lt b l -> (loc < b)%N -> desc_lt b (fst (fst (capture_go loc l fr))).
Proof.
  intros loc l fr; induction l as [|[s u] r IH]; intros b H Hloc; cbn [capture_go].
  - cbn. split; [exact Hloc | exact I].
  - destruct H as [Hs Hr].
    destruct (loc <? s)%N eqn:E1.
    + apply N.ltb_lt in E1. specialize (IH s Hr E1).
      destruct (capture_go loc r fr) as [[r' a] isnew]. cbn in *. split; assumption.
    + destruct (s =? loc)%N eqn:E2; cbn.
      * split; assumption.
      * apply N.ltb_ge in E1. apply N.eqb_neq in E2.
        split; [exact Hloc|]. split; [lia | exact Hr].
Qed.

Lemma capture_go_desc : forall loc l fr, desc l -> desc (fst (fst (capture_go loc l fr))).
Proof.
  intros loc l fr [b H]. exists (N.max b (loc + 1)).
  apply capture_go_desc_lt; [eapply desc_lt_mono; [exact H | lia] | lia].
Qed.

Definition OInv (s : bstate) : Prop :=
  desc (fb_open (bs_fib s)) /\
  forall a fb, PM.find a (bs_fibers s) = Some fb -> desc (fb_open fb).

(* states that differ only in fields the invariant does not read *)
Lemma OInv_same : forall s s',
    fb_open (bs_fib s') = fb_open (bs_fib s) -> bs_fibers s' = bs_fibers s -> OInv s -> OInv s'.
Proof. intros s s' E1 E2 [H1 H2]; split; [rewrite E1; exact H1 | rewrite E2; exact H2]. Qed.

Lemma close_upvalues_OInv : forall s idx, OInv s -> OInv (close_upvalues s idx).
Proof.
  intros s idx [H1 H2]. unfold close_upvalues.
  pose proof (close_go_desc (bs_fib s) idx (fb_open (bs_fib s)) (bs_upvals s) H1) as D.
  destruct (fb_open (bs_fib s)) as [|x r] eqn:E; [split; [rewrite E; exact H1 | exact H2]|].
  destruct (close_go (bs_fib s) idx (x :: r) (bs_upvals s)) as [op uv].
  split; [exact D | exact H2].
Qed.

Lemma close_upvalues_fibers : forall s idx, bs_fibers (close_upvalues s idx) = bs_fibers s.
Proof.
  intros s idx. unfold close_upvalues. destruct (fb_open (bs_fib s)); [reflexivity|].
  destruct (close_go _ _ _ _); reflexivity.
Qed.

Lemma capture_upvalue_OInv : forall s loc, OInv s -> OInv (fst (capture_upvalue s loc)).
Proof.
  intros s loc [H1 H2]. unfold capture_upvalue.
  pose proof (capture_go_desc loc (fb_open (bs_fib s)) (s_next (bs_store s)) H1) as D.
  destruct (capture_go loc (fb_open (bs_fib s)) (s_next (bs_store s))) as [[op a] isnew].
  destruct isnew; cbn; [|split; assumption].
  split; [exact D | exact H2].
Qed.

Ltac inv_next :=
  match goal with
  | H : BNext _ = BNext _ |- _ => inversion H; subst; clear H
  end.

(* break the matches of a hypothesis [H : <nest of matches> = BNext s'] *)
Ltac brk H :=
  repeat (match type of H with
          | context [match ?x with _ => _ end] => destruct x eqn:?; try discriminate H
          | context [if ?x then _ else _] => destruct x eqn:?; try discriminate H
          end).

Lemma load_frame_OInv : forall s s', load_frame s = Some s' -> OInv s -> OInv s'.
Proof.
  intros s s' H I. unfold load_frame in H. destruct (cur_frame s); [|discriminate].
  inversion H; subst. eapply OInv_same; [| |exact I]; reflexivity.
Qed.

Lemma unwind_OInv : forall s s', unwind s = BNext s' -> OInv s -> OInv s'.
Proof.
  intros s s' H I. unfold unwind in H.
  destruct (speek (bs_fib s) 0); [|discriminate].
  destruct (fb_handlers (bs_fib s)) as [|h hs]; [unfold uncaught in H; brk H|].
  pose proof (close_upvalues_OInv s (bh_size h) I) as I1.
  remember (close_upvalues s (bh_size h)) as s1.
  cbv zeta in H.
  match type of H with
  | context [drop ?n ?l] => destruct (drop n l) as [|f r] eqn:Ed; [discriminate|]
  end.
  match type of H with
  | context [load_frame ?x] => destruct (load_frame x) as [s2|] eqn:El; [|discriminate]
  end.
  inv_next. eapply load_frame_OInv; [exact El|].
  eapply OInv_same; [| |exact I1]; reflexivity.
Qed.

Lemma raise_OInv : forall s k m s', raise s k m = BNext s' -> OInv s -> OInv s'.
Proof.
  intros s k m s' H I. unfold raise in H. destruct (mk_error (bs_store s) k m) as [st1 v].
  eapply unwind_OInv; [exact H|]. eapply OInv_same; [| |exact I]; reflexivity.
Qed.

Lemma native_fail_OInv : forall s mg argc st k m s', native_fail s mg argc st k m = BNext s' -> OInv s -> OInv s'.
Proof.
  intros s mg argc st k m s' H I. unfold native_fail in H. destruct (mk_error st k m) as [st1 v].
  cbv zeta in H. brk H.
  all: eapply unwind_OInv; [exact H|]; eapply OInv_same; [| |exact I]; destruct mg; reflexivity.
Qed.

Lemma native_fail_err_OInv : forall s mg argc e s', native_fail_err s mg argc e = BNext s' -> OInv s -> OInv s'.
Proof.
  intros s mg argc e s' H I. unfold native_fail_err in H. destruct (conv_err e).
  eapply native_fail_OInv; eassumption.
Qed.

Lemma save_ip_OInv : forall s, OInv s -> OInv (save_ip s).
Proof.
  intros s I. unfold save_ip. destruct (fb_frames (bs_fib s)); [exact I|].
  eapply OInv_same; [| |exact I]; reflexivity.
Qed.

Lemma call_closure_OInv : forall s cl argc s', call_closure s cl argc = BNext s' -> OInv s -> OInv s'.
Proof.
  intros s cl argc s' H I. unfold call_closure in H.
  destruct (closure_info s cl) as [[fid uvs]|]; [|discriminate].
  destruct (get_fn (bs_env s) fid) as [fn|]; [|discriminate].
  destruct (negb (argc =? bf_arity fn - 1)%N); [eapply raise_OInv; eassumption|].
  destruct (Nat.eqb _ _); [eapply raise_OInv; eassumption|].
  cbv zeta in H.
  match type of H with
  | context [load_frame ?x] => destruct (load_frame x) as [s2|] eqn:El; [|discriminate]
  end.
  inv_next. eapply load_frame_OInv; [exact El|].
  pose proof (save_ip_OInv s I) as I1.
  eapply OInv_same; [| |exact I1]; reflexivity.
Qed.

Lemma fiber_of_desc : forall s t tf, OInv s -> fiber_of s t = Some tf -> desc (fb_open tf).
Proof.
  intros s t tf [H1 H2] H. unfold fiber_of in H. destruct (Pos.eqb t (bs_fid s)).
  - inversion H; subst; exact H1.
  - eapply H2; exact H.
Qed.

Lemma switch_to_OInv : forall s t tf, OInv s -> desc (fb_open tf) -> OInv (switch_to s t tf).
Proof.
  intros s t tf [H1 H2] D. unfold switch_to. destruct (Pos.eqb t (bs_fid s)); [split; assumption|].
  split; [exact D|]. cbn. intros a fb Hf. rewrite PositiveMapAdditionalFacts.gsspec in Hf.
  destruct (PositiveMap.E.eq_dec a (bs_fid s)); [inversion Hf; subst; exact H1 | eapply H2; exact Hf].
Qed.

Lemma OInv_w_fib : forall s fb, OInv s -> fb_open fb = fb_open (bs_fib s) -> OInv (w_fib s fb).
Proof. intros s fb I E. eapply OInv_same; [| |exact I]; [exact E | reflexivity]. Qed.

Lemma fiber_call_OInv : forall s argc s', fiber_call s argc = BNext s' -> OInv s -> OInv s'.
Proof.
  intros s argc s' H I. unfold fiber_call in H.
  destruct (peek s argc) as [[]|]; try discriminate.
  destruct (fiber_of s a) as [tf|] eqn:Ef; [|discriminate].
  cbv zeta in H.
  match type of H with
  | context [match ?x with Some r => r | None => _ end] => destruct x as [r|] eqn:Ea
  end.
  { (* arity error *)
    destruct (is_new_fiber tf).
    - destruct (StrFns.check_num_args _ _); [discriminate|]. inversion Ea; subst.
      eapply native_fail_err_OInv; eassumption.
    - destruct (1 <? argc)%N; [|discriminate]. inversion Ea; subst.
      eapply native_fail_OInv; eassumption. }
  destruct (fb_frames tf) as [|f0 fr]; [eapply native_fail_OInv; eassumption|].
  destruct (fb_caller tf); [eapply native_fail_OInv; eassumption|].
  set (s1 := match (if (argc =? 1)%N then peek s 0 else None) with
             | Some _ => w_fib s (sdiscard (bs_fib s) 1) | None => s end) in *.
  assert (I1 : OInv s1).
  { unfold s1. destruct (if (argc =? 1)%N then peek s 0 else None); [|exact I].
    apply OInv_w_fib; [exact I | reflexivity]. }
  pose proof (save_ip_OInv s1 I1) as I2.
  set (s2 := save_ip s1) in *.
  set (tf1 := match fiber_of s2 a with Some x => x | None => tf end) in *.
  assert (D1 : desc (fb_open tf1)).
  { unfold tf1. destruct (fiber_of s2 a) eqn:E2; [eapply fiber_of_desc; eassumption|].
    eapply fiber_of_desc; [exact I | exact Ef]. }
  pose proof (switch_to_OInv s2 a (w_caller tf1 (Some (bs_fid s2))) I2 D1) as I3.
  set (s3 := switch_to s2 a (w_caller tf1 (Some (bs_fid s2)))) in *.
  match type of H with
  | context [if ?c then BStuck _ else _] => destruct c; [discriminate|]
  end.
  match type of H with
  | context [load_frame ?x] => destruct (load_frame x) as [s4|] eqn:El; [|discriminate]
  end.
  inv_next. eapply load_frame_OInv; [exact El|].
  apply OInv_w_fib; [exact I3|].
  destruct (is_new_fiber tf); [|reflexivity].
  destruct (if (argc =? 1)%N then peek s 0 else None); reflexivity.
Qed.

Lemma unload_to_caller_OInv : forall s arg s',
    unload_to_caller s arg = Some (BNext s') -> OInv s -> OInv s'.
Proof.
  intros s arg s' H I. unfold unload_to_caller in H.
  destruct (fb_caller (bs_fib s)) as [c|]; [|discriminate].
  destruct (PM.find c (bs_fibers s)) as [cf|] eqn:Ec; [|discriminate].
  cbv zeta in H.
  destruct (fb_sp cf =? 0)%N; [discriminate|].
  match type of H with
  | context [load_frame ?x] => destruct (load_frame x) as [s3|] eqn:El; [|discriminate]
  end.
  inversion H; subst. eapply load_frame_OInv; [exact El|].
  apply OInv_w_fib; [|reflexivity].
  apply switch_to_OInv; [apply OInv_w_fib; [exact I | reflexivity]|].
  destruct I as [_ H2]. eapply H2; exact Ec.
Qed.

Lemma fiber_yield_OInv : forall s argc s', fiber_yield s argc = BNext s' -> OInv s -> OInv s'.
Proof.
  intros s argc s' H I. unfold fiber_yield in H.
  destruct (1 <? argc)%N; [eapply native_fail_OInv; eassumption|].
  cbv zeta in H.
  set (s1 := match (if (argc =? 1)%N then peek s 0 else None) with
             | Some _ => w_fib s (sdiscard (bs_fib s) 1) | None => s end) in *.
  assert (I1 : OInv s1).
  { unfold s1. destruct (if (argc =? 1)%N then peek s 0 else None); [|exact I].
    apply OInv_w_fib; [exact I | reflexivity]. }
  set (s2 := match fb_frames (bs_fib s1) with [] => s1 | _ => save_ip s1 end) in *.
  assert (I2 : OInv s2).
  { unfold s2. destruct (fb_frames (bs_fib s1)); [exact I1 | apply save_ip_OInv; exact I1]. }
  destruct (unload_to_caller s2 _) as [r|] eqn:Eu.
  - subst r. eapply unload_to_caller_OInv; eassumption.
  - eapply native_fail_OInv; eassumption.
Qed.

Lemma register_fiber_OInv : forall s a cl, OInv s -> OInv (register_fiber s a cl).
Proof.
  intros s a cl [H1 H2]. unfold register_fiber.
  destruct (closure_info s cl) as [[fid uvs]|]; [|split; assumption].
  split; [exact H1|]. cbn. intros x fb Hf. rewrite PositiveMapAdditionalFacts.gsspec in Hf.
  destruct (PositiveMap.E.eq_dec x a); [inversion Hf; subst; apply desc_nil | eapply H2; exact Hf].
Qed.

Lemma call_native_OInv : forall s n argc s', call_native s n argc = BNext s' -> OInv s -> OInv s'.
Proof.
  intros s n argc s' H I. unfold call_native in H.
  destruct n; try (eapply fiber_call_OInv; eassumption); try (eapply fiber_yield_OInv; eassumption).
  all: destruct (peek s argc) as [recv|]; [|discriminate]; cbv zeta in H.
  all: match type of H with
       | context [match ?r with NVal _ _ => _ | NErr _ _ _ => _ | NFuel => _ end] =>
         destruct r as [st v|st k m|] eqn:Er; [|eapply native_fail_OInv; eassumption|discriminate]
       end.
  all: try (inv_next; apply OInv_w_fib; [exact I | reflexivity]).
  (* NFiberNew *)
  destruct v; try (inv_next; eapply OInv_same; [| |exact I]; reflexivity).
  destruct (stop (bs_fib s) argc) as [|[] [|]]; try (inv_next; eapply OInv_same; [| |exact I]; reflexivity).
  inv_next. apply register_fiber_OInv. eapply OInv_same; [| |exact I]; reflexivity.
Qed.

Lemma call_value_OInv : forall s f argc s', call_value s f argc = BNext s' -> OInv s -> OInv s'.
Proof.
  intros s f argc s' H I. unfold call_value in H.
  destruct f; try (eapply raise_OInv; eassumption).
  - eapply call_closure_OInv; eassumption.
  - eapply call_native_OInv; eassumption.
  - destruct (get_obj (bs_store s) a) as [[]|]; try discriminate.
    eapply call_closure_OInv; [exact H|]. apply OInv_w_fib; [exact I | reflexivity].
  - destruct (get_obj (bs_store s) a) as [[]|]; try discriminate.
    eapply call_native_OInv; [exact H|]. apply OInv_w_fib; [exact I | reflexivity].
Qed.

Lemma invoke_from_class_OInv : forall s c m argc s',
    invoke_from_class s c m argc = BNext s' -> OInv s -> OInv s'.
Proof.
  intros s c m argc s' H I. unfold invoke_from_class in H.
  destruct (alist_find m (class_methods (bs_store s) c)) as [[]|]; try discriminate.
  - eapply call_closure_OInv; eassumption.
  - eapply call_native_OInv; eassumption.
  - eapply raise_OInv; eassumption.
Qed.

Lemma invoke_OInv : forall s m argc s', invoke s m argc = BNext s' -> OInv s -> OInv s'.
Proof.
  intros s m argc s' H I. unfold invoke in H. cbv zeta in H.
  destruct (peek s argc) as [recv|]; [|discriminate].
  destruct recv; try (eapply invoke_from_class_OInv; eassumption).
  - destruct (get_obj (bs_store s) a) as [[]|]; try discriminate.
    destruct (alist_find m fields).
    + eapply call_value_OInv; [exact H|]. apply OInv_w_fib; [exact I | reflexivity].
    + eapply invoke_from_class_OInv; eassumption.
  - destruct (alist_find m (module_globals (bs_store s) a)).
    + eapply call_value_OInv; [exact H|]. apply OInv_w_fib; [exact I | reflexivity].
    + eapply invoke_from_class_OInv; eassumption.
Qed.

Lemma finish_nres_OInv : forall s pops r s', finish_nres s pops r = BNext s' -> OInv s -> OInv s'.
Proof.
  intros s pops r s' H I. unfold finish_nres in H. destruct r; [| |discriminate].
  - inv_next. eapply OInv_same; [| |exact I]; reflexivity.
  - eapply raise_OInv; [exact H|]. eapply OInv_same; [| |exact I]; reflexivity.
Qed.

Lemma finish_opres_OInv : forall s pops r s', finish_opres s pops r = BNext s' -> OInv s -> OInv s'.
Proof.
  intros s pops r s' H I. unfold finish_opres in H. destruct r as [[]|]; [| |discriminate].
  - inv_next. eapply OInv_same; [| |exact I]; reflexivity.
  - eapply raise_OInv; [exact H|]. eapply OInv_same; [| |exact I]; reflexivity.
Qed.

Lemma capture_all_OInv : forall uvs s base mine acc s' l,
    capture_all s base mine uvs acc = Some (s', l) -> OInv s -> OInv s'.
Proof.
  induction uvs as [|[[] ix] r IH]; intros s base mine acc s' l H I; cbn [capture_all] in H.
  - inversion H; subst; exact I.
  - pose proof (capture_upvalue_OInv s (base + ix) I) as I1.
    destruct (capture_upvalue s (base + ix)) as [s1 u]. eapply IH; [exact H | exact I1].
  - destruct (nth_error mine (N.to_nat ix)); [|discriminate]. eapply IH; eassumption.
Qed.

Lemma new_closure_OInv : forall s fid fn m, OInv s -> OInv (fst (new_closure s fid fn m)).
Proof.
  intros s fid fn m I. unfold new_closure. destruct (alloc _ _). cbn.
  eapply OInv_same; [| |exact I]; reflexivity.
Qed.

Lemma push_OInv : forall s v, OInv s -> OInv (push s v).
Proof. intros s v I. unfold push. apply OInv_w_fib; [exact I | reflexivity]. Qed.

Lemma start_import_OInv : forall s p s', start_import s p = BNext s' -> OInv s -> OInv s'.
Proof.
  intros s p s' H I. unfold start_import in H.
  assert (L : forall s0, OInv s0 -> forall s1,
             match src_find p (be_srcs (bs_env s0)) with
             | None => raise s0 EImportError (B "Unable to read file '" ++ p ++ B ".yl' (file not found).")
             | Some (BMCompileError msgs) =>
               raise s0 EImportError (join_bytes [x0a] (B "Error compiling module:" :: map (fun m => B "    " ++ m) msgs))
             | Some (BMFn fid) =>
               match get_fn (bs_env s0) fid with
               | None => BStuck "start_import: no such function"
               | Some fn =>
                 let '(s1, m) :=
                   match registry_find p (bs_modules s0) with
                   | Some m => (s0, m)
                   | None =>
                     let '(st1, m) := alloc (bs_store s0) (OModule p false []) in
                     (w_modules (w_store s0 st1) ((p, m) :: bs_modules s0), m)
                   end in
                 let s2 := push s1 (VModule m) in
                 let '(s3, cl) := new_closure s2 fid fn m in
                 let s4 := push s3 (VClosure cl) in
                 match call_closure s4 cl 0 with
                 | BNext s5 =>
                   if Pos.eqb (bs_mod s5) m then BNext (w_store s5 (install_builtins (bs_store s5) m)) else BNext s5
                 | r => r
                 end
               end
             end = BNext s1 -> OInv s1).
  { intros s0 I0 s1 H0.
    destruct (src_find p (be_srcs (bs_env s0))) as [[fid|msgs]|]; try (eapply raise_OInv; eassumption).
    destruct (get_fn (bs_env s0) fid) as [fn|]; [|discriminate].
    set (pr := match registry_find p (bs_modules s0) with
               | Some m => (s0, m)
               | None => let '(st1, m) := alloc (bs_store s0) (OModule p false []) in
                         (w_modules (w_store s0 st1) ((p, m) :: bs_modules s0), m)
               end) in *.
    assert (Ip : OInv (fst pr)).
    { unfold pr. destruct (registry_find p (bs_modules s0)); [exact I0|].
      destruct (alloc _ _). cbn. eapply OInv_same; [| |exact I0]; reflexivity. }
    destruct pr as [sa m]. cbn in Ip. cbv zeta in H0.
    pose proof (new_closure_OInv (push sa (VModule m)) fid fn m (push_OInv _ _ Ip)) as Ic.
    destruct (new_closure (push sa (VModule m)) fid fn m) as [s3 cl]. cbn in Ic.
    destruct (call_closure (push s3 (VClosure cl)) cl 0) as [s5| | | |] eqn:Ec; try discriminate.
    pose proof (call_closure_OInv _ _ _ _ Ec (push_OInv _ _ Ic)) as I5.
    destruct (Pos.eqb (bs_mod s5) m); inv_next; [|exact I5].
    eapply OInv_same; [| |exact I5]; reflexivity. }
  destruct (registry_find p (bs_modules s)) as [m|] eqn:Er.
  - destruct (get_obj (bs_store s) m) as [[]|].
    all: try (destruct (is_loading_module s m);
              [eapply raise_OInv; eassumption
              |eapply (L (w_modules s (registry_remove p (bs_modules s))));
               [eapply OInv_same; [| |exact I]; reflexivity | exact H]]).
    destruct imported.
    + inv_next. apply push_OInv, push_OInv, I.
    + destruct (is_loading_module s m);
        [eapply raise_OInv; eassumption
        |eapply (L (w_modules s (registry_remove p (bs_modules s))));
         [eapply OInv_same; [| |exact I]; reflexivity | exact H]].
  - eapply (L s); [exact I|]. rewrite Er. exact H.
Qed.

Lemma put_fiber_OInv : forall s f fb, OInv s -> desc (fb_open fb) -> OInv (put_fiber s f fb).
Proof.
  intros s f fb [H1 H2] D. unfold put_fiber. destruct (Pos.eqb f (bs_fid s)); [split; assumption|].
  split; [exact H1|]. cbn. intros a x Hf. rewrite PositiveMapAdditionalFacts.gsspec in Hf.
  destruct (PositiveMap.E.eq_dec a f); [inversion Hf; subst; exact D | eapply H2; exact Hf].
Qed.

Lemma upv_set_OInv : forall s u v s', upv_set s u v = Some s' -> OInv s -> OInv s'.
Proof.
  intros s u v s' H I. unfold upv_set in H.
  destruct (PM.find u (bs_upvals s)) as [[f slot|x]|]; [| |discriminate].
  - destruct (fiber_of s f) as [fb|] eqn:Ef; [|discriminate]. inversion H; subst.
    apply put_fiber_OInv; [exact I|]. cbn. eapply fiber_of_desc; eassumption.
  - inversion H; subst. eapply OInv_same; [| |exact I]; reflexivity.
Qed.

Lemma define_method_OInv : forall s nm b s', define_method s nm b = BNext s' -> OInv s -> OInv s'.
Proof.
  intros s nm b s' H I. unfold define_method in H.
  destruct (peek s 0); [|destruct (bs_cdef s); discriminate].
  destruct (bs_cdef s); [|discriminate]. inv_next.
  eapply OInv_same; [| |exact I]; reflexivity.
Qed.

Ltac oinv_state I :=
  first [ exact I
        | eapply OInv_same; [| |exact I]; reflexivity
        | apply push_OInv; oinv_state I ].

Ltac oinv H I :=
  lazymatch type of H with
  | BStuck _ = _ => discriminate H
  | BFuel = _ => discriminate H
  | BDone _ _ = _ => discriminate H
  | BFail _ _ _ = _ => discriminate H
  | raise _ _ _ = _ => eapply raise_OInv; [exact H | oinv_state I]
  | finish_nres _ _ _ = _ => eapply finish_nres_OInv; [exact H | oinv_state I]
  | finish_opres _ _ _ = _ => eapply finish_opres_OInv; [exact H | oinv_state I]
  | call_value _ _ _ = _ => eapply call_value_OInv; [exact H | oinv_state I]
  | invoke _ _ _ = _ => eapply invoke_OInv; [exact H | oinv_state I]
  | invoke_from_class _ _ _ _ = _ => eapply invoke_from_class_OInv; [exact H | oinv_state I]
  | unwind _ = _ => eapply unwind_OInv; [exact H | oinv_state I]
  | start_import _ _ = _ => eapply start_import_OInv; [exact H | oinv_state I]
  | define_method _ _ _ = _ => eapply define_method_OInv; [exact H | oinv_state I]
  | BNext _ = BNext _ => inversion H; subst; clear H; oinv_state I
  end.

Lemma exec_OInv : forall s0 pc0 i nx s', exec s0 pc0 i nx = BNext s' -> OInv s0 -> OInv s'.
Proof.
  intros s0 pc0 i nx s' H I0.
  assert (I : OInv (w_pc s0 nx)) by (eapply OInv_same; [| |exact I0]; reflexivity).
  unfold exec in H. cbv zeta in H.
  set (s := w_pc s0 nx) in *. clearbody s. clear I0.
  destruct (Bytecode.iop i) eqn:Eop.
  all: try (timeout 10 (brk H; oinv H I)).
  - (* SetUpvalue *)
    brk H. inv_next. eapply upv_set_OInv; eassumption.
  - (* JumpFinally *)
    brk H. inv_next.
    match goal with
    | |- OInv (w_ip (w_fib ?s1 _) _ _) =>
      assert (I1 : OInv s1) by (apply close_upvalues_OInv; eapply OInv_same; [| |exact I]; reflexivity);
      eapply OInv_same; [| |exact I1]; reflexivity
    end.
  - (* EndFinally *)
    assert (T : forall s1 s2,
               match fb_retip (bs_fib s1) with
               | Some (rf, rp) =>
                 BNext (w_ip (w_fib s1 (spush (w_ret (bs_fib s1) VNil None) (fb_retval (bs_fib s1)))) rf rp)
               | None => BNext s1
               end = BNext s2 -> OInv s1 -> OInv s2).
    { intros s1 s2 H1 I1. destruct (fb_retip (bs_fib s1)) as [[rf rp]|]; inversion H1; subst; [|exact I1].
      eapply OInv_same; [| |exact I1]; reflexivity. }
    destruct (bs_he s).
    + destruct (unwind s) as [s1| | | |] eqn:Eu; try discriminate.
      eapply T; [exact H|]. eapply unwind_OInv; eassumption.
    + eapply T; eassumption.
  - (* Closure *)
    brk H. inv_next.
    match goal with
    | E : capture_all _ _ _ _ _ = Some _ |- _ =>
      eapply OInv_same; [| |eapply capture_all_OInv; [exact E|]]; [reflexivity | reflexivity |]
    end.
    apply push_OInv.
    match goal with
    | E : new_closure ?a ?b ?c ?d = (?s1, _) |- OInv ?s1 =>
      pose proof (new_closure_OInv a b c d I) as Q; rewrite E in Q; exact Q
    end.
  - (* CloseUpvalue *)
    brk H. inv_next.
    match goal with
    | |- OInv (w_fib ?s1 _) =>
      assert (I1 : OInv s1) by (apply close_upvalues_OInv; exact I);
      eapply OInv_same; [| |exact I1]; reflexivity
    end.
  - (* Return *)
    destruct (speek (bs_fib s) 0) as [result|]; [|discriminate].
    destruct (cur_frame s) as [f|]; [|discriminate].
    set (s1 := close_upvalues (w_fib s (sdiscard (bs_fib s) 1)) (fr_base f)) in *.
    assert (I1 : OInv s1).
    { apply close_upvalues_OInv. eapply OInv_same; [| |exact I]; reflexivity. }
    clearbody s1.
    destruct (fb_frames (bs_fib s1)) as [|f1 [|f2 rest]]; [discriminate| |].
    + destruct (fb_caller (w_frames (bs_fib s1) [])) eqn:Ec.
      * match type of H with
        | context [unload_to_caller ?x ?y] => destruct (unload_to_caller x y) as [[s2| | | |]|] eqn:Eu; try discriminate
        end.
        inv_next. apply OInv_w_fib; [|reflexivity].
        eapply unload_to_caller_OInv; [exact Eu|]. eapply OInv_same; [| |exact I1]; reflexivity.
      * destruct (speek (w_frames (bs_fib s1) []) 0); discriminate.
    + match type of H with
      | context [load_frame ?x] => destruct (load_frame x) as [s2|] eqn:El; [|discriminate]
      end.
      inv_next. apply OInv_w_fib; [|reflexivity].
      eapply load_frame_OInv; [exact El|]. eapply OInv_same; [| |exact I1]; reflexivity.
Qed.

Lemma step_OInv : forall s s', step s = BNext s' -> OInv s -> OInv s'.
Proof.
  intros s s' H I. unfold step in H. destruct (fetch s) as [[i nx]|]; [|discriminate].
  destruct (_ && _); [discriminate|]. eapply exec_OInv; eassumption.
Qed.

Definition init_ok (s : bstate) : Prop := OInv s.

(* the invariant holds along every run, for ANY byte code *)
Theorem open_upvalues_sorted : forall n s s',
    OInv s -> run n s = BRMore s' -> OInv s'.
Proof.
  induction n as [|n IH]; intros s s' I H; cbn [run] in H.
  - inversion H; subst; exact I.
  - destruct (step s) as [s1| | | |] eqn:E; try discriminate.
    eapply IH; [|exact H]. eapply step_OInv; eassumption.
Qed.
Print Assumptions open_upvalues_sorted.

(* ------------------------------------------------------------------ *)
(** * 3. "Every handler's frame count <= number of frames" is NOT an invariant of compiled programs

   The compiler's output for a `return` inside try/finally inside try/catch (the open finding
   early_exit_skips_finally) returns from the frame with the outer handler still pushed: the handler
   outlives its frame.  Witness: the byte code the REAL compiler emits for

     fn f() { try { try { return 1; } finally { print("a"); } } catch e { print("b"); } return 2; }
     print(f());  print("x");

   (core.yl's byte code first; both as dumped by harness `compile` and encoded by tools/bcvm_corr.py),
   after 15 instructions of the script.  The per-instruction trace of the real VM (hook H4) shows the
   same handler (height 3, frame count 2) with one frame left. *)

Definition handler_frames_ok (s : bstate) : Prop :=
  forall h, In h (fb_handlers (bs_fib s)) -> (bh_frames h <= List.length (fb_frames (bs_fib s)))%nat.

Definition handler_frames_okb (s : bstate) : bool :=
  forallb (fun h => Nat.leb (bh_frames h) (List.length (fb_frames (bs_fib s)))) (fb_handlers (bs_fib s)).

Lemma handler_frames_okb_spec : forall s, handler_frames_okb s = true <-> handler_frames_ok s.
Proof.
  intros s. unfold handler_frames_okb, handler_frames_ok. rewrite forallb_forall.
  split; intros H h Hin; specialize (H h Hin); [apply Nat.leb_le | apply Nat.leb_le]; exact H.
Qed.

Definition witness_wire : string :=
  "14;1 0 32;;58 0 0 9 0 0 8 0 0 55 2 0 62 1 0 59 10 0 0 4 58 3 0 9 3 0 8 0 0 8 3 0 60 8 3 0 59 10 3 0 4 4 58 4 0 9 4 0 8 0 0 8 4 0 60 8 4 0 59 10 4 0 4 4 58 5 0 9 5 0 8 0 0 8 5 0 60 8 5 0 59 10 5 0 4 4 58 6 0 9 6 0 8 0 0 8 6 0 60 8 6 0 59 10 6 0 4 4 58 7 0 9 7 0 8 0 0 8 7 0 60 8 7 0 59 10 7 0 4 4 58 8 0 9 8 0 8 0 0 8 8 0 60 8 8 0 59 10 8 0 4 4 58 9 0 9 9 0 8 0 0 8 9 0 60 8 9 0 59 10 9 0 4 4 58 10 0 9 10 0 8 0 0 8 10 0 60 8 10 0 55 11 0 1 1 62 1 0 59 10 10 0 4 56 58 12 0 9 12 0 8 12 0 55 14 0 61 13 0 55 16 0 61 15 0 55 18 0 61 17 0 55 20 0 61 19 0 55 22 0 61 21 0 59 10 12 0 4 58 23 0 9 23 0 8 12 0 8 23 0 60 8 23 0 55 24 0 62 1 0 55 25 0 61 13 0 55 27 0 61 26 0 59 10 23 0 4 4 58 28 0 9 28 0 8 12 0 8 28 0 60 8 28 0 55 29 0 62 1 0 55 30 0 61 13 0 55 31 0 61 26 0 59 10 28 0 4 4 1 57;1 9 5 6 6 5 9 12 8 1 9 9 12 12 11 1 12 9 15 12 14 1 15 9 18 12 17 1 18 9 21 12 20 1 21 9 24 12 23 1 24 9 27 12 26 1 27 9 30 12 29 1 30 3 34 8 35 6 37 9 40 6 44 6 52 6 56 6 64 6 65 5 68 12 67 1 68 3 73 6 77 6 85 6 86 6 89 12 88 1 89 3 94 6 98 6 106 6 107 6 108 2;0 69 114 114 111 114;0 110 101 119;2 1;0 82 117 110 116 105 109 101 69 114 114 111 114;0 65 116 116 114 105 98 117 116 101 69 114 114 111 114;0 73 110 100 101 120 69 114 114 111 114;0 73 109 112 111 114 116 69 114 114 111 114;0 78 97 109 101 69 114 114 111 114;0 84 121 112 101 69 114 114 111 114;0 86 97 108 117 101 69 114 114 111 114;0 83 116 111 112 73 116 101 114;2 2;0 73 116 101 114;0 105 116 101 114;2 3;0 109 97 112;2 4;0 99 111 108 108 101 99 116;2 5;0 102 105 108 116 101 114;2 6;0 114 101 100 117 99 101;2 7;0 77 97 112 73 116 101 114;2 8;2 9;0 110 101 120 116;2 10;0 70 105 108 116 101 114 73 116 101 114;2 11;2 12;2 13;2 0 1;110 101 119;53 1 6 0 6 1 14 0 0 4 6 0 57;3 2 4 8 5 3;0 99 111 110 116 101 120 116;1 1 1;110 101 119;53 0 6 0 1 11 0 54 0 0 1 4 6 0 57;32 2 33 10 34 3;0 110 101 119;1 0 0;105 116 101 114;6 0 57 1 57;39 3 40 2;2 0 3;109 97 112;8 0 0 6 0 52 2 0 0 6 1 52 1 0 2 57 1 57;43 16 44 2;0 77 97 112 73 116 101 114;0 110 101 119;0 105 116 101 114;1 0 2;99 111 108 108 101 99 116;40 0 1 6 0 52 0 0 0 41 7 2 44 13 0 4 6 1 6 2 52 1 0 1 4 45 19 0 4 4 4 6 1 57 1 57;47 2 48 14 49 9 50 6 51 3 52 2;0 105 116 101 114;0 112 117 115 104;2 0 3;102 105 108 116 101 114;8 0 0 6 0 52 2 0 0 6 1 52 1 0 2 57 1 57;55 16 56 2;0 70 105 108 116 101 114 73 116 101 114;0 110 101 119;0 105 116 101 114;3 0 1;114 101 100 117 99 101;6 2 1 6 0 52 0 0 0 41 7 4 44 15 0 4 6 1 6 3 6 4 51 2 7 3 4 45 21 0 4 4 4 6 3 57 1 57;59 2 60 14 61 11 62 6 63 3 64 2;0 105 116 101 114;3 0 2;110 101 119;53 2 6 0 6 1 14 0 0 4 6 0 6 2 14 1 0 4 6 0 57;70 2 71 8 72 8 73 3;0 105 116 101 114 97 98 108 101;0 102 117 110 99;1 0 0;105 116 101 114;6 0 57 1 57;76 3 77 2;1 0 5;110 101 120 116;6 0 13 0 0 52 1 0 0 6 1 8 3 0 52 2 0 1 43 7 0 4 6 1 57 42 1 0 4 6 0 6 1 52 4 0 1 57 1 57;80 9 81 13 82 3 83 4 84 9 85 2;0 105 116 101 114 97 98 108 101;0 110 101 120 116;0 100 101 114 105 118 101 115;0 83 116 111 112 73 116 101 114;0 102 117 110 99;3 0 2;110 101 119;53 2 6 0 6 1 14 0 0 4 6 0 6 2 14 1 0 4 6 0 57;91 2 92 8 93 8 94 3;0 105 116 101 114 97 98 108 101;0 112 114 101 100 105 99 97 116 101;1 0 0;105 116 101 114;6 0 57 1 57;97 3 98 2;1 0 5;110 101 120 116;6 0 13 0 0 52 1 0 0 6 1 8 3 0 52 2 0 1 28 43 10 0 4 6 0 6 1 52 4 0 1 28 43 16 0 4 6 0 13 0 0 52 1 0 0 7 1 4 45 42 0 4 6 1 57 1 57;101 9 102 27 103 12 104 4 105 3 106 2;0 105 116 101 114 97 98 108 101;0 110 101 120 116;0 100 101 114 105 118 101 115;0 83 116 111 112 73 116 101 114;0 112 114 101 100 105 99 97 116 101|2;1 0 4;;55 1 0 9 0 0 8 2 0 8 0 0 51 0 51 1 4 8 2 0 0 3 0 51 1 4 1 57;1 6 2 11 3 9 4 2;0 102;2 1;0 112 114 105 110 116;0 120;1 0 5;102;48 28 0 10 0 48 9 0 0 0 0 0 0 46 57 49 42 0 0 8 1 0 0 2 0 51 1 4 47 49 42 10 0 8 1 0 0 3 0 51 1 4 4 0 4 0 57 1 57;1 49;1 4607182418800017408;0 112 114 105 110 116;0 97;0 98;1 4611686018427387904".

Definition start_of_wire (w : string) : option bstate :=
  match load_wire w with
  | Some ld =>
    match boot ld with
    | Some s0 => execute s0 (ld_main ld) (main_of s0)
    | None => None
    end
  | None => None
  end.

Lemma witness_computation :
  match start_of_wire witness_wire with
  | Some s0 =>
    handler_frames_okb s0 &&
    match BcVM.run 15 s0 with BRMore s => negb (handler_frames_okb s) | _ => false end
  | None => false
  end = true.
Proof. vm_compute. reflexivity. Qed.

Theorem handler_frames_le_frames_refuted :
  exists (s0 s : bstate),
    start_of_wire witness_wire = Some s0 /\ handler_frames_ok s0 /\
    BcVM.run 15 s0 = BRMore s /\ ~ handler_frames_ok s.
Proof.
  pose proof witness_computation as W.
  destruct (start_of_wire witness_wire) as [s0|]; [|discriminate].
  apply andb_true_iff in W as [W1 W2].
  destruct (BcVM.run 15 s0) as [s| | | |] eqn:Er; try discriminate.
  exists s0, s. split; [reflexivity|]. split; [apply handler_frames_okb_spec; exact W1|].
  split; [exact Er|]. intro C. apply handler_frames_okb_spec in C. rewrite C in W2. discriminate.
Qed.
Print Assumptions handler_frames_le_frames_refuted.

(* the same witness start state satisfies the hypothesis of [open_upvalues_sorted] (non-vacuity) *)
Example open_upvalues_sorted_applies :
  exists s0, start_of_wire witness_wire = Some s0 /\ OInv s0.
Proof.
  assert (W : match start_of_wire witness_wire with
              | Some s0 => match fb_open (bs_fib s0) with [] => PM.is_empty (bs_fibers s0) | _ => false end
              | None => false end = true) by (vm_compute; reflexivity).
  destruct (start_of_wire witness_wire) as [s0|]; [|discriminate].
  exists s0; split; [reflexivity|].
  destruct (fb_open (bs_fib s0)) eqn:E; [|discriminate]. split; [rewrite E; apply desc_nil|].
  intros a fb Hf. apply PositiveMap.is_empty_2 in W. apply PositiveMap.find_2 in Hf.
  exfalso. eapply W; exact Hf.
Qed.

(* ------------------------------------------------------------------ *)
(** * 4. Refinement of the shape semantics (Skeleton.v), partial

   [rel s fi f a]: the running frame of the BcVM state [s] executes function [fi] = [f] of the program and
   its shape is the abstract per-frame state [a] (pc, height above slot_base, frame-local handlers, pending
   return, handling_exception flag).  For every instruction of the set [S1] below (52 of the 65 opcodes) and
   EVERY state: a BcVM step either lands in a state related to a successor the Skeleton allows, or an
   exception was raised and a handler popped (the exceptional edge, not covered here). *)

Definition shape (s s' : bstate) : Prop :=
  fb_frames (bs_fib s') = fb_frames (bs_fib s) /\ fb_handlers (bs_fib s') = fb_handlers (bs_fib s) /\
  fb_open (bs_fib s') = fb_open (bs_fib s) /\ fb_retip (bs_fib s') = fb_retip (bs_fib s) /\
  bs_he s' = bs_he s /\ bs_ipf s' = bs_ipf s /\ bs_chunk s' = bs_chunk s /\ bs_env s' = bs_env s.

Lemma shape_refl : forall s, shape s s.
Proof. intros s; repeat split. Qed.

Lemma shape_trans : forall a b c, shape a b -> shape b c -> shape a c.
Proof.
  unfold shape; intros a b c H1 H2.
  destruct H1 as (A1 & A2 & A3 & A4 & A5 & A6 & A7 & A8).
  destruct H2 as (B1 & B2 & B3 & B4 & B5 & B6 & B7 & B8).
  repeat split; congruence.
Qed.

Definition shorter (s s' : bstate) : Prop :=
  (List.length (fb_handlers (bs_fib s')) < List.length (fb_handlers (bs_fib s)))%nat.

Lemma load_frame_handlers : forall s s', load_frame s = Some s' -> bs_fib s' = bs_fib s.
Proof.
  intros s s' H. unfold load_frame in H. destruct (cur_frame s); [|discriminate]. inversion H; reflexivity.
Qed.

Lemma close_upvalues_handlers : forall s idx,
    fb_handlers (bs_fib (close_upvalues s idx)) = fb_handlers (bs_fib s).
Proof.
  intros s idx. unfold close_upvalues. destruct (fb_open (bs_fib s)); [reflexivity|].
  destruct (close_go _ _ _ _); reflexivity.
Qed.

Lemma unwind_shorter : forall s s', unwind s = BNext s' -> shorter s s'.
Proof.
  intros s s' H. unfold unwind in H.
  destruct (speek (bs_fib s) 0); [|discriminate].
  destruct (fb_handlers (bs_fib s)) as [|h hs] eqn:Eh; [unfold uncaught in H; brk H|].
  cbv zeta in H.
  match type of H with
  | context [drop ?n ?l] => destruct (drop n l) as [|f r] eqn:Ed; [discriminate|]
  end.
  match type of H with
  | context [load_frame ?x] => destruct (load_frame x) as [s2|] eqn:El; [|discriminate]
  end.
  inv_next. unfold shorter. rewrite (load_frame_handlers _ _ El), Eh. cbn. lia.
Qed.

Lemma raise_shorter : forall s k m s', raise s k m = BNext s' -> shorter s s'.
Proof.
  intros s k m s' H. unfold raise in H. destruct (mk_error (bs_store s) k m) as [st1 v].
  apply unwind_shorter in H. exact H.
Qed.

Definition sp (s : bstate) : N := fb_sp (bs_fib s).

(* normal outcome: same shape, pc as given, stack pointer moved by (pops, push) *)
Definition normal (s s' : bstate) (pc' pops push : N) : Prop :=
  shape s s' /\ bs_pc s' = pc' /\ sp s' = (sp s - pops + push)%N.

Lemma finish_nres_normal : forall s pops r s',
    finish_nres s pops r = BNext s' -> normal s s' (bs_pc s) pops 1 \/ shorter s s'.
Proof.
  intros s pops r s' H. unfold finish_nres in H. destruct r; [| |discriminate].
  - inv_next. left. split; [repeat split|]. split; [reflexivity|]. unfold sp. cbn. lia.
  - right. apply raise_shorter in H. exact H.
Qed.

Lemma finish_opres_normal : forall s pops r s',
    finish_opres s pops r = BNext s' -> normal s s' (bs_pc s) pops 1 \/ shorter s s'.
Proof.
  intros s pops r s' H. unfold finish_opres in H. destruct r as [[]|]; [| |discriminate].
  - inv_next. left. split; [repeat split|]. split; [reflexivity|]. unfold sp. cbn. lia.
  - right. apply raise_shorter in H. exact H.
Qed.

Lemma put_fiber_shape : forall s f fb,
    fiber_of s f = Some fb -> forall slot v, shape s (put_fiber s f (sset fb slot v)) /\
    sp (put_fiber s f (sset fb slot v)) = sp s /\ bs_pc (put_fiber s f (sset fb slot v)) = bs_pc s.
Proof.
  intros s f fb H slot v. unfold fiber_of in H. unfold put_fiber, sp.
  destruct (Pos.eqb f (bs_fid s)).
  - inversion H; subst. repeat split.
  - repeat split.
Qed.

Lemma upv_set_normal : forall s u v s', upv_set s u v = Some s' -> normal s s' (bs_pc s) 0 0.
Proof.
  intros s u v s' H. unfold upv_set in H.
  destruct (PM.find u (bs_upvals s)) as [[f slot|x]|]; [| |discriminate].
  - destruct (fiber_of s f) as [fb|] eqn:Ef; [|discriminate]. inversion H; subst.
    destruct (put_fiber_shape s f fb Ef slot v) as (A & B & C).
    split; [exact A|]. split; [exact C|]. rewrite B. lia.
  - inversion H; subst. split; [repeat split|]. split; [reflexivity|]. unfold sp; cbn; lia.
Qed.

Lemma define_method_normal : forall s nm b s',
    define_method s nm b = BNext s' -> normal s s' (bs_pc s) 1 0.
Proof.
  intros s nm b s' H. unfold define_method in H.
  destruct (peek s 0); [|destruct (bs_cdef s); discriminate].
  destruct (bs_cdef s); [|discriminate]. inv_next.
  split; [repeat split|]. split; [reflexivity|]. unfold sp; cbn; lia.
Qed.

(* the instructions covered: everything that neither calls, returns, unwinds by itself, nor edits the handler
   stack / the open upvalues / the pending return *)
Definition S1 (o : Bytecode.opcode) : bool :=
  match o with
  | Bytecode.OpIterNext | Bytecode.OpJump | Bytecode.OpJumpIfFalse | Bytecode.OpJumpIfStopIter | Bytecode.OpLoop
  | Bytecode.OpJumpFinally | Bytecode.OpEndFinally | Bytecode.OpPushExcHandler | Bytecode.OpPopExcHandler
  | Bytecode.OpThrow | Bytecode.OpCall | Bytecode.OpInvoke | Bytecode.OpSuperInvoke | Bytecode.OpClosure
  | Bytecode.OpCloseUpvalue | Bytecode.OpReturn | Bytecode.OpStartImport => false
  | _ => true
  end.

Ltac xfer N :=
  unfold normal, shape, sp, shorter in *; cbn in *;
  destruct N as ((?A1 & ?A2 & ?A3 & ?A4 & ?A5 & ?A6 & ?A7 & ?A8) & ?B & ?C);
  repeat split; try congruence; try lia.

Ltac s1 H :=
  lazymatch type of H with
  | BStuck _ = _ => discriminate H
  | BFuel = _ => discriminate H
  | BDone _ _ = _ => discriminate H
  | BFail _ _ _ = _ => discriminate H
  | raise _ _ _ = _ => right; apply raise_shorter in H; unfold shorter in *; cbn in *; exact H
  | finish_nres _ _ _ = _ =>
    let N := fresh "N" in
    destruct (finish_nres_normal _ _ _ _ H) as [N|N];
    [left; xfer N | right; unfold shorter in *; cbn in *; exact N]
  | finish_opres _ _ _ = _ =>
    let N := fresh "N" in
    destruct (finish_opres_normal _ _ _ _ H) as [N|N];
    [left; xfer N | right; unfold shorter in *; cbn in *; exact N]
  | define_method _ _ _ = _ =>
    let N := fresh "N" in pose proof (define_method_normal _ _ _ _ H) as N; left; xfer N
  | BNext _ = BNext _ =>
    inversion H; subst; clear H; left;
    repeat match goal with
           | E : (_ =? _)%N = true |- _ => apply N.eqb_eq in E
           | E : (_ =? _)%N = false |- _ => apply N.eqb_neq in E
           | E : (_ <? _)%N = true |- _ => apply N.ltb_lt in E
           | E : (_ <? _)%N = false |- _ => apply N.ltb_ge in E
           end;
    (split; [repeat split | split; [reflexivity | unfold sp; cbn; lia]])
  end.

Lemma exec_S1 : forall s0 pc0 i nx s' f hh e,
    S1 (Bytecode.iop i) = true -> Skeleton.simple_effect f i hh = Some e ->
    (Skeleton.e_need e <= sp s0)%N ->
    exec s0 pc0 i nx = BNext s' ->
    normal s0 s' nx (Skeleton.e_pops e) (Skeleton.e_push e) \/ shorter s0 s'.
Proof.
  intros s0 pc0 i nx s' f hh e HS He Hneed H.
  unfold exec in H. cbv zeta in H. unfold Skeleton.simple_effect in He.
  destruct (Bytecode.iop i) eqn:Eop; try discriminate HS; clear HS;
    inversion He; subst e; clear He; cbn [Skeleton.e_pops Skeleton.e_push Skeleton.e_need] in *;
    unfold sp in Hneed.
  all: try (timeout 20 (brk H; s1 H)).
  (* SetUpvalue *)
  brk H. inv_next.
  match goal with
  | E : upv_set _ _ _ = Some _ |- _ => pose proof (upv_set_normal _ _ _ _ E) as N; left; xfer N
  end.
Qed.

Definition is_jump (o : Bytecode.opcode) : bool :=
  match o with
  | Bytecode.OpJump | Bytecode.OpJumpIfFalse | Bytecode.OpJumpIfStopIter | Bytecode.OpLoop => true
  | _ => false
  end.

Lemma exec_jumps : forall s0 pc0 i nx s',
    is_jump (Bytecode.iop i) = true -> exec s0 pc0 i nx = BNext s' ->
    match Bytecode.iop i with
    | Bytecode.OpJump => normal s0 s' (nx + Bytecode.ia i) 0 0
    | Bytecode.OpLoop => (Bytecode.ia i <= nx)%N /\ normal s0 s' (nx - Bytecode.ia i) 0 0
    | _ => (0 < sp s0)%N /\ (normal s0 s' nx 0 0 \/ normal s0 s' (nx + Bytecode.ia i) 0 0)
    end.
Proof.
  intros s0 pc0 i nx s' HJ H. unfold exec in H. cbv zeta in H.
  destruct (Bytecode.iop i) eqn:Eop; try discriminate HJ; clear HJ.
  - inv_next. split; [repeat split|]. split; [reflexivity | unfold sp; cbn; lia].
  - destruct (speek (bs_fib (w_pc s0 nx)) 0) eqn:Es; [|discriminate].
    unfold speek in Es. cbn in Es. destruct (0 <? fb_sp (bs_fib s0))%N eqn:E0; [|discriminate].
    apply N.ltb_lt in E0. split; [exact E0|].
    inv_next. destruct (truthy v); [left|right];
      (split; [repeat split|]; split; [reflexivity | unfold sp; cbn; lia]).
  - destruct (speek (bs_fib (w_pc s0 nx)) 0) eqn:Es; [|discriminate].
    unfold speek in Es. cbn in Es. destruct (0 <? fb_sp (bs_fib s0))%N eqn:E0; [|discriminate].
    apply N.ltb_lt in E0. split; [exact E0|].
    inv_next. destruct (is_stop_iter _ v); [right|left];
      (split; [repeat split|]; split; [reflexivity | unfold sp; cbn; lia]).
  - destruct (nx <? Bytecode.ia i)%N eqn:E; [discriminate|]. apply N.ltb_ge in E.
    inv_next. split; [exact E|]. split; [repeat split|]. split; [reflexivity | unfold sp; cbn; lia].
Qed.

Section Refine.
  Variable p : Bytecode.program.

  Definition flag_ok (b : bool) (x : Skeleton.xflag) : Prop :=
    match x with
    | Skeleton.XUnknown => True
    | Skeleton.XTrue => b = true
    | Skeleton.XFalse => b = false
    end.

  Definition hrel (fid base : N) (nfr : nat) (h : bhandler) (k : Skeleton.handler) : Prop :=
    bh_fid h = fid /\ bh_catch h = Skeleton.catch_pc k /\ bh_finally h = Skeleton.finally_pc k /\
    bh_size h = (base + Skeleton.hheight k)%N /\ bh_frames h = nfr.

  (* the open upvalues of the frame's own slots, as relative slots in ascending order *)
  Definition cap_rel (base : N) (open : list (N * addr)) (cap : list N) : Prop :=
    map fst (filter (fun x => (base <=? fst x)%N) open) = rev (map (N.add base) cap).

  Record rel (s : bstate) (fi : nat) (f : Bytecode.fn) (a : Skeleton.fstate) : Prop := mkRel {
    r_fn : exists bf, get_fn (bs_env s) (N.of_nat fi) = Some bf /\ bf_raw bf = f /\ bf_imap bf = imap_of p f;
    r_ipf : bs_ipf s = N.of_nat fi;
    r_chunk : bs_chunk s = N.of_nat fi;
    r_pc : bs_pc s = Skeleton.pc a;
    r_frame : exists fr rest,
        fb_frames (bs_fib s) = fr :: rest /\ fr_fid fr = N.of_nat fi /\
        sp s = (fr_base fr + Skeleton.h a)%N /\
        (exists top others, fb_handlers (bs_fib s) = top ++ others /\
           Forall2 (hrel (N.of_nat fi) (fr_base fr) (S (List.length rest))) top (Skeleton.handlers a)) /\
        cap_rel (fr_base fr) (fb_open (bs_fib s)) (Skeleton.captured a);
    r_pending : match fb_retip (bs_fib s) with
                | Some (g, q) => g = N.of_nat fi /\ Skeleton.pending a = Some q
                | None => Skeleton.pending a = None
                end;
    r_exc : flag_ok (bs_he s) (Skeleton.exc a) }.

  Lemma rel_normal : forall s fi f a s' pc' pops push x',
      rel s fi f a -> normal s s' pc' pops push -> (pops <= Skeleton.h a)%N ->
      (x' = Skeleton.exc a \/ x' = Skeleton.XUnknown) ->
      rel s' fi f (Skeleton.mkS pc' (Skeleton.h a - pops + push) (Skeleton.handlers a)
                                (Skeleton.captured a) (Skeleton.pending a) x').
  Proof.
    intros s fi f a s' pc' pops push x' R N Hp Hx.
    destruct R as [Rfn Ripf Rch Rpc Rfr Rpend Rexc].
    destruct N as ((A1 & A2 & A3 & A4 & A5 & A6 & A7 & A8) & B & C).
    constructor; cbn [Skeleton.pc Skeleton.h Skeleton.handlers Skeleton.captured Skeleton.pending Skeleton.exc].
    - rewrite A8. exact Rfn.
    - congruence.
    - congruence.
    - exact B.
    - destruct Rfr as (fr & rest & F1 & F2 & F3 & F4 & F5).
      exists fr, rest. rewrite A1, A2, A3. repeat split; try assumption. rewrite C, F3. lia.
    - rewrite A4. exact Rpend.
    - rewrite A5. destruct Hx as [->| ->]; [exact Rexc | exact I].
  Qed.

  Lemma rel_fetch : forall s fi f a, rel s fi f a -> fetch s = Bytecode.decode p f (Skeleton.pc a).
  Proof.
    intros s fi f a R. destruct R as [(bf & G1 & G2 & G3) Ripf _ Rpc _ _ _].
    unfold fetch. rewrite Ripf, G1, G3, Rpc. apply imap_is_decode.
  Qed.

  Lemma S1_simple : forall f i hh, S1 (Bytecode.iop i) = true -> Skeleton.simple_effect f i hh <> None.
  Proof.
    intros f i hh H. unfold Skeleton.simple_effect. destruct (Bytecode.iop i); try discriminate H; discriminate.
  Qed.

  Lemma step_simple_first : forall f a i nx e l,
      Skeleton.step_simple f a i nx e = Skeleton.Next l ->
      (Skeleton.e_need e <= Skeleton.h a)%N /\
      In (Skeleton.mkS nx (Skeleton.h a - Skeleton.e_pops e + Skeleton.e_push e) (Skeleton.handlers a)
                       (Skeleton.captured a) (Skeleton.pending a)
                       (if Skeleton.e_call e then Skeleton.XUnknown else Skeleton.exc a)) l.
  Proof.
    intros f a i nx e l H. unfold Skeleton.step_simple in H.
    destruct (Skeleton.e_chk e); [discriminate|].
    destruct (Skeleton.const_ok f (Skeleton.e_const e) (Bytecode.ia i)); [discriminate|].
    destruct (Skeleton.e_need e <=? Skeleton.h a)%N eqn:En; cbn [negb] in H; [|discriminate].
    apply N.leb_le in En. split; [exact En|].
    destruct (negb _); [discriminate|].
    unfold Skeleton.rapp in H.
    destruct (if Skeleton.e_throw e then _ else _); [discriminate|].
    inversion H; subst. left. reflexivity.
  Qed.

  (* pops never exceed the need *)
  Lemma pops_le_need : forall f i hh e, Skeleton.simple_effect f i hh = Some e ->
                                        (Skeleton.e_pops e <= Skeleton.e_need e)%N.
  Proof.
    intros f i hh e H. unfold Skeleton.simple_effect in H.
    destruct (Bytecode.iop i); inversion H; subst; cbn; lia.
  Qed.

  Theorem bcvm_refines_skeleton_partial : forall s fi f a s' l i nx,
      rel s fi f a ->
      Bytecode.decode p f (Skeleton.pc a) = Some (i, nx) ->
      S1 (Bytecode.iop i) = true \/ is_jump (Bytecode.iop i) = true ->
      Skeleton.step false p f a = Skeleton.Next l ->
      BcVM.step s = BNext s' ->
      (exists a', In a' l /\ rel s' fi f a') \/ shorter s s'.
  Proof.
    intros s fi f a s' l i nx R D HS Hsk Hst.
    pose proof (rel_fetch s fi f a R) as F. rewrite D in F.
    unfold BcVM.step in Hst. rewrite F in Hst.
    assert (Ech : (bs_ipf s =? bs_chunk s)%N = true).
    { destruct R as [_ Ripf Rch _ _ _ _]. rewrite Ripf, Rch. apply N.eqb_refl. }
    rewrite Ech in Hst. cbn [negb andb] in Hst.
    unfold Skeleton.step, Skeleton.step_at in Hsk.
    destruct (Skeleton.STACK_MAX <? Skeleton.h a)%N; [discriminate|].
    unfold Bytecode.decode in D. rewrite D in Hsk.
    assert (Hsp : exists base, sp s = (base + Skeleton.h a)%N).
    { destruct R as [_ _ _ _ (fr & rest & _ & _ & F3 & _) _ _]. eexists; exact F3. }
    destruct Hsp as [base Hsp].
    destruct HS as [HS|HJ].
    - (* simple instructions *)
      destruct (Skeleton.simple_effect f i (Skeleton.h a)) as [e|] eqn:Ee;
        [|exfalso; eapply S1_simple; eassumption].
      apply step_simple_first in Hsk as [Hneed Hin].
      assert (Hn : (Skeleton.e_need e <= sp s)%N) by (rewrite Hsp; lia).
      destruct (exec_S1 s (bs_pc s) i nx s' f (Skeleton.h a) e HS Ee Hn Hst) as [N|Sh]; [left|right; exact Sh].
      eexists; split; [exact Hin|].
      eapply rel_normal; [exact R | exact N | |].
      + pose proof (pops_le_need _ _ _ _ Ee). lia.
      + destruct (Skeleton.e_call e); [right|left]; reflexivity.
    - (* jumps *)
      pose proof (exec_jumps s (bs_pc s) i nx s' HJ Hst) as J.
      assert (Es : Skeleton.simple_effect f i (Skeleton.h a) = None).
      { unfold Skeleton.simple_effect. destruct (Bytecode.iop i); try discriminate HJ; reflexivity. }
      rewrite Es in Hsk. left.
      assert (Z : forall pc', normal s s' pc' 0 0 ->
                  rel s' fi f (Skeleton.mkS pc' (Skeleton.h a) (Skeleton.handlers a) (Skeleton.captured a)
                                            (Skeleton.pending a) (Skeleton.exc a))).
      { intros pc' N. pose proof (rel_normal s fi f a s' pc' 0 0 (Skeleton.exc a) R N) as Q.
        replace (Skeleton.h a - 0 + 0)%N with (Skeleton.h a) in Q by lia.
        apply Q; [lia | left; reflexivity]. }
      destruct (Bytecode.iop i) eqn:Eop; try discriminate HJ.
      + destruct (Skeleton.in_code _ _); [|discriminate Hsk]. inversion Hsk; subst.
        eexists; split; [left; reflexivity | apply Z; exact J].
      + destruct (Skeleton.h a =? 0)%N; [discriminate|].
        destruct (Skeleton.in_code _ _); [|discriminate Hsk]. inversion Hsk; subst.
        destruct J as [_ [J|J]]; eexists; (split; [|apply Z; exact J]); [left | right; left]; reflexivity.
      + destruct (Skeleton.h a =? 0)%N; [discriminate|].
        destruct (Skeleton.in_code _ _); [|discriminate Hsk]. inversion Hsk; subst.
        destruct J as [_ [J|J]]; eexists; (split; [|apply Z; exact J]); [left | right; left]; reflexivity.
      + destruct (Bytecode.ia i <=? nx)%N; [|discriminate]. inversion Hsk; subst.
        destruct J as [_ J]. eexists; split; [left; reflexivity | apply Z; exact J].
  Qed.
End Refine.
Print Assumptions bcvm_refines_skeleton_partial.

(* ------------------------------------------------------------------ *)
(** * 5. Transfer of the verifier's soundness theorem to the concrete machine (partial)

   If the bytecode verifier accepts the program, then along the covered instructions a BcVM frame never leaves
   the abstract states the verifier has proved safe; in particular the concrete machine never fetches outside
   the code / an undecodable instruction in such a state (the Stuck kind RUndecodable). *)

Lemma skeleton_not_stuck_decodes : forall p f a,
    Skeleton.succs false p f a <> None -> exists i nx, Bytecode.decode p f (Skeleton.pc a) = Some (i, nx).
Proof.
  intros p f a H. unfold Skeleton.succs, Skeleton.succs_at, Skeleton.step_at in H.
  destruct (Skeleton.STACK_MAX <? Skeleton.h a)%N; [exfalso; apply H; reflexivity|].
  unfold Bytecode.decode.
  destruct (Bytecode.decode_at (Bytecode.byte_at (Bytecode.code f)) p f (Skeleton.pc a)) as [[i nx]|];
    [exists i, nx; reflexivity | exfalso; apply H; reflexivity].
Qed.

Theorem verified_code_never_stuck_bcvm_partial : forall p n m fi f a s,
    Verifier.verify_program p = Verifier.VOk n m ->
    nth_error p fi = Some f ->
    VerifierProofs.reachable false p f a ->
    rel p s fi f a ->
    (* (i) the fetch succeeds ... *)
    (exists i nx, fetch s = Some (i, nx) /\
    (* (ii) ... and a covered instruction keeps the frame inside the verified abstract states *)
       (S1 (Bytecode.iop i) = true \/ is_jump (Bytecode.iop i) = true ->
        forall s', BcVM.step s = BNext s' ->
                   (exists a', VerifierProofs.reachable false p f a' /\ rel p s' fi f a') \/ shorter s s')).
Proof.
  intros p n m fi f a s Hv Hf Hr R.
  pose proof (VerifierProofs.verify_sound p n m Hv f (nth_error_In _ _ Hf) a Hr) as NS.
  destruct (skeleton_not_stuck_decodes p f a NS) as (i & nx & D).
  exists i, nx. split; [rewrite (rel_fetch p s fi f a R); exact D|].
  intros HS s' Hst.
  destruct (Skeleton.succs false p f a) as [l|] eqn:El; [|exfalso; apply NS; reflexivity].
  assert (Hsk : Skeleton.step false p f a = Skeleton.Next l).
  { unfold Skeleton.succs, Skeleton.succs_at in El. unfold Skeleton.step.
    destruct (Skeleton.step_at _ _ _ _ _); [discriminate | inversion El; reflexivity]. }
  destruct (bcvm_refines_skeleton_partial p s fi f a s' l i nx R D HS Hsk Hst) as [(a' & Hin & R')|Sh];
    [left | right; exact Sh].
  exists a'. split; [|exact R']. eapply VerifierProofs.reach_step; [exact Hr | exact El | exact Hin].
Qed.
Print Assumptions verified_code_never_stuck_bcvm_partial.

(* ------------------------------------------------------------------ *)
(** * 6. The exceptional edge and the instructions that edit handlers / upvalues / the pending return *)

(* list facts *)
Lemma filter_comm : forall {A} (P Q : A -> bool) l, filter P (filter Q l) = filter Q (filter P l).
Proof.
  intros A P Q l; induction l as [|x r IH]; cbn; [reflexivity|].
  destruct (Q x) eqn:EQ, (P x) eqn:EP; cbn; rewrite ?EQ, ?EP, IH; reflexivity.
Qed.

Lemma map_fst_filter : forall (Q : N -> bool) (l : list (N * addr)),
    map fst (filter (fun x => Q (fst x)) l) = filter Q (map fst l).
Proof.
  intros Q l; induction l as [|x r IH]; cbn; [reflexivity|].
  destruct (Q (fst x)); cbn; rewrite IH; reflexivity.
Qed.

Lemma filter_app' : forall {A} (P : A -> bool) l1 l2, filter P (l1 ++ l2) = filter P l1 ++ filter P l2.
Proof.
  intros A P l1 l2; induction l1 as [|x r IH]; cbn; [reflexivity|].
  destruct (P x); cbn; rewrite IH; reflexivity.
Qed.

Lemma filter_rev' : forall {A} (P : A -> bool) l, filter P (rev l) = rev (filter P l).
Proof.
  intros A P l; induction l as [|x r IH]; cbn; [reflexivity|].
  rewrite filter_app', IH. cbn. destruct (P x); cbn; [reflexivity | rewrite app_nil_r; reflexivity].
Qed.

Lemma filter_map_add : forall base hh l,
    filter (fun x => (x <? base + hh)%N) (map (N.add base) l) = map (N.add base) (filter (fun c => (c <? hh)%N) l).
Proof.
  intros base hh l; induction l as [|c r IH]; cbn; [reflexivity|].
  assert (E : (base + c <? base + hh)%N = (c <? hh)%N).
  { destruct (c <? hh)%N eqn:E1; [apply N.ltb_lt in E1; apply N.ltb_lt; lia | apply N.ltb_ge in E1; apply N.ltb_ge; lia]. }
  rewrite E. destruct (c <? hh)%N; cbn; rewrite IH; reflexivity.
Qed.

Lemma filter_all_lt : forall l b idx, desc_lt b l -> (b <= idx)%N ->
                                     filter (fun x : N * addr => (fst x <? idx)%N) l = l.
Proof.
  induction l as [|[s u] r IH]; intros b idx H Hle; cbn; [reflexivity|].
  destruct H as [Hs Hr]. assert (E : (s <? idx)%N = true) by (apply N.ltb_lt; lia).
  rewrite E. f_equal. eapply IH; [exact Hr | lia].
Qed.

Lemma close_go_filter : forall fb idx l uv b, desc_lt b l ->
    fst (close_go fb idx l uv) = filter (fun x => (fst x <? idx)%N) l.
Proof.
  intros fb idx l; induction l as [|[s u] r IH]; intros uv b H; cbn [close_go]; [reflexivity|].
  destruct H as [Hs Hr]. cbn [filter fst].
  destruct (idx <=? s)%N eqn:E.
  - apply N.leb_le in E. assert (E2 : (s <? idx)%N = false) by (apply N.ltb_ge; lia). rewrite E2.
    eapply IH; exact Hr.
  - apply N.leb_gt in E. assert (E2 : (s <? idx)%N = true) by (apply N.ltb_lt; lia). rewrite E2.
    cbn. f_equal. symmetry. eapply filter_all_lt; [exact Hr | lia].
Qed.

Lemma close_upvalues_open : forall s idx, desc (fb_open (bs_fib s)) ->
    fb_open (bs_fib (close_upvalues s idx)) = filter (fun x => (fst x <? idx)%N) (fb_open (bs_fib s)).
Proof.
  intros s idx [b D]. unfold close_upvalues.
  destruct (fb_open (bs_fib s)) as [|x r] eqn:E; [cbn; exact E|].
  pose proof (close_go_filter (bs_fib s) idx (x :: r) (bs_upvals s) b D) as Q.
  destruct (close_go (bs_fib s) idx (x :: r) (bs_upvals s)) as [op uv]. cbn in *. exact Q.
Qed.

Lemma close_upvalues_rest : forall s idx,
    fb_frames (bs_fib (close_upvalues s idx)) = fb_frames (bs_fib s) /\
    fb_retip (bs_fib (close_upvalues s idx)) = fb_retip (bs_fib s) /\
    fb_sp (bs_fib (close_upvalues s idx)) = fb_sp (bs_fib s) /\
    bs_env (close_upvalues s idx) = bs_env s /\ bs_ipf (close_upvalues s idx) = bs_ipf s /\
    bs_chunk (close_upvalues s idx) = bs_chunk s /\ bs_pc (close_upvalues s idx) = bs_pc s /\
    bs_he (close_upvalues s idx) = bs_he s /\ bs_store (close_upvalues s idx) = bs_store s.
Proof.
  intros s idx. unfold close_upvalues. destruct (fb_open (bs_fib s)); [repeat split|].
  destruct (close_go _ _ _ _); repeat split.
Qed.

Section Refine2.
  Variable p : Bytecode.program.

  Lemma cap_rel_filter : forall base open cap hh,
      cap_rel base open cap ->
      cap_rel base (filter (fun x => (fst x <? base + hh)%N) open) (filter (fun c => (c <? hh)%N) cap).
  Proof.
    intros base open cap hh H. unfold cap_rel in *.
    rewrite filter_comm.
    rewrite (map_fst_filter (fun x => (x <? base + hh)%N)).
    rewrite H, filter_rev', filter_map_add. reflexivity.
  Qed.

  (* the frame part of [rel]: everything except pc, height and flag *)
  Record frel (s : bstate) (fi : nat) (f : Bytecode.fn) (base : N) (nrest : nat)
         (hs : list Skeleton.handler) (cap : list N) (pend : option N) : Prop := mkFrel {
    q_fn : exists bf, get_fn (bs_env s) (N.of_nat fi) = Some bf /\ bf_raw bf = f /\ bf_imap bf = imap_of p f;
    q_frame : exists fr rest, fb_frames (bs_fib s) = fr :: rest /\ fr_fid fr = N.of_nat fi /\
                              fr_base fr = base /\ List.length rest = nrest;
    q_handlers : exists top others, fb_handlers (bs_fib s) = top ++ others /\
                                    Forall2 (hrel (N.of_nat fi) base (S nrest)) top hs;
    q_cap : cap_rel base (fb_open (bs_fib s)) cap;
    q_pend : match fb_retip (bs_fib s) with
             | Some (g, q) => g = N.of_nat fi /\ pend = Some q
             | None => pend = None
             end }.

  Lemma rel_frel : forall s fi f a,
      rel p s fi f a ->
      exists base nrest, frel s fi f base nrest (Skeleton.handlers a) (Skeleton.captured a) (Skeleton.pending a) /\
                         sp s = (base + Skeleton.h a)%N.
  Proof.
    intros s fi f a [Rfn Ripf Rch Rpc (fr & rest & F1 & F2 & F3 & (top & others & F4 & F5) & F6) Rpend Rexc].
    exists (fr_base fr), (List.length rest). split; [|exact F3].
    constructor; try assumption.
    - exists fr, rest. repeat split; assumption.
    - exists top, others. split; assumption.
  Qed.

  Lemma frel_rel : forall s fi f base nrest a,
      frel s fi f base nrest (Skeleton.handlers a) (Skeleton.captured a) (Skeleton.pending a) ->
      bs_ipf s = N.of_nat fi -> bs_chunk s = N.of_nat fi -> bs_pc s = Skeleton.pc a ->
      sp s = (base + Skeleton.h a)%N -> flag_ok (bs_he s) (Skeleton.exc a) ->
      rel p s fi f a.
  Proof.
    intros s fi f base nrest a [Qfn (fr & rest & F1 & F2 & F3 & F4) (top & others & H1 & H2) Qcap Qpend] Hi Hc Hp Hs Hf.
    constructor; try assumption.
    exists fr, rest. subst base nrest. repeat split; try assumption.
    exists top, others. split; assumption.
  Qed.

  (* states that agree on what [frel] reads *)
  Definition shapeU (s sx : bstate) : Prop :=
    fb_frames (bs_fib sx) = fb_frames (bs_fib s) /\ fb_handlers (bs_fib sx) = fb_handlers (bs_fib s) /\
    fb_open (bs_fib sx) = fb_open (bs_fib s) /\ fb_retip (bs_fib sx) = fb_retip (bs_fib s) /\
    bs_env sx = bs_env s.

  Lemma frel_shapeU : forall s sx fi f base nrest hs cap pend,
      frel s fi f base nrest hs cap pend -> shapeU s sx -> frel sx fi f base nrest hs cap pend.
  Proof.
    intros s sx fi f base nrest hs cap pend [Q1 Q2 Q3 Q4 Q5] (A1 & A2 & A3 & A4 & A5).
    constructor; rewrite ?A1, ?A2, ?A3, ?A4, ?A5; assumption.
  Qed.

  (* an exception was raised: some state of the same shape was unwound *)
  Definition raised (s s' : bstate) : Prop := exists sx, shapeU s sx /\ unwind sx = BNext s'.

  Definition edge_state (hd : Skeleton.handler) (tl : list Skeleton.handler) (cap : list N) (pend : option N)
    : Skeleton.fstate :=
    Skeleton.mkS (Skeleton.catch_pc hd) (Skeleton.hheight hd + 1) tl
                 (filter (fun c => (c <? Skeleton.hheight hd)%N) cap) pend (Skeleton.handler_flag hd).

  Lemma unwind_frel : forall sx s' fi f base nrest hd tl cap pend,
      frel sx fi f base nrest (hd :: tl) cap pend ->
      desc (fb_open (bs_fib sx)) ->
      unwind sx = BNext s' ->
      rel p s' fi f (edge_state hd tl cap pend).
  Proof.
    intros sx s' fi f base nrest hd tl cap pend [Q1 (fr & rest & F1 & F2 & F3 & F4) (top & others & H1 & H2) Q4 Q5] D H.
    inversion H2 as [|h0 k top' tl' R0 Rt]; subst. cbn in H1.
    destruct R0 as (K1 & K2 & K3 & K4 & K5).
    unfold unwind in H.
    destruct (speek (bs_fib sx) 0) as [exc|]; [|discriminate].
    rewrite H1 in H. cbv zeta in H.
    pose proof (close_upvalues_open sx (bh_size h0) D) as CO.
    destruct (close_upvalues_rest sx (bh_size h0)) as (C1 & C2 & C3 & C4 & C5 & C6 & C7 & C8 & C9).
    pose proof (close_upvalues_handlers sx (bh_size h0)) as CH.
    set (s1 := close_upvalues sx (bh_size h0)) in *. clearbody s1.
    cbn [fb_frames spush strunc w_stack] in H. rewrite C1, F1 in H.
    rewrite K5 in H. cbn [List.length] in H.
    replace (S (List.length rest) - S (List.length rest))%nat with 0%nat in H by lia.
    cbn [drop] in H.
    match type of H with
    | context [load_frame ?x] => destruct (load_frame x) as [s2|] eqn:El; [|discriminate]
    end.
    inv_next. unfold load_frame, cur_frame in El. cbn in El. inversion El; subst s'. clear El.
    eapply (frel_rel _ fi f (fr_base fr) (List.length rest)); unfold edge_state;
      cbn [Skeleton.pc Skeleton.h Skeleton.handlers Skeleton.captured Skeleton.pending Skeleton.exc].
    - constructor; cbn.
      + rewrite C4. exact Q1.
      + exists (set_frame_ip fr (bh_fid h0) (bh_catch h0)), rest. repeat split; assumption || reflexivity.
      + exists top', others. split; [reflexivity | exact Rt].
      + rewrite CO. rewrite K4. apply cap_rel_filter. exact Q4.
      + rewrite C2. exact Q5.
    - cbn. exact K1.
    - cbn. exact F2.
    - cbn. exact K2.
    - unfold sp. cbn. rewrite K4. lia.
    - cbn. unfold Skeleton.handler_flag. rewrite <- K2, <- K3.
      destruct (bh_finally h0 =? bh_catch h0)%N; cbn; reflexivity.
  Qed.
End Refine2.

Lemma unwind_raised : forall s s', unwind s = BNext s' -> raised s s'.
Proof. intros s s' H. exists s. split; [repeat split | exact H]. Qed.

Lemma raise_raised : forall s k m s', raise s k m = BNext s' -> raised s s'.
Proof.
  intros s k m s' H. unfold raise in H. destruct (mk_error (bs_store s) k m) as [st1 v].
  eexists. split; [|exact H]. repeat split.
Qed.

Lemma finish_nres_normal_r : forall s pops r s',
    finish_nres s pops r = BNext s' -> normal s s' (bs_pc s) pops 1 \/ raised s s'.
Proof.
  intros s pops r s' H. unfold finish_nres in H. destruct r; [| |discriminate].
  - inv_next. left. split; [repeat split|]. split; [reflexivity|]. unfold sp. cbn. lia.
  - right. apply raise_raised in H. destruct H as (sx & A & B). exists sx. split; [exact A | exact B].
Qed.

Lemma finish_opres_normal_r : forall s pops r s',
    finish_opres s pops r = BNext s' -> normal s s' (bs_pc s) pops 1 \/ raised s s'.
Proof.
  intros s pops r s' H. unfold finish_opres in H. destruct r as [[]|]; [| |discriminate].
  - inv_next. left. split; [repeat split|]. split; [reflexivity|]. unfold sp. cbn. lia.
  - right. apply raise_raised in H. destruct H as (sx & A & B). exists sx. split; [|exact B].
    unfold shapeU in *. cbn in *. exact A.
Qed.

Ltac xraised N :=
  let sx := fresh "sx" in let A := fresh "A" in let B := fresh "B" in
  destruct N as (sx & A & B); exists sx; split; [unfold shapeU in *; cbn in *; exact A | exact B].

Ltac s1r H :=
  lazymatch type of H with
  | BStuck _ = _ => discriminate H
  | BFuel = _ => discriminate H
  | BDone _ _ = _ => discriminate H
  | BFail _ _ _ = _ => discriminate H
  | raise _ _ _ = _ =>
    right; split; [apply raise_raised in H; xraised H | reflexivity]
  | finish_nres _ _ _ = _ =>
    let N := fresh "N" in
    destruct (finish_nres_normal_r _ _ _ _ H) as [N|N];
    [left; xfer N | right; split; [xraised N | reflexivity]]
  | finish_opres _ _ _ = _ =>
    let N := fresh "N" in
    destruct (finish_opres_normal_r _ _ _ _ H) as [N|N];
    [left; xfer N | right; split; [xraised N | reflexivity]]
  | define_method _ _ _ = _ =>
    let N := fresh "N" in pose proof (define_method_normal _ _ _ _ H) as N; left; xfer N
  | BNext _ = BNext _ =>
    inversion H; subst; clear H; left;
    repeat match goal with
           | E : (_ =? _)%N = true |- _ => apply N.eqb_eq in E
           | E : (_ =? _)%N = false |- _ => apply N.eqb_neq in E
           | E : (_ <? _)%N = true |- _ => apply N.ltb_lt in E
           | E : (_ <? _)%N = false |- _ => apply N.ltb_ge in E
           end;
    (split; [repeat split | split; [reflexivity | unfold sp; cbn; lia]])
  end.

Lemma finish_opres_val : forall s pops v s',
    finish_opres s pops (Some (OpVal v)) = BNext s' -> normal s s' (bs_pc s) pops 1.
Proof.
  intros s pops v s' H. unfold finish_opres in H. inv_next.
  split; [repeat split|]. split; [reflexivity|]. unfold sp. cbn. lia.
Qed.

Lemma apply_binop_eq_val : forall st x y,
    apply_binop st BEq x y = None \/ exists v, apply_binop st BEq x y = Some (OpVal v).
Proof.
  intros st x y. unfold apply_binop. destruct (veq EQ_FUEL st x y); [right; eexists; reflexivity | left; reflexivity].
Qed.

Lemma finish_opres_noerr : forall s pops r s',
    (forall k m, r <> Some (OpErr k m)) ->
    finish_opres s pops r = BNext s' -> normal s s' (bs_pc s) pops 1.
Proof.
  intros s pops r s' Hn H. unfold finish_opres in H. destruct r as [[v|k m]|]; [| |discriminate].
  - inv_next. split; [repeat split|]. split; [reflexivity|]. unfold sp. cbn. lia.
  - exfalso. eapply Hn. reflexivity.
Qed.

Lemma apply_binop_eq_noerr : forall st x y k m, apply_binop st BEq x y <> Some (OpErr k m).
Proof. intros st x y k m. unfold apply_binop. destruct (veq EQ_FUEL st x y); discriminate. Qed.

Lemma exec_equal_normal : forall s0 pc0 i nx s',
    Bytecode.iop i = Bytecode.OpEqual -> exec s0 pc0 i nx = BNext s' -> normal s0 s' nx 2 1.
Proof.
  intros s0 pc0 i nx s' Eop H. unfold exec in H. rewrite Eop in H. cbv zeta in H.
  brk H.
  match goal with
  | E : binop_of Bytecode.OpEqual = Some ?b |- _ => cbn in E; inversion E; subst b; clear E
  end.
  apply finish_opres_noerr in H; [|intros; apply apply_binop_eq_noerr].
  xfer H.
Qed.

Lemma exec_not_normal : forall s0 pc0 i nx s',
    Bytecode.iop i = Bytecode.OpLogicalNot -> exec s0 pc0 i nx = BNext s' -> normal s0 s' nx 1 1.
Proof.
  intros s0 pc0 i nx s' Eop H. unfold exec in H. rewrite Eop in H. cbv zeta in H.
  brk H.
  match goal with
  | E : unop_of Bytecode.OpLogicalNot = Some ?b |- _ => cbn in E; inversion E; subst b; clear E
  end.
  apply finish_opres_noerr in H; [|intros k m; cbn; discriminate].
  xfer H.
Qed.

Lemma exec_S1r : forall s0 pc0 i nx s' f hh e,
    S1 (Bytecode.iop i) = true -> Skeleton.simple_effect f i hh = Some e ->
    (Skeleton.e_need e <= sp s0)%N ->
    exec s0 pc0 i nx = BNext s' ->
    normal s0 s' nx (Skeleton.e_pops e) (Skeleton.e_push e) \/
    (raised s0 s' /\ Skeleton.e_throw e = true).
Proof.
  intros s0 pc0 i nx s' f hh e HS He Hneed H.
  pose proof H as H0.
  unfold exec in H. cbv zeta in H. unfold Skeleton.simple_effect in He.
  destruct (Bytecode.iop i) eqn:Eop; try discriminate HS; clear HS;
    inversion He; subst e; clear He;
    cbn [Skeleton.e_pops Skeleton.e_push Skeleton.e_need Skeleton.e_throw] in Hneed |- *;
    unfold sp in Hneed.
  all: try (timeout 20 (clear H0; brk H; s1r H)).
  - (* SetUpvalue *)
    brk H. inv_next.
    match goal with
    | E : upv_set _ _ _ = Some _ |- _ => pose proof (upv_set_normal _ _ _ _ E) as N; left; xfer N
    end.
  - (* Equal never raises *)
    left. eapply exec_equal_normal; [exact Eop | exact H0].
  - (* LogicalNot never raises *)
    left. eapply exec_not_normal; [exact Eop | exact H0].
Qed.

Section Refine3.
  Variable p : Bytecode.program.

  Lemma step_simple_edge : forall f a i nx e l hd tl,
      Skeleton.step_simple f a i nx e = Skeleton.Next l ->
      Skeleton.e_throw e = true -> Skeleton.handlers a = hd :: tl ->
      In (edge_state hd tl (Skeleton.captured a) (Skeleton.pending a)) l.
  Proof.
    intros f a i nx e l hd tl H Ht Hh. unfold Skeleton.step_simple in H.
    destruct (Skeleton.e_chk e); [discriminate|].
    destruct (Skeleton.const_ok f (Skeleton.e_const e) (Bytecode.ia i)); [discriminate|].
    destruct (negb (Skeleton.e_need e <=? Skeleton.h a)%N); [discriminate|].
    destruct (negb _); [discriminate|].
    rewrite Ht in H. unfold Skeleton.exc_edge in H. rewrite Hh in H.
    destruct (Skeleton.hheight hd <=? _)%N; cbn in H; [|discriminate].
    inversion H; subst. right; left. reflexivity.
  Qed.

  Lemma raised_edge : forall s fi f a s' hd tl,
      rel p s fi f a -> OInv s -> raised s s' -> Skeleton.handlers a = hd :: tl ->
      rel p s' fi f (edge_state hd tl (Skeleton.captured a) (Skeleton.pending a)).
  Proof.
    intros s fi f a s' hd tl R I (sx & Sh & U) Hh.
    destruct (rel_frel p s fi f a R) as (base & nrest & Q & _).
    rewrite Hh in Q.
    eapply unwind_frel; [eapply frel_shapeU; [exact Q | exact Sh] | | exact U].
    destruct Sh as (_ & _ & A3 & _). rewrite A3. exact (proj1 I).
  Qed.

  Theorem bcvm_refines_skeleton_simple : forall s fi f a s' l i nx,
      rel p s fi f a -> OInv s ->
      Bytecode.decode p f (Skeleton.pc a) = Some (i, nx) ->
      S1 (Bytecode.iop i) = true \/ is_jump (Bytecode.iop i) = true ->
      Skeleton.step false p f a = Skeleton.Next l ->
      BcVM.step s = BNext s' ->
      (exists a', In a' l /\ rel p s' fi f a') \/ (raised s s' /\ Skeleton.handlers a = []).
  Proof.
    intros s fi f a s' l i nx R I D HS Hsk Hst.
    destruct HS as [HS|HJ].
    2:{ (* jumps never raise: reuse the first theorem *)
      destruct (bcvm_refines_skeleton_partial p s fi f a s' l i nx R D (or_intror HJ) Hsk Hst) as [Q|Sh];
        [left; exact Q|].
      exfalso. pose proof (rel_fetch p s fi f a R) as F. rewrite D in F.
      unfold BcVM.step in Hst. rewrite F in Hst.
      assert (Ech : (bs_ipf s =? bs_chunk s)%N = true).
      { destruct R as [_ Ripf Rch _ _ _ _]. rewrite Ripf, Rch. apply N.eqb_refl. }
      rewrite Ech in Hst. cbn [negb andb] in Hst.
      pose proof (exec_jumps s (bs_pc s) i nx s' HJ Hst) as J.
      assert (E : fb_handlers (bs_fib s') = fb_handlers (bs_fib s)).
      { destruct (Bytecode.iop i); try discriminate HJ.
        - destruct J as ((_ & A2 & _) & _). exact A2.
        - destruct J as (_ & [((_ & A2 & _) & _)|((_ & A2 & _) & _)]); exact A2.
        - destruct J as (_ & [((_ & A2 & _) & _)|((_ & A2 & _) & _)]); exact A2.
        - destruct J as (_ & ((_ & A2 & _) & _)). exact A2. }
      unfold shorter in Sh. rewrite E in Sh. lia. }
    pose proof (rel_fetch p s fi f a R) as F. rewrite D in F.
    unfold BcVM.step in Hst. rewrite F in Hst.
    assert (Ech : (bs_ipf s =? bs_chunk s)%N = true).
    { destruct R as [_ Ripf Rch _ _ _ _]. rewrite Ripf, Rch. apply N.eqb_refl. }
    rewrite Ech in Hst. cbn [negb andb] in Hst.
    unfold Skeleton.step, Skeleton.step_at in Hsk.
    destruct (Skeleton.STACK_MAX <? Skeleton.h a)%N; [discriminate|].
    unfold Bytecode.decode in D. rewrite D in Hsk.
    assert (Hsp : exists base, sp s = (base + Skeleton.h a)%N).
    { destruct R as [_ _ _ _ (fr & rest & _ & _ & F3 & _) _ _]. eexists; exact F3. }
    destruct Hsp as [base Hsp].
    destruct (Skeleton.simple_effect f i (Skeleton.h a)) as [e|] eqn:Ee;
      [|exfalso; eapply S1_simple; eassumption].
    pose proof Hsk as Hsk2.
    apply step_simple_first in Hsk as [Hneed Hin].
    assert (Hn : (Skeleton.e_need e <= sp s)%N) by (rewrite Hsp; lia).
    destruct (exec_S1r s (bs_pc s) i nx s' f (Skeleton.h a) e HS Ee Hn Hst) as [N|[Ra Ht]].
    - left. eexists; split; [exact Hin|].
      eapply rel_normal; [exact R | exact N | |].
      + pose proof (pops_le_need _ _ _ _ Ee). lia.
      + destruct (Skeleton.e_call e); [right|left]; reflexivity.
    - destruct (Skeleton.handlers a) as [|hd tl] eqn:Hh; [right; split; [exact Ra | reflexivity]|].
      left. exists (edge_state hd tl (Skeleton.captured a) (Skeleton.pending a)). split.
      + eapply step_simple_edge; eassumption.
      + eapply raised_edge; eassumption.
  Qed.
End Refine3.
Print Assumptions bcvm_refines_skeleton_simple.

Lemma match57 : forall (b : N) (X : Skeleton.result) r l,
    match b with 57%N => X | _ => Skeleton.Stuck r end = Skeleton.Next l -> b = 57%N /\ X = Skeleton.Next l.
Proof.
  intros b X r l H. destruct b as [|q]; [discriminate|].
  repeat (destruct q as [q|q|]; try discriminate).
  split; [reflexivity | exact H].
Qed.

Section Refine4.
  Variable p : Bytecode.program.

  (* common preamble: the concrete step is [exec] of the instruction the Skeleton decodes *)
  Lemma step_is_exec : forall s fi f a i nx,
      rel p s fi f a -> Bytecode.decode p f (Skeleton.pc a) = Some (i, nx) ->
      BcVM.step s = exec s (bs_pc s) i nx.
  Proof.
    intros s fi f a i nx R D.
    pose proof (rel_fetch p s fi f a R) as F. rewrite D in F.
    unfold BcVM.step. rewrite F.
    assert (Ech : (bs_ipf s =? bs_chunk s)%N = true).
    { destruct R as [_ Ripf Rch _ _ _ _]. rewrite Ripf, Rch. apply N.eqb_refl. }
    rewrite Ech. reflexivity.
  Qed.

  Lemma skeleton_step_nonsimple : forall f a i nx l,
      Bytecode.decode p f (Skeleton.pc a) = Some (i, nx) ->
      Skeleton.simple_effect f i (Skeleton.h a) = None ->
      Skeleton.step false p f a = Skeleton.Next l ->
      Skeleton.step_at (Bytecode.byte_at (Bytecode.code f)) false p f a = Skeleton.Next l /\
      (Skeleton.STACK_MAX <? Skeleton.h a)%N = false.
  Proof.
    intros f a i nx l D E H. split; [exact H|].
    unfold Skeleton.step, Skeleton.step_at in H. destruct (Skeleton.STACK_MAX <? Skeleton.h a)%N; [discriminate | reflexivity].
  Qed.

  Ltac sk_open Hsk D Eop :=
    unfold Skeleton.step, Skeleton.step_at in Hsk;
    destruct (Skeleton.STACK_MAX <? Skeleton.h _)%N; [discriminate Hsk|];
    unfold Bytecode.decode in D; rewrite D in Hsk;
    unfold Skeleton.simple_effect in Hsk; rewrite Eop in Hsk.

  Lemma refine_push_handler : forall s fi f a s' l i nx,
      rel p s fi f a -> Bytecode.decode p f (Skeleton.pc a) = Some (i, nx) ->
      Bytecode.iop i = Bytecode.OpPushExcHandler ->
      Skeleton.step false p f a = Skeleton.Next l -> BcVM.step s = BNext s' ->
      exists a', In a' l /\ rel p s' fi f a'.
  Proof.
    intros s fi f a s' l i nx R D Eop Hsk Hst.
    rewrite (step_is_exec s fi f a i nx R D) in Hst.
    unfold exec in Hst. rewrite Eop in Hst. cbv zeta in Hst. inv_next.
    sk_open Hsk D Eop. inversion Hsk; subst l. clear Hsk.
    eexists. split; [left; reflexivity|].
    destruct (rel_frel p s fi f a R) as (base & nrest & [Q1 Q2 Q3 Q4 Q5] & Hsp).
    destruct R as [_ Ripf Rch Rpc _ _ Rexc].
    eapply (frel_rel p _ fi f base nrest); cbn [Skeleton.pc Skeleton.h Skeleton.handlers Skeleton.captured Skeleton.pending Skeleton.exc].
    - constructor; cbn; try assumption.
      destruct Q2 as (fr & rest & F1 & F2 & F3 & F4).
      destruct Q3 as (top & others & H1 & H2).
      eexists (_ :: top), others. split; [rewrite H1; reflexivity|].
      constructor; [|exact H2].
      unfold hrel. cbn. rewrite F1. cbn. unfold sp in Hsp. repeat split; try assumption; try lia.
    - cbn. exact Ripf.
    - cbn. exact Rch.
    - reflexivity.
    - unfold sp in *. cbn. exact Hsp.
    - cbn. exact Rexc.
  Qed.

  Lemma refine_pop_handler : forall s fi f a s' l i nx,
      rel p s fi f a -> Bytecode.decode p f (Skeleton.pc a) = Some (i, nx) ->
      Bytecode.iop i = Bytecode.OpPopExcHandler ->
      Skeleton.step false p f a = Skeleton.Next l -> BcVM.step s = BNext s' ->
      exists a', In a' l /\ rel p s' fi f a'.
  Proof.
    intros s fi f a s' l i nx R D Eop Hsk Hst.
    rewrite (step_is_exec s fi f a i nx R D) in Hst.
    unfold exec in Hst. rewrite Eop in Hst. cbv zeta in Hst. inv_next.
    sk_open Hsk D Eop.
    destruct (Skeleton.handlers a) as [|hd tl] eqn:Hh; [discriminate|]. inversion Hsk; subst l. clear Hsk.
    eexists. split; [left; reflexivity|].
    destruct (rel_frel p s fi f a R) as (base & nrest & [Q1 Q2 Q3 Q4 Q5] & Hsp).
    destruct R as [_ Ripf Rch Rpc _ _ Rexc].
    rewrite Hh in Q3. destruct Q3 as (top & others & H1 & H2).
    inversion H2 as [|h0 k top' tl' R0 Rt]; subst.
    eapply (frel_rel p _ fi f base nrest); cbn [Skeleton.pc Skeleton.h Skeleton.handlers Skeleton.captured Skeleton.pending Skeleton.exc].
    - constructor; cbn; try assumption.
      exists top', others. rewrite H1. split; [reflexivity | exact Rt].
    - cbn. exact Ripf.
    - cbn. exact Rch.
    - reflexivity.
    - unfold sp in *. cbn. exact Hsp.
    - cbn. exact Rexc.
  Qed.

  Lemma refine_close_upvalue : forall s fi f a s' l i nx,
      rel p s fi f a -> OInv s -> Bytecode.decode p f (Skeleton.pc a) = Some (i, nx) ->
      Bytecode.iop i = Bytecode.OpCloseUpvalue ->
      Skeleton.step false p f a = Skeleton.Next l -> BcVM.step s = BNext s' ->
      exists a', In a' l /\ rel p s' fi f a'.
  Proof.
    intros s fi f a s' l i nx R I D Eop Hsk Hst.
    rewrite (step_is_exec s fi f a i nx R D) in Hst.
    unfold exec in Hst. rewrite Eop in Hst. cbv zeta in Hst.
    cbn [bs_fib w_pc w_ip fb_sp] in Hst.
    destruct (fb_sp (bs_fib s) =? 0)%N eqn:E0; [discriminate|]. apply N.eqb_neq in E0. inv_next.
    sk_open Hsk D Eop.
    destruct (Bytecode.arity f <? Skeleton.h a)%N eqn:Ea; [|discriminate]. apply N.ltb_lt in Ea.
    inversion Hsk; subst l. clear Hsk.
    eexists. split; [left; reflexivity|].
    destruct (rel_frel p s fi f a R) as (base & nrest & [Q1 Q2 Q3 Q4 Q5] & Hsp).
    destruct R as [_ Ripf Rch Rpc _ _ Rexc]. unfold sp in Hsp.
    set (s0 := w_pc s nx) in *.
    assert (D0 : desc (fb_open (bs_fib s0))) by exact (proj1 I).
    pose proof (close_upvalues_open s0 (fb_sp (bs_fib s) - 1) D0) as CO.
    destruct (close_upvalues_rest s0 (fb_sp (bs_fib s) - 1)) as (C1 & C2 & C3 & C4 & C5 & C6 & C7 & C8 & C9).
    pose proof (close_upvalues_handlers s0 (fb_sp (bs_fib s) - 1)) as CH.
    set (s1 := close_upvalues s0 (fb_sp (bs_fib s) - 1)) in *. clearbody s1.
    eapply (frel_rel p _ fi f base nrest); cbn [Skeleton.pc Skeleton.h Skeleton.handlers Skeleton.captured Skeleton.pending Skeleton.exc].
    - constructor; cbn.
      + rewrite C4. exact Q1.
      + rewrite C1. exact Q2.
      + rewrite CH. exact Q3.
      + rewrite CO. replace (fb_sp (bs_fib s) - 1)%N with (base + (Skeleton.h a - 1))%N by lia.
        apply cap_rel_filter. exact Q4.
      + rewrite C2. exact Q5.
    - cbn. rewrite C5. exact Ripf.
    - cbn. rewrite C6. exact Rch.
    - cbn. rewrite C7. reflexivity.
    - unfold sp. cbn. rewrite C3. cbn. lia.
    - cbn. rewrite C8. exact Rexc.
  Qed.

  Lemma refine_jump_finally : forall s fi f a s' l i nx,
      rel p s fi f a -> OInv s -> Bytecode.decode p f (Skeleton.pc a) = Some (i, nx) ->
      Bytecode.iop i = Bytecode.OpJumpFinally ->
      Skeleton.step false p f a = Skeleton.Next l -> BcVM.step s = BNext s' ->
      exists a', In a' l /\ rel p s' fi f a'.
  Proof.
    intros s fi f a s' l i nx R I D Eop Hsk Hst.
    rewrite (step_is_exec s fi f a i nx R D) in Hst.
    unfold exec in Hst. rewrite Eop in Hst. cbv zeta in Hst.
    sk_open Hsk D Eop.
    destruct (Skeleton.h a =? 0)%N eqn:Eh0; [discriminate|]. apply N.eqb_neq in Eh0.
    destruct (Skeleton.handlers a) as [|hd tl] eqn:Hh; [discriminate|].
    destruct (Bytecode.byte_at (Bytecode.code f) nx) as [b|]; [|discriminate].
    apply match57 in Hsk as [_ Hsk].
    destruct (negb _); [discriminate|].
    destruct (Skeleton.in_code _ _); [|discriminate].
    inversion Hsk; subst l; clear Hsk.
    destruct (rel_frel p s fi f a R) as (base & nrest & [Q1 Q2 Q3 Q4 Q5] & Hsp).
    destruct R as [_ Ripf Rch Rpc _ _ Rexc]. unfold sp in Hsp.
    rewrite Hh in Q3. destruct Q3 as (top & others & H1 & H2).
    inversion H2 as [|h0 k top' tl' R0 Rt]; subst.
    destruct R0 as (K1 & K2 & K3 & K4 & K5).
    cbn [bs_fib w_pc w_ip] in Hst. rewrite H1 in Hst. cbn [app] in Hst.
    destruct (speek (bs_fib s) 0) as [rv|]; [|discriminate]. inv_next.
    match goal with
    | |- context [close_upvalues ?x ?n] =>
      set (s0 := x) in *;
      assert (D0 : desc (fb_open (bs_fib s0))) by exact (proj1 I);
      pose proof (close_upvalues_open s0 n D0) as CO;
      destruct (close_upvalues_rest s0 n) as (C1 & C2 & C3 & C4 & C5 & C6 & C7 & C8 & C9);
      pose proof (close_upvalues_handlers s0 n) as CH;
      set (s1 := close_upvalues s0 n) in *; clearbody s1
    end.
    eexists. split; [left; reflexivity|].
    eapply (frel_rel p _ fi f base nrest);
      cbn [Skeleton.pc Skeleton.h Skeleton.handlers Skeleton.captured Skeleton.pending Skeleton.exc].
    - constructor; cbn.
      + rewrite C4. exact Q1.
      + rewrite C1. exact Q2.
      + rewrite CH. cbn. exists top', others. split; [reflexivity | exact Rt].
      + rewrite CO. cbn. rewrite K4. apply cap_rel_filter. exact Q4.
      + rewrite C2. cbn. split; [exact Ripf | reflexivity].
    - cbn. exact K1.
    - cbn. rewrite C6. exact Rch.
    - cbn. exact K3.
    - unfold sp. cbn. rewrite K4. reflexivity.
    - cbn. rewrite C8. exact Rexc.
  Qed.

  (* Throw: the exceptional edge only *)
  Lemma refine_throw : forall s fi f a s' l i nx,
      rel p s fi f a -> OInv s -> Bytecode.decode p f (Skeleton.pc a) = Some (i, nx) ->
      Bytecode.iop i = Bytecode.OpThrow ->
      Skeleton.step false p f a = Skeleton.Next l -> BcVM.step s = BNext s' ->
      (exists a', In a' l /\ rel p s' fi f a') \/ (raised s s' /\ Skeleton.handlers a = []).
  Proof.
    intros s fi f a s' l i nx R I D Eop Hsk Hst.
    rewrite (step_is_exec s fi f a i nx R D) in Hst.
    unfold exec in Hst. rewrite Eop in Hst. cbv zeta in Hst.
    assert (Ra : raised s s').
    { eexists. split; [|exact Hst]. repeat split. }
    sk_open Hsk D Eop.
    destruct (Skeleton.h a =? 0)%N; [discriminate|].
    unfold Skeleton.exc_edge in Hsk.
    destruct (Skeleton.handlers a) as [|hd tl] eqn:Hh; [right; split; [exact Ra | reflexivity]|].
    destruct (Skeleton.hheight hd <=? _)%N; [|discriminate]. inversion Hsk; subst l. clear Hsk.
    left. eexists. split; [left; reflexivity|].
    eapply raised_edge; eassumption.
  Qed.

  (* EndFinally: take_return_data after the optional re-raise *)
  Definition after_take (t : Skeleton.fstate) : Skeleton.fstate :=
    match Skeleton.pending t with
    | Some r => Skeleton.mkS r (Skeleton.h t + 1) (Skeleton.handlers t) (Skeleton.captured t) None (Skeleton.exc t)
    | None => t
    end.

  Lemma take_rel : forall s1 fi f t s',
      rel p s1 fi f t ->
      match fb_retip (bs_fib s1) with
      | Some (rf, rp) =>
        BNext (w_ip (w_fib s1 (spush (w_ret (bs_fib s1) VNil None) (fb_retval (bs_fib s1)))) rf rp)
      | None => BNext s1
      end = BNext s' ->
      rel p s' fi f (after_take t).
  Proof.
    intros s1 fi f t s' R H.
    destruct (rel_frel p s1 fi f t R) as (base & nrest & [Q1 Q2 Q3 Q4 Q5] & Hsp).
    destruct R as [_ Ripf Rch Rpc _ _ Rexc]. unfold sp in Hsp. unfold after_take.
    destruct (fb_retip (bs_fib s1)) as [[rf rp]|] eqn:Er.
    - destruct Q5 as [G P]. rewrite P. inv_next.
      eapply (frel_rel p _ fi f base nrest);
        cbn [Skeleton.pc Skeleton.h Skeleton.handlers Skeleton.captured Skeleton.pending Skeleton.exc].
      + constructor; cbn; try assumption. reflexivity.
      + cbn. reflexivity.
      + cbn. exact Rch.
      + reflexivity.
      + unfold sp. cbn. lia.
      + cbn. exact Rexc.
    - rewrite Q5. inv_next.
      eapply (frel_rel p _ fi f base nrest); try assumption.
      constructor; try assumption. rewrite Er. exact Q5.
  Qed.

  Lemma refine_end_finally : forall s fi f a s' l i nx,
      rel p s fi f a -> OInv s -> Bytecode.decode p f (Skeleton.pc a) = Some (i, nx) ->
      Bytecode.iop i = Bytecode.OpEndFinally ->
      Skeleton.step false p f a = Skeleton.Next l -> BcVM.step s = BNext s' ->
      (exists a', In a' l /\ rel p s' fi f a') \/ Skeleton.handlers a = [].
  Proof.
    intros s fi f a s' l i nx R I D Eop Hsk Hst.
    rewrite (step_is_exec s fi f a i nx R D) in Hst.
    unfold exec in Hst. rewrite Eop in Hst. cbv zeta in Hst.
    sk_open Hsk D Eop.
    (* the state after the operand-less fetch *)
    set (t0 := Skeleton.mkS nx (Skeleton.h a) (Skeleton.handlers a) (Skeleton.captured a)
                            (Skeleton.pending a) (Skeleton.exc a)).
    assert (R0 : rel p (w_pc s nx) fi f t0).
    { pose proof (rel_normal p s fi f a (w_pc s nx) nx 0 0 (Skeleton.exc a) R) as Q.
      replace (Skeleton.h a - 0 + 0)%N with (Skeleton.h a) in Q by lia. apply Q.
      - split; [repeat split|]. split; [reflexivity | unfold sp; cbn; lia].
      - lia.
      - left; reflexivity. }
    assert (I0 : OInv (w_pc s nx)) by (eapply OInv_same; [| |exact I]; reflexivity).
    set (s0 := w_pc s nx) in *. clearbody s0.
    assert (Ex : Skeleton.exc t0 = Skeleton.exc a) by reflexivity.
    assert (Fl : flag_ok (bs_he s0) (Skeleton.exc a)) by (destruct R0 as [_ _ _ _ _ _ Q]; exact Q).
    destruct (bs_he s0) eqn:Ehe.
    - (* handling_exception: re-raise, then take the pending return *)
      destruct (unwind s0) as [s1| | | |] eqn:Eu; try discriminate Hst.
      destruct (Skeleton.handlers a) as [|hd tl] eqn:Hh; [right; reflexivity|]. left.
      assert (R1 : rel p s1 fi f (edge_state hd tl (Skeleton.captured a) (Skeleton.pending a))).
      { eapply (raised_edge p s0 fi f t0 s1 hd tl R0 I0 (unwind_raised _ _ Eu)). first [exact Hh | reflexivity]. }
      pose proof (take_rel s1 fi f _ s' R1 Hst) as R2.
      exists (after_take (edge_state hd tl (Skeleton.captured a) (Skeleton.pending a))). split; [|exact R2].
      unfold Skeleton.rapp in Hsk.
      destruct (Skeleton.exc a) eqn:Exc; cbn in Fl; try discriminate Fl.
      + (* XUnknown *)
        destruct (Skeleton.h a =? 0)%N; [discriminate|].
        unfold Skeleton.exc_edge in Hsk. rewrite Hh in Hsk.
        destruct (Skeleton.hheight hd <=? _)%N; [|discriminate]. cbn [map] in Hsk.
        inversion Hsk; subst l. right. apply in_or_app. right. left.
        unfold after_take, edge_state. cbn. reflexivity.
      + (* XTrue *)
        destruct (Skeleton.h a =? 0)%N; [discriminate|].
        unfold Skeleton.exc_edge in Hsk. rewrite Hh in Hsk.
        destruct (Skeleton.hheight hd <=? _)%N; [|discriminate]. cbn [map app] in Hsk.
        inversion Hsk; subst l. left.
        unfold after_take, edge_state. cbn. reflexivity.
    - (* quiet *)
      left. pose proof (take_rel s0 fi f t0 s' R0 Hst) as R2.
      exists (after_take t0). split; [|exact R2].
      unfold Skeleton.rapp in Hsk.
      destruct (Skeleton.exc a) eqn:Exc; cbn in Fl; try discriminate Fl.
      + (* XUnknown *)
        destruct (Skeleton.h a =? 0)%N; [discriminate|].
        destruct (Skeleton.exc_edge a _) as [r|l1]; [discriminate|]. inversion Hsk; subst l.
        unfold after_take, t0. cbn.
        destruct (Skeleton.pending a) eqn:Ep; [right; left; reflexivity | left; reflexivity].
      + (* XFalse *)
        inversion Hsk; subst l. unfold after_take, t0. cbn.
        destruct (Skeleton.pending a) eqn:Ep; [right; left; reflexivity | left; reflexivity].
  Qed.

  (* 58 of the 65 opcodes; missing: Call, Invoke, SuperInvoke, IterNext, StartImport (they enter a callee frame or a
     native / switch fibers), Return (leaves the frame), Closure (capture_upvalue vs insert_slot not done) *)
  Definition covered (o : Bytecode.opcode) : bool :=
    S1 o || is_jump o ||
    match o with
    | Bytecode.OpPushExcHandler | Bytecode.OpPopExcHandler | Bytecode.OpCloseUpvalue
    | Bytecode.OpJumpFinally | Bytecode.OpThrow | Bytecode.OpEndFinally => true
    | _ => false
    end.

  Theorem bcvm_refines_skeleton_frame_partial : forall s fi f a s' l i nx,
      rel p s fi f a -> OInv s ->
      Bytecode.decode p f (Skeleton.pc a) = Some (i, nx) ->
      covered (Bytecode.iop i) = true ->
      Skeleton.step false p f a = Skeleton.Next l ->
      BcVM.step s = BNext s' ->
      (exists a', In a' l /\ rel p s' fi f a') \/ Skeleton.handlers a = [].
  Proof.
    intros s fi f a s' l i nx R I D C Hsk Hst.
    unfold covered in C. apply orb_true_iff in C as [C|C]; [apply orb_true_iff in C|].
    - destruct (bcvm_refines_skeleton_simple p s fi f a s' l i nx R I D C Hsk Hst) as [Q|[_ Q]];
        [left; exact Q | right; exact Q].
    - destruct (Bytecode.iop i) eqn:Eop; try discriminate C.
      + destruct (refine_jump_finally s fi f a s' l i nx R I D Eop Hsk Hst) as (a' & Q). left; exists a'; exact Q.
      + exact (refine_end_finally s fi f a s' l i nx R I D Eop Hsk Hst).
      + destruct (refine_push_handler s fi f a s' l i nx R D Eop Hsk Hst) as (a' & Q). left; exists a'; exact Q.
      + destruct (refine_pop_handler s fi f a s' l i nx R D Eop Hsk Hst) as (a' & Q). left; exists a'; exact Q.
      + destruct (refine_throw s fi f a s' l i nx R I D Eop Hsk Hst) as [Q|[_ Q]]; [left; exact Q | right; exact Q].
      + destruct (refine_close_upvalue s fi f a s' l i nx R I D Eop Hsk Hst) as (a' & Q). left; exists a'; exact Q.
  Qed.

  (* (b), per frame: under the verifier's acceptance the covered instructions keep a frame inside the abstract
     states the verifier has proved safe (so its guarantees - heights, operand validity, handler shapes - hold
     of the concrete machine), until an exception leaves the frame *)
  Theorem verified_frame_stays_verified_partial : forall n m fi f a s,
      Verifier.verify_program p = Verifier.VOk n m ->
      nth_error p fi = Some f ->
      VerifierProofs.reachable false p f a ->
      rel p s fi f a -> OInv s ->
      exists i nx, fetch s = Some (i, nx) /\
        (covered (Bytecode.iop i) = true ->
         forall s', BcVM.step s = BNext s' ->
                    (exists a', VerifierProofs.reachable false p f a' /\ rel p s' fi f a' /\ OInv s')
                    \/ Skeleton.handlers a = []).
  Proof.
    intros n m fi f a s Hv Hf Hr R I.
    pose proof (VerifierProofs.verify_sound p n m Hv f (nth_error_In _ _ Hf) a Hr) as NS.
    destruct (skeleton_not_stuck_decodes p f a NS) as (i & nx & D).
    exists i, nx. split; [rewrite (rel_fetch p s fi f a R); exact D|].
    intros HS s' Hst.
    destruct (Skeleton.succs false p f a) as [l|] eqn:El; [|exfalso; apply NS; reflexivity].
    assert (Hsk : Skeleton.step false p f a = Skeleton.Next l).
    { unfold Skeleton.succs, Skeleton.succs_at in El. unfold Skeleton.step.
      destruct (Skeleton.step_at _ _ _ _ _); [discriminate | inversion El; reflexivity]. }
    destruct (bcvm_refines_skeleton_frame_partial s fi f a s' l i nx R I D HS Hsk Hst) as [(a' & Hin & R')|Q];
      [left | right; exact Q].
    exists a'. split; [|split; [exact R' | eapply step_OInv; eassumption]].
    eapply VerifierProofs.reach_step; [exact Hr | exact El | exact Hin].
  Qed.
End Refine4.
Print Assumptions bcvm_refines_skeleton_frame_partial.
Print Assumptions verified_frame_stays_verified_partial.

(* ------------------------------------------------------------------ *)
(** * 7. Non-vacuity: the hypotheses of the refinement theorems are satisfiable

   A two-instruction function [Nil; Return] in its entry state: [rel] and [OInv] hold, the verifier accepts
   the program, and the theorem's conclusion is the left disjunct. *)
Definition ex_fn : Bytecode.fn := Bytecode.mkFn [1%N; 57%N] [] 1%N 0%N.
Definition ex_prog : Bytecode.program := [ex_fn].
Definition ex_bfn : bfn := mkBFn ex_fn [] (PM.empty _) [(1%N, 2%N)] (imap_of ex_prog ex_fn).
Definition ex_env : benv := mkEnv (PM.add (nkey 0%N) ex_bfn (PM.empty _)) [].
Definition ex_fiber : bfiber :=
  mkFib (PM.add (nkey 0%N) VNil (PM.empty _)) 1%N [mkFrame xH 0%N 0%N 0%N 0%N] [] [] None 1%N VNil None None.
Definition ex_state : bstate :=
  mkBS empty_store xH ex_fiber (PM.empty _) 0%N 0%N xH 0%N false None (PM.empty _) (PM.empty _) [] ex_env.

Example rel_satisfiable :
  rel ex_prog ex_state 0 ex_fn (Skeleton.entry_state ex_fn) /\ OInv ex_state /\
  Verifier.verdict_accepts (Verifier.verify_program ex_prog) = true /\
  exists s', BcVM.step ex_state = BNext s' /\
             rel ex_prog s' 0 ex_fn (Skeleton.mkS 1%N 2%N [] [] None Skeleton.XUnknown).
Proof.
  assert (R : rel ex_prog ex_state 0 ex_fn (Skeleton.entry_state ex_fn)).
  { constructor; cbn.
    - exists ex_bfn. repeat split.
    - reflexivity.
    - reflexivity.
    - reflexivity.
    - eexists _, []. repeat split. exists [], []. split; [reflexivity | constructor].
    - reflexivity.
    - exact I. }
  assert (O : OInv ex_state).
  { split; [apply desc_nil|]. intros a fb H. cbn in H. rewrite PositiveMap.gempty in H. discriminate. }
  split; [exact R|]. split; [exact O|]. split; [vm_compute; reflexivity|].
  assert (D : Bytecode.decode ex_prog ex_fn 0%N = Some (Bytecode.mkInstr Bytecode.OpNil 0 0 [], 1%N)) by reflexivity.
  assert (Hsk : exists l, Skeleton.step false ex_prog ex_fn (Skeleton.entry_state ex_fn) = Skeleton.Next l).
  { eexists. vm_compute. reflexivity. }
  destruct Hsk as [l Hsk].
  destruct (BcVM.step ex_state) as [s'| | | |] eqn:Es; try (vm_compute in Es; discriminate Es).
  exists s'. split; [reflexivity|].
  destruct (bcvm_refines_skeleton_partial ex_prog ex_state 0 ex_fn _ s' l _ _ R D (or_introl eq_refl) Hsk Es)
    as [(a' & Hin & R')|Hn].
  - vm_compute in Hsk. inversion Hsk; subst l. destruct Hin as [<-|[]]. exact R'.
  - exfalso. unfold shorter in Hn. cbn in Hn. lia.
Qed.

(* ------------------------------------------------------------------ *)
(** * 8. Fuel: a finished run is independent of the fuel *)

Definition finished (r : brres) : Prop := match r with BRMore _ => False | _ => True end.

Theorem run_fuel_monotone : forall n s r,
    BcVM.run n s = r -> finished r -> forall m, (n <= m)%nat -> BcVM.run m s = r.
Proof.
  induction n as [|n IH]; intros s r H F m Hm.
  - cbn in H. subst r. destruct F.
  - destruct m as [|m]; [lia|]. cbn [BcVM.run] in *.
    destruct (BcVM.step s) as [s1| | | |]; try exact H.
    eapply IH; [exact H | exact F | lia].
Qed.

Theorem run_add : forall n m s s', BcVM.run n s = BRMore s' -> BcVM.run (n + m) s = BcVM.run m s'.
Proof.
  induction n as [|n IH]; intros m s s' H.
  - cbn in H. inversion H; subst. reflexivity.
  - cbn [BcVM.run Nat.add] in *. destruct (BcVM.step s) as [s1| | | |]; try discriminate H.
    apply IH; exact H.
Qed.

Theorem run_blocks_run : forall n s, BcVM.run_blocks n s = BcVM.run (n * 1000) s.
Proof.
  induction n as [|n IH]; intros s; [reflexivity|].
  cbn [BcVM.run_blocks]. replace (S n * 1000)%nat with (1000 + n * 1000)%nat by lia.
  destruct (BcVM.run 1000 s) as [s1| | | |] eqn:E.
  - rewrite (run_add 1000 (n * 1000) s s1 E). apply IH.
  - symmetry. eapply run_fuel_monotone; [exact E | exact I | lia].
  - symmetry. eapply run_fuel_monotone; [exact E | exact I | lia].
  - symmetry. eapply run_fuel_monotone; [exact E | exact I | lia].
  - symmetry. eapply run_fuel_monotone; [exact E | exact I | lia].
Qed.
Print Assumptions run_blocks_run.

(* ------------------------------------------------------------------ *)
(** * 9. The FULL refinement (every instruction, across frames) is false of the real VM: return_ip leaks across frames

   The Skeleton treats the pending return (return_ip / return_value, set by JumpFinally) as frame-local; in vm.rs
   they are per FIBER.  A function called from a finally block while a return is pending, and which itself ends a
   try/finally, takes the CALLER's return address in its EndFinally: the callee's frame then executes the caller's
   code (here its Return instruction) - a state no per-frame abstract state describes ([rel] demands that the
   frame runs its own function's code).  Witness: the real compiler's byte code for

     fn g() { try { print("g-try"); } finally { print("g-fin"); } return 5; }
     fn f() { try { return 1; } finally { print("f-fin"); g(); print("after g"); } print("fall"); return 2; }
     print(f());

   which the bytecode verifier ACCEPTS (verdict NONUNIQUE, no function rejected), after 28 instructions; the real VM
   does the same (hook H4 trace; the script prints "2" instead of "1").  So [bcvm_refines_skeleton] can only hold
   for calls made while no return is pending; the cross-frame part of (a)/(b) is REFUTED, not merely unproved. *)

Definition witness2_wire : string :=
  "14;1 0 32;;58 0 0 9 0 0 8 0 0 55 2 0 62 1 0 59 10 0 0 4 58 3 0 9 3 0 8 0 0 8 3 0 60 8 3 0 59 10 3 0 4 4 58 4 0 9 4 0 8 0 0 8 4 0 60 8 4 0 59 10 4 0 4 4 58 5 0 9 5 0 8 0 0 8 5 0 60 8 5 0 59 10 5 0 4 4 58 6 0 9 6 0 8 0 0 8 6 0 60 8 6 0 59 10 6 0 4 4 58 7 0 9 7 0 8 0 0 8 7 0 60 8 7 0 59 10 7 0 4 4 58 8 0 9 8 0 8 0 0 8 8 0 60 8 8 0 59 10 8 0 4 4 58 9 0 9 9 0 8 0 0 8 9 0 60 8 9 0 59 10 9 0 4 4 58 10 0 9 10 0 8 0 0 8 10 0 60 8 10 0 55 11 0 1 1 62 1 0 59 10 10 0 4 56 58 12 0 9 12 0 8 12 0 55 14 0 61 13 0 55 16 0 61 15 0 55 18 0 61 17 0 55 20 0 61 19 0 55 22 0 61 21 0 59 10 12 0 4 58 23 0 9 23 0 8 12 0 8 23 0 60 8 23 0 55 24 0 62 1 0 55 25 0 61 13 0 55 27 0 61 26 0 59 10 23 0 4 4 58 28 0 9 28 0 8 12 0 8 28 0 60 8 28 0 55 29 0 62 1 0 55 30 0 61 13 0 55 31 0 61 26 0 59 10 28 0 4 4 1 57;1 9 5 6 6 5 9 12 8 1 9 9 12 12 11 1 12 9 15 12 14 1 15 9 18 12 17 1 18 9 21 12 20 1 21 9 24 12 23 1 24 9 27 12 26 1 27 9 30 12 29 1 30 3 34 8 35 6 37 9 40 6 44 6 52 6 56 6 64 6 65 5 68 12 67 1 68 3 73 6 77 6 85 6 86 6 89 12 88 1 89 3 94 6 98 6 106 6 107 6 108 2;0 69 114 114 111 114;0 110 101 119;2 1;0 82 117 110 116 105 109 101 69 114 114 111 114;0 65 116 116 114 105 98 117 116 101 69 114 114 111 114;0 73 110 100 101 120 69 114 114 111 114;0 73 109 112 111 114 116 69 114 114 111 114;0 78 97 109 101 69 114 114 111 114;0 84 121 112 101 69 114 114 111 114;0 86 97 108 117 101 69 114 114 111 114;0 83 116 111 112 73 116 101 114;2 2;0 73 116 101 114;0 105 116 101 114;2 3;0 109 97 112;2 4;0 99 111 108 108 101 99 116;2 5;0 102 105 108 116 101 114;2 6;0 114 101 100 117 99 101;2 7;0 77 97 112 73 116 101 114;2 8;2 9;0 110 101 120 116;2 10;0 70 105 108 116 101 114 73 116 101 114;2 11;2 12;2 13;2 0 1;110 101 119;53 1 6 0 6 1 14 0 0 4 6 0 57;3 2 4 8 5 3;0 99 111 110 116 101 120 116;1 1 1;110 101 119;53 0 6 0 1 11 0 54 0 0 1 4 6 0 57;32 2 33 10 34 3;0 110 101 119;1 0 0;105 116 101 114;6 0 57 1 57;39 3 40 2;2 0 3;109 97 112;8 0 0 6 0 52 2 0 0 6 1 52 1 0 2 57 1 57;43 16 44 2;0 77 97 112 73 116 101 114;0 110 101 119;0 105 116 101 114;1 0 2;99 111 108 108 101 99 116;40 0 1 6 0 52 0 0 0 41 7 2 44 13 0 4 6 1 6 2 52 1 0 1 4 45 19 0 4 4 4 6 1 57 1 57;47 2 48 14 49 9 50 6 51 3 52 2;0 105 116 101 114;0 112 117 115 104;2 0 3;102 105 108 116 101 114;8 0 0 6 0 52 2 0 0 6 1 52 1 0 2 57 1 57;55 16 56 2;0 70 105 108 116 101 114 73 116 101 114;0 110 101 119;0 105 116 101 114;3 0 1;114 101 100 117 99 101;6 2 1 6 0 52 0 0 0 41 7 4 44 15 0 4 6 1 6 3 6 4 51 2 7 3 4 45 21 0 4 4 4 6 3 57 1 57;59 2 60 14 61 11 62 6 63 3 64 2;0 105 116 101 114;3 0 2;110 101 119;53 2 6 0 6 1 14 0 0 4 6 0 6 2 14 1 0 4 6 0 57;70 2 71 8 72 8 73 3;0 105 116 101 114 97 98 108 101;0 102 117 110 99;1 0 0;105 116 101 114;6 0 57 1 57;76 3 77 2;1 0 5;110 101 120 116;6 0 13 0 0 52 1 0 0 6 1 8 3 0 52 2 0 1 43 7 0 4 6 1 57 42 1 0 4 6 0 6 1 52 4 0 1 57 1 57;80 9 81 13 82 3 83 4 84 9 85 2;0 105 116 101 114 97 98 108 101;0 110 101 120 116;0 100 101 114 105 118 101 115;0 83 116 111 112 73 116 101 114;0 102 117 110 99;3 0 2;110 101 119;53 2 6 0 6 1 14 0 0 4 6 0 6 2 14 1 0 4 6 0 57;91 2 92 8 93 8 94 3;0 105 116 101 114 97 98 108 101;0 112 114 101 100 105 99 97 116 101;1 0 0;105 116 101 114;6 0 57 1 57;97 3 98 2;1 0 5;110 101 120 116;6 0 13 0 0 52 1 0 0 6 1 8 3 0 52 2 0 1 28 43 10 0 4 6 0 6 1 52 4 0 1 28 43 16 0 4 6 0 13 0 0 52 1 0 0 7 1 4 45 42 0 4 6 1 57 1 57;101 9 102 27 103 12 104 4 105 3 106 2;0 105 116 101 114 97 98 108 101;0 110 101 120 116;0 100 101 114 105 118 101 115;0 83 116 111 112 73 116 101 114;0 112 114 101 100 105 99 97 116 101|3;1 0 5;;55 1 0 9 0 0 55 3 0 9 2 0 8 4 0 8 2 0 51 0 51 1 4 1 57;1 6 2 6 3 11 4 2;0 103;2 1;0 102;2 2;0 112 114 105 110 116;1 0 4;103;48 13 0 0 0 8 0 0 0 1 0 51 1 4 49 42 0 0 8 0 0 0 2 0 51 1 4 47 0 3 0 57 1 57;1 34;0 112 114 105 110 116;0 103 45 116 114 121;0 103 45 102 105 110;1 4617315517961601024;1 0 7;102;48 9 0 0 0 0 0 0 46 57 49 42 0 0 8 1 0 0 2 0 51 1 4 8 3 0 51 0 4 8 1 0 0 4 0 51 1 4 47 8 1 0 0 5 0 51 1 4 0 6 0 57 1 57;2 54;1 4607182418800017408;0 112 114 105 110 116;0 102 45 102 105 110;0 103;0 97 102 116 101 114 32 103;0 102 97 108 108;1 4611686018427387904".

Definition prog_of_wire (w : string) : Bytecode.program :=
  match load_wire w with Some ld => ld_prog ld | None => [] end.

Lemma rel_own_code : forall p s fi f a, rel p s fi f a -> bs_ipf s = bs_chunk s.
Proof. intros p s fi f a R. destruct R as [_ Ripf Rch _ _ _ _]. congruence. Qed.

Lemma witness2_verified :
  Verifier.verdict_accepts (Verifier.verify_program (prog_of_wire witness2_wire)) = true.
Proof. vm_compute. reflexivity. Qed.

Lemma witness2_computation :
  match start_of_wire witness2_wire with
  | Some s0 =>
    match BcVM.run 28 s0 with
    | BRMore s => negb (bs_ipf s =? bs_chunk s)%N
    | _ => false
    end
  | None => false
  end = true.
Proof. vm_compute. reflexivity. Qed.

Theorem bcvm_refines_skeleton_refuted :
  exists (s0 s : bstate),
    Verifier.verdict_accepts (Verifier.verify_program (prog_of_wire witness2_wire)) = true /\
    start_of_wire witness2_wire = Some s0 /\ BcVM.run 28 s0 = BRMore s /\
    forall p fi f a, ~ rel p s fi f a.
Proof.
  pose proof witness2_computation as W2.
  destruct (start_of_wire witness2_wire) as [s0|]; [|discriminate].
  destruct (BcVM.run 28 s0) as [s| | | |] eqn:Er; try discriminate.
  exists s0, s. split; [exact witness2_verified|]. split; [reflexivity|]. split; [exact Er|].
  intros p fi f a R. apply rel_own_code in R. rewrite R, N.eqb_refl in W2. discriminate.
Qed.
Print Assumptions bcvm_refines_skeleton_refuted.

(* ------------------------------------------------------------------ *)
(** * 10. Closure: capture_upvalue on the descending open list = insert_slot on the ascending captured set *)

Fixpoint ins_d (loc : N) (l : list N) : list N :=
  match l with
  | [] => [loc]
  | x :: r => if (loc <? x)%N then x :: ins_d loc r else if (x =? loc)%N then l else loc :: l
  end.

Lemma capture_go_slots : forall loc open fr,
    map fst (fst (fst (capture_go loc open fr))) = ins_d loc (map fst open).
Proof.
  intros loc open fr; induction open as [|[s u] r IH]; cbn [capture_go map fst ins_d]; [reflexivity|].
  destruct (loc <? s)%N.
  - destruct (capture_go loc r fr) as [[r' a] isnew]. cbn in *. rewrite IH. reflexivity.
  - destruct (s =? loc)%N; reflexivity.
Qed.

(* strictly descending lists of slots *)
Fixpoint sdesc (b : N) (l : list N) : Prop :=
  match l with [] => True | x :: r => (x < b)%N /\ sdesc x r end.

Lemma sdesc_mono : forall l b b', sdesc b l -> (b <= b')%N -> sdesc b' l.
Proof. intros [|x r] b b' H Hle; cbn in *; [exact I|]. destruct H; split; [lia | assumption]. Qed.

Lemma desc_lt_sdesc : forall l b, desc_lt b l -> sdesc b (map fst l).
Proof. induction l as [|[s u] r IH]; intros b H; cbn in *; [exact I|]. destruct H; split; [assumption | apply IH; assumption]. Qed.

Lemma filter_none_lt : forall l b base, sdesc b l -> (b <= base)%N -> filter (fun x => (base <=? x)%N) l = [].
Proof.
  induction l as [|x r IH]; intros b base H Hle; cbn; [reflexivity|]. destruct H as [Hx Hr].
  assert (E : (base <=? x)%N = false) by (apply N.leb_gt; lia). rewrite E. eapply IH; [exact Hr | lia].
Qed.

(* F1: for loc >= base, filtering the slots >= base commutes with the insertion *)
Lemma filter_ins_d : forall l b base loc, sdesc b l -> (base <= loc)%N ->
    filter (fun x => (base <=? x)%N) (ins_d loc l) = ins_d loc (filter (fun x => (base <=? x)%N) l).
Proof.
  induction l as [|x r IH]; intros b base loc H Hloc; cbn [ins_d filter].
  - assert (E : (base <=? loc)%N = true) by (apply N.leb_le; exact Hloc). rewrite E. reflexivity.
  - destruct H as [Hx Hr].
    destruct (loc <? x)%N eqn:E1.
    + apply N.ltb_lt in E1. assert (E : (base <=? x)%N = true) by (apply N.leb_le; lia).
      cbn [filter]. rewrite E. cbn [ins_d]. assert (E1' : (loc <? x)%N = true) by (apply N.ltb_lt; exact E1).
      rewrite E1'. f_equal. eapply IH; eassumption.
    + apply N.ltb_ge in E1. destruct (x =? loc)%N eqn:E2.
      * apply N.eqb_eq in E2. subst x. assert (E : (base <=? loc)%N = true) by (apply N.leb_le; exact Hloc).
        cbn [filter]. rewrite E. cbn [ins_d]. rewrite N.ltb_irrefl, N.eqb_refl. reflexivity.
      * apply N.eqb_neq in E2. assert (E : (base <=? loc)%N = true) by (apply N.leb_le; exact Hloc).
        cbn [filter]. rewrite E.
        destruct (base <=? x)%N eqn:E3.
        -- cbn [ins_d]. assert (A : (loc <? x)%N = false) by (apply N.ltb_ge; exact E1). rewrite A.
           assert (B : (x =? loc)%N = false) by (apply N.eqb_neq; exact E2). rewrite B. reflexivity.
        -- (* x < base <= loc: everything from x on is filtered out *)
           apply N.leb_gt in E3.
           rewrite (filter_none_lt r x base Hr) by lia. reflexivity.
Qed.

Lemma ins_d_all_gt : forall l loc, Forall (fun y => (loc < y)%N) l -> ins_d loc l = l ++ [loc].
Proof.
  induction l as [|x r IH]; intros loc H; cbn [ins_d app]; [reflexivity|].
  inversion H as [|? ? Hx Hr]; subst. assert (E : (loc <? x)%N = true) by (apply N.ltb_lt; exact Hx).
  rewrite E. f_equal. apply IH; exact Hr.
Qed.

Lemma ins_d_app_small : forall l loc x, (x < loc)%N -> ins_d loc (l ++ [x]) = ins_d loc l ++ [x].
Proof.
  induction l as [|y r IH]; intros loc x H; cbn [ins_d app].
  - assert (E : (loc <? x)%N = false) by (apply N.ltb_ge; lia).
    assert (E2 : (x =? loc)%N = false) by (apply N.eqb_neq; lia). rewrite E, E2. reflexivity.
  - destruct (loc <? y)%N; [cbn [app]; f_equal; apply IH; exact H|].
    destruct (y =? loc)%N; reflexivity.
Qed.

Lemma ins_d_last_eq : forall l x, Forall (fun y => (x < y)%N) l -> ins_d x (l ++ [x]) = l ++ [x].
Proof.
  induction l as [|y r IH]; intros x H; cbn [ins_d app].
  - rewrite N.ltb_irrefl, N.eqb_refl. reflexivity.
  - inversion H as [|? ? Hy Hr]; subst. assert (E : (x <? y)%N = true) by (apply N.ltb_lt; exact Hy).
    rewrite E. f_equal. apply IH; exact Hr.
Qed.

(* strictly ascending captured sets *)
Fixpoint sasc (lo : option N) (l : list N) : Prop :=
  match l with
  | [] => True
  | x :: r => match lo with Some b => (b < x)%N | None => True end /\ sasc (Some x) r
  end.

Lemma sasc_forall_gt : forall l b, sasc (Some b) l -> Forall (fun y => (b < y)%N) l.
Proof.
  induction l as [|x r IH]; intros b H; [constructor|]. destruct H as [Hx Hr].
  constructor; [exact Hx|]. apply IH in Hr. eapply Forall_impl; [|exact Hr]. cbn. intros; lia.
Qed.

(* F2 *)
Lemma ins_d_insert_slot : forall cap lo base sl, sasc lo cap ->
    ins_d (base + sl) (rev (map (N.add base) cap)) = rev (map (N.add base) (Skeleton.insert_slot sl cap)).
Proof.
  induction cap as [|x r IH]; intros lo base sl H; cbn [Skeleton.insert_slot map rev ins_d app]; [reflexivity|].
  destruct H as [_ Hr].
  assert (G : Forall (fun y => (base + x < y)%N) (rev (map (N.add base) r))).
  { apply Forall_rev. apply sasc_forall_gt in Hr. rewrite Forall_map. eapply Forall_impl; [|exact Hr]. cbn. intros; lia. }
  destruct (sl <? x)%N eqn:E1.
  - apply N.ltb_lt in E1. cbn [map rev].
    rewrite <- app_assoc. cbn [app].
    rewrite ins_d_all_gt.
    + rewrite <- app_assoc. reflexivity.
    + apply Forall_app. split; [eapply Forall_impl; [|exact G]; cbn; intros; lia | constructor; [lia | constructor]].
  - apply N.ltb_ge in E1. destruct (sl =? x)%N eqn:E2.
    + apply N.eqb_eq in E2. subst sl. cbn [map rev]. apply ins_d_last_eq. exact G.
    + apply N.eqb_neq in E2. cbn [map rev]. rewrite ins_d_app_small by lia.
      f_equal. eapply IH. exact Hr.
Qed.

(* F3: the captured set is strictly ascending when the open list is strictly descending *)
Lemma sdesc_filter : forall l b P, sdesc b l -> sdesc b (filter P l).
Proof.
  induction l as [|x r IH]; intros b P H; cbn; [exact I|]. destruct H as [Hx Hr].
  destruct (P x); cbn; [split; [exact Hx | apply IH; exact Hr]|].
  eapply sdesc_mono; [apply IH; exact Hr | lia].
Qed.

Lemma sdesc_rev_map_sasc : forall cap base b, sdesc b (rev (map (N.add base) cap)) -> sasc None cap.
Proof.
  induction cap as [|x r IH]; intros base b H; [exact I|]. cbn [map rev] in H.
  split; [exact I|].
  (* the last element of the descending list is the smallest *)
  assert (K : forall (A : list N) (y b : N), sdesc b (A ++ [y]) -> sdesc b A /\ Forall (fun z => (y < z)%N) A).
  { induction A as [|z A' IHA]; intros y b0 HA; cbn in *; [split; [exact I | constructor]|].
    destruct HA as [Hz HA']. destruct (IHA y z HA') as [S1' F1']. split; [split; assumption|].
    constructor; [|exact F1'].
    clear -HA'. revert z HA'. induction A' as [|w A'' IHw]; intros z HA'; cbn in *; [lia|].
    destruct HA' as [Hw HA'']. specialize (IHw w HA''). lia. }
  destruct (K _ _ _ H) as [S1' F1'].
  assert (Hr : sasc None r) by (eapply IH; exact S1').
  destruct r as [|y r']; [exact I|]. cbn. destruct Hr as [_ Hr']. split; [|exact Hr'].
  cbn [map rev] in F1'. apply Forall_app in F1' as [_ F2]. inversion F2; subst. lia.
Qed.

Lemma capture_go_notnew : forall loc open fr,
    snd (capture_go loc open fr) = false -> fst (fst (capture_go loc open fr)) = open.
Proof.
  intros loc open fr; induction open as [|[s u] r IH]; cbn [capture_go]; intros H; [discriminate H|].
  destruct (loc <? s)%N.
  - destruct (capture_go loc r fr) as [[r' a] isnew]. cbn in *. rewrite IH; [reflexivity | exact H].
  - destruct (s =? loc)%N; [reflexivity | discriminate H].
Qed.

(* what [frel]/[rel] read besides the open list *)
Definition same_frame (s s' : bstate) : Prop :=
  fb_frames (bs_fib s') = fb_frames (bs_fib s) /\ fb_handlers (bs_fib s') = fb_handlers (bs_fib s) /\
  fb_retip (bs_fib s') = fb_retip (bs_fib s) /\ fb_sp (bs_fib s') = fb_sp (bs_fib s) /\
  bs_env s' = bs_env s /\ bs_ipf s' = bs_ipf s /\ bs_chunk s' = bs_chunk s /\ bs_pc s' = bs_pc s /\
  bs_he s' = bs_he s.

Lemma same_frame_refl : forall s, same_frame s s.
Proof. intros s; repeat split. Qed.

Lemma same_frame_trans : forall a b c, same_frame a b -> same_frame b c -> same_frame a c.
Proof.
  unfold same_frame; intros a b c (A1 & A2 & A3 & A4 & A5 & A6 & A7 & A8 & A9) (B1 & B2 & B3 & B4 & B5 & B6 & B7 & B8 & B9).
  repeat split; congruence.
Qed.

Lemma capture_upvalue_facts : forall s loc,
    same_frame s (fst (capture_upvalue s loc)) /\
    fb_open (bs_fib (fst (capture_upvalue s loc))) =
    fst (fst (capture_go loc (fb_open (bs_fib s)) (s_next (bs_store s)))).
Proof.
  intros s loc. unfold capture_upvalue.
  pose proof (capture_go_notnew loc (fb_open (bs_fib s)) (s_next (bs_store s))) as NN.
  destruct (capture_go loc (fb_open (bs_fib s)) (s_next (bs_store s))) as [[op a] isnew]. cbn in NN.
  destruct isnew; cbn.
  - split; [repeat split | reflexivity].
  - split; [repeat split | symmetry; apply NN; reflexivity].
Qed.

Section Refine5.
  Variable p : Bytecode.program.

  Lemma cap_rel_capture : forall base open cap sl fr,
      cap_rel base open cap -> desc open ->
      cap_rel base (fst (fst (capture_go (base + sl) open fr))) (Skeleton.insert_slot sl cap).
  Proof.
    intros base open cap sl fr H [b D]. unfold cap_rel in *.
    rewrite (map_fst_filter (fun x => (base <=? x)%N)) in *.
    rewrite capture_go_slots.
    pose proof (desc_lt_sdesc open b D) as SD.
    rewrite (filter_ins_d (map fst open) b base (base + sl) SD) by lia.
    rewrite H.
    eapply ins_d_insert_slot.
    eapply (sdesc_rev_map_sasc cap base b). rewrite <- H. apply sdesc_filter. exact SD.
  Qed.

  Lemma capture_all_facts : forall uvs s base mine acc s' l cap,
      capture_all s base mine uvs acc = Some (s', l) -> OInv s ->
      cap_rel base (fb_open (bs_fib s)) cap ->
      same_frame s s' /\ cap_rel base (fb_open (bs_fib s')) (Skeleton.capture_all uvs cap).
  Proof.
    induction uvs as [|[[] ix] r IH]; intros s base mine acc s' l cap H I C; cbn [capture_all Skeleton.capture_all] in *.
    - inversion H; subst. split; [apply same_frame_refl | exact C].
    - destruct (capture_upvalue_facts s (base + ix)) as [SF EO].
      pose proof (capture_upvalue_OInv s (base + ix) I) as I1.
      destruct (capture_upvalue s (base + ix)) as [s1 u]. cbn in *.
      assert (C1 : cap_rel base (fb_open (bs_fib s1)) (Skeleton.insert_slot ix cap)).
      { rewrite EO. apply cap_rel_capture; [exact C | exact (proj1 I)]. }
      destruct (IH s1 base mine (u :: acc) s' l _ H I1 C1) as [SF2 C2].
      split; [eapply same_frame_trans; eassumption | exact C2].
    - destruct (nth_error mine (N.to_nat ix)); [|discriminate]. eapply IH; eassumption.
  Qed.

  Lemma refine_closure : forall s fi f a s' l i nx,
      rel p s fi f a -> OInv s -> Bytecode.decode p f (Skeleton.pc a) = Some (i, nx) ->
      Bytecode.iop i = Bytecode.OpClosure ->
      Skeleton.step false p f a = Skeleton.Next l -> BcVM.step s = BNext s' ->
      exists a', In a' l /\ rel p s' fi f a'.
  Proof.
    intros s fi f a s' l i nx R I D Eop Hsk Hst.
    rewrite (step_is_exec p s fi f a i nx R D) in Hst.
    unfold exec in Hst. rewrite Eop in Hst. cbv zeta in Hst.
    unfold Skeleton.step, Skeleton.step_at in Hsk.
    destruct (Skeleton.STACK_MAX <? Skeleton.h a)%N; [discriminate Hsk|].
    unfold Bytecode.decode in D. rewrite D in Hsk.
    unfold Skeleton.simple_effect in Hsk. rewrite Eop in Hsk.
    destruct (Skeleton.uvs_ok f (Skeleton.h a) (Bytecode.iuvs i)); [discriminate|].
    inversion Hsk; subst l. clear Hsk.
    destruct (get_const (w_pc s nx) (Bytecode.ia i)) as [[t0|x0|fid|]|];
      try (destruct (cur_frame (w_pc s nx)); discriminate Hst).
    destruct (cur_frame (w_pc s nx)) as [fr0|] eqn:Ecf; [|discriminate].
    destruct (get_fn (bs_env (w_pc s nx)) fid) as [fn|]; [|discriminate].
    destruct (new_closure (w_pc s nx) fid fn (bs_mod (w_pc s nx))) as [s1 cl] eqn:En.
    match type of Hst with
    | context [capture_all ?x ?b ?m ?u ?ac] => destruct (capture_all x b m u ac) as [[s3 uvs]|] eqn:Ec; [|discriminate]
    end.
    inv_next.
    destruct (rel_frel p s fi f a R) as (base & nrest & [Q1 Q2 Q3 Q4 Q5] & Hsp).
    destruct R as [_ Ripf Rch Rpc _ _ Rexc]. unfold sp in Hsp.
    (* the state before the captures: closure allocated and pushed *)
    assert (E1 : s1 = fst (new_closure (w_pc s nx) fid fn (bs_mod (w_pc s nx)))) by (rewrite En; reflexivity).
    assert (SF1 : same_frame (w_pc s nx) s1 /\ fb_open (bs_fib s1) = fb_open (bs_fib s) /\ bs_fibers s1 = bs_fibers s).
    { subst s1. unfold new_closure. destruct (alloc _ _). cbn. repeat split. }
    destruct SF1 as [SF1 [O1 Fb1]].
    assert (I2 : OInv (push s1 (VClosure cl))).
    { apply push_OInv. eapply OInv_same; [exact O1 | exact Fb1 | exact I]. }
    assert (Hb : fr_base fr0 = base).
    { destruct Q2 as (fr & rest & F1 & F2 & F3 & F4). unfold cur_frame in Ecf. cbn in Ecf.
      rewrite F1 in Ecf. inversion Ecf; subst fr0. exact F3. }
    assert (C2 : cap_rel base (fb_open (bs_fib (push s1 (VClosure cl)))) (Skeleton.captured a)).
    { cbn. rewrite O1. exact Q4. }
    rewrite Hb in Ec.
    destruct (capture_all_facts _ _ _ _ _ _ _ _ Ec I2 C2) as [SF3 C3].
    destruct SF1 as (A1 & A2 & A3 & A4 & A5 & A6 & A7 & A8 & A9).
    destruct SF3 as (B1 & B2 & B3 & B4 & B5 & B6 & B7 & B8 & B9).
    cbn in A1, A2, A3, A4, A5, A6, A7, A8, A9, B1, B2, B3, B4, B5, B6, B7, B8, B9.
    eexists. split; [left; reflexivity|].
    eapply (frel_rel p _ fi f base nrest);
      cbn [Skeleton.pc Skeleton.h Skeleton.handlers Skeleton.captured Skeleton.pending Skeleton.exc].
    - constructor; cbn.
      + rewrite B5, A5. exact Q1.
      + rewrite B1, A1. exact Q2.
      + rewrite B2, A2. exact Q3.
      + exact C3.
      + rewrite B3, A3. exact Q5.
    - cbn. rewrite B6, A6. exact Ripf.
    - cbn. rewrite B7, A7. exact Rch.
    - cbn. rewrite B8, A8. reflexivity.
    - unfold sp. cbn. rewrite B4. cbn. rewrite A4. lia.
    - cbn. rewrite B9, A9. exact Rexc.
  Qed.
End Refine5.

(* ------------------------------------------------------------------ *)
(** * 11. Summary: every instruction that stays in its frame (59 of the 65 opcodes)

   Missing: Call, Invoke, SuperInvoke, IterNext, StartImport (enter a callee frame / a native / another fiber) and
   Return (leaves the frame) - the cross-frame part, which is false in general (section 9). *)
Section Refine6.
  Variable p : Bytecode.program.

  Definition frame_local (o : Bytecode.opcode) : bool :=
    covered o || match o with Bytecode.OpClosure => true | _ => false end.

  Lemma frame_local_spec : forall o,
      frame_local o = false <->
      In o [Bytecode.OpCall; Bytecode.OpInvoke; Bytecode.OpSuperInvoke; Bytecode.OpIterNext;
            Bytecode.OpStartImport; Bytecode.OpReturn].
  Proof.
    intros o; split.
    - destruct o; cbn; intros H; try discriminate H; tauto.
    - intros H. cbn in H. repeat (destruct H as [<-|H]; [reflexivity|]). destruct H.
  Qed.

  Theorem bcvm_refines_skeleton_local : forall s fi f a s' l i nx,
      rel p s fi f a -> OInv s ->
      Bytecode.decode p f (Skeleton.pc a) = Some (i, nx) ->
      frame_local (Bytecode.iop i) = true ->
      Skeleton.step false p f a = Skeleton.Next l ->
      BcVM.step s = BNext s' ->
      (exists a', In a' l /\ rel p s' fi f a') \/ Skeleton.handlers a = [].
  Proof.
    intros s fi f a s' l i nx R I D C Hsk Hst.
    unfold frame_local in C. apply orb_true_iff in C as [C|C].
    - eapply bcvm_refines_skeleton_frame_partial; eassumption.
    - destruct (Bytecode.iop i) eqn:Eop; try discriminate C.
      left. eapply refine_closure; eassumption.
  Qed.

  Theorem verified_frame_stays_verified_local : forall n m fi f a s,
      Verifier.verify_program p = Verifier.VOk n m ->
      nth_error p fi = Some f ->
      VerifierProofs.reachable false p f a ->
      rel p s fi f a -> OInv s ->
      exists i nx, fetch s = Some (i, nx) /\
        (frame_local (Bytecode.iop i) = true ->
         forall s', BcVM.step s = BNext s' ->
                    (exists a', VerifierProofs.reachable false p f a' /\ rel p s' fi f a' /\ OInv s')
                    \/ Skeleton.handlers a = []).
  Proof.
    intros n m fi f a s Hv Hf Hr R I.
    pose proof (VerifierProofs.verify_sound p n m Hv f (nth_error_In _ _ Hf) a Hr) as NS.
    destruct (skeleton_not_stuck_decodes p f a NS) as (i & nx & D).
    exists i, nx. split; [rewrite (rel_fetch p s fi f a R); exact D|].
    intros HS s' Hst.
    destruct (Skeleton.succs false p f a) as [l|] eqn:El; [|exfalso; apply NS; reflexivity].
    assert (Hsk : Skeleton.step false p f a = Skeleton.Next l).
    { unfold Skeleton.succs, Skeleton.succs_at in El. unfold Skeleton.step.
      destruct (Skeleton.step_at _ _ _ _ _); [discriminate | inversion El; reflexivity]. }
    destruct (bcvm_refines_skeleton_local s fi f a s' l i nx R I D HS Hsk Hst) as [(a' & Hin & R')|Q];
      [left | right; exact Q].
    exists a'. split; [|split; [exact R' | eapply step_OInv; eassumption]].
    eapply VerifierProofs.reach_step; [exact Hr | exact El | exact Hin].
  Qed.
End Refine6.
Print Assumptions bcvm_refines_skeleton_local.
Print Assumptions verified_frame_stays_verified_local.

(* ------------------------------------------------------------------ *)
(** * 12. Programs loaded from the wire satisfy the function part of [rel]

   For every program that arrives through [load_wire] (i.e. every program the correspondence check runs), each
   function of the environment is the function of the same index of the verifier's view [ld_prog] and carries the
   tabulated reference decoder: hypothesis [r_fn] of [rel] holds for every frame of every such run. *)

Lemma index_map_find : forall {A} (l : list A) i m k,
    PM.find (nkey k) (index_map l i m) =
    if ((i <=? k) && (k <? i + N.of_nat (List.length l)))%N
    then nth_error l (N.to_nat (k - i)) else PM.find (nkey k) m.
Proof.
  intros A l; induction l as [|x r IH]; intros i m k; cbn [index_map List.length].
  - replace (i + N.of_nat 0)%N with i by lia.
    destruct (i <=? k)%N eqn:E1, (k <? i)%N eqn:E2; cbn; try reflexivity.
    apply N.leb_le in E1; apply N.ltb_lt in E2; lia.
  - rewrite IH. clear IH.
    destruct (N.eq_dec k i) as [->|Hne].
    + assert (A1 : ((N.succ i <=? i) && (i <? N.succ i + N.of_nat (List.length r)))%N = false).
      { apply andb_false_iff; left. apply N.leb_gt. lia. }
      assert (A2 : ((i <=? i) && (i <? i + N.of_nat (S (List.length r))))%N = true).
      { apply andb_true_iff; split; [apply N.leb_le | apply N.ltb_lt]; lia. }
      rewrite A1, A2, PositiveMap.gss. replace (i - i)%N with 0%N by lia. reflexivity.
    + assert (C : ((N.succ i <=? k) && (k <? N.succ i + N.of_nat (List.length r)))%N =
                  ((i <=? k) && (k <? i + N.of_nat (S (List.length r))))%N).
      { destruct (N.succ i <=? k)%N eqn:E1, (i <=? k)%N eqn:E3,
                 (k <? N.succ i + N.of_nat (List.length r))%N eqn:E2,
                 (k <? i + N.of_nat (S (List.length r)))%N eqn:E4; cbn; try reflexivity;
          rewrite ?N.leb_le, ?N.leb_gt, ?N.ltb_lt, ?N.ltb_ge in *; lia. }
      rewrite C.
      destruct ((i <=? k) && (k <? i + N.of_nat (S (List.length r))))%N eqn:R.
      * apply andb_true_iff in R as [R1 R2]. apply N.leb_le in R1. apply N.ltb_lt in R2.
        replace (N.to_nat (k - i)) with (S (N.to_nat (k - N.succ i))) by lia. reflexivity.
      * rewrite PositiveMap.gso; [reflexivity|]. intro E; apply nkey_inj in E; congruence.
Qed.

Lemma build_prog_fn : forall fns k bf,
    PM.find (nkey k) (build_prog fns) = Some bf ->
    bf_imap bf = imap_of (program_of fns) (bf_raw bf) /\
    nth_error (program_of fns) (N.to_nat k) = Some (bf_raw bf).
Proof.
  intros fns k bf H. unfold build_prog in H. rewrite index_map_find in H.
  destruct ((0 <=? k) && (k <? 0 + N.of_nat (List.length (map (build_fn (program_of fns)) fns))))%N;
    [|rewrite PositiveMap.gempty in H; discriminate].
  replace (k - 0)%N with k in H by lia.
  rewrite nth_error_map in H. destruct (nth_error fns (N.to_nat k)) as [r|] eqn:E; [|discriminate].
  inversion H; subst bf. split; [reflexivity|].
  unfold program_of. rewrite nth_error_map, E. reflexivity.
Qed.

Theorem loaded_program_functions : forall w ld k bf,
    load_wire w = Some ld -> get_fn (ld_env ld) k = Some bf ->
    bf_imap bf = imap_of (ld_prog ld) (bf_raw bf) /\
    nth_error (ld_prog ld) (N.to_nat k) = Some (bf_raw bf).
Proof.
  intros w ld k bf H G. unfold load_wire in H.
  destruct (Wire.split_bar w) as [|core [|main mods]]; try discriminate.
  destruct (parse_tree 0 (Wire.parse_nss core)) as [lc|]; [|discriminate].
  destruct (parse_tree _ (Wire.parse_nss main)) as [lm|]; [|discriminate].
  destruct (parse_modules _ _ _ _) as [[fns srcs]|]; [|discriminate].
  inversion H; subst ld. cbn in *. unfold get_fn in G. cbn in G.
  apply build_prog_fn. exact G.
Qed.
Print Assumptions loaded_program_functions.
