(* BcVM: wire entry points.  A program arrives as ONE string in the compact numeric format of
   YV.Wire.parse_nss (sections separated by '|'):
     section 0 = function tree of core.yl, section 1 = function tree of the script,
     sections 2.. = modules.
   A function tree (as dumped by the harness command `compile`, functions in index order):
     [nfuncs] ; per function: [arity upvalues nconsts] ; name bytes ; code bytes ; lines (RLE: line count ...) ;
     then one group per constant: [0 bytes...] string | [1 bits] number | [2 child] function | [3] other.
   A module section: [0] ; path bytes ; function tree     or    [1] ; path bytes ; [nmsgs] ; message bytes ...
   Results are printable strings: out=[hex,...];res=ok:hex | err:Kind:[hex,...] | fuel | stuck:why.
   DEFINITIONS ONLY. *)
From Coq Require Import List NArith ZArith PArith Bool String.
From Coq Require Import Strings.Byte FSets.FMapPositive.
From YV Require Bytecode Verifier.
From YV Require Import Ast Show Num Wire SpecValues SpecHeap SpecOps SpecNatives SpecMachine SpecRun BcVM.
Import ListNotations.
Local Close Scope Z_scope.
Local Open Scope list_scope.

Record rawfn := mkRaw {
  rf_arity : N; rf_upv : N; rf_name : bytes; rf_code : list N; rf_lines : list (N * N);
  rf_consts : list bconst }.

Fixpoint pairs_of (l : list N) : list (N * N) :=
  match l with
  | a :: b :: r => (a, b) :: pairs_of r
  | _ => []
  end.

Fixpoint take_consts (n : nat) (off : N) (gs : list (list N)) (acc : list bconst)
  : option (list bconst * list (list N)) :=
  match n with
  | O => Some (rev acc, gs)
  | S k =>
    match gs with
    | (0%N :: bs) :: r => take_consts k off r (KStr (bytes_of_Ns bs) :: acc)
    | [1%N; bits] :: r => take_consts k off r (KNum (f64_of_bits (Z.of_N bits)) :: acc)
    | [2%N; c] :: r => take_consts k off r (KFun (off + c)%N :: acc)
    | _ :: r => take_consts k off r (KOther :: acc)
    | [] => None
    end
  end.

Fixpoint take_fns (n : nat) (off : N) (gs : list (list N)) (acc : list rawfn)
  : option (list rawfn * list (list N)) :=
  match n with
  | O => Some (rev acc, gs)
  | S k =>
    match gs with
    | [ar; uv; nc] :: nm :: code :: lines :: r =>
      match take_consts (N.to_nat nc) off r [] with
      | Some (cs, r') => take_fns k off r' (mkRaw ar uv (bytes_of_Ns nm) code (pairs_of lines) cs :: acc)
      | None => None
      end
    | _ => None
    end
  end.

(* a function tree; [off] = global index of its function 0 *)
Definition parse_tree (off : N) (gs : list (list N)) : option (list rawfn) :=
  match gs with
  | [n] :: r => match take_fns (N.to_nat n) off r [] with Some (l, _) => Some l | None => None end
  | _ => None
  end.

Definition ckind_of (k : bconst) : Bytecode.ckind :=
  match k with
  | KStr _ => Bytecode.CStr
  | KNum _ => Bytecode.CNum
  | KFun i => Bytecode.CFunc (N.to_nat i)
  | KOther => Bytecode.COther
  end.

Definition raw_fn (r : rawfn) : Bytecode.fn :=
  Bytecode.mkFn (rf_code r) (map ckind_of (rf_consts r)) (rf_arity r) (rf_upv r).

Fixpoint index_map {A} (l : list A) (i : N) (m : PM.t A) : PM.t A :=
  match l with
  | [] => m
  | x :: r => index_map r (N.succ i) (PM.add (nkey i) x m)
  end.

Definition build_fn (p : Bytecode.program) (r : rawfn) : bfn :=
  let f := raw_fn r in
  mkBFn f (rf_name r) (index_map (rf_consts r) 0%N (PM.empty _)) (rf_lines r) (imap_of p f).

Definition program_of (l : list rawfn) : Bytecode.program := map raw_fn l.

Definition build_prog (l : list rawfn) : PM.t bfn :=
  let p := program_of l in index_map (map (build_fn p) l) 0%N (PM.empty _).

(* modules: returns the sources and the functions appended to the program *)
Fixpoint take_groups (n : nat) (gs : list (list N)) (acc : list bytes) : list bytes :=
  match n, gs with
  | S k, g :: r => take_groups k r (bytes_of_Ns g :: acc)
  | _, _ => rev acc
  end.

Fixpoint parse_modules (secs : list string) (off : N) (fns : list rawfn) (srcs : list (bytes * bmodsrc))
  : option (list rawfn * list (bytes * bmodsrc)) :=
  match secs with
  | [] => Some (fns, rev srcs)
  | sec :: rest =>
    match parse_nss sec with
    | [0%N] :: path :: tree =>
      match parse_tree off tree with
      | Some l =>
        parse_modules rest (off + N.of_nat (List.length l))%N (fns ++ l)
                      ((bytes_of_Ns path, BMFn off) :: srcs)
      | None => None
      end
    | [1%N] :: path :: [n] :: msgs =>
      parse_modules rest off fns ((bytes_of_Ns path, BMCompileError (take_groups (N.to_nat n) msgs [])) :: srcs)
    | _ => None
    end
  end.

Record loaded := mkLoaded { ld_env : benv; ld_prog : Bytecode.program; ld_core : N; ld_main : N }.

Definition load_wire (w : string) : option loaded :=
  match split_bar w with
  | core :: main :: mods =>
    match parse_tree 0%N (parse_nss core) with
    | Some lc =>
      let nc := N.of_nat (List.length lc) in
      match parse_tree nc (parse_nss main) with
      | Some lm =>
        let nm := (nc + N.of_nat (List.length lm))%N in
        match parse_modules mods nm (lc ++ lm) [] with
        | Some (fns, srcs) => Some (mkLoaded (mkEnv (build_prog fns) srcs) (program_of fns) 0%N nc)
        | None => None
        end
      | None => None
      end
    | None => None
    end
  | _ => None
  end.

(* ---------- boot (vm.rs init_heap_allocated_data + with_built_ins) ---------- *)
Definition blank_state (st : store) (main : addr) (env : benv) : bstate :=
  mkBS st xH empty_fiber (PM.empty _) 0%N 0%N main 0%N false None (PM.empty _) (PM.empty _)
       [(B "main", main)] env.

(* CoreClassStore::new_with_built_ins after core.yl has run: native object classes, class store *)
Definition boot_phase3 (s2 : store) (main : addr) : store :=
  let cc := s_cc s2 in
  let g := global_class s2 main in
  let a_obj := cc_object cc in
  let a_type := cc_type cc in
  let objm := class_methods s2 a_obj in
  let a_iter := g "Iter"%string in
  let iterm := class_methods s2 a_iter in
  let mk (s : store) (nm : string) (meta sup : addr) (supm : list (name * value)) (own : list native_id) :=
    alloc s (OClass (B nm) meta (Some sup) (merge_methods supm (natives own))) in
  let s := s2 in
  let '(s, a_tuple) := mk s "Tuple"%string a_type a_obj objm [NTupLen; NTupIter] in
  let '(s, a_tuple_iter) := mk s "TupleIter"%string a_type a_iter iterm [NTupIterNext] in
  let '(s, a_vec) := mk s "Vec"%string a_type a_obj objm [NVecPush; NVecPop; NVecLen; NVecIter] in
  let '(s, a_vec_iter) := mk s "VecIter"%string a_type a_iter iterm [NVecIterNext] in
  let '(s, a_range) := mk s "Range"%string a_type a_obj objm [NRangeIter] in
  let '(s, a_range_iter) := mk s "RangeIter"%string a_type a_iter iterm [NRangeIterNext] in
  let '(s, a_map) := mk s "HashMap"%string a_type a_obj objm
                        [NMapHasKey; NMapGet; NMapInsert; NMapRemove; NMapClear; NMapLen; NMapKeys;
                         NMapValues; NMapItems] in
  let '(s, a_module) := mk s "Module"%string a_type a_obj objm [] in
  let '(s, a_string_iter) := mk s "StringIter"%string a_type a_iter iterm [NStrIterNext] in
  let '(s, a_fiber_meta) := mk s "FiberClass"%string a_type a_obj objm [NFiberYield; NFiberNew] in
  let '(s, a_fiber) := mk s "Fiber"%string a_fiber_meta a_obj objm [NFiberCall; NFiberHasFinished] in
  let cc' :=
    mkCC a_obj a_type (cc_string_meta cc) (cc_string cc) (cc_nil cc) (cc_bool cc) (cc_num cc)
         (cc_func cc) (cc_builtin cc) (cc_method cc) (cc_builtin_method cc)
         a_tuple a_tuple_iter a_vec a_vec_iter a_range a_range_iter a_map a_module a_string_iter
         a_fiber_meta a_fiber
         (g "Error"%string) (g "StopIter"%string) (g "RuntimeError"%string) (g "AttributeError"%string)
         (g "IndexError"%string) (g "ImportError"%string) (g "NameError"%string) (g "TypeError"%string)
         (g "ValueError"%string) a_iter (g "MapIter"%string) (g "FilterIter"%string) in
  set_out (install_builtins (set_cc s cc') main) [].

Definition CORE_FUEL : nat := 50.

(* the interpreter after Vm::with_built_ins(): core.yl has run in "main" *)
Definition boot (ld : loaded) : option bstate :=
  let '(s1, main) := alloc boot_phase1 (OModule (B "main") false []) in
  match execute (blank_state s1 main (ld_env ld)) (ld_core ld) main with
  | Some s =>
    match run_blocks CORE_FUEL s with
    | BRDone s' _ => Some (w_store s' (boot_phase3 (bs_store s') main))
    | _ => None
    end
  | None => None
  end.

Definition main_of (s : bstate) : addr :=
  match registry_find (B "main") (bs_modules s) with Some m => m | None => xH end.

(* ---------- outcomes ---------- *)
Local Open Scope string_scope.

Definition show_outs (st : store) : string := "out=" ++ show_list hex_of_bytes (rev (s_out st)).

Definition show_brres (r : brres) : string :=
  match r with
  | BRDone s v =>
    show_outs (bs_store s) ++ ";res=" ++
    match show_value (bs_store s) v with Some t => "ok:" ++ hex_of_bytes t | None => "fuel" end
  | BRFail s k msgs =>
    show_outs (bs_store s) ++ ";res=err:" ++ string_of_list_byte k ++ ":" ++ show_list hex_of_bytes msgs
  | BRMore s => show_outs (bs_store s) ++ ";res=fuel"
  | BRStuck w => "out=[];res=stuck:" ++ w
  | BRFuel => "out=[];res=fuel"
  end.

Definition run_loaded (fuel : nat) (ld : loaded) : brres :=
  match boot ld with
  | None => BRStuck "boot failed"
  | Some s0 =>
    match execute s0 (ld_main ld) (main_of s0) with
    | Some s1 => run_blocks fuel s1
    | None => BRStuck "no script function"
    end
  end.

(* fuel = blocks of 1000 instructions *)
Definition run_wire (fuel : nat) (w : string) : string :=
  match load_wire w with
  | Some ld => show_brres (run_loaded fuel ld)
  | None => "bad wire"
  end.

(* one record per dispatched instruction, with the fields of harness `trace` (hook H4):
   "fiber function pc opcode stack_len slot_base frames he retpend has_caller h:catch,finally,size,frames;... u:slot,..."
   (fiber = address of the fiber object, function = program index; the driver renumbers both in first-seen order as
   the harness does; handlers oldest first, open upvalues in list order) *)
(* the harness prints handler offsets relative to the code of frames[frame_count-1], and the pc relative to the
   running frame's function: where that is not the function the address points into (a handler left behind by a
   frame that returned; a return address taken by a foreign EndFinally) the number is meaningless: "?" *)
Definition frame_fid_at (frames : list bframe) (k : nat) : option N :=
  let n := List.length frames in
  if Nat.ltb n k then None
  else match nth_error frames (n - k) with Some f => Some (fr_fid f) | None => None end.

Definition show_handler (frames : list bframe) (h : bhandler) : string :=
  let own := match frame_fid_at frames (bh_frames h) with Some g => (g =? bh_fid h)%N | None => false end in
  (if own then show_N (bh_catch h) ++ "," ++ show_N (bh_finally h) else "?,?") ++ "," ++
  show_N (bh_size h) ++ "," ++ show_nat (bh_frames h).

Definition trace_rec (s : bstate) : string :=
  let fb := bs_fib s in
  let opc := match fetch s with Some (i, _) => show_N (Bytecode.N_of_opcode (Bytecode.iop i)) | None => "?" end in
  show_N (Npos (bs_fid s)) ++ " " ++ show_N (bs_chunk s) ++ " " ++
  (if (bs_ipf s =? bs_chunk s)%N then show_N (bs_pc s) else "?") ++ " " ++ opc ++ " " ++
  show_N (fb_sp fb) ++ " " ++
  show_N (cur_base s) ++ " " ++ show_nat (List.length (fb_frames fb)) ++ " " ++
  (if bs_he s then "1" else "0") ++ " " ++ (match fb_retip fb with Some _ => "1" | None => "0" end) ++ " " ++
  (match fb_caller fb with Some _ => "1" | None => "0" end) ++
  " h:" ++ show_sep ";" (show_handler (fb_frames fb)) (rev (fb_handlers fb)) ++
  " u:" ++ show_sep "," (fun x => show_N (fst x)) (fb_open fb).

Fixpoint run_trace (fuel : nat) (s : bstate) (acc : list string) : list string * brres :=
  match fuel with
  | O => (rev acc, BRMore s)
  | S f =>
    let acc' := trace_rec s :: acc in
    match step s with
    | BNext s' => run_trace f s' acc'
    | BDone s' v => (rev acc', BRDone s' v)
    | BFail s' k m => (rev acc', BRFail s' k m)
    | BStuck w => (rev acc', BRStuck w)
    | BFuel => (rev acc', BRFuel)
    end
  end.

Definition trace_wire (fuel : nat) (w : string) : string :=
  match load_wire w with
  | Some ld =>
    match boot ld with
    | None => "boot failed"
    | Some s0 =>
      match execute s0 (ld_main ld) (main_of s0) with
      | Some s1 =>
        let '(t, r) := run_trace fuel s1 [] in
        show_sep "/" (fun x => x) t ++ "|" ++ show_brres r
      | None => "no script function"
      end
    end
  | None => "bad wire"
  end.
