(* Bytecode of the yarel VM: opcode numbering (chunk.rs, declaration order from 0),
   operand layouts (from the VM's own decoders in vm.rs, NOT from OpCode::arg_sizes),
   functions with constants abstracted to kinds, and the instruction decoder.
   Definitions only; proofs are in VerifierProofs.v.

   Deviation from the task sketch, for vm_compute performance: code positions, heights,
   slots, arity and upvalue counts are binary [N], not unary [nat]. *)
From Coq Require Import List NArith Bool.
Import ListNotations.
Open Scope N_scope.

Inductive opcode : Set :=
| OpConstant | OpNil | OpTrue | OpFalse | OpPop | OpCopyTop | OpGetLocal | OpSetLocal
| OpGetGlobal | OpDefineGlobal | OpSetGlobal | OpGetUpvalue | OpSetUpvalue
| OpGetProperty | OpSetProperty | OpGetClass | OpGetSuper | OpEqual | OpGreater | OpLess
| OpAdd | OpSubtract | OpMultiply | OpDivide | OpBitwiseAnd | OpBitwiseOr | OpBitwiseXor
| OpModulo | OpLogicalNot | OpBitwiseNot | OpBitShiftLeft | OpBitShiftRight | OpNegate
| OpGetItem | OpSetItem | OpFormatString | OpBuildHashMap | OpBuildRange | OpBuildString
| OpBuildTuple | OpBuildVec | OpIterNext | OpJump | OpJumpIfFalse | OpJumpIfStopIter | OpLoop
| OpJumpFinally | OpEndFinally | OpPushExcHandler | OpPopExcHandler | OpThrow | OpCall
| OpInvoke | OpConstruct | OpSuperInvoke | OpClosure | OpCloseUpvalue | OpReturn
| OpDeclareClass | OpDefineClass | OpInherit | OpMethod | OpStaticMethod | OpStartImport
| OpFinishImport.

Definition N_of_opcode (o : opcode) : N :=
  match o with
  | OpConstant => 0 | OpNil => 1 | OpTrue => 2 | OpFalse => 3 | OpPop => 4 | OpCopyTop => 5
  | OpGetLocal => 6 | OpSetLocal => 7 | OpGetGlobal => 8 | OpDefineGlobal => 9
  | OpSetGlobal => 10 | OpGetUpvalue => 11 | OpSetUpvalue => 12 | OpGetProperty => 13
  | OpSetProperty => 14 | OpGetClass => 15 | OpGetSuper => 16 | OpEqual => 17
  | OpGreater => 18 | OpLess => 19 | OpAdd => 20 | OpSubtract => 21 | OpMultiply => 22
  | OpDivide => 23 | OpBitwiseAnd => 24 | OpBitwiseOr => 25 | OpBitwiseXor => 26
  | OpModulo => 27 | OpLogicalNot => 28 | OpBitwiseNot => 29 | OpBitShiftLeft => 30
  | OpBitShiftRight => 31 | OpNegate => 32 | OpGetItem => 33 | OpSetItem => 34
  | OpFormatString => 35 | OpBuildHashMap => 36 | OpBuildRange => 37 | OpBuildString => 38
  | OpBuildTuple => 39 | OpBuildVec => 40 | OpIterNext => 41 | OpJump => 42
  | OpJumpIfFalse => 43 | OpJumpIfStopIter => 44 | OpLoop => 45 | OpJumpFinally => 46
  | OpEndFinally => 47 | OpPushExcHandler => 48 | OpPopExcHandler => 49 | OpThrow => 50
  | OpCall => 51 | OpInvoke => 52 | OpConstruct => 53 | OpSuperInvoke => 54 | OpClosure => 55
  | OpCloseUpvalue => 56 | OpReturn => 57 | OpDeclareClass => 58 | OpDefineClass => 59
  | OpInherit => 60 | OpMethod => 61 | OpStaticMethod => 62 | OpStartImport => 63
  | OpFinishImport => 64
  end.

Definition opcode_of_N (n : N) : option opcode :=
  match n with
  | 0 => Some OpConstant | 1 => Some OpNil | 2 => Some OpTrue | 3 => Some OpFalse
  | 4 => Some OpPop | 5 => Some OpCopyTop | 6 => Some OpGetLocal | 7 => Some OpSetLocal
  | 8 => Some OpGetGlobal | 9 => Some OpDefineGlobal | 10 => Some OpSetGlobal
  | 11 => Some OpGetUpvalue | 12 => Some OpSetUpvalue | 13 => Some OpGetProperty
  | 14 => Some OpSetProperty | 15 => Some OpGetClass | 16 => Some OpGetSuper
  | 17 => Some OpEqual | 18 => Some OpGreater | 19 => Some OpLess | 20 => Some OpAdd
  | 21 => Some OpSubtract | 22 => Some OpMultiply | 23 => Some OpDivide
  | 24 => Some OpBitwiseAnd | 25 => Some OpBitwiseOr | 26 => Some OpBitwiseXor
  | 27 => Some OpModulo | 28 => Some OpLogicalNot | 29 => Some OpBitwiseNot
  | 30 => Some OpBitShiftLeft | 31 => Some OpBitShiftRight | 32 => Some OpNegate
  | 33 => Some OpGetItem | 34 => Some OpSetItem | 35 => Some OpFormatString
  | 36 => Some OpBuildHashMap | 37 => Some OpBuildRange | 38 => Some OpBuildString
  | 39 => Some OpBuildTuple | 40 => Some OpBuildVec | 41 => Some OpIterNext
  | 42 => Some OpJump | 43 => Some OpJumpIfFalse | 44 => Some OpJumpIfStopIter
  | 45 => Some OpLoop | 46 => Some OpJumpFinally | 47 => Some OpEndFinally
  | 48 => Some OpPushExcHandler | 49 => Some OpPopExcHandler | 50 => Some OpThrow
  | 51 => Some OpCall | 52 => Some OpInvoke | 53 => Some OpConstruct
  | 54 => Some OpSuperInvoke | 55 => Some OpClosure | 56 => Some OpCloseUpvalue
  | 57 => Some OpReturn | 58 => Some OpDeclareClass | 59 => Some OpDefineClass
  | 60 => Some OpInherit | 61 => Some OpMethod | 62 => Some OpStaticMethod
  | 63 => Some OpStartImport | 64 => Some OpFinishImport
  | _ => None
  end.

(* Operand layout as consumed by the VM ([read_byte] / [read_short] calls of each *_impl). *)
Inductive layout : Set :=
| L0            (* no operand *)
| L8            (* one u8 *)
| L16           (* one u16, little-endian *)
| L16_16        (* two u16: PushExcHandler *)
| L16_8         (* u16 then u8: Invoke, SuperInvoke *)
| LClosure.     (* u16 constant index, then (is_local:u8, index:u8) per captured variable *)

Definition layout_of (o : opcode) : layout :=
  match o with
  | OpConstant | OpGetGlobal | OpDefineGlobal | OpSetGlobal | OpGetProperty | OpSetProperty
  | OpGetSuper | OpJump | OpJumpIfFalse | OpJumpIfStopIter | OpLoop | OpDeclareClass
  | OpMethod | OpStaticMethod | OpStartImport => L16
  | OpGetLocal | OpSetLocal | OpGetUpvalue | OpSetUpvalue | OpBuildHashMap | OpBuildString
  | OpBuildTuple | OpBuildVec | OpCall | OpConstruct => L8
  | OpPushExcHandler => L16_16
  | OpInvoke | OpSuperInvoke => L16_8
  | OpClosure => LClosure
  | _ => L0   (* in particular PopExcHandler: arg_sizes says [2,2], the VM reads nothing *)
  end.

(* What the (debug-only) disassembler table OpCode::arg_sizes claims; recorded to report the
   discrepancy, not used by the model. *)
Definition arg_sizes_claim (o : opcode) : list N :=
  match o with
  | OpPopExcHandler => [2; 2]
  | OpClosure => [2]
  | _ => match layout_of o with
         | L0 => [] | L8 => [1] | L16 => [2] | L16_16 => [2; 2] | L16_8 => [2; 1]
         | LClosure => [2]
         end
  end.

Inductive ckind : Set := CStr | CNum | CFunc (idx : nat) | COther.

Record fn : Set := mkFn {
  code : list N;            (* byte values *)
  consts : list ckind;
  arity : N;                (* includes slot 0 (callee / receiver); the script has arity 1 *)
  upvalue_count : N
}.

Definition program : Set := list fn.   (* index 0 = the script; [CFunc i] = [nth i program] *)

Record instr : Set := mkInstr {
  iop : opcode;
  ia : N;                       (* first operand (0 if none) *)
  ib : N;                       (* second operand (0 if none) *)
  iuvs : list (bool * N)        (* Closure tail: (is_local, index) *)
}.

(* A byte fetch; [None] outside the code (the VM would read foreign memory). *)
Definition byte_at (c : list N) (i : N) : option N :=
  match nth_error c (N.to_nat i) with
  | Some b => if b <? 256 then Some b else None
  | None => None
  end.

Definition const_at (f : fn) (c : N) : option ckind := nth_error (consts f) (N.to_nat c).

Section Decode.
  Variable get : N -> option N.     (* byte fetch of the function being decoded *)

  Definition get16 (pc : N) : option N :=
    match get pc, get (pc + 1) with
    | Some lo, Some hi => Some (lo + 256 * hi)
    | _, _ => None
    end.

  Fixpoint read_uvs (k : nat) (pc : N) : option (list (bool * N)) :=
    match k with
    | O => Some []
    | S k' =>
      match get pc, get (pc + 1) with
      | Some il, Some ix =>
        match read_uvs k' (pc + 2) with
        | Some r => Some ((negb (il =? 0), ix) :: r)
        | None => None
        end
      | _, _ => None
      end
    end.

  (* Number of captured variables of the function constant [c] of [f]; [None] if [c] is not a
     function constant of the program (the VM panics with "Expected ObjFunction."). *)
  Definition closure_arity (p : program) (f : fn) (c : N) : option N :=
    match const_at f c with
    | Some (CFunc i) =>
      match nth_error p i with
      | Some g => Some (upvalue_count g)
      | None => None
      end
    | _ => None
    end.

  Definition decode_at (p : program) (f : fn) (pc : N) : option (instr * N) :=
    match get pc with
    | None => None
    | Some b =>
      match opcode_of_N b with
      | None => None
      | Some o =>
        match layout_of o with
        | L0 => Some (mkInstr o 0 0 [], pc + 1)
        | L8 =>
          match get (pc + 1) with
          | Some a => Some (mkInstr o a 0 [], pc + 2)
          | None => None
          end
        | L16 =>
          match get16 (pc + 1) with
          | Some a => Some (mkInstr o a 0 [], pc + 3)
          | None => None
          end
        | L16_16 =>
          match get16 (pc + 1), get16 (pc + 3) with
          | Some a, Some b' => Some (mkInstr o a b' [], pc + 5)
          | _, _ => None
          end
        | L16_8 =>
          match get16 (pc + 1), get (pc + 3) with
          | Some a, Some b' => Some (mkInstr o a b' [], pc + 4)
          | _, _ => None
          end
        | LClosure =>
          match get16 (pc + 1) with
          | Some c =>
            match closure_arity p f c with
            | Some k =>
              match read_uvs (N.to_nat k) (pc + 3) with
              | Some uvs => Some (mkInstr o c 0 uvs, pc + 3 + 2 * k)
              | None => None
              end
            | None => None
            end
          | None => None
          end
        end
      end
    end.
End Decode.

(* The reference decoder: bytes are fetched from the function's own code list. *)
Definition decode (p : program) (f : fn) (pc : N) : option (instr * N) :=
  decode_at (byte_at (code f)) p f pc.

Definition code_len (f : fn) : N := N.of_nat (length (code f)).
