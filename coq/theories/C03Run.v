(* C03 (compilation is total): reference tables the generated files coq/gen/Rules.v and coq/gen/Tokens.v
   are compared with, and the table form of the keyword trie.  DEFINITIONS ONLY (proofs: TotalityProofs.v). *)
From Coq Require Import Strings.Byte Strings.String.
From Coq Require Import List NArith Bool Arith.
From YV Require Import Utf8 Scanner ParserRules.
Import ListNotations.
Local Open Scope string_scope.

(* the Rust name of every variant of `enum TokenKind` *)
Definition tkind_rust_name (k : tkind) : string :=
  match k with
  | TLeftParen => "LeftParen" | TRightParen => "RightParen" | TLeftBrace => "LeftBrace"
  | TRightBrace => "RightBrace" | TLeftBracket => "LeftBracket" | TRightBracket => "RightBracket"
  | TComma => "Comma" | TDot => "Dot" | TDotDot => "DotDot" | TMinus => "Minus"
  | TMinusEqual => "MinusEqual" | TPlus => "Plus" | TPlusEqual => "PlusEqual" | TColon => "Colon"
  | TSemiColon => "SemiColon" | TSlash => "Slash" | TSlashEqual => "SlashEqual" | TStar => "Star"
  | TStarEqual => "StarEqual" | TBang => "Bang" | TBangEqual => "BangEqual" | TEqual => "Equal"
  | TEqualEqual => "EqualEqual" | TGreater => "Greater" | TGreaterEqual => "GreaterEqual"
  | TLess => "Less" | TLessEqual => "LessEqual" | TAmp => "Amp" | TAmpEqual => "AmpEqual"
  | TBar => "Bar" | TBarEqual => "BarEqual" | TCaret => "Caret" | TCaretEqual => "CaretEqual"
  | TPercent => "Percent" | TPercentEqual => "PercentEqual" | TGreaterGreater => "GreaterGreater"
  | TGreaterGreaterEqual => "GreaterGreaterEqual" | TLessLess => "LessLess"
  | TLessLessEqual => "LessLessEqual" | TAmpAmp => "AmpAmp" | TBarBar => "BarBar"
  | TTilde => "Tilde" | THash => "Hash" | TIdentifier => "Identifier" | TStr => "Str"
  | TInterpolation => "Interpolation" | TNumber => "Number" | TCapSelf => "CapSelf"
  | TCatch => "Catch" | TClass => "Class" | TElse => "Else" | TFalse => "False"
  | TFinally => "Finally" | TFor => "For" | TFn => "Fn" | TIf => "If" | TImport => "Import"
  | TAs => "As" | TIn => "In" | TNil => "Nil" | TReturn => "Return" | TSelf => "Self_"
  | TSuper => "Super" | TBreak => "Break" | TContinue => "Continue" | TThrow => "Throw"
  | TTrue => "True" | TTry => "Try" | TVar => "Var" | TWhile => "While" | TError => "Error"
  | TEof => "Eof"
  end.

(* the Rust name of every variant of `enum Precedence` *)
Definition all_precedences : list precedence :=
  [PrecNone; PrecAssignment; PrecOr; PrecAnd; PrecEquality; PrecComparison; PrecBitwiseOr;
   PrecBitwiseXor; PrecBitwiseAnd; PrecBitShift; PrecTerm; PrecFactor; PrecRange; PrecUnary;
   PrecCall; PrecPrimary].
Definition precedence_rust_name (p : precedence) : string :=
  match p with
  | PrecNone => "None" | PrecAssignment => "Assignment" | PrecOr => "Or" | PrecAnd => "And"
  | PrecEquality => "Equality" | PrecComparison => "Comparison" | PrecBitwiseOr => "BitwiseOr"
  | PrecBitwiseXor => "BitwiseXor" | PrecBitwiseAnd => "BitwiseAnd" | PrecBitShift => "BitShift"
  | PrecTerm => "Term" | PrecFactor => "Factor" | PrecRange => "Range" | PrecUnary => "Unary"
  | PrecCall => "Call" | PrecPrimary => "Primary"
  end.

(* The keyword trie of Scanner.identifier_type as a table, in the source order of scanner.rs:
   (characters matched by the enclosing `match` arms, `start` argument, `rest` argument, kind).
   TotalityProofs.identifier_type_table: identifier_type = lookup in this table. *)
Definition keywords_ref : list (string * nat * string * tkind) :=
  [("a", 1, "s", TAs); ("b", 1, "reak", TBreak);
   ("ca", 2, "tch", TCatch); ("cl", 2, "ass", TClass); ("co", 2, "ntinue", TContinue);
   ("e", 1, "lse", TElse);
   ("fa", 2, "lse", TFalse); ("fi", 2, "nally", TFinally); ("fo", 2, "r", TFor); ("fn", 2, "", TFn);
   ("if", 2, "", TIf); ("in", 2, "", TIn); ("im", 2, "port", TImport);
   ("n", 1, "il", TNil); ("r", 1, "eturn", TReturn); ("S", 1, "elf", TCapSelf);
   ("se", 2, "lf", TSelf); ("su", 2, "per", TSuper);
   ("th", 2, "row", TThrow); ("tru", 3, "e", TTrue); ("try", 3, "", TTry);
   ("v", 1, "ar", TVar); ("w", 1, "hile", TWhile)].

Definition keywords_ref_named : list (string * nat * string * string) :=
  map (fun '(p, s, r, k) => (p, s, r, tkind_rust_name k)) keywords_ref.

(* every `start` is the length of the path that leads to the call: the keyword is path ++ rest *)
Definition keywords_starts_ok (t : list (string * nat * string * tkind)) : bool :=
  forallb (fun '(p, s, _, _) => Nat.eqb s (String.length p)) t.

Definition keyword_texts : list (list byte * tkind) :=
  map (fun '(p, _, r, k) => (bs (p ++ r), k)) keywords_ref.

Fixpoint kw_lookup (t : list (list byte * tkind)) (lex : list byte) : tkind :=
  match t with
  | [] => TIdentifier
  | (w, k) :: r => if bytes_eqb lex w then k else kw_lookup r lex
  end.

(* the keyword kinds of the enumeration (CapSelf .. While) *)
Definition keyword_kinds : list tkind :=
  filter (fun k => Nat.leb 47 (tkind_index k) && Nat.leb (tkind_index k) 69) all_tkinds.

(* the only function of compiler.rs that calls Chunk::add_constant (name:number of calls): the constant-pool limit
   is checked there *)
Definition constant_insertions_ref : list string := ["make_constant:1"].
