(* C05 - drivers for the correspondence check (tools/props/C05.py) and the reference tables that
   props/C05.v compares with the tables regenerated from the current compiler.rs / vm.rs
   (coq/gen/EmitArms.v).  DEFINITIONS ONLY. *)
From Coq Require Import Strings.String.
From Coq Require Import List NArith ZArith Bool Arith.
From Coq Require Import Strings.Byte Strings.Ascii Floats.SpecFloat.
From YV Require Import Ast Num NumText Show Wire Bytecode Parser ParseRun ExprSem CompileExpr FragVM Decompile.
Import ListNotations.
Local Open Scope nat_scope.
Local Open Scope list_scope.
Local Open Scope string_scope.

(* ------------------------------------------------------------------ *)
(* names                                                               *)

Definition opcode_names_ref : list string :=
  ["Constant"; "Nil"; "True"; "False"; "Pop"; "CopyTop"; "GetLocal"; "SetLocal"; "GetGlobal";
   "DefineGlobal"; "SetGlobal"; "GetUpvalue"; "SetUpvalue"; "GetProperty"; "SetProperty"; "GetClass";
   "GetSuper"; "Equal"; "Greater"; "Less"; "Add"; "Subtract"; "Multiply"; "Divide"; "BitwiseAnd";
   "BitwiseOr"; "BitwiseXor"; "Modulo"; "LogicalNot"; "BitwiseNot"; "BitShiftLeft"; "BitShiftRight";
   "Negate"; "GetItem"; "SetItem"; "FormatString"; "BuildHashMap"; "BuildRange"; "BuildString";
   "BuildTuple"; "BuildVec"; "IterNext"; "Jump"; "JumpIfFalse"; "JumpIfStopIter"; "Loop"; "JumpFinally";
   "EndFinally"; "PushExcHandler"; "PopExcHandler"; "Throw"; "Call"; "Invoke"; "Construct"; "SuperInvoke";
   "Closure"; "CloseUpvalue"; "Return"; "DeclareClass"; "DefineClass"; "Inherit"; "Method"; "StaticMethod";
   "StartImport"; "FinishImport"].

Definition opcode_name (o : opcode) : string := nth (N.to_nat (N_of_opcode o)) opcode_names_ref "?".

Definition instr_opname (i : instr) : string :=
  match i with
  | IOp o | IOp8 o _ | IGlobal o _ | IJump o _ => opcode_name o
  | IConst _ => "Constant" | ILoop _ => "Loop" | ITouch _ => "-"
  end.

Definition all_binops : list binop :=
  [BAdd; BSub; BMul; BDiv; BMod; BEq; BNe; BLt; BLe; BGt; BGe; BBitAnd; BBitOr; BBitXor; BShl; BShr].
Definition compound_binops : list binop := [BSub; BAdd; BDiv; BMul; BBitAnd; BBitOr; BBitXor; BMod; BShl; BShr].
Definition all_unops : list unop := [UNeg; UNot; UBitNot].

(* scanner.rs TokenKind of the operator *)
Definition tokenkind_of_binop (o : binop) : string :=
  match o with
  | BAdd => "Plus" | BSub => "Minus" | BMul => "Star" | BDiv => "Slash" | BMod => "Percent"
  | BEq => "EqualEqual" | BNe => "BangEqual" | BLt => "Less" | BLe => "LessEqual"
  | BGt => "Greater" | BGe => "GreaterEqual" | BBitAnd => "Amp" | BBitOr => "Bar" | BBitXor => "Caret"
  | BShl => "LessLess" | BShr => "GreaterGreater"
  end.
Definition tokenkind_of_unop (o : unop) : string :=
  match o with UNeg => "Minus" | UNot => "Bang" | UBitNot => "Tilde" end.

Fixpoint lookup_s {A} (k : string) (l : list (string * A)) : option A :=
  match l with
  | [] => None
  | (k', v) :: r => if String.eqb k k' then Some v else lookup_s k r
  end.

Fixpoint strs_eqb (a b : list string) : bool :=
  match a, b with
  | [], [] => true
  | x :: a', y :: b' => String.eqb x y && strs_eqb a' b'
  | _, _ => false
  end.

Definition arm_is (tbl : list (string * list string)) (k : string) (code : list instr) : bool :=
  match lookup_s k tbl with
  | Some ops => strs_eqb ops (map instr_opname code)
  | None => false
  end.

(* the arms of binary() / unary() / binary_assign() emit what CompileExpr.v emits *)
Definition binary_arms_ok (tbl : list (string * list string)) : bool :=
  forallb (fun op => arm_is tbl (tokenkind_of_binop op) (binop_code op)) all_binops &&
  Nat.eqb (List.length tbl) (List.length all_binops).
Definition unary_arms_ok (tbl : list (string * list string)) : bool :=
  forallb (fun op => arm_is tbl (tokenkind_of_unop op) (unop_code op)) all_unops &&
  Nat.eqb (List.length tbl) (List.length all_unops).
Definition compound_arms_ok (tbl : list (string * list string)) : bool :=
  forallb (fun op => arm_is tbl (tokenkind_of_binop op ++ "Equal") (compound_code op)) compound_binops &&
  Nat.eqb (List.length tbl) (List.length compound_binops).

(* the precedence each handler passes on (what Parser.v hard-wires; props/C05.v checks Parser.v against it
   on discriminating inputs) *)
Definition prec_args_ref : list (string * string) :=
  [("binary", "rule+1"); ("unary", "Unary"); ("dotdot", "Unary"); ("and", "And"); ("or", "Or");
   ("binary_assign", "BitwiseOr")].
Definition expression_precs_ref : list string := ["Or"; "Assignment"].

Fixpoint pairs_eqb (a b : list (string * string)) : bool :=
  match a, b with
  | [], [] => true
  | (x1, x2) :: a', (y1, y2) :: b' => String.eqb x1 y1 && String.eqb x2 y2 && pairs_eqb a' b'
  | _, _ => false
  end.

(* the order of emit / patch / parse calls of the emitters mirrored by CompileExpr.v *)
Definition emit_seq_ref : list (string * list string) :=
  [("and", ["jump:JumpIfFalse#0"; "byte:Pop"; "prec:And"; "patch#0"]);
   ("or", ["jump:JumpIfFalse#0"; "jump:Jump#1"; "patch#0"; "byte:Pop"; "prec:Or"; "patch#1"]);
   ("dotdot", ["prec:Unary"; "byte:BuildRange"]);
   ("index", ["expr"; "expr"; "op:SetItem"; "op:GetItem"; "byte:?"]);
   ("vector", ["args"; "bytes:BuildVec,arg"]);
   ("grouping", ["expr"; "bytes:BuildTuple,arg"]);
   ("interpolation", ["const"; "expr"; "byte:FormatString"; "const"; "bytes:BuildString,arg"]);
   ("call", ["args"; "bytes:Call,arg"]);
   ("named_variable", ["resolve"; "expr"; "varop:set_op"; "binassign"; "varop:set_op"; "bytes:?,arg"; "constop"]);
   ("if_statement", ["expr"; "jump:JumpIfFalse#0"; "byte:Pop"; "begin"; "block"; "end"; "jump:Jump#1";
                     "patch#0"; "byte:Pop"; "stmt"; "patch#1"]);
   ("while_statement", ["push_loop"; "expr"; "jump:JumpIfFalse#0"; "byte:Pop"; "begin"; "block"; "end";
                        "loop"; "patch#0"; "byte:Pop"; "pop_loop"]);
   ("break_statement", ["excpops"; "scope_end:false"; "jump:Jump#0"; "push_break"]);
   ("continue_statement", ["excpops"; "scope_end:false"; "loop"]);
   ("expression_statement", ["expr"; "byte:Pop"]);
   ("var_declaration", ["parsevar"; "expr"; "byte:Nil"; "define"]);
   ("define_variable", ["markinit"; "byte:DefineGlobal"; "bytes:?,?"]);
   ("end_scope", ["scope_end:true"]);
   ("number", ["const"]);
   ("string", ["const"]);
   ("function", ["new_compiler"; "begin"; "params"; "bytes:Construct,arg"; "block"; "finalise"; "mkconst"; "constop";
                 "op:Closure"; "byte:?"; "byte:?"]);
   ("lambda", ["new_compiler"; "begin"; "params"; "block"; "expr"; "byte:Return"; "finalise"; "mkconst"; "constop";
               "op:Closure"; "byte:?"; "byte:?"]);
   ("fn_declaration", ["parsevar"; "markinit"; "function"; "define"]);
   ("return_statement", ["return"; "expr"; "byte:JumpFinally"; "byte:Return"]);
   ("emit_return", ["bytes:GetLocal,arg"; "byte:Nil"; "byte:JumpFinally"; "byte:Return"])].

Definition seq_is (gen : list (string * list string)) (f : string) : bool :=
  match lookup_s f gen, lookup_s f emit_seq_ref with
  | Some a, Some b => strs_eqb a b
  | _, _ => false
  end.

(* break_pops_first as the current source has it: scope-end pops before the Jump *)
Fixpoint index_of (x : string) (l : list string) (k : nat) : option nat :=
  match l with
  | [] => None
  | y :: r => if String.eqb x y then Some k else index_of x r (S k)
  end.
Definition break_pops_first_of (gen : list (string * list string)) : option bool :=
  match lookup_s "break_statement" gen with
  | Some l =>
    match index_of "scope_end:false" l 0, index_of "jump:Jump#0" l 0 with
    | Some a, Some b => Some (Nat.ltb a b)
    | _, _ => None
    end
  | None => None
  end.

(* the closure each dispatch arm hands to binary_op_impl (first parameter p = the deeper operand), next to
   the function of Num.v that FragVM / ExprSem use for it *)
Definition vm_binop_closures_ref : list (string * string) :=
  [("Greater", "Value::Boolean(p>q)");          (* fgtb *)
   ("Less", "Value::Boolean(p<q)");             (* fltb *)
   ("Subtract", "Value::Number(p-q)");          (* fsub *)
   ("Multiply", "Value::Number(p*q)");          (* fmul *)
   ("Divide", "Value::Number(p/q)");            (* fdiv *)
   ("BitwiseAnd", "Value::Number(((pasi64)&(qasi64))asf64)");   (* bit_and *)
   ("BitwiseOr", "Value::Number(((pasi64)|(qasi64))asf64)");    (* bit_or *)
   ("BitwiseXor", "Value::Number(((pasi64)^(qasi64))asf64)");   (* bit_xor *)
   ("Modulo", "Value::Number(p%q)");            (* frem *)
   ("BitShiftLeft", "Value::Number((pasi64).checked_shl(qasu32).unwrap_or_default()asf64)");   (* shl *)
   ("BitShiftRight", "Value::Number((pasi64).checked_shr(qasu32).unwrap_or_default()asf64)")].  (* shr *)

Fixpoint closures_ok (gen : list (string * string)) (ref : list (string * string)) : bool :=
  match ref with
  | [] => true
  | (k, v) :: r =>
    match lookup_s k gen with
    | Some v' => String.eqb v v' && closures_ok gen r
    | None => false
    end
  end.

Definition vm_fact_names : list string :=
  ["jump_if_false_peeks"; "jump_if_false_on_falsy"; "binop_deeper_operand_first"; "equal_is_a_eq_b";
   "add_pops_b_then_a"; "add_concat_a_then_b"; "add_numbers"; "set_item_leaves_nil"; "set_item_operands";
   "not_is_not_truthy"; "negate_is_minus"; "bitnot_via_i64"; "range_end_popped_first"; "jump_forward";
   "loop_backward"; "truthiness"; "call_arity_check"; "call_frame_limit"; "call_pushes_frame"; "return_shape";
   "closure_descriptors"; "close_upvalue_top"; "set_global_undone_on_failure"; "get_global_reads_only"].
Definition vm_facts_ok (gen : list (string * bool)) : bool :=
  forallb (fun k => match lookup_s k gen with Some true => true | _ => false end) vm_fact_names.

(* ------------------------------------------------------------------ *)
(* s-expression rendering of fragment expressions (the generator prints the same)              *)

Definition binop_tag (o : binop) : string :=
  match o with
  | BAdd => "+" | BSub => "-" | BMul => "*" | BDiv => "/" | BMod => "%" | BEq => "==" | BNe => "!="
  | BLt => "<" | BLe => "<=" | BGt => ">" | BGe => ">=" | BBitAnd => "&" | BBitOr => "|" | BBitXor => "^"
  | BShl => "<<" | BShr => ">>"
  end.
Definition unop_tag (o : unop) : string := match o with UNeg => "neg" | UNot => "not" | UBitNot => "inv" end.

Fixpoint show_expr (e : expr) {struct e} : string :=
  let show_list_e := fix go (l : list expr) : string :=
    match l with [] => "" | x :: r => " " ++ show_expr x ++ go r end in
  match e with
  | ENil => "nil" | ETrue => "true" | EFalse => "false"
  | ENum x => "n" ++ show_Z (bits_of_f64 x)
  | EStr s => "s" ++ hex_of_bytes s
  | EInterp ps =>
    "(interp" ++
    (fix go (l : list interp_part) : string :=
       match l with
       | [] => ""
       | IPStr s :: r => " s" ++ hex_of_bytes s ++ go r
       | IPExpr x :: r => " (e " ++ show_expr x ++ ")" ++ go r
       end) ps ++ ")"
  | EVar x => "v" ++ hex_of_bytes x
  | EAssign x a => "(asg " ++ hex_of_bytes x ++ " " ++ show_expr a ++ ")"
  | ECompound x op a => "(casg " ++ binop_tag op ++ " " ++ hex_of_bytes x ++ " " ++ show_expr a ++ ")"
  | EUnary op a => "(" ++ unop_tag op ++ " " ++ show_expr a ++ ")"
  | EBinary op a b => "(" ++ binop_tag op ++ " " ++ show_expr a ++ " " ++ show_expr b ++ ")"
  | EAnd a b => "(and " ++ show_expr a ++ " " ++ show_expr b ++ ")"
  | EOr a b => "(or " ++ show_expr a ++ " " ++ show_expr b ++ ")"
  | ERange a b => "(range " ++ show_expr a ++ " " ++ show_expr b ++ ")"
  | ECall f args => "(call " ++ show_expr f ++ show_list_e args ++ ")"
  | EIndex o i => "(idx " ++ show_expr o ++ " " ++ show_expr i ++ ")"
  | ESetIndex o i v => "(sidx " ++ show_expr o ++ " " ++ show_expr i ++ " " ++ show_expr v ++ ")"
  | ETuple es => "(tup" ++ show_list_e es ++ ")"
  | EVec es => "(vec" ++ show_list_e es ++ ")"
  | _ => "?"
  end.

(* ------------------------------------------------------------------ *)
(* one generated program: model bytes + constants, reference evaluator, model machine        *)

(* "F|C <hex>|K <consts>#<evaluator>#<machine>"  program of the fragment
   "N"                                              parses, outside the fragment / rejected by program_ok
   "P:<message>"                                    the parser model reports a compile error *)
Definition c05_case (fe fv : nat) (hex : string) : string :=
  match parse_source (bytes_of_hex hex) with
  | POk p =>
    if program_ok p then
      "F|" ++ show_compiled true p ++ "#" ++ show_eval fe p ++ "#" ++ show_run fv true p
    else "N"
  | PErr _ _ m => "P:" ++ m
  | POutOfFuel => "P:fuel"
  end.

(* constants in the Wire.parse_nss format: one group per constant, "0 <bits>" or "1 <byte> <byte> ..." *)
Definition const_of_group (g : list N) : const :=
  match g with
  | 0%N :: b :: _ => CNum (f64_of_bits (Z.of_N b))
  | _ :: bs => CStr (bytes_of_Ns bs)
  | [] => CStr []
  end.

Definition env_of_names (names : list name) : cenv :=
  match names with
  | [] => cenv0
  | _ => mkEnv (map (fun x => (x, 1)) (rev names) ++ [([], 0)])%list 1 None None
  end.

(* decompile the REAL bytes of  `E;`  or  `{ var a = lit; ...; E; }`  (k = number of locals):
   strip the k initialisers in front and  Pop, k Pops, Nil, Return  behind *)
Definition c05_decomp (names : string) (codehex : string) (consts : string) : string :=
  let ns := map (fun g => bytes_of_Ns g) (filter (fun g => match g with [] => false | _ => true end) (parse_nss names)) in
  let k := List.length ns in
  let tbl := map const_of_group (filter (fun g => match g with [] => false | _ => true end) (parse_nss consts)) in
  match disasm (Ns_of_bytes (bytes_of_hex codehex)) tbl with
  | None => "DISASM"
  | Some code =>
    let inner := firstn (List.length code - k - k - 3) (skipn k code) in
    match decompile (env_of_names ns) inner with
    | Some e => show_expr e
    | None => "NONE"
    end
  end.

(* the parser model's tree of a source text, same rendering *)
Definition c05_parse_expr (hex : string) : string :=
  match parse_expr_source (bytes_of_hex hex) with
  | POk e => show_expr e
  | PErr _ _ m => "P:" ++ m
  | POutOfFuel => "P:fuel"
  end.
