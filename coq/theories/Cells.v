(* C06 - Spec S of variables: every declared variable IS a heap cell; a stack slot merely names the
   cell of the variable that lives there; a closure holds cells; reads and writes go to cells.
   Nothing is ever copied or closed: leaving a scope forgets the name, the cell stays.
   The same operation alphabet as Upvalues.v so the two can be run side by side.
   `handles` numbers the captured cells in first-capture order (the Spec's name for "the variable a
   closure holds"): capturing a variable that was captured before yields the same handle, a new
   variable yields a new one.  DEFINITIONS ONLY. *)
From Coq Require Import List Arith Bool.
From YV Require Import Upvalues.
Import ListNotations.

Set Implicit Arguments.

Section Cells.
Variable value : Type.

Record sfiber := mkSF {
  scells : nat -> nat;     (* slot -> cell of the variable declared there *)
  sslen : nat
}.

Record sstate := mkS {
  sfibs : nat -> sfiber;
  scur : nat;
  cellv : nat -> value;    (* the heap of cells *)
  cnext : nat;             (* next fresh cell *)
  handles : nat -> nat;    (* handle -> cell *)
  hnext : nat
}.

Definition csfib (st : sstate) : sfiber := sfibs st (scur st).

Fixpoint find_handle (h : nat -> nat) (n c : nat) : option nat :=
  match n with
  | 0 => None
  | S n' => if h n' =? c then Some n' else find_handle h n' c
  end.

Definition set_sfib (st : sstate) (fb : sfiber) : sstate :=
  mkS (upd (sfibs st) (scur st) fb) (scur st) (cellv st) (cnext st) (handles st) (hnext st).

Definition set_cell (st : sstate) (c : nat) (v : value) : sstate :=
  mkS (sfibs st) (scur st) (upd (cellv st) c v) (cnext st) (handles st) (hnext st).

Definition sstep (st : sstate) (o : op value) : sstate * obs value :=
  let fb := csfib st in
  match o with
  | Push v =>   (* a declaration (or a temporary): a fresh cell *)
      (mkS (upd (sfibs st) (scur st) (mkSF (upd (scells fb) (sslen fb) (cnext st)) (S (sslen fb))))
           (scur st) (upd (cellv st) (cnext st) v) (S (cnext st)) (handles st) (hnext st), ONone)
  | Pop => if sslen fb =? 0 then (st, OStuck)
           else (set_sfib st (mkSF (scells fb) (sslen fb - 1)), ONone)
  | GetSlot i => if i <? sslen fb then (st, OVal (cellv st (scells fb i))) else (st, OStuck)
  | SetSlot i v => if i <? sslen fb then (set_cell st (scells fb i) v, ONone) else (st, OStuck)
  | Capture loc =>
      if loc <? sslen fb then
        let c := scells fb loc in
        match find_handle (handles st) (hnext st) c with
        | Some h => (st, OId h)
        | None => (mkS (sfibs st) (scur st) (cellv st) (cnext st)
                       (upd (handles st) (hnext st) c) (S (hnext st)), OId (hnext st))
        end
      else (st, OStuck)
  | CloseTop => if sslen fb =? 0 then (st, OStuck)
                else (set_sfib st (mkSF (scells fb) (sslen fb - 1)), ONone)
  | ReturnFrame base => if base <=? sslen fb then (set_sfib st (mkSF (scells fb) base), ONone)
                        else (st, OStuck)
  | ReadUp h => if h <? hnext st then (st, OVal (cellv st (handles st h))) else (st, OStuck)
  | WriteUp h v => if h <? hnext st then (set_cell st (handles st h) v, ONone) else (st, OStuck)
  | Truncate n => if n <=? sslen fb then (set_sfib st (mkSF (scells fb) n), ONone) else (st, OStuck)
  | SwitchFiber f => (mkS (sfibs st) f (cellv st) (cnext st) (handles st) (hnext st), ONone)
  end.

Fixpoint srun (st : sstate) (ops : list (op value)) : list (obs value) :=
  match ops with
  | [] => []
  | o :: r => let (st', b) := sstep st o in b :: srun st' r
  end.

End Cells.

Definition s_init {value} (d : value) : sstate value :=
  mkS (fun _ => mkSF (fun _ => 0) 0) 0 (fun _ => d) 0 (fun _ => 0) 0.
