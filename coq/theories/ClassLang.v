(* C07 - a mini-language of class programs with (a) eval_spec (S: lookup walks the declared ancestry),
   (b) eval_mech (M: copy-down tables of Classes.v, `super` a captured value, slot 0 of the running frame) and
   (c) render to yarel source.  Definitions only.

   One evaluator `ev`, parameterised by the record `sem` of the operations in which S and M differ (member access,
   invoke, super access, derives, class numbering, class names).  The state carries BOTH the Mechanism's class store
   (read only by sem_mech) and the declared history (read only by sem_spec); everything else - globals, cells of
   local variables (captured by reference), instances, closures, printed lines - is shared. *)
From Coq Require Import List String Ascii ZArith Bool Arith.
From YV Require Import Show Classes ClassSpec.
Import ListNotations.
Open Scope string_scope.

(* ---------- syntax ---------- *)
Inductive expr :=
| ENil | EBool (b : bool) | ENum (z : Z) | EStr (s : string)
| EVar (x : string) | ESelf | ECapSelf
| EGet (e : expr) (n : string)
| EInvoke (e : expr) (n : string) (args : list expr)
| ECall (e : expr) (args : list expr)
| ESuperGet (n : string)
| ESuperInvoke (n : string) (args : list expr)
| EEq (a b : expr).

Inductive fkind := KFun | KMethod | KStatic | KInit.

Inductive stmt :=
| SPrint (e : expr)
| SPrintType (e : expr)
| SExpr (e : expr)
| SVar (x : string) (e : expr)
| SAssign (x : string) (e : expr)
| SSetField (o : expr) (n : string) (v : expr)
| SReturn (e : option expr)
| SClass (c : cdecl)
| SFun (name : string) (params : list string) (body : list stmt) (label : nat)
| SBlock (body : list stmt)
| STry (body : list stmt)               (* try { body } catch err_ { print(type(err_)); print(err_.context); } *)
| SIf (cond : expr) (th el : list stmt)
| SFor (x : string) (e : expr) (body : list stmt)   (* for x in e { body }: e.iter(), then IterNext until a StopIter *)
with cdecl := CDecl (name : string) (sup : option string) (defctor : option string) (ms : list mdecl) (label : nat)
with mdecl := MDecl (k : fkind) (name : string) (params : list string) (body : list stmt) (label : nat).

Definition prog := list stmt.

(* ---------- run-time structures ---------- *)
Definition env := list (string * nat).       (* innermost first: variable -> cell *)

Record closure := mkCl { cl_name : string; cl_kind : fkind; cl_params : list string; cl_body : list stmt;
                         cl_env : env;
                         cl_super : option value;     (* content of the hidden local `super` captured at class definition *)
                         cl_owner : option nat;       (* the class whose body textually contains the function *)
                         cl_self : option value;      (* the `self` of the textually enclosing method, for functions
                                                         nested in a method (captured like any other variable) *)
                         cl_label : nat }.

Inductive event :=
| EvDispatch (c : nat) (n : string) (owner : option nat)        (* instance of class c, member n found in class `owner` *)
| EvSuper (owner : option nat) (n : string) (found : option nat).

Record state := mkSt { globals : list (string * value); cells : list value; heap : list inst;
                       closures : list closure;
                       mstore : cstore;              (* M *)
                       hist : list cdef;             (* S *)
                       out : list string;            (* printed lines, newest first *)
                       trace : list event }.

Definition st0 : state := mkSt [("Object", VClass 0)] [] [] [] cs0 [object_def] [] [].

Definition set_globals st g := mkSt g (cells st) (heap st) (closures st) (mstore st) (hist st) (out st) (trace st).
Definition set_cells st c := mkSt (globals st) c (heap st) (closures st) (mstore st) (hist st) (out st) (trace st).
Definition set_heap st h := mkSt (globals st) (cells st) h (closures st) (mstore st) (hist st) (out st) (trace st).
Definition set_closures st c := mkSt (globals st) (cells st) (heap st) c (mstore st) (hist st) (out st) (trace st).
Definition set_mstore st m := mkSt (globals st) (cells st) (heap st) (closures st) m (hist st) (out st) (trace st).
Definition set_hist st h := mkSt (globals st) (cells st) (heap st) (closures st) (mstore st) h (out st) (trace st).
Definition emit st l := mkSt (globals st) (cells st) (heap st) (closures st) (mstore st) (hist st) (l :: out st) (trace st).
Definition log st e := mkSt (globals st) (cells st) (heap st) (closures st) (mstore st) (hist st) (out st) (e :: trace st).

Record ctx := mkCtx { c_env : env; c_local : bool; c_super : option value; c_owner : option nat; c_slot0 : value;
                      c_depth : nat;       (* number of call frames of the running fiber *)
                      c_self : option value;   (* slot 0 of the frame of the textually enclosing method *)
                      c_infn : bool }.     (* the running frame belongs to a plain function *)

Definition ctx_env (c : ctx) (rho : env) (loc : bool) : ctx :=
  mkCtx rho loc (c_super c) (c_owner c) (c_slot0 c) (c_depth c) (c_self c) (c_infn c).

Definition frames_max : nat := 64.          (* common.rs FRAMES_MAX *)

Definition ctx0 : ctx := mkCtx [] false None None VNil 1 None false.

Definition arities (st : state) : list nat := map (fun cl => S (List.length (cl_params cl))) (closures st).
Definition world_of (st : state) : world := mkW (mstore st) (heap st) (arities st).

(* ---------- the operations in which S and M differ ---------- *)
Record sem := mkSem {
  s_get : state -> value -> string -> res value;
  s_invoke : state -> value -> string -> nat -> res target;
  s_super_get : state -> ctx -> string -> res value;
  s_super_invoke : state -> ctx -> string -> nat -> res target;
  s_derives : state -> cref -> nat -> bool;
  s_next_cid : state -> nat;
  s_cname : state -> cref -> option string;
  s_iter_next : state -> value -> res target }.    (* the implicit `next` call of the IterNext opcode *)

Fixpoint assoc {A} (x : string) (l : list (string * A)) : option A :=
  match l with
  | [] => None
  | (k, v) :: r => if String.eqb x k then Some v else assoc x r
  end.

Fixpoint assoc_set {A} (x : string) (v : A) (l : list (string * A)) : list (string * A) :=
  match l with
  | [] => [(x, v)]
  | (k, w) :: r => if String.eqb x k then (k, v) :: r else (k, w) :: assoc_set x v r
  end.

(* the `self` (or `Self`) of the textually enclosing method: compiler.rs `super_` resolves the first non-empty
   `locals[0].name` walking the compiler stack outwards, i.e. that local, captured as an upvalue by nested functions *)
Definition lexical_self (st : state) (c : ctx) : res value :=
  match c_self c with
  | Some v => Ok v
  | None => Stuck "super outside a method"
  end.

Definition no_super : string := "super outside a class with a superclass".

(* M: `super` is the value captured at class definition.  The receiver of a super access is the local that compiler.rs
   `super_` names, resolved like any variable (local or captured upvalue).  Three shapes of `super_`:
   - SuperEnclosingMethod (current source): the first non-empty `locals[0].name` walking the compiler stack outwards, i.e.
     slot 0 (`self` / `Self`) of the nearest enclosing METHOD - what the Spec demands;
   - SuperRunningFrame (before commit 0fbde2d): `s.compiler().locals[0]`, slot 0 of the running frame (the nested closure
     itself inside a nested function);
   - SuperAnyStaticSelf (a seeded variant): the name is "Self" when ANY enclosing compiler is a static method, else "self";
     an enclosing static method is exactly one whose binding of `Self` is in the lexical environment, and the name is then
     resolved lexically - for a class declared inside a static method of another class this is the OUTER method's `Self`.
   The last two are kept only for the `_refuted_` witnesses; props/C07.v ties the choice to the source. *)
Inductive super_mode := SuperEnclosingMethod | SuperRunningFrame | SuperAnyStaticSelf.

Definition super_mode_of_code (n : nat) : option super_mode :=
  match n with 0 => Some SuperEnclosingMethod | 1 => Some SuperRunningFrame | 2 => Some SuperAnyStaticSelf | _ => None end.

Definition super_receiver (m : super_mode) (st : state) (c : ctx) : res value :=
  match m with
  | SuperEnclosingMethod => lexical_self st c
  | SuperRunningFrame => Ok (c_slot0 c)
  | SuperAnyStaticSelf =>
    let name := match assoc "Self" (c_env c) with Some _ => "Self" | None => "self" end in
    match assoc name (c_env c) with
    | Some a => match nth_error (cells st) a with Some v => Ok v | None => Stuck "dangling cell" end
    | None => Stuck "super outside a method"
    end
  end.

(* vm.rs iter_next_impl, the `next` a for loop sends to its iterator every round: `self.invoke(self.next_string, 0)`
   (IterInvoke: the ordinary member invocation, fields first) - or, in a seeded variant, straight to the class's method
   table (IterFromClass), bypassing a field named `next` *)
Inductive iter_mode := IterInvoke | IterFromClass.
Definition iter_mode_of_code (n : nat) : option iter_mode :=
  match n with 0 => Some IterInvoke | 1 => Some IterFromClass | _ => None end.

Definition sem_mech_gen (old_super : super_mode) (im : iter_mode) : sem := mkSem
  (fun st recv n => get_property (world_of st) recv n)
  (fun st recv n argc => invoke (world_of st) recv n argc)
  (fun st c n => match c_super c with
                 | Some sup => rbind (super_receiver old_super st c) (fun recv => get_super (world_of st) sup recv n)
                 | None => Stuck no_super
                 end)
  (fun st c n argc => match c_super c with
                      | Some sup => rbind (super_receiver old_super st c)
                                          (fun recv => super_invoke (world_of st) sup recv n argc)
                      | None => Stuck no_super
                      end)
  (fun st r q => derives (mstore st) r q)
  (fun st => List.length (classes (mstore st)))
  (fun st r => match r with
               | CUser _ | CMeta _ => option_map cname (class_obj (mstore st) r)
               | _ => None
               end)
  (fun st it => match im with
                | IterInvoke => invoke (world_of st) it "next" 0
                | IterFromClass => invoke_from_class (world_of st) (class_of (heap st) it) it "next" 0
                end).

Definition sem_mech : sem := sem_mech_gen SuperEnclosingMethod IterInvoke.
Definition sem_mech_old : sem := sem_mech_gen SuperRunningFrame IterInvoke.
Definition sem_mech_any_static : sem := sem_mech_gen SuperAnyStaticSelf IterInvoke.
Definition sem_mech_iter_from_class : sem := sem_mech_gen SuperEnclosingMethod IterFromClass.


Definition spec_super_ctx {A} (st : state) (c : ctx) (k : nat -> value -> res A) : res A :=
  match c_owner c with
  | Some o =>
    match nth_error (hist st) o with
    | Some d => match d_super d with
                | Some _ => rbind (lexical_self st c) (k o)
                | None => Stuck no_super
                end
    | None => Stuck no_super
    end
  | None => Stuck no_super
  end.

Definition sem_spec : sem := mkSem
  (fun st recv n => spec_get (hist st) (heap st) recv n)
  (fun st recv n argc => spec_invoke (hist st) (heap st) (arities st) recv n argc)
  (fun st c n => spec_super_ctx st c (fun o recv => spec_super_get (hist st) o recv n))
  (fun st c n argc => spec_super_ctx st c (fun o recv => spec_super_invoke (hist st) (arities st) o recv n argc))
  (fun st r q => derivesS (hist st) r q)
  (fun st => List.length (hist st))
  (fun st r => match r with
               | CUser i => option_map d_name (nth_error (hist st) i)
               | CMeta i => option_map (fun d => if Nat.eqb i 0 then "Type" else d_name d ++ "Class") (nth_error (hist st) i)
               | _ => None
               end)
  (fun st it => spec_invoke (hist st) (heap st) (arities st) it "next" 0).

(* ---------- outcomes ---------- *)
Inductive oc :=
| RVal (v : value) | RVals (vs : list value) | RNext (rho : env) | RRet (v : value)
| RErr (k : ekind) (msg : string) | RFuel | RStuck (why : string).

Inductive task :=
| TE (e : expr) | TA (es : list expr) | T1 (s : stmt) | TS (ss : list stmt)
| TEnter (t : target) (args : list value)
| TLoop (it : value) (a : nat) (body : list stmt).      (* the rounds of a for loop; a = cell of the loop variable *)

Definition of_res {A} (r : res A) (k : A -> state * oc) (st : state) : state * oc :=
  match r with Ok a => k a | Err e m => (st, RErr e m) | Stuck w => (st, RStuck w) end.

Definition lookup_var (c : ctx) (st : state) (x : string) : res value :=
  match assoc x (c_env c) with
  | Some a => match nth_error (cells st) a with Some v => Ok v | None => Stuck "dangling cell" end
  | None => match assoc x (globals st) with
            | Some v => Ok v
            | None => Err NameError ("Undefined variable '" ++ x ++ "'.")
            end
  end.

Definition alloc_cell (st : state) (v : value) : state * nat :=
  (set_cells st (cells st ++ [v]), List.length (cells st)).

(* declare a variable in the current scope *)
Definition declare (c : ctx) (st : state) (x : string) (v : value) : state * env :=
  if c_local c then let '(st1, a) := alloc_cell st v in (st1, (x, a) :: c_env c)
  else (set_globals st (assoc_set x v (globals st)), c_env c).

Definition assign (rho : env) (st : state) (x : string) (v : value) : res state :=
  match assoc x rho with
  | Some a => Ok (set_cells st (list_set a v (cells st)))
  | None => match assoc x (globals st) with
            | Some _ => Ok (set_globals st (assoc_set x v (globals st)))
            | None => Err NameError ("Undefined variable '" ++ x ++ "'.")
            end
  end.

Definition value_eqb (a b : value) : option bool :=
  match a, b with
  | VNil, VNil => Some true
  | VBool x, VBool y => Some (Bool.eqb x y)
  | VNum x, VNum y => Some (Z.eqb x y)
  | VStr x, VStr y => Some (String.eqb x y)
  | VClass x, VClass y => Some (Nat.eqb x y)
  | VInst x, VInst y => Some (Nat.eqb x y)
  | VClosure x, VClosure y => Some (Nat.eqb x y)
  | VBound _ _, _ | _, VBound _ _ | VBoundNative _ _, _ | _, VBoundNative _ _ => None   (* object identity: not modelled *)
  | _, _ => Some false
  end.

Definition display (S : sem) (st : state) (v : value) : option string :=
  match v with
  | VNil => Some "nil"
  | VBool true => Some "true"
  | VBool false => Some "false"
  | VNum z => Some (show_Z z)
  | VStr s => Some s
  | VClass c => option_map (fun n => "<class " ++ n ++ ">") (s_cname S st (CUser c))
  | _ => None                                   (* the rendering contains an address *)
  end.

Definition type_name (S : sem) (st : state) (v : value) : option string :=
  match v with
  | VInst _ | VClass _ => s_cname S st (class_of (heap st) v)
  | VNil => Some "Nil" | VNum _ => Some "Num" | VStr _ => Some "String" | VBool _ => Some "Boolean"
  | VClosure _ => Some "Func" | VBound _ _ => Some "Method" | VBoundNative _ _ => Some "BuiltInMethod"
  end.

Definition new_closure (st : state) (cl : closure) : state * nat :=
  (set_closures st (closures st ++ [cl]), List.length (closures st)).

Definition closure_owner (st : state) (f : nat) : option nat :=
  match nth_error (closures st) f with Some cl => cl_owner cl | None => None end.

(* bookkeeping for the coverage measure: which definition a dispatch through an instance's class reached *)
Definition log_dispatch (st : state) (recv : value) (n : string) (f : option nat) : state :=
  match recv, f with
  | VInst a, Some f =>
    match nth_error (heap st) a with
    | Some i => match fld_get n (fields i) with
                | None => log st (EvDispatch (iclass i) n (closure_owner st f))
                | Some _ => st
                end
    | None => st
    end
  | _, _ => st
  end.

Definition target_closure (t : target) : option nat := match t with TClosure f _ => Some f | TNative _ _ => None end.
Definition bound_closure (v : value) : option nat := match v with VBound _ f => Some f | _ => None end.

(* the method closures of a class body (no evaluation involved) *)
Definition op_of_kind (k : fkind) (n : string) (m : mref) : cop :=
  match k with KMethod | KFun => OMethod n m | KStatic | KInit => OStaticMethod n m end.
Definition static_of_kind (k : fkind) : bool := match k with KMethod | KFun => false | _ => true end.

Fixpoint define_methods (rho : env) (supv : option value) (i : nat) (ms : list mdecl) (st : state)
         (defs : list (string * bool * mref)) : res (state * list (string * bool * mref)) :=
  match ms with
  | [] => Ok (st, defs)
  | MDecl k n ps body lab :: r =>
    let '(st1, f) := new_closure st (mkCl n k ps body rho supv (Some i) None lab) in
    match run_cop (mstore st1) (op_of_kind k n (MClosure f)) with
    | Ok cs => define_methods rho supv i r (set_mstore st1 cs) (defs ++ [(n, static_of_kind k, MClosure f)])
    | Err e m => Err e m
    | Stuck w => Stuck w
    end
  end.

Definition exec_class (S : sem) (c : ctx) (st : state) (cd : cdecl) : state * oc :=
  match cd with
  | CDecl name sup defctor ms label =>
    let '(st1, rho) := declare c st name VNil in
    let i := s_next_cid S st1 in
    of_res (run_cop (mstore st1) (ODeclare name)) (fun cs =>
      let st2 := set_mstore st1 cs in
      let c2 := ctx_env c rho (c_local c) in
      let after_super (st3 : state) (supv : option value) (s : option nat) : state * oc :=
        let '(st4, defs0) :=
          match defctor with
          | Some cn =>
            let '(st', f) := new_closure st3 (mkCl cn KInit [] [] rho supv (Some i) None label) in
            match run_cop (mstore st') (OStaticMethod cn (MClosure f)) with
            | Ok cs' => (set_mstore st' cs', [(cn, true, MClosure f)])
            | _ => (st3, [])
            end
          | None => (st3, [])
          end in
        of_res (define_methods rho supv i ms st4 defs0) (fun sd =>
          let '(st5, defs) := sd in
          of_res (run_cop (mstore st5) ODefine) (fun cs' =>
            let st6 := set_hist (set_mstore st5 cs') (hist st5 ++ [mkDef name s defs]) in
            of_res (assign rho st6 name (VClass i)) (fun st7 => (st7, RNext rho)) st6) st3) st3 in
      match sup with
      | None => after_super st2 None None
      | Some sn =>
        of_res (lookup_var c2 st2 sn) (fun v =>
          of_res (run_cop (mstore st2) (OInherit v)) (fun cs' =>
            after_super (set_mstore st2 cs') (Some v) (match v with VClass s => Some s | _ => None end)) st2) st2
      end) st1
  end.

Definition slot0_name (k : fkind) : option string :=
  match k with KFun => None | KStatic => Some "Self" | KMethod | KInit => Some "self" end.

Fixpoint bind_params (st : state) (rho : env) (ps : list string) (vs : list value) : state * env :=
  match ps, vs with
  | p :: pr, v :: vr => let '(st1, a) := alloc_cell st v in bind_params st1 ((p, a) :: rho) pr vr
  | _, _ => (st, rho)
  end.

(* sequencing of outcomes *)
Definition bind_val (r : state * oc) (k : value -> state -> state * oc) : state * oc :=
  match r with
  | (st1, RVal v) => k v st1
  | (st1, RVals _) | (st1, RNext _) | (st1, RRet _) => (st1, RStuck "expression outcome")
  | other => other
  end.
Definition bind_vals (r : state * oc) (k : list value -> state -> state * oc) : state * oc :=
  match r with
  | (st1, RVals vs) => k vs st1
  | (st1, RVal _) | (st1, RNext _) | (st1, RRet _) => (st1, RStuck "argument outcome")
  | other => other
  end.

(* core.yl: Error (1), StopIter (2), Iter (3), MapIter (4) are defined by `prelude` below, in this order *)
Definition stop_iter_cid : nat := 2.

(* JumpIfStopIter: an instance of a class derived from StopIter ends the loop *)
Definition is_stop_iter (S : sem) (st : state) (r : value) : bool :=
  match r with
  | VInst a => match nth_error (heap st) a with
               | Some i => s_derives S st (CUser (iclass i)) stop_iter_cid
               | None => false
               end
  | _ => false
  end.

(* Value::into_bool *)
Definition truthy (v : value) : bool := match v with VNil => false | VBool b => b | _ => true end.

(* ---------- the evaluator ---------- *)
Fixpoint ev (S : sem) (fuel : nat) (c : ctx) (t : task) (st : state) {struct fuel} : state * oc :=
  match fuel with
  | O => (st, RFuel)
  | Datatypes.S f =>
    let rec := ev S f in
    let val (e : expr) (st : state) (k : value -> state -> state * oc) : state * oc :=
      bind_val (rec c (TE e) st) k in
    let vals (es : list expr) (st : state) (k : list value -> state -> state * oc) : state * oc :=
      bind_vals (rec c (TA es) st) k in
    match t with
    | TE e =>
      match e with
      | ENil => (st, RVal VNil)
      | EBool b => (st, RVal (VBool b))
      | ENum z => (st, RVal (VNum z))
      | EStr s => (st, RVal (VStr s))
      | EVar x => of_res (lookup_var c st x) (fun v => (st, RVal v)) st
      | ESelf =>
        match assoc "self" (c_env c) with
        | Some a => match nth_error (cells st) a with Some v => (st, RVal v) | None => (st, RStuck "dangling cell") end
        | None => (st, RStuck "self outside a method")
        end
      | ECapSelf =>
        match assoc "Self" (c_env c) with
        | Some a =>
          match nth_error (cells st) a with
          | Some v => match get_class_op (heap st) v with
                      | Some k => (st, RVal (VClass k))
                      | None => (st, RStuck "Self of a non-class, non-instance")
                      end
          | None => (st, RStuck "dangling cell")
          end
        | None => (st, RStuck "Self outside a static method")
        end
      | EGet e1 n =>
        val e1 st (fun recv st1 =>
          of_res (s_get S st1 recv n) (fun v => (log_dispatch st1 recv n (bound_closure v), RVal v)) st1)
      | EInvoke e1 n args =>
        val e1 st (fun recv st1 =>
          vals args st1 (fun vs st2 =>
            of_res (s_invoke S st2 recv n (List.length vs))
                   (fun tg => rec c (TEnter tg vs) (log_dispatch st2 recv n (target_closure tg))) st2))
      | ECall e1 args =>
        val e1 st (fun callee st1 =>
          vals args st1 (fun vs st2 =>
            of_res (call_value (arities st2) callee (List.length vs)) (fun tg => rec c (TEnter tg vs) st2) st2))
      | ESuperGet n =>
        of_res (s_super_get S st c n)
               (fun v => (log st (EvSuper (c_owner c) n (match bound_closure v with Some f => closure_owner st f | None => None end)), RVal v)) st
      | ESuperInvoke n args =>
        vals args st (fun vs st1 =>
          of_res (s_super_invoke S st1 c n (List.length vs))
                 (fun tg => rec c (TEnter tg vs)
                                (log st1 (EvSuper (c_owner c) n (match target_closure tg with Some f => closure_owner st1 f | None => None end)))) st1)
      | EEq a b =>
        val a st (fun va st1 =>
          val b st1 (fun vb st2 =>
            match value_eqb va vb with
            | Some r => (st2, RVal (VBool r))
            | None => (st2, RStuck "equality of bound methods")
            end))
      end
    | TA es =>
      match es with
      | [] => (st, RVals [])
      | e :: r =>
        val e st (fun v st1 =>
          vals r st1 (fun vs st2 => (st2, RVals (v :: vs))))
      end
    | TS ss =>
      match ss with
      | [] => (st, RNext (c_env c))
      | s :: r =>
        match rec c (T1 s) st with
        | (st1, RNext rho) => rec (ctx_env c rho (c_local c)) (TS r) st1
        | (st1, RVal _) | (st1, RVals _) => (st1, RStuck "statement outcome")
        | other => other
        end
      end
    | T1 s =>
      match s with
      | SPrint e =>
        val e st (fun v st1 =>
          match display S st1 v with
          | Some l => (emit st1 l, RNext (c_env c))
          | None => (st1, RStuck "display of an address-bearing value")
          end)
      | SPrintType e =>
        val e st (fun v st1 =>
          match type_name S st1 v with
          | Some l => (emit st1 ("<class " ++ l ++ ">"), RNext (c_env c))
          | None => (st1, RStuck "type of a built-in value")
          end)
      | SExpr e => val e st (fun _ st1 => (st1, RNext (c_env c)))
      | SVar x e => val e st (fun v st1 => let '(st2, rho) := declare c st1 x v in (st2, RNext rho))
      | SAssign x e => val e st (fun v st1 => of_res (assign (c_env c) st1 x v) (fun st2 => (st2, RNext (c_env c))) st1)
      | SSetField o n e =>
        val o st (fun recv st1 =>
          val e st1 (fun v st2 =>
            of_res (set_property (world_of st2) recv n v) (fun w => (set_heap st2 (w_heap w), RNext (c_env c))) st2))
      | SReturn None => (st, RRet VNil)
      | SReturn (Some e) => val e st (fun v st1 => (st1, RRet v))
      | SClass cd => exec_class S c st cd
      | SFun name ps body label =>
        if c_local c then
          let '(st1, a) := alloc_cell st VNil in
          let rho := (name, a) :: c_env c in
          let '(st2, fid) := new_closure st1 (mkCl name KFun ps body rho (c_super c) (c_owner c) (c_self c) label) in
          (set_cells st2 (list_set a (VClosure fid) (cells st2)), RNext rho)
        else
          let '(st1, fid) := new_closure st (mkCl name KFun ps body (c_env c) (c_super c) (c_owner c) (c_self c) label) in
          (set_globals st1 (assoc_set name (VClosure fid) (globals st1)), RNext (c_env c))
      | SBlock body =>
        match rec (ctx_env c (c_env c) true) (TS body) st with
        | (st1, RNext _) => (st1, RNext (c_env c))
        | other => other
        end
      | STry body =>
        match rec (ctx_env c (c_env c) true) (TS body) st with
        | (st1, RNext _) => (st1, RNext (c_env c))
        | (st1, RErr k msg) => (emit (emit st1 ("<class " ++ ekind_name k ++ ">")) msg, RNext (c_env c))
        | other => other
        end
      | SIf cond th el =>
        val cond st (fun v st1 =>
          match rec (ctx_env c (c_env c) true) (TS (if truthy v then th else el)) st1 with
          | (st2, RNext _) => (st2, RNext (c_env c))
          | other => other
          end)
      | SFor x e body =>
        (* compiler.rs for_statement: `e.iter()` is an ordinary Invoke; then IterNext / JumpIfStopIter per round *)
        val e st (fun v st1 =>
          of_res (s_invoke S st1 v "iter" 0) (fun tg =>
            bind_val (rec c (TEnter tg []) (log_dispatch st1 v "iter" (target_closure tg))) (fun it st2 =>
              let '(st3, a) := alloc_cell st2 VNil in
              match rec (ctx_env c ((x, a) :: c_env c) true) (TLoop it a body) st3 with
              | (st4, RNext _) => (st4, RNext (c_env c))
              | other => other
              end)) st1)
      end
    | TLoop it a body =>
      of_res (s_iter_next S st it) (fun tg =>
        bind_val (rec c (TEnter tg []) st) (fun r st1 =>
          if is_stop_iter S st1 r then (st1, RNext (c_env c))
          else
            match rec (ctx_env c (c_env c) true) (TS body) (set_cells st1 (list_set a r (cells st1))) with
            | (st3, RNext _) => rec c (TLoop it a body) st3
            | other => other
            end)) st
    | TEnter tg vs =>
      match tg with
      | TNative NDerives slot0 =>
        match vs with
        | [VClass q] => (st, RVal (VBool (s_derives S st (class_of (heap st) slot0) q)))
        | [v] => match display S st v with
                 | Some d => (st, RErr ValueError ("Expected a class name but found '" ++ d ++ "'."))
                 | None => (st, RStuck "display of an address-bearing value")
                 end
        | _ => (st, RErr TypeError ("Expected 1 parameter but found " ++ show_nat (List.length vs) ++ "."))
        end
      | TClosure fid slot0 =>
        match nth_error (closures st) fid with
        | None => (st, RStuck "dangling closure")
        | Some cl =>
          (* call_closure: the frame limit is tested after the arity *)
          if Nat.eqb (c_depth c) frames_max then (st, RErr IndexError "Stack overflow.") else
          (* Construct is the first instruction of an initialiser *)
          let '(st1, slot0') :=
            match cl_kind cl with
            | KInit => let '(w, v) := construct (world_of st) slot0 in (set_heap st (w_heap w), v)
            | _ => (st, slot0)
            end in
          let '(st2, rho0) :=
            match slot0_name (cl_kind cl) with
            | Some nm => let '(s', a) := alloc_cell st1 slot0' in (s', (nm, a) :: cl_env cl)
            | None => (st1, cl_env cl)
            end in
          let '(st3, rho) := bind_params st2 rho0 (cl_params cl) vs in
          let c' := mkCtx rho true (cl_super cl) (cl_owner cl) slot0' (Datatypes.S (c_depth c))
                          (match cl_kind cl with KFun => cl_self cl | _ => Some slot0' end)
                          (match cl_kind cl with KFun => true | _ => false end) in
          match rec c' (TS (cl_body cl)) st3 with
          | (st4, RNext _) => (st4, RVal (match cl_kind cl with KInit => slot0' | _ => VNil end))
          | (st4, RRet v) => (st4, RVal (match cl_kind cl with KInit => slot0' | _ => v end))
          | (st4, RVal _) | (st4, RVals _) => (st4, RStuck "body outcome")
          | other => other
          end
        end
      end
    end
  end.

Definition default_fuel : nat := 1200.

(* the part of core.yl the mini-language uses (labels >= 1000 mark core functions).  `collect` (needs vectors) and `filter`
   (its adapter only uses explicit invokes) are present in Iter's table, as in the implementation, but not modelled:
   calling them is STUCK.  FilterIter and the other error classes are not needed. *)
Definition unmodelled : list stmt := [SReturn (Some ECapSelf)].
Definition prelude : prog := [
  SClass (CDecl "Error" None None [
     MDecl KInit "new" ["context"] [SSetField ESelf "context" (EVar "context")] 1001] 1002);
  SClass (CDecl "StopIter" (Some "Error") None [
     MDecl KInit "new" [] [SExpr (ESuperInvoke "new" [ENil])] 1003] 1004);
  SClass (CDecl "Iter" None None [
     MDecl KMethod "iter" [] [SReturn (Some ESelf)] 1005;
     MDecl KMethod "map" ["f"] [SReturn (Some (EInvoke (EVar "MapIter") "new" [EInvoke ESelf "iter" []; EVar "f"]))] 1006;
     MDecl KMethod "collect" [] unmodelled 1007;
     MDecl KMethod "filter" ["pred"] unmodelled 1008;
     MDecl KMethod "reduce" ["func"; "init"] [
        SVar "ret" (EVar "init");
        SFor "v" ESelf [SAssign "ret" (ECall (EVar "func") [EVar "ret"; EVar "v"])];
        SReturn (Some (EVar "ret"))] 1009] 1010);
  SClass (CDecl "MapIter" (Some "Iter") None [
     MDecl KInit "new" ["iterable"; "func"] [SSetField ESelf "iterable" (EVar "iterable"); SSetField ESelf "func" (EVar "func")] 1011;
     MDecl KMethod "iter" [] [SReturn (Some ESelf)] 1012;
     MDecl KMethod "next" [] [
        SVar "next" (EInvoke (EGet ESelf "iterable") "next" []);
        SIf (EInvoke (EVar "next") "derives" [EVar "StopIter"]) [SReturn (Some (EVar "next"))] [];
        SReturn (Some (EInvoke ESelf "func" [EVar "next"]))] 1013] 1014)].

Definition run (S : sem) (p : prog) : state * oc := ev S default_fuel ctx0 (TS (prelude ++ p)) st0.
Definition eval_spec (p : prog) : state * oc := run sem_spec p.
Definition eval_mech (p : prog) : state * oc := run sem_mech p.
Definition eval_mech_old (p : prog) : state * oc := run sem_mech_old p.
Definition eval_mech_any_static (p : prog) : state * oc := run sem_mech_any_static p.
Definition eval_mech_iter_from_class (p : prog) : state * oc := run sem_mech_iter_from_class p.

(* ---------- observable result as text ---------- *)
Definition sep : string := "~".
Definition show_outcome (r : state * oc) : string :=
  let '(st, o) := r in
  show_sep sep (fun x => x) (rev (out st)) ++ "#" ++
  match o with
  | RNext _ => "ok"
  | RErr k m => "err:" ++ ekind_name k ++ ":" ++ m
  | RFuel => "FUEL"
  | RStuck w => "STUCK:" ++ w
  | RVal _ | RVals _ => "STUCK:value outcome"
  | RRet _ => "STUCK:return at top level"
  end.

(* ---------- M's class tables as text (compared with the harness dump) ---------- *)
Fixpoint insert_sorted (x : string * string) (l : list (string * string)) : list (string * string) :=
  match l with
  | [] => [x]
  | y :: r => if String.leb (fst x) (fst y) then x :: l else y :: insert_sorted x r
  end.
Definition sort_entries (l : list (string * string)) : list (string * string) := fold_right insert_sorted [] l.

Definition show_mref (st : state) (m : mref) : string :=
  match m with
  | MNative NDerives => "native"
  | MClosure f => match nth_error (closures st) f with
                  | Some cl => cl_name cl ++ "/" ++ show_nat (S (List.length (cl_params cl))) ++ "/"
                               ++ (if Nat.leb 1000 (cl_label cl) then "core" else "L" ++ show_nat (cl_label cl))
                  | None => "?"
                  end
  end.

Definition show_table (st : state) (t : mtable) : string :=
  show_sep "," (fun e => fst e ++ "=" ++ snd e) (sort_entries (map (fun e => (fst e, show_mref st (snd e))) t)).

Definition cref_name (cs : cstore) (r : cref) : string :=
  match class_obj cs r with Some c => cname c | None => "?" end.

Definition show_cls (st : state) (cm : cls * cls) : string :=
  let '(c, m) := cm in
  cname c ++ ":" ++ match csuper c with Some s => cref_name (mstore st) s | None => "-" end ++ ":"
        ++ cref_name (mstore st) (cmeta c) ++ ":" ++ show_table st (methods c) ++ ":" ++ show_table st (methods m).

Definition show_tables (st : state) : string := show_sep ";" (show_cls st) (classes (mstore st)).

(* the same dump computed from the declared history by the Spec's lookup (used only in tests of the model) *)

(* ---------- coverage measure ---------- *)
Definition strict_ancestors (h : list cdef) (c : nat) : list nat := tl (ancestry h c).

Definition is_mid_override (h : list cdef) (e : event) : bool :=
  match e with
  | EvDispatch c n (Some o) =>
    negb (Nat.eqb c o) &&
    existsb (fun a => match own h a n with Some _ => true | None => false end) (strict_ancestors h o)
  | _ => false
  end.
Definition is_super (e : event) : bool := match e with EvSuper _ _ _ => true | _ => false end.

Definition nontrivial (st : state) : bool :=
  existsb (is_mid_override (hist st)) (trace st) && existsb is_super (trace st).

(* ---------- `super` inside a function nested in a method: a coverage measure (it was the known class of the
   compiler before commit 0fbde2d, see sem_mech_old) ---------- *)
Fixpoint expr_has_super (e : expr) : bool :=
  match e with
  | ESuperGet _ | ESuperInvoke _ _ => true
  | EGet e1 _ => expr_has_super e1
  | EInvoke e1 _ args => expr_has_super e1 || (fix go (l : list expr) := match l with [] => false | x :: r => expr_has_super x || go r end) args
  | ECall e1 args => expr_has_super e1 || (fix go (l : list expr) := match l with [] => false | x :: r => expr_has_super x || go r end) args
  | EEq a b => expr_has_super a || expr_has_super b
  | _ => false
  end.

(* in_fn: inside a plain function nested (at any depth) in the current position *)
Fixpoint stmt_known (in_fn : bool) (s : stmt) : bool :=
  let es e := in_fn && expr_has_super e in
  let ss := fix go (l : list stmt) := match l with [] => false | x :: r => stmt_known in_fn x || go r end in
  match s with
  | SPrint e | SPrintType e | SExpr e | SVar _ e | SAssign _ e => es e
  | SSetField o _ v => es o || es v
  | SReturn (Some e) => es e
  | SReturn None => false
  | SClass (CDecl _ _ _ ms _) =>
    (fix gm (l : list mdecl) := match l with
       | [] => false
       | MDecl k _ _ body _ :: r =>
         (match k with KFun => true | _ => false end)       (* a member is never a plain function: ill-formed *)
         || (fix go (b : list stmt) := match b with [] => false | x :: r' => stmt_known false x || go r' end) body || gm r
       end) ms
  | SFun _ _ body _ => (fix go (l : list stmt) := match l with [] => false | x :: r => stmt_known true x || go r end) body
  | SBlock body | STry body => ss body
  | SIf cond th el => es cond || ss th || ss el
  | SFor _ e body => es e || ss body
  end.

Definition nested_super (p : prog) : bool := existsb (stmt_known false) p.

(* ---------- the metamorphic variant: every statement-level `e.n(args)` becomes `var t = e.n; t(args)` ---------- *)
Fixpoint meta_stmt (s : stmt) : list stmt :=
  let body := fix go (l : list stmt) : list stmt :=
    match l with [] => [] | x :: r => (meta_stmt x ++ go r)%list end in
  match s with
  | SExpr (EInvoke e n args) => [SBlock [SVar "tmp_" (EGet e n); SExpr (ECall (EVar "tmp_") args)]]
  | SPrint (EInvoke e n args) => [SBlock [SVar "tmp_" (EGet e n); SPrint (ECall (EVar "tmp_") args)]]
  | SVar x (EInvoke e n args) => [SVar (x ++ "_f") (EGet e n); SVar x (ECall (EVar (x ++ "_f")) args)]
  | SClass (CDecl name sup defctor ms label) =>
    [SClass (CDecl name sup defctor
       ((fix gm (l : list mdecl) : list mdecl :=
           match l with
           | [] => []
           | MDecl k n ps b lab :: r =>
             MDecl k n ps ((fix go (l' : list stmt) : list stmt :=
                              match l' with [] => [] | x :: r' => (meta_stmt x ++ go r')%list end) b) lab :: gm r
           end) ms) label)]
  | SFun name ps b label => [SFun name ps (body b) label]
  | SBlock b => [SBlock (body b)]
  | STry b => [STry (body b)]
  | SIf cond th el => [SIf cond (body th) (body el)]
  | SFor x e b => [SFor x e (body b)]
  | other => [other]
  end.

Definition meta_prog (p : prog) : prog := flat_map meta_stmt p.

(* ---------- rendering to yarel source (lines) ---------- *)
Fixpoint render_expr (e : expr) : string :=
  let args := fix go (l : list expr) : string :=
    match l with [] => "" | [x] => render_expr x | x :: r => render_expr x ++ ", " ++ go r end in
  match e with
  | ENil => "nil"
  | EBool true => "true"
  | EBool false => "false"
  | ENum z => show_Z z
  | EStr s => """" ++ s ++ """"
  | EVar x => x
  | ESelf => "self"
  | ECapSelf => "Self"
  | EGet e1 n => render_expr e1 ++ "." ++ n
  | EInvoke e1 n a => render_expr e1 ++ "." ++ n ++ "(" ++ args a ++ ")"
  | ECall e1 a => render_expr e1 ++ "(" ++ args a ++ ")"
  | ESuperGet n => "super." ++ n
  | ESuperInvoke n a => "super." ++ n ++ "(" ++ args a ++ ")"
  | EEq a b => "(" ++ render_expr a ++ " == " ++ render_expr b ++ ")"
  end.

Fixpoint indent (n : nat) : string := match n with O => "" | S k => "  " ++ indent k end.

Definition render_params (slot0 : option string) (ps : list string) : string :=
  show_sep ", " (fun x => x) (match slot0 with Some s => s :: ps | None => ps end).

Local Infix "+++" := (@app string) (right associativity, at level 60).

Fixpoint render_stmt (ind : nat) (s : stmt) : list string :=
  let body := fix go (i : nat) (l : list stmt) : list string :=
    match l with [] => [] | x :: r => render_stmt i x +++ go i r end in
  let pre := indent ind in
  match s with
  | SPrint e => [pre ++ "print(" ++ render_expr e ++ ");"]
  | SPrintType e => [pre ++ "print(type(" ++ render_expr e ++ "));"]
  | SExpr e => [pre ++ render_expr e ++ ";"]
  | SVar x e => [pre ++ "var " ++ x ++ " = " ++ render_expr e ++ ";"]
  | SAssign x e => [pre ++ x ++ " = " ++ render_expr e ++ ";"]
  | SSetField o n v => [pre ++ render_expr o ++ "." ++ n ++ " = " ++ render_expr v ++ ";"]
  | SReturn None => [pre ++ "return;"]
  | SReturn (Some e) => [pre ++ "return " ++ render_expr e ++ ";"]
  | SClass (CDecl name sup defctor ms label) =>
    let attrs := match defctor, sup with
                 | Some cn, Some sn => [pre ++ "#[constructor(" ++ cn ++ "), derive(" ++ sn ++ ")]"]
                 | Some cn, None => [pre ++ "#[constructor(" ++ cn ++ ")]"]
                 | None, Some sn => [pre ++ "#[derive(" ++ sn ++ ")]"]
                 | None, None => []
                 end in
    attrs +++ [pre ++ "class " ++ name ++ " { // L" ++ show_nat label]
    +++ (fix gm (l : list mdecl) : list string :=
          match l with
          | [] => []
          | MDecl k n ps b lab :: r =>
            ((indent (S ind) ++
              match k with
              | KStatic => "#[static] fn " ++ n ++ "(" ++ render_params None ps
              | KInit => "#[constructor] fn " ++ n ++ "(" ++ render_params (Some "self") ps
              | _ => "fn " ++ n ++ "(" ++ render_params (Some "self") ps
              end ++ ") { nil; // L" ++ show_nat lab)
             :: (fix go (l' : list stmt) : list string :=
                   match l' with [] => [] | x :: r' => render_stmt (S (S ind)) x +++ go r' end) b)
            +++ [indent (S ind) ++ "}"] +++ gm r
          end) ms
    +++ [pre ++ "}"]
  | SFun name ps b label =>
    (* label 1: the same closure written as a lambda bound to a variable (also FunctionKind::Function) *)
    match label with
    | 1 => [pre ++ "var " ++ name ++ " = |" ++ render_params None ps ++ "| {"] +++ body (S ind) b +++ [pre ++ "};"]
    | _ => [pre ++ "fn " ++ name ++ "(" ++ render_params None ps ++ ") {"] +++ body (S ind) b +++ [pre ++ "}"]
    end
  | SBlock b => [pre ++ "{"] +++ body (S ind) b +++ [pre ++ "}"]
  | SIf cond th el =>
    [pre ++ "if " ++ render_expr cond ++ " {"] +++ body (S ind) th +++ [pre ++ "} else {"] +++ body (S ind) el +++ [pre ++ "}"]
  | SFor x e b => [pre ++ "for " ++ x ++ " in " ++ render_expr e ++ " {"] +++ body (S ind) b +++ [pre ++ "}"]
  | STry b =>
    [pre ++ "try {"] +++ body (S ind) b
    +++ [pre ++ "} catch err_ {"; pre ++ "  print(type(err_));"; pre ++ "  print(err_.context);"; pre ++ "}"]
  end.

Definition render (p : prog) : list string := flat_map (render_stmt 0) p.
Definition render_text (p : prog) : string := show_sep sep (fun x => x) (render p).

(* one string per program for the correspondence check:
   spec outcome @ mech outcome @ M's class tables @ nontrivial @ super in a nested function @ source @
   mech outcome of the metamorphic variant @ its source   (`|` occurs in sources: lambdas) *)
(* diagnosis of a disagreement: the outcomes under the other two shapes of `super_` *)
Definition variant_case (p : prog) : string :=
  show_outcome (eval_mech_old p) ++ "@" ++ show_outcome (eval_mech_any_static p) ++ "@"
  ++ show_outcome (eval_mech_iter_from_class p).

Definition run_case (p : prog) : string :=
  let m := eval_mech p in
  show_outcome (eval_spec p) ++ "@" ++ show_outcome m ++ "@" ++ show_tables (fst m) ++ "@"
  ++ show_bool (nontrivial (fst m)) ++ "@" ++ show_bool (nested_super p) ++ "@" ++ render_text p ++ "@"
  ++ show_outcome (eval_mech (meta_prog p)) ++ "@" ++ render_text (meta_prog p).
