(* C07, round 8 - the errors the property names AT THE LIMITS of the machine.  Definitions only.

   vm.rs `call_closure` makes two tests before it pushes a frame:
     (1) `arg_count != arity`                              -> TypeError  "Expected N arguments but found M."
     (2) `active_fiber().frames.len() == FRAMES_MAX`       -> IndexError "Stack overflow."
   in this order: a wrong-arity call is a TypeError at EVERY depth, also when the fiber already holds FRAMES_MAX frames
   (both conditions true at once).  In the model the order is structural: the arity belongs to `Classes.call_closure`
   (reached through `invoke` / `call_value` / `super_invoke`, BEFORE a callee is entered), the frame limit to
   `ClassLang.ev`'s `TEnter (TClosure ..)` (AFTER a callee was determined).  Unknown members, non-callable callees, fields
   set on non-instances and non-class superclasses are decided without looking at the frames at all; natives push no frame.
   props/C07_limits.v ties the order of the two tests, the kind and text of (2) and the shape of its comparison to the
   current source (translate_c07.py). *)
From Coq Require Import List String ZArith Bool Arith.
From YV Require Import Show Classes ClassSpec ClassLang.
Import ListNotations.
Open Scope string_scope.

Inductive call_check_order := ArityThenFrameLimit | FrameLimitThenArity.
Definition call_check_order_of_code (n : nat) : option call_check_order :=
  match n with 0 => Some ArityThenFrameLimit | 1 => Some FrameLimitThenArity | _ => None end.

(* `frames.len() == FRAMES_MAX` and `frames.len() >= FRAMES_MAX` both mean: no frame is pushed on a fiber that holds
   FRAMES_MAX frames (the count never exceeds the limit) *)
Inductive frame_limit_test := FramesEqMax | FramesGeMax.
Definition frame_limit_test_of_code (n : nat) : option frame_limit_test :=
  match n with 0 => Some FramesEqMax | 1 => Some FramesGeMax | _ => None end.

Definition msg_stack_overflow : string := "Stack overflow.".
Definition kind_stack_overflow : ekind := IndexError.

(* the order the model implements *)
Definition model_call_check_order : call_check_order := ArityThenFrameLimit.

(* the same context with another number of frames on the fiber *)
Definition ctx_at (c : ctx) (d : nat) : ctx :=
  mkCtx (c_env c) (c_local c) (c_super c) (c_owner c) (c_slot0 c) d (c_self c) (c_infn c).

(* A self-limiting descent: `down` calls itself inside `try` until the call fails with "Stack overflow."; the frame that
   catches the error holds exactly frames_max frames and runs the probes there (once: `hit`).  Every level prints "lv". *)
Definition limit_probes : list stmt := [
  STry [SExpr (EInvoke (EVar "p") "m" [])];                                      (* wrong arity, invoke *)
  STry [SVar "g" (EGet (EVar "p") "m"); SExpr (ECall (EVar "g") [ENum 1; ENum 2])];   (* wrong arity, bound method *)
  STry [SExpr (EInvoke (EVar "P") "new" [ENum 1])];                              (* wrong arity, constructor *)
  STry [SExpr (EInvoke (EVar "p") "m" [ENum 1])];                                (* right arity: the frame limit *)
  STry [SExpr (EInvoke (EVar "p") "zz" [])];                                     (* unknown member *)
  STry [SExpr (ECall (EVar "P") [])];                                            (* not callable *)
  STry [SClass (CDecl "Z" (Some "p") None [] 9)];                                (* non-class superclass *)
  STry [SPrint (EInvoke (EVar "p") "derives" [EVar "P"])]].                      (* a native pushes no frame *)

Definition ex_limit : prog := [
  SClass (CDecl "P" None (Some "new") [MDecl KMethod "m" ["a"] [SReturn (Some ESelf)] 1] 2);
  SVar "p" (EInvoke (EVar "P") "new" []);
  SVar "hit" (EBool false);
  SFun "down" [] [SPrint (EStr "lv");
                  STry [SExpr (ECall (EVar "down") [])];
                  SIf (EEq (EVar "hit") (EBool false)) (SAssign "hit" (EBool true) :: limit_probes) []] 0;
  SExpr (ECall (EVar "down") [])].

Fixpoint count_occ_str (x : string) (l : list string) : nat :=
  match l with [] => 0 | y :: r => (if String.eqb x y then 1 else 0) + count_occ_str x r end.

(* what the probes print, after the descent *)
Definition ex_limit_tail : list string := [
  "<class IndexError>"; "Stack overflow.";
  "<class TypeError>"; "Expected 1 arguments but found 0.";
  "<class TypeError>"; "Expected 1 arguments but found 2.";
  "<class TypeError>"; "Expected 0 arguments but found 1.";
  "<class IndexError>"; "Stack overflow.";
  "<class AttributeError>"; "Undefined property 'zz'.";
  "<class TypeError>"; "Can only call functions and methods.";
  "<class RuntimeError>"; "Superclass must be a class.";
  "true"].
