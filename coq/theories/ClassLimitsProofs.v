(* C07, round 8 - proofs about the errors of the property at the limits of the machine (ClassLimits.v).
   For BOTH semantics (any `sem`): the errors of a call - unknown member, wrong arity, non-callable callee - are decided
   before, and independently of, the frame limit; the frame limit is reported exactly for a call that passed all of them
   while the fiber holds frames_max frames; natives are not subject to it. *)
From Coq Require Import List String ZArith Bool Arith Lia.
From YV Require Import Show Classes ClassSpec ClassLang ClassesProofs ClassLimits.
Import ListNotations.
Open Scope string_scope.

(* ---- an error found while determining the callee wins, whatever the number of frames ---- *)
Theorem call_error_at_any_depth : forall S f c e1 args st st1 st2 callee vs k m,
  ev S f c (TE e1) st = (st1, RVal callee) -> ev S f c (TA args) st1 = (st2, RVals vs) ->
  call_value (arities st2) callee (List.length vs) = Err k m ->
  ev S (Datatypes.S f) c (TE (ECall e1 args)) st = (st2, RErr k m).
Proof.
  intros S f c e1 args st st1 st2 callee vs k m H1 H2 H3.
  rewrite ev_TE_call, H1. unfold bind_val. rewrite H2. unfold bind_vals. rewrite H3. reflexivity.
Qed.

Theorem invoke_error_at_any_depth : forall S f c e1 n args st st1 st2 recv vs k m,
  ev S f c (TE e1) st = (st1, RVal recv) -> ev S f c (TA args) st1 = (st2, RVals vs) ->
  s_invoke S st2 recv n (List.length vs) = Err k m ->
  ev S (Datatypes.S f) c (TE (EInvoke e1 n args)) st = (st2, RErr k m).
Proof.
  intros S f c e1 n args st st1 st2 recv vs k m H1 H2 H3.
  rewrite ev_TE_invoke, H1. unfold bind_val. rewrite H2. unfold bind_vals. rewrite H3. reflexivity.
Qed.

Theorem super_invoke_error_at_any_depth : forall S f c n args st st1 vs k m,
  ev S f c (TA args) st = (st1, RVals vs) ->
  s_super_invoke S st1 c n (List.length vs) = Err k m ->
  ev S (Datatypes.S f) c (TE (ESuperInvoke n args)) st = (st1, RErr k m).
Proof.
  intros S f c n args st st1 vs k m H1 H2.
  rewrite ev_TE_superinvoke, H1. unfold bind_vals. rewrite H2. reflexivity.
Qed.

(* the operations that find the callee do not look at the number of frames *)
Theorem super_ops_ignore_depth : forall st c d n k,
  s_super_invoke sem_mech st (ctx_at c d) n k = s_super_invoke sem_mech st c n k /\
  s_super_get sem_mech st (ctx_at c d) n = s_super_get sem_mech st c n /\
  s_super_invoke sem_spec st (ctx_at c d) n k = s_super_invoke sem_spec st c n k /\
  s_super_get sem_spec st (ctx_at c d) n = s_super_get sem_spec st c n.
Proof. intros. repeat split; reflexivity. Qed.

(* ---- the frame limit itself ---- *)
Theorem frame_limit_exact : forall S f c fid slot0 vs st cl,
  nth_error (closures st) fid = Some cl -> c_depth c = frames_max ->
  ev S (Datatypes.S f) c (TEnter (TClosure fid slot0) vs) st = (st, RErr kind_stack_overflow msg_stack_overflow).
Proof.
  intros S f c fid slot0 vs st cl H1 H2. rewrite ev_enter_closure, H1, H2. reflexivity.
Qed.

Theorem native_ignores_frame_limit : forall S f c d slot0 vs st,
  ev S (Datatypes.S f) (ctx_at c d) (TEnter (TNative NDerives slot0) vs) st =
  ev S (Datatypes.S f) c (TEnter (TNative NDerives slot0) vs) st.
Proof. intros. rewrite !ev_enter_native. reflexivity. Qed.

(* ---- both conditions true at once: the wrong arity wins (bound method / closure called as a value, and invoke) ---- *)
Theorem wrong_arity_wins_at_frame_limit : forall S f c e1 args st st1 st2 callee r fid vs a,
  c_depth c = frames_max ->
  callee = VBound r fid \/ callee = VClosure fid ->
  ev S f c (TE e1) st = (st1, RVal callee) -> ev S f c (TA args) st1 = (st2, RVals vs) ->
  nth_error (arities st2) fid = Some a -> List.length vs <> a - 1 ->
  ev S (Datatypes.S f) c (TE (ECall e1 args)) st = (st2, RErr TypeError (expected_args (a - 1) (List.length vs))).
Proof.
  intros S f c e1 args st st1 st2 callee r fid vs a _ Hc H1 H2 Ha Hne.
  eapply call_error_at_any_depth; eauto.
  destruct Hc as [Hc|Hc]; subst callee; simpl;
    exact (proj1 (proj2 class_errors_table) (arities st2) fid _ (List.length vs) a Ha Hne).
Qed.

Theorem wrong_arity_invoke_wins_at_frame_limit : forall f c e1 n args st st1 st2 recv fid vs a,
  c_depth c = frames_max ->
  ev sem_mech f c (TE e1) st = (st1, RVal recv) -> ev sem_mech f c (TA args) st1 = (st2, RVals vs) ->
  get_property (world_of st2) recv n = Ok (VBound recv fid) ->
  nth_error (arities st2) fid = Some a -> List.length vs <> a - 1 ->
  ev sem_mech (Datatypes.S f) c (TE (EInvoke e1 n args)) st = (st2, RErr TypeError (expected_args (a - 1) (List.length vs))).
Proof.
  intros f c e1 n args st st1 st2 recv fid vs a _ H1 H2 Hg Ha Hne.
  eapply invoke_error_at_any_depth; eauto.
  simpl. rewrite invoke_eq_get_then_call, Hg. simpl.
  exact (proj1 (proj2 class_errors_table) (arities st2) fid _ (List.length vs) a Ha Hne).
Qed.

(* ---- only the frame limit is wrong: IndexError, and nothing was constructed / bound ---- *)
Theorem right_arity_at_frame_limit : forall S f c e1 args st st1 st2 callee r fid vs cl,
  c_depth c = frames_max ->
  callee = VBound r fid \/ callee = VClosure fid ->
  ev S (Datatypes.S f) c (TE e1) st = (st1, RVal callee) -> ev S (Datatypes.S f) c (TA args) st1 = (st2, RVals vs) ->
  nth_error (closures st2) fid = Some cl -> List.length vs = List.length (cl_params cl) ->
  ev S (Datatypes.S (Datatypes.S f)) c (TE (ECall e1 args)) st = (st2, RErr kind_stack_overflow msg_stack_overflow).
Proof.
  intros S f c e1 args st st1 st2 callee r fid vs cl Hd Hc H1 H2 Hcl Hlen.
  assert (Ha : nth_error (arities st2) fid = Some (Datatypes.S (List.length (cl_params cl)))).
  { unfold arities. rewrite (map_nth_error _ _ _ Hcl). reflexivity. }
  rewrite ev_TE_call, H1. unfold bind_val. rewrite H2. unfold bind_vals.
  assert (Hcv : exists s0, call_value (arities st2) callee (List.length vs) = Ok (TClosure fid s0)).
  { destruct Hc as [Hc|Hc]; subst callee; simpl; unfold call_closure; rewrite Ha; simpl;
      rewrite Hlen, Nat.sub_0_r, Nat.eqb_refl; eexists; reflexivity. }
  destruct Hcv as [s0 Hcv]. rewrite Hcv. simpl of_res.
  eapply frame_limit_exact; eauto.
Qed.

(* ---- a computed example: the descent to exactly frames_max frames, then the probes ---- *)
Theorem ex_limit_outcome :
  show_outcome (eval_mech ex_limit) = show_outcome (eval_spec ex_limit) /\
  snd (eval_spec ex_limit) = RNext [] /\
  firstn (frames_max - 1) (rev (out (fst (eval_spec ex_limit)))) = repeat "lv" (frames_max - 1) /\
  skipn (frames_max - 1) (rev (out (fst (eval_spec ex_limit)))) = ex_limit_tail.
Proof. vm_compute. repeat split; reflexivity. Qed.

Print Assumptions call_error_at_any_depth.
Print Assumptions invoke_error_at_any_depth.
Print Assumptions super_invoke_error_at_any_depth.
Print Assumptions super_ops_ignore_depth.
Print Assumptions frame_limit_exact.
Print Assumptions native_ignores_frame_limit.
Print Assumptions wrong_arity_wins_at_frame_limit.
Print Assumptions wrong_arity_invoke_wins_at_frame_limit.
Print Assumptions right_arity_at_frame_limit.
Print Assumptions ex_limit_outcome.
