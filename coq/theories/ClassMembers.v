(* C07 round 9 - member access: which FORM of access consults which PLACE (the receiver's fields, the receiver's class table,
   the captured superclass's table), and on what STATE a lookup depends.  Definitions only (proofs: ClassMembersProofs.v).

   The Mechanism of Classes.v is a function of (class store, heap, arities): it has no memory of earlier lookups.  The
   tables below record the state and the shape of the lookup paths of vm.rs as they are when this model was written; the
   translator re-reads them from the CURRENT source (YVGen.ClassSrc), props/C07_members.v compares.  A cache, a counter, a
   capacity, a new helper that takes (class, name), a lookup function that starts to read `.fields` / `.methods` or another
   piece of the Vm's state changes them. *)
From Coq Require Import List String Bool Arith.
From YV Require Import Show Classes ClassSpec ClassLang.
Import ListNotations.
Open Scope string_scope.

(* the fields of `struct Vm` *)
Definition model_vm_state_fields : list string :=
  ["ip"; "active_module"; "active_chunk"; "fiber"; "unsafe_fiber"; "next_string"; "class_store"; "chunks"; "modules";
   "core_chunks"; "string_class"; "string_store"; "range_cache"; "working_class_def"; "module_loader"; "printer";
   "handling_exception"].

(* per function on the lookup paths: the `self.<name>` it touches | number of `.fields` | number of `.methods` reads *)
Definition model_member_lookup_shapes : list (string * string) :=
  [("get_property_impl", "self:bind_method,get_class,peek,pop,push,read_string|fields:1|methods:0");
   ("set_property_impl", "self:peek,pop,push,read_string,try_handle_error|fields:1|methods:0");
   ("get_super_impl", "self:bind_method,pop,read_string|fields:0|methods:0");
   ("bind_method", "self:new_root_obj_bound_method,peek,pop,push,try_handle_error|fields:0|methods:1");
   ("invoke_impl", "self:invoke,read_byte,read_string|fields:0|methods:0");
   ("invoke", "self:call_value,get_class,invoke_from_class,peek,poke|fields:1|methods:0");
   ("invoke_from_class", "self:call_closure,call_native,try_handle_error|fields:0|methods:1");
   ("super_invoke_impl", "self:invoke_from_class,pop,read_byte,read_string|fields:0|methods:0");
   ("call_value", "self:call_closure,call_native,poke,try_handle_error|fields:0|methods:0");
   ("get_class", "self:class_store|fields:0|methods:0");
   ("inherit_impl", "self:peek,pop,try_handle_error,working_class_def|fields:0|methods:2");
   ("define_method", "self:peek,pop,working_class_def|fields:0|methods:3");
   ("declare_class_impl", "self:class_store,new_gc_obj_string,push,read_string,working_class_def|fields:0|methods:0");
   ("define_class_impl", "self:poke,working_class_def|fields:0|methods:0")].

(* the functions of the Vm that take a class and a member name *)
Definition model_class_and_name_functions : list string := ["bind_method"; "invoke_from_class"; "new_root_obj_class"].

Definition str_list_eqb (a b : list string) : bool :=
  Nat.eqb (List.length a) (List.length b) && forallb (fun p => String.eqb (fst p) (snd p)) (combine a b).
Definition pair_list_eqb (a b : list (string * string)) : bool :=
  str_list_eqb (map fst a) (map fst b) && str_list_eqb (map snd a) (map snd b).

(* `super.label` taken as a VALUE on an instance that carries a field `label`: the superclass's method, bound to the
   receiver; `d.label`, `self.label` see the field *)
Definition ex_super_value_field : prog :=
  [SClass (CDecl "Base" None None [MDecl KMethod "label" [] [SPrint (EStr "Base.label"); SReturn (Some ESelf)] 1] 2);
   SClass (CDecl "Derived" (Some "Base") (Some "new")
     [MDecl KMethod "label" [] [SPrint (EStr "Derived.label"); SReturn (Some (ESuperInvoke "label" []))] 3;
      MDecl KMethod "call_form" [] [SReturn (Some (ESuperInvoke "label" []))] 4;
      MDecl KMethod "value_form" [] [SVar "f" (ESuperGet "label"); SReturn (Some (ECall (EVar "f") []))] 5;
      MDecl KMethod "self_form" [] [SVar "f" (EGet ESelf "label"); SReturn (Some (ECall (EVar "f") []))] 6] 7);
   SVar "d" (EInvoke (EVar "Derived") "new" []);
   SPrint (EEq (EInvoke (EVar "d") "call_form" []) (EVar "d"));
   SPrint (EEq (EInvoke (EVar "d") "value_form" []) (EVar "d"));
   SSetField (EVar "d") "label" (EStr "just a field");
   SPrint (EGet (EVar "d") "label");
   SPrint (EEq (EInvoke (EVar "d") "call_form" []) (EVar "d"));
   SPrint (EEq (EInvoke (EVar "d") "value_form" []) (EVar "d"));
   STry [SPrint (EInvoke (EVar "d") "self_form" [])];
   STry [SPrint (EInvoke (EVar "d") "label" [])]].

Definition ex_super_value_field_outcome : string :=
  "Base.label~true~Base.label~true~just a field~Base.label~true~Base.label~true~<class TypeError>~Can only call functions and methods.~<class TypeError>~Can only call functions and methods.#ok".
