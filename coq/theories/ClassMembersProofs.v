(* C07 round 9 - proofs for ClassMembers.v *)
From Coq Require Import List String Bool Arith.
From YV Require Import Show Classes ClassSpec ClassLang ClassMembers.
Import ListNotations.
Open Scope string_scope.

(* member lookup has no memory: the answer is a function of the class store (and, for calls, of the arities) - whatever
   was looked up before, however often, in whatever order *)
Lemma bind_method_depends_on_class_store_only : forall w1 w2 c recv n,
  w_cs w1 = w_cs w2 -> bind_method w1 c recv n = bind_method w2 c recv n.
Proof. intros w1 w2 c recv n H. unfold bind_method. rewrite H. reflexivity. Qed.

Lemma invoke_from_class_depends_on_class_store_only : forall w1 w2 c slot0 n argc,
  w_cs w1 = w_cs w2 -> w_arity w1 = w_arity w2 ->
  invoke_from_class w1 c slot0 n argc = invoke_from_class w2 c slot0 n argc.
Proof. intros w1 w2 c s n k H H'. unfold invoke_from_class. rewrite H, H'. reflexivity. Qed.

(* `super.n` (value and call form) never consults the heap: neither the receiver's fields nor its dynamic class *)
Lemma super_access_ignores_heap : forall cs h1 h2 ar sup recv n argc,
  get_super (mkW cs h1 ar) sup recv n = get_super (mkW cs h2 ar) sup recv n /\
  super_invoke (mkW cs h1 ar) sup recv n argc = super_invoke (mkW cs h2 ar) sup recv n argc.
Proof. intros. destruct sup; split; reflexivity. Qed.

(* the matrix: the receiver carries a field named n *)
Lemma field_visible_only_through_receiver_access : forall w a i n v s argc,
  nth_error (w_heap w) a = Some i -> fld_get n (fields i) = Some v ->
  get_property w (VInst a) n = Ok v /\
  invoke w (VInst a) n argc = call_value (w_arity w) v argc /\
  get_super w (VClass s) (VInst a) n = bind_method w (CUser s) (VInst a) n /\
  super_invoke w (VClass s) (VInst a) n argc = invoke_from_class w (CUser s) (VInst a) n argc.
Proof.
  intros w a i n v s argc H H0. unfold get_property, invoke, get_super, super_invoke.
  rewrite H, H0. repeat split; reflexivity.
Qed.

(* ... and the receiver does not: every form goes to a class table - the receiver's own class for x.n / x.n(..), the
   captured superclass for super.n / super.n(..) *)
Lemma no_field_every_form_uses_a_class_table : forall w a i n s argc,
  nth_error (w_heap w) a = Some i -> fld_get n (fields i) = None ->
  get_property w (VInst a) n = bind_method w (CUser (iclass i)) (VInst a) n /\
  invoke w (VInst a) n argc = invoke_from_class w (CUser (iclass i)) (VInst a) n argc /\
  get_super w (VClass s) (VInst a) n = bind_method w (CUser s) (VInst a) n /\
  super_invoke w (VClass s) (VInst a) n argc = invoke_from_class w (CUser s) (VInst a) n argc.
Proof.
  intros w a i n s argc H H0. unfold get_property, invoke, get_super, super_invoke, class_of.
  rewrite H, H0. repeat split; reflexivity.
Qed.

(* a class value (Self, a class name) has no fields: `Self.n` / `C.n` always go to the metaclass table *)
Lemma class_value_access_uses_metaclass_table : forall w c n argc,
  get_property w (VClass c) n = bind_method w (CMeta c) (VClass c) n /\
  invoke w (VClass c) n argc = invoke_from_class w (CMeta c) (VClass c) n argc.
Proof. intros. split; reflexivity. Qed.

(* the value form and the call form of `super` agree: super.n(args) = (super.n)(args) *)
Lemma super_invoke_eq_super_get_then_call : forall w sup recv n argc,
  super_invoke w sup recv n argc = rbind (get_super w sup recv n) (fun v => call_value (w_arity w) v argc).
Proof.
  intros w sup recv n argc. destruct sup; try reflexivity.
  unfold super_invoke, get_super, invoke_from_class, bind_method.
  destruct (tbl_get n (table_of (w_cs w) (CUser c))) as [[f|k]|]; reflexivity.
Qed.

Lemma ex_super_value_field_ok :
  show_outcome (eval_mech ex_super_value_field) = ex_super_value_field_outcome /\
  show_outcome (eval_spec ex_super_value_field) = ex_super_value_field_outcome.
Proof. split; vm_compute; reflexivity. Qed.
