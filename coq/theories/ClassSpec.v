(* C07 - Spec S of member lookup: what the property text demands, as simply as possible.

   A class definition is recorded as DECLARED: its name, the class its #[derive(..)] expression denoted when
   the definition was executed (None = no derive = Object), and its own member definitions in textual order.
   Member lookup walks the declared ancestry, the nearest definition wins (within one class the last one);
   `super.m` inside a method of class C starts at C's declared superclass; `x.m(a)` is `(x.m)(a)`.
   Definitional observations reproduced here (DESIGN.md App. C): a static method is an ordinary member of the
   class's instances (Self is then the instance's class); through the CLASS VALUE only the class's OWN static
   members (and Object's members, unless the class defines a non-static member of that name) are reachable. *)
From Coq Require Import List String ZArith Bool Arith.
From YV Require Import Show Classes.
Import ListNotations.
Open Scope string_scope.

Definition declared_super (i : nat) (d : cdef) : option nat :=
  match d_super d with
  | Some s => Some s
  | None => if Nat.eqb i 0 then None else Some 0
  end.

(* the last definition of n in one class body *)
Fixpoint own_lookup (defs : list (string * bool * mref)) (n : string) : option (bool * mref) :=
  match defs with
  | [] => None
  | (k, st, m) :: r =>
    match own_lookup r n with
    | Some x => Some x
    | None => if String.eqb n k then Some (st, m) else None
    end
  end.

Definition own (h : list cdef) (c : nat) (n : string) : option (bool * mref) :=
  match nth_error h c with Some d => own_lookup (d_defs d) n | None => None end.

(* c, its declared superclass, ... up to Object *)
Fixpoint ancestry_walk (fuel : nat) (h : list cdef) (c : nat) : list nat :=
  match fuel with
  | O => []
  | S f => c :: match nth_error h c with
                | Some d => match declared_super c d with Some s => ancestry_walk f h s | None => [] end
                | None => []
                end
  end.

Definition ancestry (h : list cdef) (c : nat) : list nat := ancestry_walk (S c) h c.

Fixpoint first_some {A B} (f : A -> option B) (l : list A) : option B :=
  match l with
  | [] => None
  | x :: r => match f x with Some y => Some y | None => first_some f r end
  end.

(* the method defined nearest in the class's ancestry *)
Definition lookupS (h : list cdef) (c : nat) (n : string) : option mref :=
  option_map snd (first_some (fun a => own h a n) (ancestry h c)).

(* members reachable through the class value itself *)
Definition static_lookupS (h : list cdef) (c : nat) (n : string) : option mref :=
  if Nat.eqb c 0 then lookupS h 0 n        (* Object's own class, Type, is a subclass of Object *)
  else match nth_error h c with
       | None => None
       | Some d => match own_lookup (d_defs d) n with
                   | Some (true, m) => Some m
                   | Some (false, _) => None
                   | None => lookupS h 0 n
                   end
       end.

Definition findS (h : list cdef) (r : cref) (n : string) : option mref :=
  match r with
  | CUser c => lookupS h c n
  | CMeta c => static_lookupS h c n
  | CBuiltin _ | CBaseMeta => lookupS h 0 n
  end.

(* `super.n` written in the body of class `owner` *)
Definition superS (h : list cdef) (owner : nat) (n : string) : option mref :=
  match nth_error h owner with
  | Some d => match declared_super owner d with Some s => lookupS h s n | None => None end
  | None => None
  end.

Definition derivesS (h : list cdef) (r : cref) (q : nat) : bool :=
  match r with
  | CUser c => existsb (Nat.eqb q) (ancestry h c)
  | CMeta c => Nat.ltb c (List.length h) && Nat.eqb q 0
  | CBuiltin _ | CBaseMeta => Nat.eqb q 0
  end.

(* declared ancestor relation (reflexive, transitive) *)
Inductive ancestor (h : list cdef) : nat -> nat -> Prop :=
| anc_refl : forall c, ancestor h c c
| anc_step : forall c d s q, nth_error h c = Some d -> declared_super c d = Some s -> ancestor h s q -> ancestor h c q.

(* a superclass is defined before its subclasses; entry 0 is Object *)
Definition wf_hist (h : list cdef) : Prop :=
  nth_error h 0 = Some object_def /\
  forall i d s, nth_error h i = Some d -> d_super d = Some s -> s < i.

(* ----- member access on a value ----- *)
Definition spec_get (h : list cdef) (heap : list inst) (recv : value) (n : string) : res value :=
  let via_class :=
    match findS h (class_of heap recv) n with
    | Some (MClosure f) => Ok (VBound recv f)
    | Some (MNative k) => Ok (VBoundNative recv k)
    | None => Err AttributeError (undefined_property n)
    end in
  match recv with
  | VInst a => match nth_error heap a with
               | Some i => match fld_get n (fields i) with Some v => Ok v | None => via_class end
               | None => Stuck "dangling instance"
               end
  | _ => via_class
  end.

(* x.n(args) is (x.n)(args) *)
Definition spec_invoke (h : list cdef) (heap : list inst) (ar : list nat) (recv : value) (n : string) (argc : nat)
  : res target :=
  rbind (spec_get h heap recv n) (fun f => call_value ar f argc).

Definition spec_super_get (h : list cdef) (owner : nat) (recv : value) (n : string) : res value :=
  match superS h owner n with
  | Some (MClosure f) => Ok (VBound recv f)
  | Some (MNative k) => Ok (VBoundNative recv k)
  | None => Err AttributeError (undefined_property n)
  end.

Definition spec_super_invoke (h : list cdef) (ar : list nat) (owner : nat) (recv : value) (n : string) (argc : nat)
  : res target :=
  rbind (spec_super_get h owner recv n) (fun f => call_value ar f argc).
