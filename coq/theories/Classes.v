(* C07 - Mechanism M of the object model of yarel (vm.rs / object.rs / core.rs), definitions only.

   Class objects carry a merged COPY-DOWN method table, built exactly as the opcodes
   DeclareClass / Inherit / Method / StaticMethod / DefineClass build it through
   `Vm.working_class_def` (vm.rs declare_class_impl, inherit_impl, define_method, define_class_impl;
   object.rs ObjClass::new).  Dispatch (get_property_impl, set_property_impl, invoke,
   invoke_from_class, bind_method, call_value, call_closure, construct_impl, get_class_impl,
   get_super_impl, super_invoke_impl) is modelled up to the point where a callee is entered:
   a `target` names the callee and the value that sits in stack slot 0 of the new frame.
   core.rs object_derives walks `superclass`.

   Class ids: user classes are numbered in the order of their DefineClass (0 = Object); the metaclass of
   class i is `CMeta i`; receivers that are neither instances nor classes have a built-in class. *)
From Coq Require Import List String Ascii ZArith Bool Arith.
From YV Require Import Show.
Import ListNotations.
Open Scope string_scope.

(* ---------- results ---------- *)
Inductive ekind := AttributeError | TypeError | RuntimeError | ValueError | NameError | IndexError.

Definition ekind_name (k : ekind) : string :=
  match k with
  | AttributeError => "AttributeError" | TypeError => "TypeError" | RuntimeError => "RuntimeError"
  | ValueError => "ValueError" | NameError => "NameError" | IndexError => "IndexError"
  end.

Inductive res (A : Type) : Type :=
| Ok (a : A)
| Err (k : ekind) (msg : string)
| Stuck (why : string).          (* a state the VM cannot be in (unreachable!/expect); never an outcome *)
Arguments Ok {A} a.
Arguments Err {A} k msg.
Arguments Stuck {A} why.

Definition rbind {A B} (r : res A) (f : A -> res B) : res B :=
  match r with Ok a => f a | Err k m => Err k m | Stuck w => Stuck w end.

(* ---------- values ---------- *)
Inductive native := NDerives.
Inductive mref := MClosure (f : nat) | MNative (k : native).
Inductive cref := CUser (i : nat) | CMeta (i : nat) | CBuiltin (k : nat) | CBaseMeta.

Inductive value :=
| VNil | VBool (b : bool) | VNum (z : Z) | VStr (s : string)
| VClass (c : nat) | VInst (a : nat) | VClosure (f : nat)
| VBound (recv : value) (f : nat) | VBoundNative (recv : value) (k : native).

Definition cref_eqb (a b : cref) : bool :=
  match a, b with
  | CUser i, CUser j => Nat.eqb i j
  | CMeta i, CMeta j => Nat.eqb i j
  | CBuiltin i, CBuiltin j => Nat.eqb i j
  | CBaseMeta, CBaseMeta => true
  | _, _ => false
  end.

(* ---------- method tables (HashMap<name, Value>) as association lists with unique keys ---------- *)
Definition mtable := list (string * mref).

Fixpoint tbl_get (n : string) (t : mtable) : option mref :=
  match t with
  | [] => None
  | (k, m) :: r => if String.eqb n k then Some m else tbl_get n r
  end.

Fixpoint tbl_remove (n : string) (t : mtable) : mtable :=
  match t with
  | [] => []
  | (k, m) :: r => if String.eqb n k then tbl_remove n r else (k, m) :: tbl_remove n r
  end.

Definition tbl_insert (n : string) (m : mref) (t : mtable) : mtable := (n, m) :: tbl_remove n t.

(* `for (name, method) in &src { dst.insert(name, method) }` *)
Definition tbl_insert_all (src dst : mtable) : mtable :=
  fold_left (fun acc nm => tbl_insert (fst nm) (snd nm) acc) src dst.

(* ---------- class objects ---------- *)
Record cls := mkCls { cid : cref; cname : string; csuper : option cref; cmeta : cref; methods : mtable }.

Definition set_methods (c : cls) (t : mtable) : cls := mkCls (cid c) (cname c) (csuper c) (cmeta c) t.
Definition set_super (c : cls) (s : option cref) : cls := mkCls (cid c) (cname c) s (cmeta c) (methods c).
Definition set_meta (c : cls) (m : cref) : cls := mkCls (cid c) (cname c) (csuper c) m (methods c).

(* Object: one native method (core.rs bind_object_class) *)
Definition object_table : mtable := [("derives", MNative NDerives)].
Definition object_cls : cls := mkCls (CUser 0) "Object" None CBaseMeta object_table.
(* Object's metaclass is the base metaclass `Type` (a subclass of Object: core.rs bind_type_class) *)
Definition object_meta : cls := mkCls CBaseMeta "Type" (Some (CUser 0)) CBaseMeta object_table.

(* ObjClass::new(name, metaclass, Some(parent), own): parent's table cloned, then own entries inserted *)
Definition objclass_new (id : cref) (name : string) (meta : cref) (parent : option cls) (own : mtable) : cls :=
  let base := match parent with Some p => methods p | None => [] end in
  mkCls id name (option_map cid parent) meta (tbl_insert_all own base).

Record cstore := mkCS { classes : list (cls * cls);             (* defined classes: (class, its metaclass) *)
                        working : option (cls * cls) }.         (* Vm.working_class_def *)

Definition cs0 : cstore := mkCS [(object_cls, object_meta)] None.

Definition object_of (cs : cstore) : option cls := option_map fst (nth_error (classes cs) 0).

Inductive cop :=
| ODeclare (name : string)
| OInherit (sup : value)
| OMethod (n : string) (m : mref)
| OStaticMethod (n : string) (m : mref)
| ODefine.

Definition run_cop (cs : cstore) (op : cop) : res cstore :=
  match op with
  | ODeclare name =>
    let i := List.length (classes cs) in
    let obj := object_of cs in
    let meta := objclass_new (CMeta i) (name ++ "Class") CBaseMeta obj [] in
    let c := objclass_new (CUser i) name CBaseMeta obj [] in
    Ok (mkCS (classes cs) (Some (c, meta)))
  | OInherit (VClass s) =>
    match working cs, nth_error (classes cs) s with
    | Some (c, meta), Some (sc, _) =>
      let c' := set_methods (set_super c (Some (cid sc))) (tbl_insert_all (methods sc) (methods c)) in
      Ok (mkCS (classes cs) (Some (c', meta)))
    | _, _ => Stuck "Inherit: no class under construction / dangling class"
    end
  | OInherit _ => Err RuntimeError "Superclass must be a class."
  | OMethod n m =>
    match working cs with
    | Some (c, meta) =>
      Ok (mkCS (classes cs) (Some (set_methods c (tbl_insert n m (methods c)),
                                   set_methods meta (tbl_remove n (methods meta)))))
    | None => Stuck "Method: no class under construction"
    end
  | OStaticMethod n m =>
    match working cs with
    | Some (c, meta) =>
      Ok (mkCS (classes cs) (Some (set_methods c (tbl_insert n m (methods c)),
                                   set_methods meta (tbl_insert n m (methods meta)))))
    | None => Stuck "StaticMethod: no class under construction"
    end
  | ODefine =>
    match working cs with
    | Some (c, meta) => Ok (mkCS (classes cs ++ [(set_meta c (cid meta), meta)]) None)
    | None => Stuck "DefineClass: no class under construction"
    end
  end.

Fixpoint run_cops (cs : cstore) (ops : list cop) : res cstore :=
  match ops with
  | [] => Ok cs
  | op :: r => rbind (run_cop cs op) (fun cs' => run_cops cs' r)
  end.

(* ---------- the declared shape of a class definition (shared with the Spec) ---------- *)
Record cdef := mkDef { d_name : string;
                       d_super : option nat;                       (* the class #[derive(..)] evaluated to; None = no derive *)
                       d_defs : list (string * bool * mref) }.     (* (name, is_static, body) in textual order *)

Definition object_def : cdef := mkDef "Object" None [("derives", false, MNative NDerives)].

Definition def_op (d : string * bool * mref) : cop :=
  match d with (n, true, m) => OStaticMethod n m | (n, false, m) => OMethod n m end.

(* the opcode sequence class_declaration emits for a definition whose superclass expression evaluated to
   class s (no #[derive]: no Inherit is emitted, ObjClass::new already derived from Object) *)
Definition ops_of_def (d : cdef) : list cop :=
  [ODeclare (d_name d)]
  ++ match d_super d with Some s => [OInherit (VClass s)] | None => [] end
  ++ map def_op (d_defs d) ++ [ODefine].

Definition define_class (cs : cstore) (d : cdef) : res cstore := run_cops cs (ops_of_def d).

(* all user classes of a history (Object is entry 0 and is built in) *)
Fixpoint define_all (cs : cstore) (h : list cdef) : res cstore :=
  match h with
  | [] => Ok cs
  | d :: r => rbind (define_class cs d) (fun cs' => define_all cs' r)
  end.

Definition build (h : list cdef) : res cstore := define_all cs0 (tl h).

(* ---------- instances, world ---------- *)
Record inst := mkInst { iclass : nat; fields : list (string * value) }.

Fixpoint fld_get (n : string) (l : list (string * value)) : option value :=
  match l with
  | [] => None
  | (k, v) :: r => if String.eqb n k then Some v else fld_get n r
  end.

Fixpoint fld_set (n : string) (v : value) (l : list (string * value)) : list (string * value) :=
  match l with
  | [] => [(n, v)]
  | (k, w) :: r => if String.eqb n k then (k, v) :: r else (k, w) :: fld_set n v r
  end.

Fixpoint list_set {A} (i : nat) (x : A) (l : list A) : list A :=
  match l, i with
  | [], _ => []
  | _ :: r, O => x :: r
  | y :: r, S j => y :: list_set j x r
  end.

Record world := mkW { w_cs : cstore; w_heap : list inst; w_arity : list nat }.   (* arity includes slot 0 *)

Definition builtin_kind (v : value) : nat :=
  match v with
  | VNil => 0 | VBool _ => 1 | VNum _ => 2 | VStr _ => 3 | VClosure _ => 4
  | VBound _ _ => 5 | VBoundNative _ _ => 6 | _ => 7
  end.

(* Vm::get_class *)
Definition class_of (heap : list inst) (v : value) : cref :=
  match v with
  | VInst a => match nth_error heap a with Some i => CUser (iclass i) | None => CBuiltin 7 end
  | VClass c => CMeta c
  | _ => CBuiltin (builtin_kind v)
  end.

Definition class_obj (cs : cstore) (r : cref) : option cls :=
  match r with
  | CUser i => option_map fst (nth_error (classes cs) i)
  | CMeta i => option_map snd (nth_error (classes cs) i)
  | CBuiltin _ => Some (mkCls r "Builtin" (Some (CUser 0)) CBaseMeta object_table)
  | CBaseMeta => Some object_meta
  end.

Definition table_of (cs : cstore) (r : cref) : mtable :=
  match class_obj cs r with Some c => methods c | None => [] end.

(* the texts of the error messages (format strings split at their `{}` holes); props/C07.v compares them with
   the strings the translator reads off the current vm.rs *)
Definition msg_undefined_property : list string := ["Undefined property '"; "'."].
Definition msg_expected_args : list string := ["Expected "; " arguments but found "; "."].
Definition msg_superclass : string := "Superclass must be a class.".
Definition msg_only_instances : string := "Only instances have fields.".
Definition msg_not_callable : string := "Can only call functions and methods.".

Definition undefined_property (n : string) : string := "Undefined property '" ++ n ++ "'.".
Definition expected_args (arity argc : nat) : string :=
  "Expected " ++ show_nat arity ++ " arguments but found " ++ show_nat argc ++ ".".

(* what a call enters: the callee and the content of slot 0 of its frame *)
Inductive target := TClosure (f : nat) (slot0 : value) | TNative (k : native) (slot0 : value).

(* Vm::bind_method(class, name) with the receiver on top of the stack *)
Definition bind_method (w : world) (c : cref) (recv : value) (n : string) : res value :=
  match tbl_get n (table_of (w_cs w) c) with
  | Some (MClosure f) => Ok (VBound recv f)
  | Some (MNative k) => Ok (VBoundNative recv k)
  | None => Err AttributeError (undefined_property n)
  end.

(* get_property_impl (module receivers omitted) *)
Definition get_property (w : world) (recv : value) (n : string) : res value :=
  let via_class := bind_method w (class_of (w_heap w) recv) recv n in
  match recv with
  | VInst a =>
    match nth_error (w_heap w) a with
    | Some i => match fld_get n (fields i) with Some v => Ok v | None => via_class end
    | None => Stuck "dangling instance"
    end
  | _ => via_class
  end.

(* set_property_impl (module receivers omitted) *)
Definition set_property (w : world) (recv : value) (n : string) (v : value) : res world :=
  match recv with
  | VInst a =>
    match nth_error (w_heap w) a with
    | Some i => Ok (mkW (w_cs w) (list_set a (mkInst (iclass i) (fld_set n v (fields i))) (w_heap w)) (w_arity w))
    | None => Stuck "dangling instance"
    end
  | _ => Err AttributeError "Only instances have fields."
  end.

(* call_closure: `arity - 1 == arg_count` (the frame-limit check is outside this model) *)
Definition call_closure (ar : list nat) (f : nat) (slot0 : value) (argc : nat) : res target :=
  match nth_error ar f with
  | Some ar => if Nat.eqb argc (ar - 1) then Ok (TClosure f slot0)
               else Err TypeError (expected_args (ar - 1) argc)
  | None => Stuck "dangling closure"
  end.

(* call_value: the callee sits in the slot below the arguments; bound methods poke their receiver there *)
Definition call_value (ar : list nat) (callee : value) (argc : nat) : res target :=
  match callee with
  | VBound r f => call_closure ar f r argc
  | VBoundNative r k => Ok (TNative k r)
  | VClosure f => call_closure ar f (VClosure f) argc
  | _ => Err TypeError "Can only call functions and methods."
  end.

Definition invoke_from_class (w : world) (c : cref) (slot0 : value) (n : string) (argc : nat) : res target :=
  match tbl_get n (table_of (w_cs w) c) with
  | Some (MClosure f) => call_closure (w_arity w) f slot0 argc
  | Some (MNative k) => Ok (TNative k slot0)
  | None => Err AttributeError (undefined_property n)
  end.

(* Vm::invoke (module receivers omitted): ANY field of that name wins, callable or not *)
Definition invoke (w : world) (recv : value) (n : string) (argc : nat) : res target :=
  match recv with
  | VInst a =>
    match nth_error (w_heap w) a with
    | Some i =>
      match fld_get n (fields i) with
      | Some v => call_value (w_arity w) v argc
      | None => invoke_from_class w (CUser (iclass i)) recv n argc
      end
    | None => Stuck "dangling instance"
    end
  | _ => invoke_from_class w (class_of (w_heap w) recv) recv n argc
  end.

(* GetSuper / SuperInvoke: the popped value is the content of the hidden local `super` *)
Definition get_super (w : world) (sup : value) (recv : value) (n : string) : res value :=
  match sup with
  | VClass s => bind_method w (CUser s) recv n
  | _ => Stuck "super is not a class"
  end.

Definition super_invoke (w : world) (sup : value) (recv : value) (n : string) (argc : nat) : res target :=
  match sup with
  | VClass s => invoke_from_class w (CUser s) recv n argc
  | _ => Stuck "super is not a class"
  end.

(* construct_impl: a class in slot 0 is replaced by a fresh instance of it; anything else stays *)
Definition construct (w : world) (slot0 : value) : world * value :=
  match slot0 with
  | VClass c => (mkW (w_cs w) (w_heap w ++ [mkInst c []]) (w_arity w), VInst (List.length (w_heap w)))
  | _ => (w, slot0)
  end.

(* get_class_impl (`Self`): a class stays, an instance gives its class *)
Definition get_class_op (heap : list inst) (v : value) : option nat :=
  match v with
  | VClass c => Some c
  | VInst a => option_map iclass (nth_error heap a)
  | _ => None            (* built-in class of another value; no static method is ever entered with one *)
  end.

(* core.rs object_derives: receiver_class == query, else walk `superclass` *)
Fixpoint derives_walk (fuel : nat) (cs : cstore) (c : cref) (q : cref) : bool :=
  if cref_eqb c q then true else
  match fuel with
  | O => false
  | S f => match class_obj cs c with
           | Some k => match csuper k with Some p => derives_walk f cs p q | None => false end
           | None => false
           end
  end.

Definition derives (cs : cstore) (c : cref) (q : nat) : bool :=
  derives_walk (S (List.length (classes cs))) cs c (CUser q).
