(* C07 - proofs about Classes.v (M), ClassSpec.v (S) and ClassLang.v (mini-language).  See notes/C07.md. *)
From Coq Require Import List String Ascii ZArith Bool Arith Lia.
From YV Require Import Show Classes ClassSpec ClassLang.
Import ListNotations.
Open Scope string_scope.

Definition keys (t : mtable) : list string := map fst t.

Lemma tbl_get_none : forall n t, ~ In n (keys t) -> tbl_get n t = None.
Proof.
  induction t as [|[k m] r IH]; intros H; simpl in *; auto.
  destruct (String.eqb_spec n k) as [->|Hne]; [exfalso; apply H; auto|].
  apply IH; intros Hin; apply H; auto.
Qed.

Lemma keys_remove : forall n k t, In k (keys (tbl_remove n t)) -> In k (keys t) /\ k <> n.
Proof.
  induction t as [|[k' m] r IH]; simpl; intros H; [contradiction|].
  destruct (String.eqb_spec n k') as [->|Hne].
  - destruct (IH H); split; auto.
  - simpl in H. destruct H as [<-|H]; [split; auto|]. destruct (IH H); split; auto.
Qed.

Lemma nodup_remove : forall n t, NoDup (keys t) -> NoDup (keys (tbl_remove n t)).
Proof.
  induction t as [|[k m] r IH]; simpl; intros H; auto.
  inversion H as [|? ? Hnin Hnd]; subst.
  destruct (String.eqb n k); auto. simpl. constructor; auto.
  intros Hin. apply keys_remove in Hin. tauto.
Qed.

Lemma nodup_insert : forall n m t, NoDup (keys t) -> NoDup (keys (tbl_insert n m t)).
Proof.
  intros. unfold tbl_insert. simpl. constructor.
  - intros Hin. apply keys_remove in Hin. tauto.
  - apply nodup_remove; auto.
Qed.

Lemma tbl_get_remove : forall n k t, tbl_get n (tbl_remove k t) = if String.eqb n k then None else tbl_get n t.
Proof.
  induction t as [|[k' m] r IH]; simpl.
  - destruct (String.eqb n k); auto.
  - destruct (String.eqb_spec k k') as [->|Hne].
    + rewrite IH. destruct (String.eqb n k'); auto.
    + simpl. rewrite IH. destruct (String.eqb_spec n k') as [->|Hne2]; auto.
      destruct (String.eqb_spec k' k); congruence.
Qed.

Lemma tbl_get_insert : forall n k m t, tbl_get n (tbl_insert k m t) = if String.eqb n k then Some m else tbl_get n t.
Proof.
  intros. unfold tbl_insert. simpl. destruct (String.eqb_spec n k) as [->|Hne]; auto.
  rewrite tbl_get_remove. destruct (String.eqb_spec n k); congruence.
Qed.

Lemma nodup_insert_all : forall src dst, NoDup (keys dst) -> NoDup (keys (tbl_insert_all src dst)).
Proof.
  unfold tbl_insert_all. induction src as [|[k m] r IH]; simpl; intros dst H; auto.
  apply IH. apply nodup_insert; auto.
Qed.

Lemma tbl_get_insert_all : forall n src dst, NoDup (keys src) ->
  tbl_get n (tbl_insert_all src dst) = match tbl_get n src with Some m => Some m | None => tbl_get n dst end.
Proof.
  unfold tbl_insert_all. induction src as [|[k m] r IH]; simpl; intros dst H; auto.
  inversion H as [|? ? Hnin Hnd]; subst.
  rewrite IH by auto. rewrite tbl_get_insert.
  destruct (String.eqb_spec n k) as [->|Hne]; auto.
  rewrite (tbl_get_none k r Hnin). reflexivity.
Qed.

(* the tables a sequence of Method / StaticMethod ops produces *)
Definition class_table (base : mtable) (defs : list (string * bool * mref)) : mtable :=
  fold_left (fun t d => match d with (n, _, m) => tbl_insert n m t end) defs base.
Definition meta_table (base : mtable) (defs : list (string * bool * mref)) : mtable :=
  fold_left (fun t d => match d with (n, true, m) => tbl_insert n m t | (n, false, _) => tbl_remove n t end) defs base.

Lemma class_table_get : forall n defs base,
  tbl_get n (class_table base defs) = match own_lookup defs n with Some (_, m) => Some m | None => tbl_get n base end.
Proof.
  unfold class_table. induction defs as [|[[k st] m] r IH]; simpl; intros base; auto.
  rewrite IH. destruct (own_lookup r n) as [[? ?]|]; auto.
  rewrite tbl_get_insert. destruct (String.eqb n k); auto.
Qed.

Lemma meta_table_get : forall n defs base,
  tbl_get n (meta_table base defs) =
  match own_lookup defs n with Some (true, m) => Some m | Some (false, _) => None | None => tbl_get n base end.
Proof.
  unfold meta_table. induction defs as [|[[k st] m] r IH]; simpl; intros base; auto.
  rewrite IH. destruct (own_lookup r n) as [[[] ?]|]; auto.
  destruct st.
  - rewrite tbl_get_insert. destruct (String.eqb n k); auto.
  - rewrite tbl_get_remove. destruct (String.eqb n k); auto.
Qed.

Lemma class_table_nodup : forall defs base, NoDup (keys base) -> NoDup (keys (class_table base defs)).
Proof.
  unfold class_table. induction defs as [|[[k st] m] r IH]; simpl; intros base H; auto.
  apply IH. apply nodup_insert; auto.
Qed.
Lemma meta_table_nodup : forall defs base, NoDup (keys base) -> NoDup (keys (meta_table base defs)).
Proof.
  unfold meta_table. induction defs as [|[[k st] m] r IH]; simpl; intros base H; auto.
  apply IH. destruct st; [apply nodup_insert|apply nodup_remove]; auto.
Qed.

Lemma run_method_ops : forall defs cl c meta rest,
  run_cops (mkCS cl (Some (c, meta))) (map def_op defs ++ rest) =
  run_cops (mkCS cl (Some (set_methods c (class_table (methods c) defs),
                            set_methods meta (meta_table (methods meta) defs)))) rest.
Proof.
  induction defs as [|[[k st] m] r IH]; intros cl c meta rest.
  - simpl. destruct c, meta; reflexivity.
  - simpl map. simpl app. simpl run_cops.
    destruct st; simpl; rewrite IH; simpl; reflexivity.
Qed.

(* ---------- the declared ancestry ---------- *)
Lemma declared_super_lt : forall h c d s, wf_hist h -> nth_error h c = Some d -> declared_super c d = Some s -> s < c.
Proof.
  intros h c d s [H0 Hwf] Hd Hs. unfold declared_super in Hs.
  destruct (d_super d) as [s'|] eqn:E.
  - inversion Hs; subst. eapply Hwf; eauto.
  - destruct (Nat.eqb_spec c 0); [discriminate|]. inversion Hs. lia.
Qed.

Lemma ancestry_walk_fuel : forall h, wf_hist h -> forall f1 f2 c, c < f1 -> c < f2 ->
  ancestry_walk f1 h c = ancestry_walk f2 h c.
Proof.
  intros h Hwf. induction f1 as [|f1 IH]; intros f2 c H1 H2; [lia|].
  destruct f2 as [|f2]; [lia|]. simpl.
  destruct (nth_error h c) as [d|] eqn:Hd; auto.
  destruct (declared_super c d) as [s|] eqn:Hs; auto.
  pose proof (declared_super_lt h c d s Hwf Hd Hs). f_equal. apply IH; lia.
Qed.

Lemma ancestry_unfold : forall h c, wf_hist h ->
  ancestry h c = c :: match nth_error h c with
                      | Some d => match declared_super c d with Some s => ancestry h s | None => [] end
                      | None => [] end.
Proof.
  intros h c Hwf. unfold ancestry at 1. simpl.
  destruct (nth_error h c) as [d|] eqn:Hd; auto.
  destruct (declared_super c d) as [s|] eqn:Hs; auto.
  pose proof (declared_super_lt h c d s Hwf Hd Hs). f_equal. unfold ancestry. apply ancestry_walk_fuel; auto; lia.
Qed.

Lemma ancestry_le : forall h, wf_hist h -> forall c a, In a (ancestry h c) -> a <= c.
Proof.
  intros h Hwf c. induction c as [c IH] using lt_wf_ind. intros a Hin.
  rewrite ancestry_unfold in Hin by auto. destruct Hin as [<-|Hin]; [lia|].
  destruct (nth_error h c) as [d|] eqn:Hd; [|contradiction].
  destruct (declared_super c d) as [s|] eqn:Hs; [|contradiction].
  pose proof (declared_super_lt h c d s Hwf Hd Hs). specialize (IH s H a Hin). lia.
Qed.

Lemma ancestry_has_object : forall h, wf_hist h -> forall c, c < List.length h -> In 0 (ancestry h c).
Proof.
  intros h Hwf c. induction c as [c IH] using lt_wf_ind. intros Hc.
  rewrite ancestry_unfold by auto. destruct (Nat.eq_dec c 0) as [->|Hne]; [left; auto|]. right.
  destruct (nth_error h c) as [d|] eqn:Hd; [|apply nth_error_None in Hd; lia].
  unfold declared_super at 1. destruct (d_super d) as [s|] eqn:Es.
  - destruct Hwf as [H0 Hw]. pose proof (Hw c d s Hd Es). apply IH; lia.
  - destruct (Nat.eqb_spec c 0); [contradiction|]. apply IH; lia.
Qed.

Lemma wf_hist_snoc : forall h d, h <> [] -> wf_hist (h ++ [d]) -> wf_hist h.
Proof.
  intros h d Hne [H0 Hw]. split.
  - destruct h; [contradiction|]. simpl in *. auto.
  - intros i x s Hi Hs. apply (Hw i x s); auto. rewrite nth_error_app1; auto. apply nth_error_Some. congruence.
Qed.

Lemma ancestry_snoc : forall h d c, wf_hist h -> wf_hist (h ++ [d]) -> c < List.length h ->
  ancestry (h ++ [d]) c = ancestry h c.
Proof.
  intros h d c Hwf Hwf'. induction c as [c IH] using lt_wf_ind. intros Hc.
  rewrite (ancestry_unfold (h ++ [d])) by auto. rewrite (ancestry_unfold h) by auto.
  rewrite nth_error_app1 by auto.
  destruct (nth_error h c) as [x|] eqn:Hd; auto.
  destruct (declared_super c x) as [s|] eqn:Hs; auto.
  pose proof (declared_super_lt h c x s Hwf Hd Hs). f_equal. apply IH; lia.
Qed.

Lemma own_snoc : forall h d a n, a < List.length h -> own (h ++ [d]) a n = own h a n.
Proof. intros. unfold own. rewrite nth_error_app1; auto. Qed.

Lemma first_some_ext : forall {A B} (f g : A -> option B) l, (forall x, In x l -> f x = g x) -> first_some f l = first_some g l.
Proof.
  induction l as [|x r IH]; simpl; intros H; auto.
  rewrite (H x) by auto. destruct (g x); auto.
Qed.

Lemma lookupS_snoc : forall h d c n, wf_hist h -> wf_hist (h ++ [d]) -> c < List.length h ->
  lookupS (h ++ [d]) c n = lookupS h c n.
Proof.
  intros. unfold lookupS. rewrite ancestry_snoc by auto. f_equal.
  apply first_some_ext. intros a Ha. apply own_snoc. pose proof (ancestry_le h H c a Ha). lia.
Qed.

Lemma lookupS_unfold : forall h c n, wf_hist h ->
  lookupS h c n = match own h c n with
                  | Some x => Some (snd x)
                  | None => match nth_error h c with
                            | Some d => match declared_super c d with Some s => lookupS h s n | None => None end
                            | None => None end
                  end.
Proof.
  intros h c n Hwf. unfold lookupS at 1. rewrite ancestry_unfold by auto. simpl.
  destruct (own h c n); auto.
  destruct (nth_error h c) as [d|]; auto. destruct (declared_super c d); auto.
Qed.

Lemma first_some_none : forall {A B} (f : A -> option B) l x, first_some f l = None -> In x l -> f x = None.
Proof.
  induction l as [|y r IH]; simpl; intros x H Hin; [contradiction|].
  destruct (f y) eqn:E; [discriminate|]. destruct Hin as [<-|Hin]; auto.
Qed.

Lemma lookupS_none_object : forall h s n, wf_hist h -> s < List.length h -> lookupS h s n = None -> lookupS h 0 n = None.
Proof.
  intros h s n Hwf Hs H. unfold lookupS in *.
  destruct (first_some (fun a => own h a n) (ancestry h s)) eqn:E; [discriminate|].
  pose proof (first_some_none _ _ 0 E (ancestry_has_object h Hwf s Hs)) as H0.
  rewrite ancestry_unfold by auto. destruct Hwf as [Hobj _]. rewrite Hobj. simpl.
  simpl in H0. rewrite H0. reflexivity.
Qed.

(* ---------- copy-down tables = chain walk ---------- *)
Record class_agrees (h : list cdef) (i : nat) (c m : cls) : Prop := {
  ca_def : exists d, nth_error h i = Some d /\ cname c = d_name d /\ csuper c = option_map CUser (declared_super i d);
  ca_cid : cid c = CUser i;
  ca_meta : cmeta c = cid m;
  ca_msuper : csuper m = Some (CUser 0);
  ca_mname : forall d, nth_error h i = Some d -> cname m = if Nat.eqb i 0 then "Type" else d_name d ++ "Class";
  ca_nodup : NoDup (keys (methods c));
  ca_mnodup : NoDup (keys (methods m));
  ca_lookup : forall n, tbl_get n (methods c) = lookupS h i n;
  ca_static : forall n, tbl_get n (methods m) = static_lookupS h i n }.

Definition tables_agree (h : list cdef) (cs : cstore) : Prop :=
  List.length (classes cs) = List.length h /\
  forall i c m, nth_error (classes cs) i = Some (c, m) -> class_agrees h i c m.

Lemma define_all_app : forall a b cs, define_all cs (a ++ b) = rbind (define_all cs a) (fun cs' => define_all cs' b).
Proof.
  induction a as [|d r IH]; intros b cs; simpl; auto.
  destruct (define_class cs d); simpl; auto.
Qed.

Lemma object_lookup : forall h n, wf_hist h -> lookupS h 0 n = tbl_get n object_table.
Proof.
  intros h n Hwf. unfold lookupS. rewrite ancestry_unfold by auto. destruct Hwf as [H0 _]. rewrite H0. simpl.
  unfold own. rewrite H0. simpl. destruct (String.eqb n "derives"); reflexivity.
Qed.

Lemma static_lookupS_snoc : forall h d c n, wf_hist h -> wf_hist (h ++ [d]) -> c < List.length h ->
  static_lookupS (h ++ [d]) c n = static_lookupS h c n.
Proof.
  intros. unfold static_lookupS. rewrite nth_error_app1 by auto.
  rewrite lookupS_snoc; auto. destruct h; simpl in *; lia.
Qed.

Lemma class_agrees_snoc : forall h d i c m, wf_hist h -> wf_hist (h ++ [d]) -> i < List.length h ->
  class_agrees h i c m -> class_agrees (h ++ [d]) i c m.
Proof.
  intros h d i c m Hwf Hwf' Hi [[x [Hx [Hn Hs]]] Hc Hm Hms Hmn Hnd Hmnd Hl Hst].
  constructor; auto.
  - exists x. rewrite nth_error_app1; auto.
  - intros d0 Hd0. rewrite nth_error_app1 in Hd0 by auto. auto.
  - intros n. rewrite lookupS_snoc; auto.
  - intros n. rewrite static_lookupS_snoc; auto.
Qed.

Lemma objclass_new_empty : forall id name meta p,
  objclass_new id name meta (Some p) [] = mkCls id name (Some (cid p)) meta (methods p).
Proof. reflexivity. Qed.

Lemma define_class_agrees : forall h d cs, h <> [] -> wf_hist h -> wf_hist (h ++ [d]) -> tables_agree h cs ->
  exists cs', define_class cs d = Ok cs' /\ tables_agree (h ++ [d]) cs'.
Proof.
  intros h d cs Hne Hwf Hwf' [Hlen Hag].
  set (i := List.length h).
  assert (Hi0 : 0 < i) by (destruct h; [contradiction|simpl in *; unfold i; simpl; lia]).
  destruct (nth_error (classes cs) 0) as [[obj ometa]|] eqn:Hobj;
    [|apply nth_error_None in Hobj; lia].
  pose proof (Hag 0 obj ometa Hobj) as Aobj.
  assert (Hnd : nth_error (h ++ [d]) i = Some d).
  { unfold i. rewrite nth_error_app2 by lia. rewrite Nat.sub_diag. reflexivity. }
  (* the class the definition derives from *)
  destruct (declared_super i d) as [s|] eqn:Hds;
    [|unfold declared_super in Hds; destruct (d_super d); [discriminate|]; destruct (Nat.eqb_spec i 0); [lia|discriminate]].
  pose proof (declared_super_lt (h ++ [d]) i d s Hwf' Hnd Hds) as Hsi.
  destruct (nth_error (classes cs) s) as [[sc sm]|] eqn:Hsc; [|apply nth_error_None in Hsc; lia].
  pose proof (Hag s sc sm Hsc) as Asc.
  (* the state after Declare (+ Inherit) *)
  assert (Hpre : exists c0, 
     run_cops cs (ops_of_def d) =
     run_cops (mkCS (classes cs) (Some (c0, mkCls (CMeta i) (d_name d ++ "Class") (Some (CUser 0)) CBaseMeta (methods obj))))
              (map def_op (d_defs d) ++ [ODefine]) /\
     cid c0 = CUser i /\ cname c0 = d_name d /\ csuper c0 = Some (CUser s) /\ NoDup (keys (methods c0)) /\
     forall n, tbl_get n (methods c0) = lookupS h s n).
  { unfold ops_of_def. unfold declared_super in Hds. destruct (d_super d) as [s'|] eqn:Es.
    - inversion Hds; subst s'. 
      exists (mkCls (CUser i) (d_name d) (Some (CUser s)) CBaseMeta (tbl_insert_all (methods sc) (methods obj))).
      split; [|split; [|split; [|split; [|split]]]]; auto.
      + simpl. unfold object_of. rewrite Hobj. simpl. rewrite objclass_new_empty. rewrite objclass_new_empty.
        rewrite Hsc. simpl. rewrite Hlen. fold i.
        rewrite (ca_cid _ _ _ _ Aobj), (ca_cid _ _ _ _ Asc). reflexivity.
      + simpl. apply nodup_insert_all. apply (ca_nodup _ _ _ _ Aobj).
      + intros n. simpl. rewrite tbl_get_insert_all by apply (ca_nodup _ _ _ _ Asc).
        rewrite (ca_lookup _ _ _ _ Asc). destruct (lookupS h s n) eqn:E; auto.
        rewrite (ca_lookup _ _ _ _ Aobj). apply (lookupS_none_object h s n Hwf); [exact Hsi | exact E].
    - destruct (Nat.eqb_spec i 0) as [|Hi0']; [lia|]. inversion Hds; subst s.
      exists (mkCls (CUser i) (d_name d) (Some (CUser 0)) CBaseMeta (methods obj)).
      split; [|split; [|split; [|split; [|split]]]]; auto.
      + simpl. unfold object_of. rewrite Hobj. simpl. rewrite !objclass_new_empty.
        rewrite Hlen. fold i. rewrite (ca_cid _ _ _ _ Aobj). reflexivity.
      + simpl. apply (ca_nodup _ _ _ _ Aobj).
      + intros n. simpl. apply (ca_lookup _ _ _ _ Aobj). }
  destruct Hpre as [c0 [Hrun [Hcid [Hname [Hsup [Hnd0 Hl0]]]]]].
  unfold define_class. rewrite Hrun. rewrite run_method_ops. simpl.
  eexists. split; [reflexivity|].
  split.
  - simpl. rewrite !app_length. simpl. lia.
  - simpl. intros j c m Hj.
    destruct (Nat.lt_ge_cases j (List.length (classes cs))) as [Hlt|Hge].
    + rewrite nth_error_app1 in Hj by auto. apply class_agrees_snoc; auto; try lia.
    + rewrite nth_error_app2 in Hj by auto.
      destruct (j - List.length (classes cs)) as [|k] eqn:Ek; [|destruct k; discriminate].
      assert (j = i) by (unfold i; lia). subst j. simpl in Hj. inversion Hj; subst c m. clear Hj.
      assert (Hown : own (h ++ [d]) i = own_lookup (d_defs d)).
      { unfold own. rewrite Hnd. reflexivity. }
      constructor; simpl.
      * exists d. split; auto. split; auto. rewrite Hds. simpl. auto.
      * auto.
      * reflexivity.
      * reflexivity.
      * intros d0 Hd0. rewrite Hnd in Hd0. inversion Hd0; subst d0.
        destruct (Nat.eqb_spec i 0) as [|_]; [lia|reflexivity].
      * apply class_table_nodup; auto.
      * apply meta_table_nodup. apply (ca_nodup _ _ _ _ Aobj).
      * intros n. rewrite class_table_get. rewrite lookupS_unfold by auto. rewrite Hown, Hnd, Hds.
        destruct (own_lookup (d_defs d) n) as [[? ?]|]; auto. rewrite Hl0.
        symmetry. apply lookupS_snoc; auto.
      * intros n. rewrite meta_table_get. unfold static_lookupS. rewrite Hnd.
        destruct (Nat.eqb_spec i 0) as [|_]; [lia|].
        destruct (own_lookup (d_defs d) n) as [[[] ?]|]; auto.
        rewrite (ca_lookup _ _ _ _ Aobj). symmetry. apply lookupS_snoc; auto.
Qed.

Lemma cs0_agrees : tables_agree [object_def] cs0.
Proof.
  split; [reflexivity|]. intros i c m H. destruct i as [|[|i]]; simpl in H; try discriminate.
  inversion H; subst. constructor; simpl.
  - exists object_def. auto.
  - reflexivity.
  - reflexivity.
  - reflexivity.
  - intros d Hd. reflexivity.
  - repeat constructor; simpl; auto.
  - repeat constructor; simpl; auto.
  - intros n. unfold lookupS, ancestry, own. simpl. destruct (String.eqb n "derives"); auto.
  - intros n. unfold static_lookupS, lookupS, ancestry, own. simpl. destruct (String.eqb n "derives"); auto.
Qed.

Lemma wf_hist_object : forall h, wf_hist h -> exists r, h = object_def :: r.
Proof. intros h [H0 _]. destruct h; simpl in H0; [discriminate|]. inversion H0. eauto. Qed.

(* T copydown_eq_chainwalk *)
Theorem copydown_eq_chainwalk : forall h, wf_hist h -> exists cs, build h = Ok cs /\ tables_agree h cs.
Proof.
  induction h as [|d h IH] using rev_ind; intros Hwf.
  - destruct Hwf as [H0 _]. discriminate.
  - destruct h as [|x r].
    + destruct (wf_hist_object _ Hwf) as [r Hr]. simpl in Hr. inversion Hr; subst.
      exists cs0. split; [reflexivity|apply cs0_agrees].
    + assert (Hne : x :: r <> []) by discriminate.
      pose proof (wf_hist_snoc _ _ Hne Hwf) as Hwf0.
      destruct (IH Hwf0) as [cs [Hb Hag]].
      destruct (define_class_agrees _ d cs Hne Hwf0 Hwf Hag) as [cs' [Hd Hag']].
      exists cs'. split; auto.
      unfold build in *. simpl in *. rewrite define_all_app. rewrite Hb. simpl. rewrite Hd. reflexivity.
Qed.

(* the form quoted in the property: a table lookup in M is the nearest definition in the declared ancestry *)
Corollary table_lookup_is_nearest_definition : forall h cs i c m n, wf_hist h -> build h = Ok cs ->
  nth_error (classes cs) i = Some (c, m) ->
  tbl_get n (methods c) = option_map snd (first_some (fun a => own h a n) (ancestry h i)) /\
  tbl_get n (methods m) = static_lookupS h i n.
Proof.
  intros h cs i c m n Hwf Hb Hi. destruct (copydown_eq_chainwalk h Hwf) as [cs' [Hb' [_ Hag]]].
  rewrite Hb in Hb'. inversion Hb'; subst cs'. pose proof (Hag i c m Hi) as A.
  split; [apply (ca_lookup _ _ _ _ A) | apply (ca_static _ _ _ _ A)].
Qed.

Example copydown_hyp_satisfiable :
  wf_hist [object_def; mkDef "A" None [("m", false, MClosure 0)]; mkDef "B" (Some 1) [("m", false, MClosure 1)];
           mkDef "C" (Some 2) []].
Proof.
  split; [reflexivity|]. intros i d s Hi Hs.
  destruct i as [|[|[|[|i]]]]; simpl in Hi; try (destruct i; discriminate);
    injection Hi as <-; simpl in Hs; try discriminate; injection Hs as <-; lia.
Qed.

(* ---------- derives ---------- *)
Lemma class_obj_user : forall h cs c, tables_agree h cs -> c < List.length h ->
  exists k m d, nth_error (classes cs) c = Some (k, m) /\ class_obj cs (CUser c) = Some k /\
                nth_error h c = Some d /\ csuper k = option_map CUser (declared_super c d).
Proof.
  intros h cs c [Hlen Hag] Hc.
  destruct (nth_error (classes cs) c) as [[k m]|] eqn:E; [|apply nth_error_None in E; lia].
  destruct (Hag c k m E) as [[d [Hd [_ Hs]]] _ _ _ _ _ _ _ _].
  exists k, m, d. repeat split; auto. simpl. rewrite E. reflexivity.
Qed.

Lemma derives_walk_ancestry : forall h cs q, wf_hist h -> tables_agree h cs ->
  forall fuel c, c < fuel -> c < List.length h ->
  derives_walk fuel cs (CUser c) (CUser q) = existsb (Nat.eqb q) (ancestry_walk fuel h c).
Proof.
  intros h cs q Hwf Hag. induction fuel as [|f IH]; intros c Hf Hc; [lia|].
  destruct (class_obj_user h cs c Hag Hc) as [k [m [d [Hn [Ho [Hd Hs]]]]]].
  cbn [derives_walk ancestry_walk]. rewrite Hd. cbn [existsb cref_eqb].
  rewrite (Nat.eqb_sym q c).
  destruct (Nat.eqb c q) eqn:E; cbn [orb]; auto.
  rewrite Ho. rewrite Hs.
  destruct (declared_super c d) as [s|] eqn:Hds; cbn [option_map existsb]; auto.
  pose proof (declared_super_lt h c d s Hwf Hd Hds). apply IH; lia.
Qed.

Lemma derives_eq_spec : forall h cs c q, wf_hist h -> tables_agree h cs -> c < List.length h ->
  derives cs (CUser c) q = derivesS h (CUser c) q.
Proof.
  intros h cs c q Hwf Hag Hc. unfold derives, derivesS.
  destruct Hag as [Hlen Hag']. rewrite Hlen.
  rewrite (derives_walk_ancestry h cs q Hwf (conj Hlen Hag')) by lia.
  unfold ancestry. f_equal. apply ancestry_walk_fuel; auto; lia.
Qed.

Lemma ancestor_in_ancestry : forall h, wf_hist h -> forall c q, ancestor h c q <-> In q (ancestry h c).
Proof.
  intros h Hwf c q. split.
  - induction 1 as [c|c d s q Hd Hs Ha IH].
    + rewrite ancestry_unfold by auto. left; auto.
    + rewrite ancestry_unfold by auto. right. rewrite Hd, Hs. auto.
  - revert q. induction c as [c IH] using lt_wf_ind. intros q Hin.
    rewrite ancestry_unfold in Hin by auto. destruct Hin as [<-|Hin]; [constructor|].
    destruct (nth_error h c) as [d|] eqn:Hd; [|contradiction].
    destruct (declared_super c d) as [s|] eqn:Hs; [|contradiction].
    eapply anc_step; eauto. apply IH; auto. eapply declared_super_lt; eauto.
Qed.

(* T derives_iff_ancestor *)
Theorem derives_iff_ancestor : forall h cs c q, wf_hist h -> build h = Ok cs -> c < List.length h ->
  (derives cs (CUser c) q = true <-> ancestor h c q).
Proof.
  intros h cs c q Hwf Hb Hc. destruct (copydown_eq_chainwalk h Hwf) as [cs' [Hb' Hag]].
  rewrite Hb in Hb'. inversion Hb'; subst cs'.
  rewrite (derives_eq_spec h cs c q Hwf Hag Hc). unfold derivesS.
  rewrite (ancestor_in_ancestry h Hwf). rewrite existsb_exists. split.
  - intros [x [Hin Hx]]. apply Nat.eqb_eq in Hx. subst; auto.
  - intros Hin. exists q. split; auto. apply Nat.eqb_refl.
Qed.

(* receivers that are classes or built-in values: their class is a direct subclass of Object *)
Lemma derives_direct_object : forall h cs r k q f, wf_hist h -> tables_agree h cs -> (forall i, r <> CUser i) ->
  class_obj cs r = Some k -> csuper k = Some (CUser 0) -> derives_walk (S (S f)) cs r (CUser q) = Nat.eqb q 0.
Proof.
  intros h cs r k q f Hwf Hag Hr Hk Hs.
  assert (H0 : 0 < List.length h) by (destruct Hwf as [Hobj _]; destruct h; simpl in *; [discriminate|lia]).
  destruct (class_obj_user h cs 0 Hag H0) as [k0 [m0 [d0 [Hn0 [Ho0 [Hd0 Hs0]]]]]].
  destruct Hwf as [Hobj Hw]. rewrite Hobj in Hd0. inversion Hd0; subst d0. simpl in Hs0.
  assert (E : cref_eqb r (CUser q) = false) by (destruct r; auto; exfalso; eapply Hr; eauto).
  cbn [derives_walk]. rewrite E, Hk, Hs. cbn [cref_eqb]. rewrite Nat.eqb_sym.
  destruct (Nat.eqb q 0); auto. rewrite Ho0, Hs0. reflexivity.
Qed.

Lemma derives_meta : forall h cs c q, wf_hist h -> tables_agree h cs -> c < List.length h ->
  derives cs (CMeta c) q = derivesS h (CMeta c) q.
Proof.
  intros h cs c q Hwf Hag Hc. pose proof Hag as [Hlen Hag'].
  destruct (nth_error (classes cs) c) as [[k m]|] eqn:E; [|apply nth_error_None in E; lia].
  pose proof (Hag' c k m E) as A.
  unfold derives, derivesS. rewrite Hlen. destruct (Nat.ltb_spec c (List.length h)) as [_|]; [|lia]. simpl andb.
  destruct (List.length h) as [|n] eqn:El; [lia|].
  apply (derives_direct_object h cs (CMeta c) m q n); auto; try discriminate.
  - simpl. rewrite E. reflexivity.
  - apply (ca_msuper _ _ _ _ A).
Qed.

Lemma derives_builtin : forall h cs k q, wf_hist h -> tables_agree h cs ->
  derives cs (CBuiltin k) q = derivesS h (CBuiltin k) q.
Proof.
  intros h cs k q Hwf Hag. pose proof Hag as [Hlen Hag'].
  assert (H0 : 0 < List.length h) by (destruct Hwf as [Hobj _]; destruct h; simpl in *; [discriminate|lia]).
  unfold derives, derivesS. rewrite Hlen. destruct (List.length h) as [|n] eqn:El; [lia|].
  eapply (derives_direct_object h cs (CBuiltin k) _ q n); auto; try discriminate; reflexivity.
Qed.

(* ---------- invoke = get, then call ---------- *)
(* T invoke_eq_get_then_call: for every receiver, member configuration and argument count, `x.n(args)` enters the
   same callee with the same slot 0, or raises the same error, as `var f = x.n; f(args)`.  ANY field named n wins
   in both paths, callable or not (a non-callable field is "Can only call functions and methods." in both). *)
Theorem invoke_eq_get_then_call : forall w recv n argc,
  invoke w recv n argc = rbind (get_property w recv n) (fun f => call_value (w_arity w) f argc).
Proof.
  intros w recv n argc. unfold invoke, get_property, invoke_from_class, bind_method.
  destruct recv as [| | | | c | a | f | r f | r k];
    try (destruct (tbl_get n _) as [[f'|k']|]; reflexivity).
  destruct (nth_error (w_heap w) a) as [i|] eqn:Hi; [|reflexivity].
  destruct (fld_get n (fields i)) as [v|]; [reflexivity|].
  unfold class_of. rewrite Hi.
  destruct (tbl_get n _) as [[f'|k']|]; reflexivity.
Qed.

Corollary field_wins_in_both_paths : forall w a i v n argc,
  nth_error (w_heap w) a = Some i -> fld_get n (fields i) = Some v ->
  get_property w (VInst a) n = Ok v /\ invoke w (VInst a) n argc = call_value (w_arity w) v argc.
Proof. intros. unfold get_property, invoke. rewrite H, H0. auto. Qed.

(* ---------- bound methods ---------- *)
Lemma fld_get_set : forall n v l, fld_get n (fld_set n v l) = Some v.
Proof.
  induction l as [|[k w] r IH]; simpl.
  - rewrite String.eqb_refl. reflexivity.
  - destruct (String.eqb n k) eqn:E; simpl; rewrite E; auto.
Qed.

Lemma nth_error_list_set : forall {A} (l : list A) i x, i < List.length l -> nth_error (list_set i x l) i = Some x.
Proof.
  induction l as [|y r IH]; intros i x Hi; simpl in *; [lia|].
  destruct i; simpl; auto. apply IH. lia.
Qed.

(* T bound_method_keeps_receiver: a method taken from x is bound to x; called directly, or after being stored in a
   field of ANY instance y and invoked through y, it is entered with x in slot 0 *)
Theorem bound_method_keeps_receiver : forall w x n f,
  tbl_get n (table_of (w_cs w) (class_of (w_heap w) x)) = Some (MClosure f) ->
  (forall a, x = VInst a -> exists i, nth_error (w_heap w) a = Some i /\ fld_get n (fields i) = None) ->
  get_property w x n = Ok (VBound x f) /\
  (forall argc, call_value (w_arity w) (VBound x f) argc = call_closure (w_arity w) f x argc) /\
  (forall y g w' argc, set_property w (VInst y) g (VBound x f) = Ok w' ->
     invoke w' (VInst y) g argc = call_closure (w_arity w) f x argc) /\
  (forall ar argc t, call_closure ar f x argc = Ok t -> t = TClosure f x).
Proof.
  intros w x n f Ht Hx. repeat split.
  - unfold get_property, bind_method. destruct x as [| | | | c | a | g | r g | r k]; try (rewrite Ht; reflexivity).
    destruct (Hx a eq_refl) as [i [Hi Hf]]. rewrite Hi, Hf, Ht. reflexivity.
  - intros y g w' argc Hset. unfold set_property in Hset.
    destruct (nth_error (w_heap w) y) as [i|] eqn:Hi; [|discriminate]. inversion Hset; subst w'. clear Hset.
    unfold invoke. simpl.
    rewrite nth_error_list_set by (apply nth_error_Some; congruence).
    simpl. rewrite fld_get_set. reflexivity.
  - intros ar argc t H. unfold call_closure in H. destruct (nth_error ar f); [|discriminate].
    destruct (Nat.eqb argc (n0 - 1)); inversion H; reflexivity.
Qed.

(* ---------- static methods: Self ---------- *)
(* T static_self_is_invoking_class: a method reached through a class table is entered with the receiver in slot 0;
   `Self` (GetClass of slot 0) is then the class itself for a class receiver and the instance's class for an
   instance receiver - the class the method was invoked through, not the class that defines it *)
Theorem static_self_is_invoking_class : forall w recv n argc f s0,
  invoke_from_class w (class_of (w_heap w) recv) recv n argc = Ok (TClosure f s0) ->
  s0 = recv /\
  (forall c, recv = VClass c -> get_class_op (w_heap w) s0 = Some c) /\
  (forall a i, recv = VInst a -> nth_error (w_heap w) a = Some i -> get_class_op (w_heap w) s0 = Some (iclass i)).
Proof.
  intros w recv n argc f s0 H. unfold invoke_from_class in H.
  destruct (tbl_get n _) as [[g|k]|]; try discriminate.
  unfold call_closure in H. destruct (nth_error (w_arity w) g); [|discriminate].
  destruct (Nat.eqb argc (n0 - 1)); inversion H; subst. repeat split.
  - intros c ->. reflexivity.
  - intros a i -> Hi. simpl. rewrite Hi. reflexivity.
Qed.

(* ---------- super ---------- *)
Lemma table_of_user : forall h cs s, tables_agree h cs -> s < List.length h ->
  forall n, tbl_get n (table_of cs (CUser s)) = lookupS h s n.
Proof.
  intros h cs s Hag Hs n. destruct (class_obj_user h cs s Hag Hs) as [k [m [d [Hn [Ho _]]]]].
  unfold table_of. rewrite Ho. destruct Hag as [_ Hag]. apply (ca_lookup _ _ _ _ (Hag s k m Hn)).
Qed.

(* T super_is_declared_superclass: `super.n` inside a method of class o, executed with the value captured at
   o's definition, finds what the Spec finds starting at o's DECLARED superclass - for every receiver (its dynamic
   class is not consulted) and without reference to any variable binding (the world has none) *)
Theorem super_is_declared_superclass : forall h cs o d s, wf_hist h -> build h = Ok cs ->
  nth_error h o = Some d -> d_super d = Some s ->
  forall heap ar recv n argc,
    get_super (mkW cs heap ar) (VClass s) recv n = spec_super_get h o recv n /\
    super_invoke (mkW cs heap ar) (VClass s) recv n argc = spec_super_invoke h ar o recv n argc.
Proof.
  intros h cs o d s Hwf Hb Hd Hs heap ar recv n argc.
  destruct (copydown_eq_chainwalk h Hwf) as [cs' [Hb' Hag]]. rewrite Hb in Hb'. inversion Hb'; subst cs'.
  assert (Hso : s < o) by (destruct Hwf as [_ Hw]; eapply Hw; eauto).
  assert (Ho : o < List.length h) by (apply nth_error_Some; congruence).
  assert (Hsl : s < List.length h) by lia.
  assert (Hsup : superS h o n = lookupS h s n).
  { unfold superS. rewrite Hd. unfold declared_super. rewrite Hs. reflexivity. }
  unfold get_super, super_invoke, spec_super_invoke, spec_super_get, bind_method, invoke_from_class. simpl.
  rewrite (table_of_user h cs s Hag Hsl n). rewrite Hsup.
  destruct (lookupS h s n) as [[f|k]|]; simpl; auto.
Qed.

(* ---------- errors ---------- *)
(* T class_errors_table *)
Theorem class_errors_table :
  (* unknown member, through get and through invoke, for every receiver kind *)
  (forall w recv n argc, tbl_get n (table_of (w_cs w) (class_of (w_heap w) recv)) = None ->
     (forall a, recv = VInst a -> exists i, nth_error (w_heap w) a = Some i /\ fld_get n (fields i) = None) ->
     get_property w recv n = Err AttributeError ("Undefined property '" ++ n ++ "'.") /\
     invoke w recv n argc = Err AttributeError ("Undefined property '" ++ n ++ "'.")) /\
  (* wrong arity, for closures, bound methods and methods invoked through a table *)
  (forall ar f slot0 argc a, nth_error ar f = Some a -> argc <> a - 1 ->
     call_closure ar f slot0 argc = Err TypeError ("Expected " ++ show_nat (a - 1) ++ " arguments but found " ++ show_nat argc ++ ".")) /\
  expected_args 2 1 = "Expected 2 arguments but found 1." /\
  (* non-class superclass *)
  (forall cs v, (forall s, v <> VClass s) -> run_cop cs (OInherit v) = Err RuntimeError "Superclass must be a class.") /\
  (* field assignment on anything but an instance *)
  (forall w recv n v, (forall a, recv <> VInst a) -> set_property w recv n v = Err AttributeError "Only instances have fields.") /\
  (* calling a class value (or any other non-function) *)
  (forall ar callee argc, (forall r f, callee <> VBound r f) -> (forall r k, callee <> VBoundNative r k) ->
     (forall f, callee <> VClosure f) -> call_value ar callee argc = Err TypeError "Can only call functions and methods.").
Proof.
  repeat split.
  - unfold get_property, bind_method. destruct recv as [| | | | c | a | g | r g | r k]; try (rewrite H; reflexivity).
    destruct (H0 a eq_refl) as [i [Hi Hf]]. rewrite Hi, Hf, H. reflexivity.
  - rewrite invoke_eq_get_then_call.
    unfold get_property, bind_method. destruct recv as [| | | | c | a | g | r g | r k]; try (rewrite H; reflexivity).
    destruct (H0 a eq_refl) as [i [Hi Hf]]. rewrite Hi, Hf, H. reflexivity.
  - intros ar f slot0 argc a Ha Hne. unfold call_closure. rewrite Ha.
    destruct (Nat.eqb_spec argc (a - 1)); [contradiction|reflexivity].
  - intros cs v Hv. destruct v; try reflexivity. exfalso. apply (Hv c). reflexivity.
  - intros w recv n v Hr. destruct recv; try reflexivity. exfalso. apply (Hr a). reflexivity.
  - intros ar callee argc H1 H2 H3. destruct callee; try reflexivity.
    + exfalso; eapply H3; reflexivity.
    + exfalso; eapply H1; reflexivity.
    + exfalso; eapply H2; reflexivity.
Qed.

(* construct *)
Lemma construct_class : forall w c, 
  construct w (VClass c) = (mkW (w_cs w) (w_heap w ++ [mkInst c []]) (w_arity w), VInst (List.length (w_heap w))) /\
  nth_error (w_heap (fst (construct w (VClass c)))) (List.length (w_heap w)) = Some (mkInst c []).
Proof.
  intros. split; [reflexivity|]. simpl. rewrite nth_error_app2 by lia. rewrite Nat.sub_diag. reflexivity.
Qed.
Lemma construct_other : forall w v, (forall c, v <> VClass c) -> construct w v = (w, v).
Proof. intros w v H. destruct v; try reflexivity. exfalso; eapply H; reflexivity. Qed.

(* ====================================================================================================== *)
(* the mini-language *)

Definition Inv (st : state) : Prop := wf_hist (hist st) /\ tables_agree (hist st) (mstore st).

Lemma lookupS_dangling : forall h c n, wf_hist h -> List.length h <= c -> lookupS h c n = None.
Proof.
  intros h c n Hwf Hc. rewrite lookupS_unfold by auto. unfold own.
  assert (E : nth_error h c = None) by (apply nth_error_None; auto). rewrite E. reflexivity.
Qed.

Lemma table_eq_findS : forall h cs r n, wf_hist h -> tables_agree h cs -> tbl_get n (table_of cs r) = findS h r n.
Proof.
  intros h cs r n Hwf Hag. pose proof Hag as [Hlen Hag'].
  destruct r as [c|c|k|]; simpl findS.
  - destruct (Nat.lt_ge_cases c (List.length h)) as [Hc|Hc].
    + apply table_of_user; auto.
    + rewrite lookupS_dangling by auto. unfold table_of. simpl.
      assert (E : nth_error (classes cs) c = None) by (apply nth_error_None; lia). rewrite E. reflexivity.
  - unfold table_of. simpl. destruct (nth_error (classes cs) c) as [[k m]|] eqn:E.
    + simpl. rewrite (ca_static _ _ _ _ (Hag' c k m E)). reflexivity.
    + simpl. unfold static_lookupS. apply nth_error_None in E.
      destruct (Nat.eqb_spec c 0) as [->|_]; [destruct Hwf as [H0 _]; destruct h; simpl in *; [discriminate|lia]|].
      assert (E' : nth_error h c = None) by (apply nth_error_None; lia). rewrite E'. reflexivity.
  - unfold table_of. simpl. symmetry. apply object_lookup; auto.
  - unfold table_of. simpl. symmetry. apply object_lookup; auto.
Qed.

Lemma get_eq_spec : forall st recv n, Inv st -> s_get sem_mech st recv n = s_get sem_spec st recv n.
Proof.
  intros st recv n [Hwf Hag]. simpl. unfold get_property, spec_get, bind_method. simpl.
  assert (T : forall r, tbl_get n (table_of (mstore st) r) = findS (hist st) r n)
    by (intros; apply table_eq_findS; auto).
  destruct recv as [| | | | c | a | f | r f | r k]; rewrite T; reflexivity.
Qed.

Lemma invoke_eq_spec : forall st recv n argc, Inv st -> s_invoke sem_mech st recv n argc = s_invoke sem_spec st recv n argc.
Proof.
  intros st recv n argc HI. simpl. rewrite invoke_eq_get_then_call. unfold spec_invoke.
  pose proof (get_eq_spec st recv n HI) as H. simpl in H. rewrite H. reflexivity.
Qed.

Lemma iter_next_eq_spec : forall st it, Inv st -> s_iter_next sem_mech st it = s_iter_next sem_spec st it.
Proof. intros st it HI. exact (invoke_eq_spec st it "next" 0 HI). Qed.

Lemma ancestry_dangling : forall h c, wf_hist h -> List.length h <= c -> ancestry h c = [c].
Proof.
  intros h c Hwf Hc. rewrite ancestry_unfold by auto.
  assert (E : nth_error h c = None) by (apply nth_error_None; auto). rewrite E. reflexivity.
Qed.

Lemma derives_all_eq_spec : forall st r q, Inv st -> s_derives sem_mech st r q = s_derives sem_spec st r q.
Proof.
  intros st r q [Hwf Hag]. simpl. pose proof Hag as [Hlen Hag'].
  assert (H0 : 0 < List.length (hist st)) by (destruct Hwf as [Hobj _]; destruct (hist st); simpl in *; [discriminate|lia]).
  destruct r as [c|c|k|].
  - destruct (Nat.lt_ge_cases c (List.length (hist st))) as [Hc|Hc].
    + apply derives_eq_spec; auto.
    + unfold derives, derivesS. rewrite ancestry_dangling by auto. simpl. rewrite orb_false_r.
      rewrite (Nat.eqb_sym q c). destruct (Nat.eqb c q); auto.
      unfold class_obj. assert (E : nth_error (classes (mstore st)) c = None) by (apply nth_error_None; lia).
      rewrite E. reflexivity.
  - destruct (Nat.lt_ge_cases c (List.length (hist st))) as [Hc|Hc].
    + apply derives_meta; auto.
    + unfold derives, derivesS. destruct (Nat.ltb_spec c (List.length (hist st))); [lia|]. simpl.
      assert (E : nth_error (classes (mstore st)) c = None) by (apply nth_error_None; lia). rewrite E. reflexivity.
  - apply derives_builtin; auto.
  - unfold derives, derivesS. rewrite Hlen. destruct (List.length (hist st)) as [|n] eqn:El; [lia|].
    eapply (derives_direct_object (hist st) (mstore st) CBaseMeta _ q n); auto; try discriminate; reflexivity.
Qed.

Lemma next_cid_eq_spec : forall st, Inv st -> s_next_cid sem_mech st = s_next_cid sem_spec st.
Proof. intros st [_ [Hlen _]]. exact Hlen. Qed.

Lemma cname_eq_spec : forall st r, Inv st -> s_cname sem_mech st r = s_cname sem_spec st r.
Proof.
  intros st r [Hwf [Hlen Hag]]. simpl. destruct r as [c|c|k|]; auto.
  - simpl. destruct (nth_error (classes (mstore st)) c) as [[k m]|] eqn:E.
    + destruct (Hag c k m E) as [[d [Hd [Hn _]]] _ _ _ _ _ _ _ _]. rewrite Hd. simpl. rewrite Hn. reflexivity.
    + apply nth_error_None in E. assert (E' : nth_error (hist st) c = None) by (apply nth_error_None; lia).
      rewrite E'. reflexivity.
  - simpl. destruct (nth_error (classes (mstore st)) c) as [[k m]|] eqn:E.
    + pose proof (Hag c k m E) as A. destruct (ca_def _ _ _ _ A) as [d [Hd _]]. rewrite Hd. simpl.
      rewrite (ca_mname _ _ _ _ A d Hd). reflexivity.
    + apply nth_error_None in E. assert (E' : nth_error (hist st) c = None) by (apply nth_error_None; lia).
      rewrite E'. reflexivity.
Qed.

(* a context whose captured `super` is the declared superclass of its owner and whose slot 0 is the method's self *)
Definition ctx_ok (st : state) (c : ctx) : Prop :=
  match c_owner c with
  | Some o => (exists d, nth_error (hist st) o = Some d /\ c_super c = option_map VClass (d_super d))
  | None => c_super c = None
  end.

Lemma super_eq_spec : forall st c n argc, Inv st -> ctx_ok st c ->
  s_super_get sem_mech st c n = s_super_get sem_spec st c n /\
  s_super_invoke sem_mech st c n argc = s_super_invoke sem_spec st c n argc.
Proof.
  intros st c n argc [Hwf Hag] Hs. unfold ctx_ok in Hs. simpl. unfold spec_super_ctx, super_receiver.
  destruct (c_owner c) as [o|].
  - destruct Hs as [d [Hd Hsup]]. rewrite Hd, Hsup. destruct (d_super d) as [s|] eqn:Es; simpl; auto.
    destruct (lexical_self st c) as [recv|e m|w]; simpl; auto.
    destruct (copydown_eq_chainwalk (hist st) Hwf) as [cs' [Hb _]].
    assert (Hsl : s < List.length (hist st)).
    { destruct Hwf as [_ Hw]. pose proof (Hw o d s Hd Es). assert (o < List.length (hist st)) by (apply nth_error_Some; congruence). lia. }
    assert (Hsup' : superS (hist st) o n = lookupS (hist st) s n).
    { unfold superS. rewrite Hd. unfold declared_super. rewrite Es. reflexivity. }
    unfold get_super, super_invoke, spec_super_invoke, spec_super_get, bind_method, invoke_from_class. simpl.
    rewrite (table_of_user (hist st) (mstore st) s Hag Hsl n). rewrite Hsup'.
    destruct (lookupS (hist st) s n) as [[f|k]|]; simpl; auto.
  - rewrite Hs. auto.
Qed.

(* (1): on every state in which M's tables are the copy-down of the declared history,
   every operation in which the two semantics differ gives the same answer *)
Theorem sem_ops_agree : forall st, Inv st ->
  (forall recv n, s_get sem_mech st recv n = s_get sem_spec st recv n) /\
  (forall recv n argc, s_invoke sem_mech st recv n argc = s_invoke sem_spec st recv n argc) /\
  (forall c n argc, ctx_ok st c -> s_super_get sem_mech st c n = s_super_get sem_spec st c n /\
                                   s_super_invoke sem_mech st c n argc = s_super_invoke sem_spec st c n argc) /\
  (forall r q, s_derives sem_mech st r q = s_derives sem_spec st r q) /\
  s_next_cid sem_mech st = s_next_cid sem_spec st /\
  (forall r, s_cname sem_mech st r = s_cname sem_spec st r) /\
  (forall it, s_iter_next sem_mech st it = s_iter_next sem_spec st it).
Proof.
  intros st HI. repeat split; intros.
  - apply get_eq_spec; auto.
  - apply invoke_eq_spec; auto.
  - apply (proj1 (super_eq_spec st c n argc HI H)).
  - apply (proj2 (super_eq_spec st c n argc HI H)).
  - apply derives_all_eq_spec; auto.
  - apply next_cid_eq_spec; auto.
  - apply cname_eq_spec; auto.
  - apply iter_next_eq_spec; auto.
Qed.

Lemma Inv_st0 : Inv st0.
Proof.
  split; [|apply cs0_agrees]. split; [reflexivity|]. intros i d s Hi Hs.
  destruct i as [|[|i]]; simpl in Hi; try discriminate. inversion Hi; subst. discriminate.
Qed.

(* ---------- constructors ---------- *)
Lemma ev_enter_closure : forall S f c fid slot0 vs st,
  ev S (Datatypes.S f) c (TEnter (TClosure fid slot0) vs) st =
  match nth_error (closures st) fid with
  | None => (st, RStuck "dangling closure")
  | Some cl =>
    if Nat.eqb (c_depth c) frames_max then (st, RErr IndexError "Stack overflow.") else
    let '(st1, slot0') :=
      match cl_kind cl with
      | KInit => let '(w, v) := construct (world_of st) slot0 in (set_heap st (w_heap w), v)
      | _ => (st, slot0)
      end in
    let '(st2, rho0) :=
      match slot0_name (cl_kind cl) with
      | Some nm => let '(s', a) := alloc_cell st1 slot0' in (s', (nm, a) :: cl_env cl)
      | None => (st1, cl_env cl)
      end in
    let '(st3, rho) := bind_params st2 rho0 (cl_params cl) vs in
    let c' := mkCtx rho true (cl_super cl) (cl_owner cl) slot0' (Datatypes.S (c_depth c))
                     (match cl_kind cl with KFun => cl_self cl | _ => Some slot0' end)
                     (match cl_kind cl with KFun => true | _ => false end) in
    match ev S f c' (TS (cl_body cl)) st3 with
    | (st4, RNext _) => (st4, RVal (match cl_kind cl with KInit => slot0' | _ => VNil end))
    | (st4, RRet v) => (st4, RVal (match cl_kind cl with KInit => slot0' | _ => v end))
    | (st4, RVal _) | (st4, RVals _) => (st4, RStuck "body outcome")
    | other => other
    end
  end.
Proof. intros. reflexivity. Qed.

(* T constructor_returns_instance: whatever its body does (fall through, `return;`), an initialiser that returns at
   all returns the value Construct left in slot 0: a fresh instance of the class it was invoked on, or the existing
   instance it was invoked on (through an instance or through `super.new(..)`) *)
Theorem constructor_returns_instance : forall S f c fid slot0 vs st cl st' v,
  nth_error (closures st) fid = Some cl -> cl_kind cl = KInit ->
  ev S (Datatypes.S f) c (TEnter (TClosure fid slot0) vs) st = (st', RVal v) ->
  v = snd (construct (world_of st) slot0) /\
  (forall k, slot0 = VClass k ->
     v = VInst (List.length (heap st)) /\
     nth_error (w_heap (fst (construct (world_of st) slot0))) (List.length (heap st)) = Some (mkInst k [])) /\
  (forall a, slot0 = VInst a -> v = VInst a).
Proof.
  intros S f c fid slot0 vs st cl st' v Hcl Hk H. rewrite ev_enter_closure in H. rewrite Hcl, Hk in H.
  destruct (Nat.eqb (c_depth c) frames_max); [discriminate|].
  destruct (construct (world_of st) slot0) as [w v0] eqn:Ec. simpl in H.
  destruct (bind_params _ _ _ _) as [st3 rho] in H.
  assert (Hv : v = v0).
  { destruct (ev S f _ (TS (cl_body cl)) st3) as [st4 [x|x|x|x|k m| |w']]; inversion H; reflexivity. }
  subst v0. split; [reflexivity|]. split.
  - intros k ->. simpl in Ec. inversion Ec; subst. split; [reflexivity|]. simpl.
    rewrite nth_error_app2 by lia. rewrite Nat.sub_diag. reflexivity.
  - intros a ->. simpl in Ec. inversion Ec. reflexivity.
Qed.

(* T no_implicit_super_init: the default initialiser (`#[constructor(new)]`: no parameters, empty body) of ANY class -
   also of one whose superclass has an explicit initialiser - creates the instance and runs nothing else: no line is
   printed, no member is dispatched, the instance has no field.  (An explicit initialiser runs exactly its body: an
   inherited one only where the body says `super.new(..)`; see the examples below.) *)
Theorem no_implicit_super_init : forall S f c fid k st cl,
  nth_error (closures st) fid = Some cl -> cl_kind cl = KInit -> cl_params cl = [] -> cl_body cl = [] ->
  c_depth c <> frames_max ->
  exists st', ev S (Datatypes.S (Datatypes.S f)) c (TEnter (TClosure fid (VClass k)) []) st = (st', RVal (VInst (List.length (heap st)))) /\
    heap st' = (heap st ++ [mkInst k []])%list /\ out st' = out st /\ trace st' = trace st /\
    globals st' = globals st /\ hist st' = hist st /\ mstore st' = mstore st.
Proof.
  intros S f c fid k st cl Hcl Hk Hp Hb Hd. rewrite ev_enter_closure. rewrite Hcl, Hk, Hp, Hb.
  destruct (Nat.eqb_spec (c_depth c) frames_max); [contradiction|]. simpl.
  eexists. split; [reflexivity|]. simpl. repeat split; reflexivity.
Qed.

(* ---------- class definition preserves the invariant ---------- *)
Lemma Inv_ext : forall st st', hist st' = hist st -> classes (mstore st') = classes (mstore st) -> Inv st -> Inv st'.
Proof. intros st st' Hh Hc [Hwf [Hlen Hag]]. unfold Inv, tables_agree. rewrite Hh, Hc. auto. Qed.

Lemma declare_hm : forall c st x v st1 rho, declare c st x v = (st1, rho) ->
  hist st1 = hist st /\ mstore st1 = mstore st /\ closures st1 = closures st.
Proof. intros c st x v st1 rho H. unfold declare in H. destruct (c_local c); simpl in H; inversion H; auto. Qed.

Lemma assign_hm : forall rho st x v st1, assign rho st x v = Ok st1 ->
  hist st1 = hist st /\ mstore st1 = mstore st /\ closures st1 = closures st.
Proof.
  intros rho st x v st1 H. unfold assign in H. destruct (assoc x rho); [inversion H; auto|].
  destruct (assoc x (globals st)); inversion H; auto.
Qed.

Lemma run_cop_classes : forall cs op cs', run_cop cs op = Ok cs' -> op <> ODefine -> classes cs' = classes cs.
Proof.
  intros cs op cs' H Hne. destruct op; simpl in H.
  - inversion H; reflexivity.
  - destruct sup as [| | | | s | | | |]; try discriminate. destruct (working cs) as [[cc mm]|]; [|discriminate].
    destruct (nth_error (classes cs) s) as [[sc sm]|]; inversion H; reflexivity.
  - destruct (working cs) as [[c mm]|]; inversion H; reflexivity.
  - destruct (working cs) as [[c mm]|]; inversion H; reflexivity.
  - contradiction.
Qed.

Lemma def_op_kind : forall k n m, def_op (n, static_of_kind k, m) = op_of_kind k n m.
Proof. destruct k; reflexivity. Qed.


Definition is_fun (k : fkind) : bool := match k with KFun => true | _ => false end.

Fixpoint exprs_have_super (l : list expr) : bool :=
  match l with [] => false | x :: r => expr_has_super x || exprs_have_super r end.
Fixpoint stmts_known (b : bool) (l : list stmt) : bool :=
  match l with [] => false | x :: r => stmt_known b x || stmts_known b r end.
Fixpoint mdecls_known (l : list mdecl) : bool :=
  match l with
  | [] => false
  | MDecl k _ _ body _ :: r => is_fun k || stmts_known false body || mdecls_known r
  end.

(* what a class definition guarantees about the closures it creates *)
Definition new_closure_ok (supv : option value) (i : nat) (ms : list mdecl) (cl : closure) : Prop :=
  cl_super cl = supv /\ cl_owner cl = Some i /\
  (mdecls_known ms = false -> stmts_known (is_fun (cl_kind cl)) (cl_body cl) = false).

Lemma define_methods_spec : forall rho supv i ms st defs st' defs',
  define_methods rho supv i ms st defs = Ok (st', defs') ->
  hist st' = hist st /\
  exists nd ncl, defs' = (defs ++ nd)%list /\ run_cops (mstore st) (map def_op nd) = Ok (mstore st') /\
    closures st' = (closures st ++ ncl)%list /\ Forall (new_closure_ok supv i ms) ncl.
Proof.
  induction ms as [|[k n ps body lab] r IH]; intros st defs st' defs' H; simpl in H.
  - inversion H; subst. split; auto. exists [], []. rewrite !app_nil_r. repeat split; auto.
  - destruct (run_cop (mstore st) (op_of_kind k n (MClosure (List.length (closures st))))) as [cs|e m|w] eqn:E;
      try discriminate.
    apply IH in H. destruct H as [Hh [nd [ncl [Hd [Hr [Hc Hf]]]]]]. simpl in Hh, Hc. split; auto.
    exists ((n, static_of_kind k, MClosure (List.length (closures st))) :: nd).
    exists (mkCl n k ps body rho supv (Some i) None lab :: ncl). split; [|split; [|split]].
    + rewrite Hd. rewrite <- app_assoc. reflexivity.
    + cbn [map run_cops]. rewrite def_op_kind. rewrite E. cbn [rbind]. exact Hr.
    + rewrite Hc. rewrite <- app_assoc. reflexivity.
    + constructor.
      * split; [reflexivity|]. split; [reflexivity|]. simpl. intros Hk.
        apply orb_false_elim in Hk. destruct Hk as [Hk _]. apply orb_false_elim in Hk. destruct Hk as [Hfun Hb].
        rewrite Hfun. exact Hb.
      * eapply Forall_impl; [|exact Hf]. intros cl [H1 [H2 H3]]. split; auto. split; auto.
        intros Hk. apply H3. simpl in Hk. apply orb_false_elim in Hk. tauto.
Qed.

Lemma run_cops_app : forall a b cs, run_cops cs (a ++ b) = rbind (run_cops cs a) (fun cs' => run_cops cs' b).
Proof.
  induction a as [|op r IH]; intros b cs; simpl; auto.
  destruct (run_cop cs op); simpl; auto.
Qed.

Lemma run_cops_classes : forall ops cs cs', run_cops cs ops = Ok cs' -> (forall op, In op ops -> op <> ODefine) ->
  classes cs' = classes cs.
Proof.
  induction ops as [|op r IH]; intros cs cs' H Hno; simpl in H.
  - inversion H; reflexivity.
  - destruct (run_cop cs op) as [cs1|?|?] eqn:E; simpl in H; try discriminate.
    rewrite (IH cs1 cs' H) by (intros; apply Hno; right; auto).
    apply (run_cop_classes cs op cs1 E). apply Hno. left; auto.
Qed.

Lemma def_ops_no_define : forall defs op, In op (map def_op defs) -> op <> ODefine.
Proof.
  intros defs op H. apply in_map_iff in H. destruct H as [[[n st] m] [Hd _]]. subst. destruct st; discriminate.
Qed.

Lemma tables_agree_working : forall h cl w w', tables_agree h (mkCS cl w) -> tables_agree h (mkCS cl w').
Proof. intros h cl w w' H. exact H. Qed.

(* a closure is consistent with the history: its captured `super` is the declared superclass of its owner *)
Definition closure_sup_ok (h : list cdef) (cl : closure) : Prop :=
  match cl_owner cl with
  | Some o => forall d, nth_error h o = Some d -> cl_super cl = option_map VClass (d_super d)
  | None => True
  end.

Lemma exec_class_inv : forall S c st cd st' o, Inv st -> (S = sem_mech \/ S = sem_spec) ->
  exec_class S c st cd = (st', o) ->
  Inv st' /\
  (* the definition appends at most one entry, and the closures it creates capture the declared superclass *)
  ((hist st' = hist st /\ closures st' = closures st) \/
   exists d ncl, hist st' = (hist st ++ [d])%list /\ closures st' = (closures st ++ ncl)%list /\
     Forall (fun cl => cl_owner cl = Some (List.length (hist st)) /\ cl_super cl = option_map VClass (d_super d) /\
                       (forall name sup defctor ms label, cd = CDecl name sup defctor ms label -> mdecls_known ms = false ->
                          stmts_known (is_fun (cl_kind cl)) (cl_body cl) = false)) ncl).
Proof.
  intros S c st [name sup defctor ms label] st' o HI Hcid H. unfold exec_class in H.
  destruct (declare c st name VNil) as [st1 rho] eqn:Ed.
  destruct (declare_hm _ _ _ _ _ _ Ed) as [Hh1 [Hm1 Hc1]].
  assert (Hi : s_next_cid S st1 = List.length (hist st)).
  { destruct HI as [_ [Hlen _]]. destruct Hcid; subst S; simpl; rewrite ?Hm1, ?Hh1; auto. }
  cbn [run_cop of_res] in H.
  set (cs1 := mkCS (classes (mstore st1)) _) in H.
  set (st2 := set_mstore st1 cs1) in H.
  assert (HI2 : Inv st2).
  { apply (Inv_ext st); auto. simpl. rewrite Hm1. reflexivity. }
  (* the common tail *)
  assert (Tail : forall (st3 : state) (supv : option value) (s : option nat) r,
     hist st3 = hist st -> classes (mstore st3) = classes (mstore st) -> closures st3 = closures st ->
     (exists c0 m0, working (mstore st3) = Some (c0, m0) /\
        run_cops (mstore st) ([ODeclare name] ++ match s with Some s' => [OInherit (VClass s')] | None => [] end) = Ok (mstore st3)) ->
     (forall s', s = Some s' -> s' < List.length (hist st)) ->
     supv = option_map VClass s ->
     (let '(st4, defs0) :=
          match defctor with
          | Some cn =>
            let '(st', f) := new_closure st3 (mkCl cn KInit [] [] rho supv (Some (s_next_cid S st1)) None label) in
            match run_cop (mstore st') (OStaticMethod cn (MClosure f)) with
            | Ok cs' => (set_mstore st' cs', [(cn, true, MClosure f)])
            | _ => (st3, [])
            end
          | None => (st3, [])
          end in
        of_res (define_methods rho supv (s_next_cid S st1) ms st4 defs0) (fun sd =>
          let '(st5, defs) := sd in
          of_res (run_cop (mstore st5) ODefine) (fun cs' =>
            let st6 := set_hist (set_mstore st5 cs') (hist st5 ++ [mkDef name s defs]) in
            of_res (assign rho st6 name (VClass (s_next_cid S st1))) (fun st7 => (st7, RNext rho)) st6) st3) st3) = r ->
     Inv (fst r) /\
     ((hist (fst r) = hist st /\ closures (fst r) = closures st) \/
      exists d ncl, hist (fst r) = (hist st ++ [d])%list /\ closures (fst r) = (closures st ++ ncl)%list /\
        Forall (fun cl => cl_owner cl = Some (List.length (hist st)) /\ cl_super cl = option_map VClass (d_super d) /\
                          (mdecls_known ms = false -> stmts_known (is_fun (cl_kind cl)) (cl_body cl) = false)) ncl)).
  { intros st3 supv s r Hh3 Hc3 Hcl3 [c0 [m0 [Hw3 Hrun3]]] Hs Hsupv Hr. rewrite Hi in Hr.
    assert (HI3 : Inv st3) by (apply (Inv_ext st); auto).
    (* default constructor *)
    assert (Hdc : exists st4 defs0 ncl0,
       (match defctor with
        | Some cn =>
          let '(st', f) := new_closure st3 (mkCl cn KInit [] [] rho supv (Some (List.length (hist st))) None label) in
          match run_cop (mstore st') (OStaticMethod cn (MClosure f)) with
          | Ok cs' => (set_mstore st' cs', [(cn, true, MClosure f)])
          | _ => (st3, [])
          end
        | None => (st3, [])
        end) = (st4, defs0) /\ hist st4 = hist st /\
       run_cops (mstore st3) (map def_op defs0) = Ok (mstore st4) /\
       closures st4 = (closures st ++ ncl0)%list /\ Forall (new_closure_ok supv (List.length (hist st)) ms) ncl0).
    { destruct defctor as [cn|].
      - simpl. rewrite Hw3. simpl. eexists. eexists. eexists. split; [reflexivity|]. simpl. split; auto. split; [|split].
        + rewrite Hw3. reflexivity.
        + rewrite Hcl3. reflexivity.
        + constructor; [|constructor]. split; [reflexivity|]. split; [reflexivity|]. reflexivity.
      - exists st3, [], []. rewrite app_nil_r. repeat split; auto. }
    destruct Hdc as [st4 [defs0 [ncl0 [Edc [Hh4 [Hrun4 [Hcl4 Hf4]]]]]]]. rewrite Edc in Hr.
    destruct (define_methods rho supv (List.length (hist st)) ms st4 defs0) as [[st5 defs]|e m|w] eqn:Edm.
    2,3: (simpl in Hr; subst r; simpl; split; [exact HI3|left; auto]).
    destruct (define_methods_spec _ _ _ _ _ _ _ _ Edm) as [Hh5 [nd [ncl5 [Hdefs [Hrun5 [Hcl5 Hf5]]]]]].
    simpl in Hr.
    (* the whole op sequence is define_class *)
    set (d := mkDef name s defs).
    assert (Hall : run_cops (mstore st) (ops_of_def d) = rbind (Ok (mstore st5)) (fun cs => run_cop cs ODefine)).
    { unfold ops_of_def. subst d. cbn [d_name d_super d_defs].
      rewrite app_assoc. rewrite run_cops_app. rewrite Hrun3. cbn [rbind].
      rewrite Hdefs. rewrite map_app. rewrite <- app_assoc. rewrite run_cops_app. rewrite Hrun4. cbn [rbind].
      rewrite run_cops_app. rewrite Hrun5. cbn [rbind run_cops]. destruct (run_cop (mstore st5) ODefine); reflexivity. }
    assert (Hwfd : wf_hist (hist st ++ [d])).
    { destruct HI as [[H0 Hw] _]. split.
      - destruct (hist st); simpl in *; [discriminate|auto].
      - intros i0 d0 s0 Hi0 Hs0. destruct (Nat.lt_ge_cases i0 (List.length (hist st))) as [Hlt|Hge].
        + rewrite nth_error_app1 in Hi0 by auto. eapply Hw; eauto.
        + rewrite nth_error_app2 in Hi0 by auto. destruct (i0 - List.length (hist st)) as [|j] eqn:Ej; [|destruct j; discriminate].
          simpl in Hi0. inversion Hi0; subst d0. simpl in Hs0. pose proof (Hs s0 Hs0). lia. }
    assert (Hne : hist st <> []) by (destruct HI as [[H0 _] _]; destruct (hist st); [discriminate|discriminate]).
    destruct HI as [Hwf Hag].
    destruct (define_class_agrees (hist st) d (mstore st) Hne Hwf Hwfd Hag) as [csF [HdF HagF]].
    unfold define_class in HdF. rewrite Hall in HdF. simpl in HdF. rewrite HdF in Hr. simpl in Hr.
    set (st6 := set_hist (set_mstore st5 csF) (hist st5 ++ [mkDef name s defs])) in Hr.
    assert (HI6 : Inv st6).
    { unfold Inv, st6. simpl. rewrite Hh5, Hh4. fold d. split; auto. }
    assert (Hcl6 : closures st6 = (closures st ++ (ncl0 ++ ncl5))%list /\
              Forall (fun cl => cl_owner cl = Some (List.length (hist st)) /\ cl_super cl = option_map VClass (d_super d) /\
                          (mdecls_known ms = false -> stmts_known (is_fun (cl_kind cl)) (cl_body cl) = false)) (ncl0 ++ ncl5)).
    { split.
      - simpl. rewrite Hcl5, Hcl4. rewrite <- app_assoc. reflexivity.
      - apply Forall_app. split; (eapply Forall_impl; [|eassumption]); intros cl [H1 [H2 H3]];
          (split; [exact H2|split; [rewrite H1; exact Hsupv|exact H3]]). }
    destruct Hcl6 as [Hcl6 Hf6].
    destruct (assign rho st6 name (VClass (List.length (hist st)))) as [st7|e m|w] eqn:Ea; simpl in Hr; subst r; simpl.
    + destruct (assign_hm _ _ _ _ _ Ea) as [Hh7 [Hm7 Hc7]]. split.
      * apply (Inv_ext st6); auto. rewrite Hm7. reflexivity.
      * right. exists d, (ncl0 ++ ncl5)%list. split; [rewrite Hh7; simpl; rewrite Hh5, Hh4; reflexivity|]. rewrite Hc7. split; auto.
    + split; auto. right. exists d, (ncl0 ++ ncl5)%list. split; [simpl; rewrite Hh5, Hh4; reflexivity|split; auto].
    + split; auto. right. exists d, (ncl0 ++ ncl5)%list. split; [simpl; rewrite Hh5, Hh4; reflexivity|split; auto]. }
  assert (Fin : forall r : state * oc,
     Inv (fst r) /\
     ((hist (fst r) = hist st /\ closures (fst r) = closures st) \/
      exists d ncl, hist (fst r) = (hist st ++ [d])%list /\ closures (fst r) = (closures st ++ ncl)%list /\
        Forall (fun cl => cl_owner cl = Some (List.length (hist st)) /\ cl_super cl = option_map VClass (d_super d) /\
                          (mdecls_known ms = false -> stmts_known (is_fun (cl_kind cl)) (cl_body cl) = false)) ncl) ->
     r = (st', o) ->
     Inv st' /\
     ((hist st' = hist st /\ closures st' = closures st) \/
      exists d ncl, hist st' = (hist st ++ [d])%list /\ closures st' = (closures st ++ ncl)%list /\
        Forall (fun cl => cl_owner cl = Some (List.length (hist st)) /\ cl_super cl = option_map VClass (d_super d) /\
                  (forall name0 sup0 defctor0 ms0 label0, CDecl name sup defctor ms label = CDecl name0 sup0 defctor0 ms0 label0 ->
                     mdecls_known ms0 = false -> stmts_known (is_fun (cl_kind cl)) (cl_body cl) = false)) ncl)).
  { intros r [T1 T2] ->. simpl in T1, T2. split; auto. destruct T2 as [T2|[d [ncl [Ta [Tb Tc]]]]]; auto.
    right. exists d, ncl. split; auto. split; auto. eapply Forall_impl; [|exact Tc].
    intros cl [A1 [A2 A3]]. split; auto. split; auto. intros ? ? ? ? ? Heq. inversion Heq; subst. exact A3. }
  assert (Hst2 : hist st2 = hist st /\ closures st2 = closures st) by (simpl; auto).
  destruct sup as [sn|].
  - destruct (lookup_var (ctx_env c rho (c_local c)) st2 sn) as [v|e m|w] eqn:El;
      simpl in H; try (inversion H; subst; split; [exact HI2|left; exact Hst2]).
    destruct v as [| | | | s | | | |];
      try (simpl in H; inversion H; subst; split; [exact HI2|left; exact Hst2]).
    cbn [run_cop] in H. unfold st2 at 1 2 in H. cbn [mstore set_mstore working classes cs1] in H.
    destruct (nth_error (classes (mstore st1)) s) as [[sc sm]|] eqn:Es;
      [|simpl in H; inversion H; subst; split; [exact HI2|left; exact Hst2]].
    cbn [of_res] in H.
    assert (Hsl : s < List.length (hist st)).
    { destruct HI as [_ [Hlen _]]. rewrite <- Hlen. rewrite <- Hm1. apply nth_error_Some. congruence. }
    match type of H with ?lhs = _ => apply (Fin lhs); [|exact H];
      apply (Tail (set_mstore st2 (mkCS (classes (mstore st1)) (Some
         (set_methods (set_super (objclass_new (CUser (List.length (classes (mstore st1)))) name CBaseMeta (object_of (mstore st1)) []) (Some (cid sc)))
            (tbl_insert_all (methods sc) (methods (objclass_new (CUser (List.length (classes (mstore st1)))) name CBaseMeta (object_of (mstore st1)) []))),
          objclass_new (CMeta (List.length (classes (mstore st1)))) (name ++ "Class") CBaseMeta (object_of (mstore st1)) []))))
         (Some (VClass s)) (Some s) lhs) end; auto.
    + simpl. rewrite Hm1. reflexivity.
    + eexists. eexists. split; [reflexivity|]. simpl. rewrite <- Hm1. rewrite Es. reflexivity.
    + intros s' Hs'. inversion Hs'; subst. exact Hsl.
  - match type of H with ?lhs = _ => apply (Fin lhs); [|exact H]; apply (Tail st2 None None lhs) end; auto.
    + simpl. rewrite Hm1. reflexivity.
    + eexists. eexists. split; [reflexivity|]. simpl. rewrite <- Hm1. reflexivity.
    + intros s' Hs'. discriminate.
Qed.


(* ====================================================================================================== *)
(* eval_mech = eval_spec: the simulation *)

Lemma exprs_fix : forall l,
  (fix go (l : list expr) := match l with [] => false | x :: r => expr_has_super x || go r end) l = exprs_have_super l.
Proof. induction l; simpl; congruence. Qed.
Lemma stmts_fix : forall b l,
  (fix go (l : list stmt) := match l with [] => false | x :: r => stmt_known b x || go r end) l = stmts_known b l.
Proof. induction l; simpl; congruence. Qed.
Lemma mdecls_fix : forall l,
  (fix gm (l : list mdecl) := match l with
     | [] => false
     | MDecl k _ _ body _ :: r =>
       (match k with KFun => true | _ => false end)
       || (fix go (b : list stmt) := match b with [] => false | x :: r' => stmt_known false x || go r' end) body || gm r
     end) l = mdecls_known l.
Proof. induction l as [|[k n ps body lab] r IH]; simpl; auto. rewrite IH. rewrite stmts_fix. reflexivity. Qed.

Definition sup_ok (h : list cdef) (sup : option value) (owner : option nat) : Prop :=
  match owner with
  | Some o => exists d, nth_error h o = Some d /\ sup = option_map VClass (d_super d)
  | None => sup = None
  end.

Definition cl_ok (h : list cdef) (cl : closure) : Prop := sup_ok h (cl_super cl) (cl_owner cl).

Definition G (st : state) : Prop :=
  Inv st /\ forall f cl, nth_error (closures st) f = Some cl -> cl_ok (hist st) cl.

Definition ext (st st' : state) : Prop := exists hl, hist st' = (hist st ++ hl)%list.

Definition C (st : state) (c : ctx) : Prop := sup_ok (hist st) (c_super c) (c_owner c).

Definition Post (st : state) (r : state * oc) : Prop := G (fst r) /\ ext st (fst r).

Lemma ext_refl : forall st, ext st st.
Proof. intros. exists []. rewrite app_nil_r. reflexivity. Qed.
Lemma ext_trans : forall a b c, ext a b -> ext b c -> ext a c.
Proof. intros a b c [x Hx] [y Hy]. exists (x ++ y)%list. rewrite Hy, Hx, app_assoc. reflexivity. Qed.

Lemma sup_ok_ext : forall h hl sup o, sup_ok h sup o -> sup_ok (h ++ hl) sup o.
Proof.
  intros h hl sup [o|] H; simpl in *; auto. destruct H as [d [Hd Hs]]. exists d. split; auto.
  rewrite nth_error_app1; auto. apply nth_error_Some. congruence.
Qed.
Lemma C_ext : forall st st' c, C st c -> ext st st' -> C st' c.
Proof. intros st st' c H1 [hl Hh]. unfold C. rewrite Hh. apply sup_ok_ext; auto. Qed.

Definition core (st : state) := (hist st, mstore st, closures st).
Lemma G_core : forall st st', core st' = core st -> G st -> G st'.
Proof.
  intros st st' Hc [HI Hcl]. unfold core in Hc. inversion Hc as [[Hh Hm Hc']]. split.
  - apply (Inv_ext st); auto. rewrite Hm. reflexivity.
  - rewrite Hc', Hh. auto.
Qed.
Lemma ext_core : forall st st', core st' = core st -> ext st st'.
Proof. intros st st' Hc. inversion Hc as [[Hh Hm Hc']]. exists []. rewrite app_nil_r. auto. Qed.
Lemma Post_core : forall st st' o, core st' = core st -> G st -> Post st (st', o).
Proof. intros. split; simpl; [eapply G_core; eauto | apply ext_core; auto]. Qed.
Lemma Post_trans : forall st st1 r, ext st st1 -> Post st1 r -> Post st r.
Proof. intros st st1 r H [HG He]. split; auto. eapply ext_trans; eauto. Qed.

Lemma bind_val_sim : forall st rM rS kM kS,
  rM = rS -> Post st rS ->
  (forall v st1, G st1 -> ext st st1 -> kM v st1 = kS v st1 /\ Post st1 (kS v st1)) ->
  bind_val rM kM = bind_val rS kS /\ Post st (bind_val rS kS).
Proof.
  intros st rM rS kM kS -> [HG He] Hk. destruct rS as [st1 o]. simpl in HG, He.
  destruct o; simpl; try (split; [reflexivity|split; auto]).
  destruct (Hk v st1 HG He) as [E HP]. split; auto. eapply Post_trans; eauto.
Qed.

Lemma bind_vals_sim : forall st rM rS kM kS,
  rM = rS -> Post st rS ->
  (forall vs st1, G st1 -> ext st st1 -> kM vs st1 = kS vs st1 /\ Post st1 (kS vs st1)) ->
  bind_vals rM kM = bind_vals rS kS /\ Post st (bind_vals rS kS).
Proof.
  intros st rM rS kM kS -> [HG He] Hk. destruct rS as [st1 o]. simpl in HG, He.
  destruct o; simpl; try (split; [reflexivity|split; auto]).
  destruct (Hk vs st1 HG He) as [E HP]. split; auto. eapply Post_trans; eauto.
Qed.

Lemma of_res_sim : forall {A} (rM rS : res A) kM kS st,
  rM = rS -> G st -> (forall a, rS = Ok a -> kM a = kS a /\ Post st (kS a)) ->
  of_res rM kM st = of_res rS kS st /\ Post st (of_res rS kS st).
Proof.
  intros A rM rS kM kS st -> HG Hk. destruct rS as [a|e m|w]; simpl.
  - apply Hk; auto.
  - split; auto. split; simpl; auto. apply ext_refl.
  - split; auto. split; simpl; auto. apply ext_refl.
Qed.

Lemma display_eq : forall st v, G st -> display sem_mech st v = display sem_spec st v.
Proof.
  intros st v [HI _]. destruct v; try reflexivity. unfold display.
  rewrite (cname_eq_spec st (CUser c) HI). reflexivity.
Qed.
Lemma type_name_eq : forall st v, G st -> type_name sem_mech st v = type_name sem_spec st v.
Proof.
  intros st v [HI _]. destruct v; try reflexivity; unfold type_name; apply cname_eq_spec; auto.
Qed.

Lemma C_ctx_env : forall st c rho loc, C st c -> C st (ctx_env c rho loc).
Proof. intros st c rho loc H. exact H. Qed.

Lemma ctx_ok_of_C : forall st c, C st c -> ctx_ok st c.
Proof. intros st c H. exact H. Qed.

(* exec_class depends on the semantics only through the class number *)
Lemma exec_class_eq : forall c st cd, G st -> exec_class sem_mech c st cd = exec_class sem_spec c st cd.
Proof.
  intros c st [name sup defctor ms label] [HI _]. unfold exec_class.
  destruct (declare c st name VNil) as [st1 rho] eqn:Ed.
  destruct (declare_hm _ _ _ _ _ _ Ed) as [Hh1 [Hm1 Hc1]].
  assert (E : s_next_cid sem_mech st1 = s_next_cid sem_spec st1).
  { apply next_cid_eq_spec. apply (Inv_ext st); auto. rewrite Hm1. reflexivity. }
  rewrite E. reflexivity.
Qed.

Lemma G_new_closure : forall st cl, G st -> cl_ok (hist st) cl -> G (fst (new_closure st cl)).
Proof.
  intros st cl [HI Hcl] Hok. split.
  - apply (Inv_ext st); auto.
  - simpl. intros f c0 Hf. destruct (Nat.lt_ge_cases f (List.length (closures st))) as [Hlt|Hge].
    + rewrite nth_error_app1 in Hf by auto. apply Hcl in Hf. exact Hf.
    + rewrite nth_error_app2 in Hf by auto. destruct (f - List.length (closures st)) as [|j]; [|destruct j; discriminate].
      simpl in Hf. inversion Hf; subst. exact Hok.
Qed.

Lemma cl_ok_ext : forall h hl cl, cl_ok h cl -> cl_ok (h ++ hl) cl.
Proof. intros h hl cl H1. apply sup_ok_ext; auto. Qed.

Lemma exec_class_post : forall c st cd, G st -> Post st (exec_class sem_spec c st cd).
Proof.
  intros c st cd [HI Hcl].
  destruct (exec_class sem_spec c st cd) as [st' o] eqn:E.
  destruct (exec_class_inv sem_spec c st cd st' o HI (or_intror eq_refl) E) as [HI' Hc].
  destruct Hc as [[Hh Hcs]|[d [ncl [Hh [Hcs Hf]]]]].
  - split; simpl.
    + split; auto. rewrite Hh, Hcs. exact Hcl.
    + exists []. rewrite app_nil_r. auto.
  - split; simpl.
    + split; auto. rewrite Hh, Hcs. intros f cl Hfc.
      destruct (Nat.lt_ge_cases f (List.length (closures st))) as [Hlt|Hge].
      * rewrite nth_error_app1 in Hfc by auto. apply cl_ok_ext. apply (Hcl f cl Hfc).
      * rewrite nth_error_app2 in Hfc by auto. apply nth_error_In in Hfc.
        rewrite Forall_forall in Hf. destruct (Hf cl Hfc) as [Ho [Hs Hb]].
        unfold cl_ok, sup_ok. rewrite Ho. exists d. split; auto.
        rewrite nth_error_app2 by lia. rewrite Nat.sub_diag. reflexivity.
    + exists [d]. auto.
Qed.

(* one step of ev for each task shape *)
Lemma ev_TE_get : forall S f c e1 n st, ev S (Datatypes.S f) c (TE (EGet e1 n)) st =
  bind_val (ev S f c (TE e1) st) (fun recv st1 =>
    of_res (s_get S st1 recv n) (fun v => (log_dispatch st1 recv n (bound_closure v), RVal v)) st1).
Proof. reflexivity. Qed.
Lemma ev_TE_invoke : forall S f c e1 n args st, ev S (Datatypes.S f) c (TE (EInvoke e1 n args)) st =
  bind_val (ev S f c (TE e1) st) (fun recv st1 =>
    bind_vals (ev S f c (TA args) st1) (fun vs st2 =>
      of_res (s_invoke S st2 recv n (List.length vs))
             (fun tg => ev S f c (TEnter tg vs) (log_dispatch st2 recv n (target_closure tg))) st2)).
Proof. reflexivity. Qed.
Lemma ev_TE_call : forall S f c e1 args st, ev S (Datatypes.S f) c (TE (ECall e1 args)) st =
  bind_val (ev S f c (TE e1) st) (fun callee st1 =>
    bind_vals (ev S f c (TA args) st1) (fun vs st2 =>
      of_res (call_value (arities st2) callee (List.length vs)) (fun tg => ev S f c (TEnter tg vs) st2) st2)).
Proof. reflexivity. Qed.
Lemma ev_TE_superget : forall S f c n st, ev S (Datatypes.S f) c (TE (ESuperGet n)) st =
  of_res (s_super_get S st c n)
    (fun v => (log st (EvSuper (c_owner c) n (match bound_closure v with Some f => closure_owner st f | None => None end)), RVal v)) st.
Proof. reflexivity. Qed.
Lemma ev_TE_superinvoke : forall S f c n args st, ev S (Datatypes.S f) c (TE (ESuperInvoke n args)) st =
  bind_vals (ev S f c (TA args) st) (fun vs st1 =>
    of_res (s_super_invoke S st1 c n (List.length vs))
      (fun tg => ev S f c (TEnter tg vs)
                    (log st1 (EvSuper (c_owner c) n (match target_closure tg with Some f => closure_owner st1 f | None => None end)))) st1).
Proof. reflexivity. Qed.
Lemma ev_TE_eq : forall S f c a b st, ev S (Datatypes.S f) c (TE (EEq a b)) st =
  bind_val (ev S f c (TE a) st) (fun va st1 =>
    bind_val (ev S f c (TE b) st1) (fun vb st2 =>
      match value_eqb va vb with
      | Some r => (st2, RVal (VBool r))
      | None => (st2, RStuck "equality of bound methods")
      end)).
Proof. reflexivity. Qed.
Lemma ev_TA_cons : forall S f c e r st, ev S (Datatypes.S f) c (TA (e :: r)) st =
  bind_val (ev S f c (TE e) st) (fun v st1 => bind_vals (ev S f c (TA r) st1) (fun vs st2 => (st2, RVals (v :: vs)))).
Proof. reflexivity. Qed.
Lemma ev_TS_cons : forall S f c s r st, ev S (Datatypes.S f) c (TS (s :: r)) st =
  match ev S f c (T1 s) st with
  | (st1, RNext rho) => ev S f (ctx_env c rho (c_local c)) (TS r) st1
  | (st1, RVal _) | (st1, RVals _) => (st1, RStuck "statement outcome")
  | other => other
  end.
Proof. reflexivity. Qed.

Lemma core_log_dispatch : forall st recv n f, core (log_dispatch st recv n f) = core st.
Proof.
  intros. unfold log_dispatch. destruct recv; auto. destruct f; auto.
  destruct (nth_error (heap st) a); auto. destruct (fld_get n (fields i)); auto.
Qed.

Lemma Post_same : forall st o, G st -> Post st (st, o).
Proof. intros. split; simpl; auto. apply ext_refl. Qed.

Lemma ev_T1_print : forall S f c e st, ev S (Datatypes.S f) c (T1 (SPrint e)) st =
  bind_val (ev S f c (TE e) st) (fun v st1 =>
    match display S st1 v with
    | Some l => (emit st1 l, RNext (c_env c))
    | None => (st1, RStuck "display of an address-bearing value")
    end).
Proof. reflexivity. Qed.
Lemma ev_T1_ptype : forall S f c e st, ev S (Datatypes.S f) c (T1 (SPrintType e)) st =
  bind_val (ev S f c (TE e) st) (fun v st1 =>
    match type_name S st1 v with
    | Some l => (emit st1 ("<class " ++ l ++ ">"), RNext (c_env c))
    | None => (st1, RStuck "type of a built-in value")
    end).
Proof. reflexivity. Qed.
Lemma ev_T1_expr : forall S f c e st, ev S (Datatypes.S f) c (T1 (SExpr e)) st =
  bind_val (ev S f c (TE e) st) (fun _ st1 => (st1, RNext (c_env c))).
Proof. reflexivity. Qed.
Lemma ev_T1_var : forall S f c x e st, ev S (Datatypes.S f) c (T1 (SVar x e)) st =
  bind_val (ev S f c (TE e) st) (fun v st1 => let '(st2, rho) := declare c st1 x v in (st2, RNext rho)).
Proof. reflexivity. Qed.
Lemma ev_T1_assign : forall S f c x e st, ev S (Datatypes.S f) c (T1 (SAssign x e)) st =
  bind_val (ev S f c (TE e) st) (fun v st1 => of_res (assign (c_env c) st1 x v) (fun st2 => (st2, RNext (c_env c))) st1).
Proof. reflexivity. Qed.
Lemma ev_T1_setfield : forall S f c o n e st, ev S (Datatypes.S f) c (T1 (SSetField o n e)) st =
  bind_val (ev S f c (TE o) st) (fun recv st1 =>
    bind_val (ev S f c (TE e) st1) (fun v st2 =>
      of_res (set_property (world_of st2) recv n v) (fun w => (set_heap st2 (w_heap w), RNext (c_env c))) st2)).
Proof. reflexivity. Qed.
Lemma ev_T1_return : forall S f c e st, ev S (Datatypes.S f) c (T1 (SReturn (Some e))) st =
  bind_val (ev S f c (TE e) st) (fun v st1 => (st1, RRet v)).
Proof. reflexivity. Qed.
Lemma ev_T1_class : forall S f c cd st, ev S (Datatypes.S f) c (T1 (SClass cd)) st = exec_class S c st cd.
Proof. reflexivity. Qed.
Lemma ev_T1_block : forall S f c body st, ev S (Datatypes.S f) c (T1 (SBlock body)) st =
  match ev S f (ctx_env c (c_env c) true) (TS body) st with
  | (st1, RNext _) => (st1, RNext (c_env c))
  | other => other
  end.
Proof. reflexivity. Qed.
Lemma ev_T1_try : forall S f c body st, ev S (Datatypes.S f) c (T1 (STry body)) st =
  match ev S f (ctx_env c (c_env c) true) (TS body) st with
  | (st1, RNext _) => (st1, RNext (c_env c))
  | (st1, RErr k msg) => (emit (emit st1 ("<class " ++ ekind_name k ++ ">")) msg, RNext (c_env c))
  | other => other
  end.
Proof. reflexivity. Qed.

Lemma ev_T1_if : forall S f c cond th el st, ev S (Datatypes.S f) c (T1 (SIf cond th el)) st =
  bind_val (ev S f c (TE cond) st) (fun v st1 =>
    match ev S f (ctx_env c (c_env c) true) (TS (if truthy v then th else el)) st1 with
    | (st2, RNext _) => (st2, RNext (c_env c))
    | other => other
    end).
Proof. reflexivity. Qed.
Lemma ev_T1_for : forall S f c x e body st, ev S (Datatypes.S f) c (T1 (SFor x e body)) st =
  bind_val (ev S f c (TE e) st) (fun v st1 =>
    of_res (s_invoke S st1 v "iter" 0) (fun tg =>
      bind_val (ev S f c (TEnter tg []) (log_dispatch st1 v "iter" (target_closure tg))) (fun it st2 =>
        let '(st3, a) := alloc_cell st2 VNil in
        match ev S f (ctx_env c ((x, a) :: c_env c) true) (TLoop it a body) st3 with
        | (st4, RNext _) => (st4, RNext (c_env c))
        | other => other
        end)) st1).
Proof. reflexivity. Qed.
Lemma ev_TLoop : forall S f c it a body st, ev S (Datatypes.S f) c (TLoop it a body) st =
  of_res (s_iter_next S st it) (fun tg =>
    bind_val (ev S f c (TEnter tg []) st) (fun r st1 =>
      if is_stop_iter S st1 r then (st1, RNext (c_env c))
      else
        match ev S f (ctx_env c (c_env c) true) (TS body) (set_cells st1 (list_set a r (cells st1))) with
        | (st3, RNext _) => ev S f c (TLoop it a body) st3
        | other => other
        end)) st.
Proof. reflexivity. Qed.

Lemma is_stop_iter_eq : forall st r, G st -> is_stop_iter sem_mech st r = is_stop_iter sem_spec st r.
Proof.
  intros st r [HI _]. unfold is_stop_iter. destruct r; auto. destruct (nth_error (heap st) a); auto.
  apply derives_all_eq_spec; auto.
Qed.

Lemma Post_core_base : forall st st' r, core st' = core st -> Post st' r -> Post st r.
Proof. intros st st' r Hc P. eapply Post_trans; [apply ext_core; exact Hc|exact P]. Qed.

Lemma core_bind_params : forall ps vs st rho, core (fst (bind_params st rho ps vs)) = core st.
Proof.
  induction ps as [|p pr IH]; intros vs st rho; simpl; auto.
  destruct vs as [|v vr]; simpl; auto. rewrite IH. reflexivity.
Qed.

Lemma ev_enter_native : forall S f c slot0 vs st, ev S (Datatypes.S f) c (TEnter (TNative NDerives slot0) vs) st =
  match vs with
  | [VClass q] => (st, RVal (VBool (s_derives S st (class_of (heap st) slot0) q)))
  | [v] => match display S st v with
           | Some d => (st, RErr ValueError ("Expected a class name but found '" ++ d ++ "'."))
           | None => (st, RStuck "display of an address-bearing value")
           end
  | _ => (st, RErr TypeError ("Expected 1 parameter but found " ++ show_nat (List.length vs) ++ "."))
  end.
Proof. reflexivity. Qed.

(* T eval_mech_eq_spec: the induction over the evaluator *)
Lemma ev_sim : forall fuel c t st, G st -> C st c ->
  ev sem_mech fuel c t st = ev sem_spec fuel c t st /\ Post st (ev sem_spec fuel c t st).
Proof.
  induction fuel as [|f IH]; intros c t st HG HC.
  - simpl. split; auto. apply Post_same; auto.
  - assert (IHv : forall e st1, G st1 -> ext st st1 ->
              ev sem_mech f c (TE e) st1 = ev sem_spec f c (TE e) st1 /\ Post st1 (ev sem_spec f c (TE e) st1)).
    { intros e st1 H1 H2. apply IH; auto. eapply C_ext; eauto. }
    assert (IHa : forall es st1, G st1 -> ext st st1 ->
              ev sem_mech f c (TA es) st1 = ev sem_spec f c (TA es) st1 /\ Post st1 (ev sem_spec f c (TA es) st1)).
    { intros es st1 H1 H2. apply IH; auto. eapply C_ext; eauto. }
    assert (IHe : forall tg vs st1, G st1 -> ext st st1 ->
              ev sem_mech f c (TEnter tg vs) st1 = ev sem_spec f c (TEnter tg vs) st1 /\
              Post st1 (ev sem_spec f c (TEnter tg vs) st1)).
    { intros tg vs st1 H1 H2. apply IH; simpl; auto. eapply C_ext; eauto. }
    destruct t as [e|es|s|ss|tg vs|it a body].
    + (* expressions *)
      destruct e as [| b | z | s | x | | | e1 n | e1 n args | e1 args | n | n args | a b].
      * split; [reflexivity|apply Post_same; auto].
      * split; [reflexivity|apply Post_same; auto].
      * split; [reflexivity|apply Post_same; auto].
      * split; [reflexivity|apply Post_same; auto].
      * split; [reflexivity|]. simpl. destruct (lookup_var c st x); apply Post_same; auto.
      * split; [reflexivity|]. simpl. destruct (assoc "self" (c_env c)); [destruct (nth_error (cells st) n)|]; apply Post_same; auto.
      * split; [reflexivity|]. simpl. destruct (assoc "Self" (c_env c)); [destruct (nth_error (cells st) n); [destruct (get_class_op (heap st) v)|]|]; apply Post_same; auto.
      * (* EGet *)
        rewrite !ev_TE_get. destruct (IHv e1 st HG (ext_refl st)) as [E P].
        apply bind_val_sim; auto. intros recv st1 G1 X1.
        apply of_res_sim; auto. { apply get_eq_spec. apply G1. }
        intros v _. split; [reflexivity|]. apply Post_core; auto. apply core_log_dispatch.
      * (* EInvoke *)
        rewrite !ev_TE_invoke. destruct (IHv e1 st HG (ext_refl st)) as [E P].
        apply bind_val_sim; auto. intros recv st1 G1 X1.
        destruct (IHa args st1 G1 X1) as [E2 P2].
        apply bind_vals_sim; auto. intros vs st2 G2 X2.
        apply of_res_sim; auto. { apply invoke_eq_spec. apply G2. }
        intros tg _.
        assert (G3 : G (log_dispatch st2 recv n (target_closure tg))) by (eapply G_core; [apply core_log_dispatch|auto]).
        assert (X3 : ext st (log_dispatch st2 recv n (target_closure tg))).
        { eapply ext_trans; [exact X1|]. eapply ext_trans; [exact X2|]. apply ext_core. apply core_log_dispatch. }
        destruct (IHe tg vs _ G3 X3) as [E3 P3]. split; auto.
        eapply Post_trans; [|exact P3]. apply ext_core. apply core_log_dispatch.
      * (* ECall *)
        rewrite !ev_TE_call. destruct (IHv e1 st HG (ext_refl st)) as [E P].
        apply bind_val_sim; auto. intros callee st1 G1 X1.
        destruct (IHa args st1 G1 X1) as [E2 P2].
        apply bind_vals_sim; auto. intros vs st2 G2 X2.
        apply of_res_sim; auto. intros tg _. apply IHe; auto. eapply ext_trans; eauto.
      * (* ESuperGet *)
        rewrite !ev_TE_superget.
        apply of_res_sim; auto. { apply (proj1 (super_eq_spec st c n 0 (proj1 HG) (ctx_ok_of_C st c HC))). }
        intros v _. split; [reflexivity|]. apply Post_core; auto.
      * (* ESuperInvoke *)
        rewrite !ev_TE_superinvoke.
        destruct (IHa args st HG (ext_refl st)) as [E P].
        apply bind_vals_sim; auto. intros vs st1 G1 X1.
        apply of_res_sim; auto.
        { apply (proj2 (super_eq_spec st1 c n (List.length vs) (proj1 G1) (ctx_ok_of_C st1 c (C_ext _ _ _ HC X1)))). }
        intros tg _.
        match goal with |- ev _ _ _ _ ?s = _ /\ _ => assert (G3 : G s) by (eapply G_core; [reflexivity|auto]);
                                                      assert (X3 : ext st s) by (eapply ext_trans; [exact X1|apply ext_core; reflexivity]) end.
        destruct (IHe tg vs _ G3 X3) as [E3 P3]. split; auto.
      * (* EEq *)
        rewrite !ev_TE_eq. destruct (IHv a st HG (ext_refl st)) as [E P].
        apply bind_val_sim; auto. intros va st1 G1 X1.
        destruct (IHv b st1 G1 X1) as [E2 P2].
        apply bind_val_sim; auto. intros vb st2 G2 X2.
        split; [reflexivity|]. destruct (value_eqb va vb); apply Post_same; auto.
    + (* argument lists *)
      destruct es as [|e r].
      * split; [reflexivity|apply Post_same; auto].
      * rewrite !ev_TA_cons. destruct (IHv e st HG (ext_refl st)) as [E P].
        apply bind_val_sim; auto. intros v st1 G1 X1.
        destruct (IHa r st1 G1 X1) as [E2 P2].
        apply bind_vals_sim; auto. intros vs st2 G2 X2. split; [reflexivity|apply Post_same; auto].
    + (* one statement *)
      destruct s as [e | e | e | x e | x e | o n e | [e|] | cd | name ps body label | body | body | cond th el | x e body].
      * (* SPrint *)
        rewrite !ev_T1_print. destruct (IHv e st HG (ext_refl st)) as [E P].
        apply bind_val_sim; auto. intros v st1 G1 X1. rewrite (display_eq st1 v G1).
        split; [reflexivity|]. destruct (display sem_spec st1 v); [apply Post_core; auto|apply Post_same; auto].
      * (* SPrintType *)
        rewrite !ev_T1_ptype. destruct (IHv e st HG (ext_refl st)) as [E P].
        apply bind_val_sim; auto. intros v st1 G1 X1. rewrite (type_name_eq st1 v G1).
        split; [reflexivity|]. destruct (type_name sem_spec st1 v); [apply Post_core; auto|apply Post_same; auto].
      * (* SExpr *)
        rewrite !ev_T1_expr. destruct (IHv e st HG (ext_refl st)) as [E P].
        apply bind_val_sim; auto. intros v st1 G1 X1. split; [reflexivity|apply Post_same; auto].
      * (* SVar *)
        rewrite !ev_T1_var. destruct (IHv e st HG (ext_refl st)) as [E P].
        apply bind_val_sim; auto. intros v st1 G1 X1. split; [reflexivity|].
        destruct (declare c st1 x v) as [st2 rho] eqn:Ed. destruct (declare_hm _ _ _ _ _ _ Ed) as [A1 [A2 A3]].
        apply Post_core; auto. unfold core. rewrite A1, A2, A3. reflexivity.
      * (* SAssign *)
        rewrite !ev_T1_assign. destruct (IHv e st HG (ext_refl st)) as [E P].
        apply bind_val_sim; auto. intros v st1 G1 X1. split; [reflexivity|].
        destruct (assign (c_env c) st1 x v) as [st2|k m|w] eqn:Ea; simpl; try (apply Post_same; auto).
        destruct (assign_hm _ _ _ _ _ Ea) as [A1 [A2 A3]].
        apply Post_core; auto. unfold core. rewrite A1, A2, A3. reflexivity.
      * (* SSetField *)
        rewrite !ev_T1_setfield. destruct (IHv o st HG (ext_refl st)) as [E P].
        apply bind_val_sim; auto. intros recv st1 G1 X1.
        destruct (IHv e st1 G1 X1) as [E2 P2].
        apply bind_val_sim; auto. intros v st2 G2 X2. split; [reflexivity|].
        destruct (set_property (world_of st2) recv n v); simpl; [apply Post_core; auto|apply Post_same; auto|apply Post_same; auto].
      * (* SReturn (Some e) *)
        rewrite !ev_T1_return. destruct (IHv e st HG (ext_refl st)) as [E P].
        apply bind_val_sim; auto. intros v st1 G1 X1. split; [reflexivity|apply Post_same; auto].
      * (* SReturn None *)
        split; [reflexivity|apply Post_same; auto].
      * (* SClass *)
        rewrite !ev_T1_class. split; [apply exec_class_eq; auto|].
        apply exec_class_post; auto.
      * (* SFun *)
        split; [reflexivity|].
        assert (Hcl : forall rho, cl_ok (hist st) (mkCl name KFun ps body rho (c_super c) (c_owner c) (c_self c) label)).
        { intros rho. exact HC. }
        simpl. destruct (c_local c); simpl.
        -- pose (st1 := set_cells st (cells st ++ [VNil])%list).
           assert (G1 : G st1) by (eapply G_core; [|exact HG]; reflexivity).
           pose proof (G_new_closure st1 _ G1 (Hcl ((name, List.length (cells st)) :: c_env c))) as G2.
           split; simpl; [|exists []; rewrite app_nil_r; reflexivity]. eapply G_core; [|exact G2]. reflexivity.
        -- pose proof (G_new_closure st _ HG (Hcl (c_env c))) as G2.
           split; simpl; [|exists []; rewrite app_nil_r; reflexivity]. eapply G_core; [|exact G2]. reflexivity.
      * (* SBlock *)
        rewrite !ev_T1_block.
        destruct (IH (ctx_env c (c_env c) true) (TS body) st HG (C_ctx_env _ _ _ _ HC)) as [E [G1 X1]]. rewrite E.
        destruct (ev sem_spec f (ctx_env c (c_env c) true) (TS body) st) as [st1 o1]. simpl in G1, X1.
        split; [reflexivity|]. destruct o1; split; auto.
      * (* STry *)
        rewrite !ev_T1_try.
        destruct (IH (ctx_env c (c_env c) true) (TS body) st HG (C_ctx_env _ _ _ _ HC)) as [E [G1 X1]]. rewrite E.
        destruct (ev sem_spec f (ctx_env c (c_env c) true) (TS body) st) as [st1 o1]. simpl in G1, X1.
        split; [reflexivity|]. destruct o1; split; simpl; auto.
      * (* SIf *)
        rewrite !ev_T1_if. destruct (IHv cond st HG (ext_refl st)) as [E P].
        apply bind_val_sim; auto. intros v st1 G1 X1.
        destruct (IH (ctx_env c (c_env c) true) (TS (if truthy v then th else el)) st1 G1
                     (C_ctx_env _ _ _ _ (C_ext _ _ _ HC X1))) as [E2 [G2 X2]]. rewrite E2.
        destruct (ev sem_spec f (ctx_env c (c_env c) true) (TS (if truthy v then th else el)) st1) as [st2 o2].
        simpl in G2, X2. split; [reflexivity|]. destruct o2; split; auto.
      * (* SFor *)
        rewrite !ev_T1_for. destruct (IHv e st HG (ext_refl st)) as [E P].
        apply bind_val_sim; auto. intros v st1 G1 X1.
        apply of_res_sim; auto. { apply invoke_eq_spec. apply G1. }
        intros tg _.
        assert (K1 : core (log_dispatch st1 v "iter" (target_closure tg)) = core st1) by apply core_log_dispatch.
        assert (G1' : G (log_dispatch st1 v "iter" (target_closure tg))) by (eapply G_core; eauto).
        assert (X1' : ext st (log_dispatch st1 v "iter" (target_closure tg))).
        { eapply ext_trans; [exact X1|apply ext_core; exact K1]. }
        destruct (IHe tg [] _ G1' X1') as [E2 P2].
        assert (Hgoal : forall kM kS,
           (forall it st2, G st2 -> ext (log_dispatch st1 v "iter" (target_closure tg)) st2 ->
              kM it st2 = kS it st2 /\ Post st2 (kS it st2)) ->
           bind_val (ev sem_mech f c (TEnter tg []) (log_dispatch st1 v "iter" (target_closure tg))) kM =
           bind_val (ev sem_spec f c (TEnter tg []) (log_dispatch st1 v "iter" (target_closure tg))) kS /\
           Post st1 (bind_val (ev sem_spec f c (TEnter tg []) (log_dispatch st1 v "iter" (target_closure tg))) kS)).
        { intros kM kS Hk. destruct (bind_val_sim _ _ _ kM kS E2 P2 Hk) as [A B]. split; auto.
          eapply Post_core_base; eauto. }
        apply Hgoal. intros it st2 G2 X2.
        assert (G3 : G (set_cells st2 (cells st2 ++ [VNil])%list)) by (eapply G_core; [|exact G2]; reflexivity).
        assert (HC3 : C (set_cells st2 (cells st2 ++ [VNil])%list) (ctx_env c ((x, List.length (cells st2)) :: c_env c) true)).
        { apply C_ctx_env. eapply C_ext; [exact HC|]. eapply ext_trans; [exact X1'|exact X2]. }
        unfold alloc_cell. cbv beta iota zeta.
        destruct (IH _ (TLoop it (List.length (cells st2)) body) _ G3 HC3) as [E3 [G4 X4]]. rewrite E3.
        destruct (ev sem_spec f (ctx_env c ((x, List.length (cells st2)) :: c_env c) true)
                     (TLoop it (List.length (cells st2)) body) (set_cells st2 (cells st2 ++ [VNil])%list)) as [st4 o4].
        simpl in G4, X4. split; [reflexivity|]. destruct o4; split; auto.
    + (* statement lists *)
      destruct ss as [|s r].
      * split; [reflexivity|apply Post_same; auto].
      * rewrite !ev_TS_cons.
        destruct (IH c (T1 s) st HG HC) as [E [G1 X1]]. rewrite E.
        destruct (ev sem_spec f c (T1 s) st) as [st1 o1]. simpl in G1, X1.
        destruct o1; try (split; [reflexivity|split; auto]).
        assert (HC1 : C st1 (ctx_env c rho (c_local c))) by (apply C_ctx_env; eapply C_ext; eauto).
        destruct (IH (ctx_env c rho (c_local c)) (TS r) st1 G1 HC1) as [E2 P2]. split; auto.
        eapply Post_trans; eauto.
    + (* entering a callee *)
      destruct tg as [fid slot0|[] slot0].
      * rewrite !ev_enter_closure.
        destruct (nth_error (closures st) fid) as [cl|] eqn:Ecl; [|split; [reflexivity|apply Post_same; auto]].
        destruct (Nat.eqb (c_depth c) frames_max); [split; [reflexivity|apply Post_same; auto]|].
        destruct (match cl_kind cl with
                  | KInit => let '(w, v) := construct (world_of st) slot0 in (set_heap st (w_heap w), v)
                  | _ => (st, slot0)
                  end) as [st1 slot0'] eqn:E1.
        assert (K1 : core st1 = core st).
        { destruct (cl_kind cl); try (inversion E1; reflexivity).
          destruct (construct (world_of st) slot0) as [w v]. inversion E1. reflexivity. }
        destruct (match slot0_name (cl_kind cl) with
                  | Some nm => let '(s', a) := alloc_cell st1 slot0' in (s', (nm, a) :: cl_env cl)
                  | None => (st1, cl_env cl)
                  end) as [st2 rho0] eqn:E2.
        assert (K2 : core st2 = core st).
        { destruct (slot0_name (cl_kind cl)); simpl in E2; inversion E2; subst; simpl; auto. }
        destruct (bind_params st2 rho0 (cl_params cl) vs) as [st3 rho] eqn:E3.
        assert (K3 : core st3 = core st).
        { pose proof (core_bind_params (cl_params cl) vs st2 rho0) as K. rewrite E3 in K. simpl in K. rewrite K. exact K2. }
        assert (G3 : G st3) by (eapply G_core; eauto).
        assert (X3 : ext st st3) by (apply ext_core; auto).
        pose proof (proj2 HG fid cl Ecl) as Hsup.
        cbv beta iota zeta.
        set (c' := mkCtx rho true (cl_super cl) (cl_owner cl) slot0' (Datatypes.S (c_depth c))
                         (match cl_kind cl with KFun => cl_self cl | _ => Some slot0' end)
                         (match cl_kind cl with KFun => true | _ => false end)).
        assert (HC' : C st3 c').
        { unfold C. simpl. assert (Hh : hist st3 = hist st) by (inversion K3; auto). rewrite Hh. exact Hsup. }
        destruct (IH c' (TS (cl_body cl)) st3 G3 HC') as [E [G4 X4]]. rewrite E.
        destruct (ev sem_spec f c' (TS (cl_body cl)) st3) as [st4 o4]. simpl in G4, X4.
        assert (X : ext st st4) by (eapply ext_trans; eauto).
        split; [reflexivity|]. destruct o4; split; auto.
      * rewrite !ev_enter_native.
        destruct vs as [|v [|v2 vr]].
        -- split; [reflexivity|apply Post_same; auto].
        -- destruct v; try (rewrite (display_eq st _ HG); split; [reflexivity|];
                            match goal with |- Post _ (match ?d with _ => _ end) => destruct d end; apply Post_same; auto).
           rewrite (derives_all_eq_spec st _ c0 (proj1 HG)). split; [reflexivity|apply Post_same; auto].
        -- destruct v; (split; [reflexivity|apply Post_same; auto]).
    + (* the rounds of a for loop *)
      rewrite !ev_TLoop. apply of_res_sim; auto. { apply iter_next_eq_spec. apply HG. }
      intros tg _. destruct (IHe tg [] st HG (ext_refl st)) as [E P].
      apply bind_val_sim; auto. intros r st1 G1 X1.
      rewrite (is_stop_iter_eq st1 r G1).
      destruct (is_stop_iter sem_spec st1 r); [split; [reflexivity|apply Post_same; auto]|].
      assert (G2 : G (set_cells st1 (list_set a r (cells st1)))) by (eapply G_core; [|exact G1]; reflexivity).
      assert (HC2 : C (set_cells st1 (list_set a r (cells st1))) (ctx_env c (c_env c) true)).
      { apply C_ctx_env. eapply C_ext; [exact HC|]. eapply ext_trans; [exact X1|]. apply ext_core. reflexivity. }
      destruct (IH _ (TS body) _ G2 HC2) as [E2 [G3 X3]]. rewrite E2.
      destruct (ev sem_spec f (ctx_env c (c_env c) true) (TS body) (set_cells st1 (list_set a r (cells st1)))) as [st3 o3].
      simpl in G3, X3.
      destruct o3; try (split; [reflexivity|split; [exact G3|exact X3]]).
      assert (HC3 : C st3 c).
      { eapply C_ext; [exact HC|]. eapply ext_trans; [exact X1|exact X3]. }
      destruct (IH c (TLoop it a body) st3 G3 HC3) as [E3 P3]. split; auto.
      eapply Post_trans; [exact X3|exact P3].
Qed.


Lemma G_st0 : G st0.
Proof. split; [exact Inv_st0|]. intros f cl H. destruct f; discriminate. Qed.

(* T eval_mech_eq_spec: for EVERY program of the mini-language the Mechanism - copy-down tables, `super` as a captured
   value - and the Spec - lookup along the declared ancestry from the instance's class / from the declared superclass of
   the textually enclosing class - compute the same final state (globals, cells, instances, printed lines, trace, class
   stores) and the same outcome, whatever the fuel.  (Before compiler commit 0fbde2d the statement needed the side
   condition "no super access in a function nested in a method": see eval_mech_eq_spec_refuted_old.) *)
Theorem eval_mech_eq_spec : forall p, eval_mech p = eval_spec p.
Proof.
  intros p. unfold eval_mech, eval_spec, run. apply ev_sim.
  - exact G_st0.
  - reflexivity.
Qed.

Corollary eval_mech_eq_spec_fuel : forall fuel c p, c_super c = None -> c_owner c = None ->
  ev sem_mech fuel c (TS p) st0 = ev sem_spec fuel c (TS p) st0.
Proof.
  intros fuel c p H1 H2. apply ev_sim.
  - exact G_st0.
  - unfold C, sup_ok. rewrite H2. exact H1.
Qed.

(* ---------- examples: the hypotheses are satisfiable, the statements are not vacuous ---------- *)
Definition ex_hier : prog := [
  SClass (CDecl "A" None None [
     MDecl KInit "new" [] [SPrint (EStr "A.new"); SSetField ESelf "fa" (ENum 1)] 2;
     MDecl KMethod "m" [] [SPrint (EStr "A.m"); SReturn (Some ESelf)] 3;
     MDecl KStatic "s" [] [SPrint ECapSelf] 4] 1);
  SClass (CDecl "B" (Some "A") None [
     MDecl KInit "new" [] [SPrint (EStr "B.new")] 6;
     MDecl KMethod "m" [] [SPrint (EStr "B.m"); SReturn (Some (ESuperInvoke "m" []))] 7] 5);
  SClass (CDecl "C" (Some "B") (Some "new") [] 8);
  SClass (CDecl "D" (Some "A") None [
     MDecl KInit "new" [] [SPrint (EStr "D.new"); SExpr (ESuperInvoke "new" [])] 10] 9)].

(* C's default initialiser runs neither B's nor A's; B's explicit one runs A's only if it says so (D does) *)
Example no_implicit_super_init_ex :
  show_outcome (eval_mech (ex_hier ++ [SVar "c" (EInvoke (EVar "C") "new" []); STry [SPrint (EGet (EVar "c") "fa")];
                                       SVar "b" (EInvoke (EVar "B") "new" []);
                                       SVar "d" (EInvoke (EVar "D") "new" []); SPrint (EGet (EVar "d") "fa")])%list)
  = "<class AttributeError>~Undefined property 'fa'.~B.new~D.new~A.new~1#ok".
Proof. vm_compute. reflexivity. Qed.

(* three levels with a middle override: the instance of C dispatches to B.m, whose `super.m` is A.m also after the
   global name A has been rebound; Self is the invoking class; the method value stays bound *)
Example dispatch_ex :
  show_outcome (eval_mech (ex_hier ++ [SVar "c" (EInvoke (EVar "C") "new" []);
                                       SVar "f" (EGet (EVar "c") "m");
                                       SAssign "A" (EVar "D");
                                       SPrint (EEq (ECall (EVar "f") []) (EVar "c"));
                                       SExpr (EInvoke (EVar "c") "s" []);
                                       SExpr (EInvoke (EVar "B") "s" [])])%list)
  = "B.m~A.m~true~<class C>#err:AttributeError:Undefined property 's'.".
Proof. vm_compute. reflexivity. Qed.

Definition ex_known : prog := (ex_hier ++ [
  SClass (CDecl "E" (Some "A") (Some "new") [
     MDecl KMethod "m" [] [SFun "inner" [] [SReturn (Some (ESuperInvoke "m" []))] 0;
                           SReturn (Some (ECall (EVar "inner") []))] 12] 11);
  SVar "e" (EInvoke (EVar "E") "new" []);
  SPrint (EEq (EInvoke (EVar "e") "m" []) (EVar "e"))])%list.

(* the model VARIANT of the compiler before commit 0fbde2d (receiver of a super access = slot 0 of the running frame,
   i.e. the nested closure inside a nested function) does not refine the Spec; the current one does, also here *)
Theorem eval_mech_eq_spec_refuted_old :
  exists p, nested_super p = true /\ show_outcome (eval_mech_old p) <> show_outcome (eval_spec p) /\
            show_outcome (eval_mech p) = show_outcome (eval_spec p).
Proof. exists ex_known. split; [vm_compute; reflexivity|]. split; [vm_compute; discriminate|vm_compute; reflexivity]. Qed.

(* a class factory in a static method: the inner class derives a global class; its initialiser and a method use super *)
Definition ex_static_factory : prog := [
  SClass (CDecl "P" None None [
     MDecl KInit "new" ["a"] [SSetField ESelf "f0" (EVar "a")] 1;
     MDecl KMethod "m" [] [SPrint (EStr "P.m"); SPrint (EGet ESelf "f0"); SReturn (Some ESelf)] 2] 3);
  SClass (CDecl "F" None (Some "new") [
     MDecl KStatic "build" ["t"] [
       SClass (CDecl "I" (Some "P") None [
          MDecl KInit "new" ["a"] [SPrint (EVar "t"); SExpr (ESuperInvoke "new" [EVar "a"])] 4;
          MDecl KMethod "m" [] [SPrint (EStr "I.m"); SReturn (Some (ESuperInvoke "m" []))] 5] 6);
       SReturn (Some (EVar "I"))] 7] 8);
  SVar "K" (EInvoke (EVar "F") "build" [EStr "cap"]);
  SVar "x" (EInvoke (EVar "K") "new" [ENum 5]);
  SPrint (EEq (EInvoke (EVar "x") "m" []) (EVar "x"))].

(* the model variant "Self if any enclosing compiler is a static method" passes the OUTER method's Self (class F) as
   the receiver of the inner class's super accesses and does not refine the Spec; the current M does *)
Theorem eval_mech_eq_spec_refuted_any_static :
  show_outcome (eval_spec ex_static_factory) = "cap~I.m~P.m~5~true#ok" /\
  show_outcome (eval_mech_any_static ex_static_factory) <> show_outcome (eval_spec ex_static_factory) /\
  show_outcome (eval_mech ex_static_factory) = show_outcome (eval_spec ex_static_factory).
Proof. split; [vm_compute; reflexivity|]. split; [vm_compute; discriminate|vm_compute; reflexivity]. Qed.

(* an iterator whose instance has its own FIELD `next` (a method taken from another instance): every access path -
   `a.next()`, `var g = a.next; g()`, and the implicit `next` of the for loop (IterNext) - sees the field *)
Definition ex_iter_field : prog := [
  SClass (CDecl "Cnt" (Some "Iter") None [
     MDecl KInit "new" ["t"] [SSetField ESelf "k" (ENum 0); SSetField ESelf "t" (EVar "t")] 1;
     MDecl KMethod "next" [] [
        SIf (EEq (EGet ESelf "k") (ENum 0)) [SSetField ESelf "k" (ENum 1); SReturn (Some (EGet ESelf "t"))] [];
        SReturn (Some (EInvoke (EVar "StopIter") "new" []))] 2] 3);
  SVar "a" (EInvoke (EVar "Cnt") "new" [EStr "own"]);
  SSetField (EVar "a") "next" (EGet (EInvoke (EVar "Cnt") "new" [EStr "field"]) "next");
  SFor "x" (EVar "a") [SPrint (EVar "x")];
  SVar "b" (EInvoke (EVar "Cnt") "new" [EStr "own"]);
  SFor "x" (EVar "b") [SPrint (EVar "x")]].

(* the model variant whose IterNext goes straight to the class table (invoke_from_class) does not refine the Spec *)
Theorem eval_mech_eq_spec_refuted_iter_from_class :
  show_outcome (eval_spec ex_iter_field) = "field~own#ok" /\
  show_outcome (eval_mech_iter_from_class ex_iter_field) = "own~own#ok" /\
  show_outcome (eval_mech ex_iter_field) = show_outcome (eval_spec ex_iter_field).
Proof. split; [vm_compute; reflexivity|]. split; vm_compute; reflexivity. Qed.

(* the prelude defines the core classes in the order the evaluator relies on *)
Example prelude_classes :
  map (fun n => assoc n (globals (fst (eval_mech [])))) ["Error"; "StopIter"; "Iter"; "MapIter"]
  = [Some (VClass 1); Some (VClass stop_iter_cid); Some (VClass 3); Some (VClass 4)].
Proof. vm_compute. reflexivity. Qed.

Definition sample_programs : list prog := [
  ex_hier;
  (ex_hier ++ [SVar "c" (EInvoke (EVar "C") "new" []); SExpr (EInvoke (EVar "c") "m" []);
               SVar "f" (EGet (EVar "c") "m"); SExpr (ECall (EVar "f") []);
               STry [SExpr (EInvoke (EVar "c") "m" [ENum 1])]; STry [SExpr (EInvoke (EVar "c") "zz" [])];
               STry [SExpr (ECall (EVar "C") [])]; STry [SSetField (EVar "C") "q" (ENum 1)];
               STry [SClass (CDecl "Z" (Some "c") None [] 20)];
               SPrint (EInvoke (EVar "c") "derives" [EVar "A"]); SPrint (EInvoke (EVar "c") "derives" [EVar "D"]);
               SPrint (EInvoke (EVar "C") "derives" [EVar "Object"]); SPrintType (EVar "c"); SPrintType (EVar "C");
               SSetField (EVar "c") "m" (ENum 3); STry [SExpr (EInvoke (EVar "c") "m" [])];
               SExpr (EInvoke (EVar "c") "s" []); SAssign "A" ENil;
               SVar "d" (EInvoke (EVar "D") "new" [])])%list;
  [SFun "mk" ["t"] [SClass (CDecl "L" None (Some "new") [MDecl KMethod "m" [] [SPrint (EVar "t")] 2] 1);
                    SFun "get" [] [SReturn (Some (EVar "L"))] 0; SReturn (Some (EVar "get"))] 0;
   SVar "g" (ECall (EVar "mk") [EStr "cap"]); SVar "K" (ECall (EVar "g") []);
   SExpr (EInvoke (EInvoke (EVar "K") "new" []) "m" [])]].

Example sample_programs_agree :
  forallb (fun p => String.eqb (show_outcome (eval_mech p)) (show_outcome (eval_spec p))
                    && String.eqb (show_outcome (eval_mech (meta_prog p))) (show_outcome (eval_mech p))) sample_programs = true.
Proof. vm_compute. reflexivity. Qed.


(* Object is the implicit root of every ancestry: DeclareClass pre-fills the new table with Object's entries
   (ObjClass::new(.., Some(object_class), {})) and Inherit OVERWRITES them with the superclass's (insert, not
   or_insert).  A user class that overrides a method Object defines (`derives`) therefore wins for itself and for all
   its descendants, although every table already contained Object's native entry when Inherit ran. *)
Definition ex_object_override : list cdef :=
  [object_def; mkDef "Shape" None [("derives", false, MClosure 0)]; mkDef "Polygon" (Some 1) [("via_self", false, MClosure 1)];
   mkDef "Square" (Some 2) []; mkDef "Circle" None []].

Example object_method_override_wins :
  wf_hist ex_object_override /\
  match build ex_object_override with
  | Ok cs => map (fun cm => tbl_get "derives" (methods (fst cm))) (classes cs)
  | _ => []
  end = [Some (MNative NDerives); Some (MClosure 0); Some (MClosure 0); Some (MClosure 0); Some (MNative NDerives)] /\
  map (fun c => lookupS ex_object_override c "derives") [0; 1; 2; 3; 4]
  = [Some (MNative NDerives); Some (MClosure 0); Some (MClosure 0); Some (MClosure 0); Some (MNative NDerives)].
Proof.
  split; [|split; vm_compute; reflexivity].
  split; [reflexivity|]. intros i d s Hi Hs.
  destruct i as [|[|[|[|[|i]]]]]; simpl in Hi; try (destruct i; discriminate);
    injection Hi as <-; simpl in Hs; try discriminate; injection Hs as <-; lia.
Qed.

(* the general statement: whatever Object defines, the nearest user definition in the declared ancestry is what the
   copy-down table holds (a consequence of copydown_eq_chainwalk; Object is the LAST element of every ancestry) *)
Corollary user_override_of_object_method_wins : forall h cs i c m n a st mr,
  wf_hist h -> build h = Ok cs -> nth_error (classes cs) i = Some (c, m) ->
  In a (ancestry h i) -> a <> 0 -> own h a n = Some (st, mr) ->
  (forall b, In b (ancestry h i) -> b <> a -> b <> 0 -> own h b n = None) ->
  tbl_get n (methods c) = Some mr.
Proof.
  intros h cs i c m n a st mr Hwf Hb Hi Ha Ha0 Hown Hothers.
  destruct (table_lookup_is_nearest_definition h cs i c m n Hwf Hb Hi) as [E _]. rewrite E. clear E.
  assert (Hle : forall x, In x (ancestry h i) -> x <= i) by (apply ancestry_le; auto).
  (* 0 can only be the last element: every other element's lookup is None or the hit *)
  assert (Hsorted : forall l, (forall x, In x l -> x = a \/ x = 0 \/ own h x n = None) -> In a l ->
            (forall l1 l2, l = (l1 ++ 0 :: l2)%list -> ~ In a l2) ->
            option_map snd (first_some (fun x => own h x n) l) = Some mr).
  { induction l as [|x r IH]; intros Hall Hin Hz; [contradiction|]. simpl.
    destruct (Nat.eq_dec x a) as [->|Hne].
    - rewrite Hown. reflexivity.
    - destruct Hin as [->|Hin]; [contradiction|].
      destruct (Hall x (or_introl eq_refl)) as [->|[->|Hn]]; [contradiction| |].
      + exfalso. apply (Hz [] r eq_refl). exact Hin.
      + rewrite Hn. apply IH; auto.
        * intros y Hy. apply Hall. right; auto.
        * intros l1 l2 E. apply (Hz (x :: l1) l2). simpl. rewrite E. reflexivity. }
  apply Hsorted; auto.
  - intros x Hx. destruct (Nat.eq_dec x a); auto. destruct (Nat.eq_dec x 0); auto.
  - (* after Object nothing follows in an ancestry *)
    intros l1 l2 E Hin.
    assert (Hdec : forall c0 l1 l2, ancestry h c0 = (l1 ++ 0 :: l2)%list -> l2 = []).
    { induction c0 as [c0 IHc] using lt_wf_ind. intros k1 k2 Ek. rewrite ancestry_unfold in Ek by auto.
      destruct k1 as [|y k1]; simpl in Ek.
      - injection Ek as Hc0 Hrest. subst c0. destruct Hwf as [Hobj _]. rewrite Hobj in Hrest. simpl in Hrest. auto.
      - injection Ek as Hy Hrest. destruct (nth_error h c0) as [d|] eqn:Hd; [|destruct k1; discriminate].
        destruct (declared_super c0 d) as [s|] eqn:Hs; [|destruct k1; discriminate].
        eapply (IHc s); [eapply declared_super_lt; eauto|exact Hrest]. }
    rewrite (Hdec i l1 l2 E) in Hin. contradiction.
Qed.

Print Assumptions copydown_eq_chainwalk.
Print Assumptions invoke_eq_get_then_call.
Print Assumptions bound_method_keeps_receiver.
Print Assumptions super_is_declared_superclass.
Print Assumptions static_self_is_invoking_class.
Print Assumptions derives_iff_ancestor.
Print Assumptions constructor_returns_instance.
Print Assumptions no_implicit_super_init.
Print Assumptions class_errors_table.
Print Assumptions sem_ops_agree.
Print Assumptions exec_class_inv.
Print Assumptions eval_mech_eq_spec.
Print Assumptions user_override_of_object_method_wins.
Print Assumptions eval_mech_eq_spec_refuted_old.
Print Assumptions eval_mech_eq_spec_refuted_any_static.
Print Assumptions eval_mech_eq_spec_refuted_iter_from_class.
