(* C07 - proofs about Classes.v (M), ClassSpec.v (S) and ClassLang.v (mini-language).  See notes/C07.md. *)
From Coq Require Import List String Ascii ZArith Bool Arith Lia.
From YV Require Import Show Classes ClassSpec ClassLang.
Import ListNotations.
Open Scope string_scope.

Definition keys (t : mtable) : list string := map fst t.

Lemma tbl_get_none : forall n t, ~ In n (keys t) -> tbl_get n t = None.
Proof.
  induction t as [|[k m] r IH]; intros H; simpl in *; auto.
  destruct (String.eqb_spec n k) as [->|Hne]; [exfalso; apply H; auto|].
  apply IH; intros Hin; apply H; auto.
Qed.

Lemma keys_remove : forall n k t, In k (keys (tbl_remove n t)) -> In k (keys t) /\ k <> n.
Proof.
  induction t as [|[k' m] r IH]; simpl; intros H; [contradiction|].
  destruct (String.eqb_spec n k') as [->|Hne].
  - destruct (IH H); split; auto.
  - simpl in H. destruct H as [<-|H]; [split; auto|]. destruct (IH H); split; auto.
Qed.

Lemma nodup_remove : forall n t, NoDup (keys t) -> NoDup (keys (tbl_remove n t)).
Proof.
  induction t as [|[k m] r IH]; simpl; intros H; auto.
  inversion H as [|? ? Hnin Hnd]; subst.
  destruct (String.eqb n k); auto. simpl. constructor; auto.
  intros Hin. apply keys_remove in Hin. tauto.
Qed.

Lemma nodup_insert : forall n m t, NoDup (keys t) -> NoDup (keys (tbl_insert n m t)).
Proof.
  intros. unfold tbl_insert. simpl. constructor.
  - intros Hin. apply keys_remove in Hin. tauto.
  - apply nodup_remove; auto.
Qed.

Lemma tbl_get_remove : forall n k t, tbl_get n (tbl_remove k t) = if String.eqb n k then None else tbl_get n t.
Proof.
  induction t as [|[k' m] r IH]; simpl.
  - destruct (String.eqb n k); auto.
  - destruct (String.eqb_spec k k') as [->|Hne].
    + rewrite IH. destruct (String.eqb n k'); auto.
    + simpl. rewrite IH. destruct (String.eqb_spec n k') as [->|Hne2]; auto.
      destruct (String.eqb_spec k' k); congruence.
Qed.

Lemma tbl_get_insert : forall n k m t, tbl_get n (tbl_insert k m t) = if String.eqb n k then Some m else tbl_get n t.
Proof.
  intros. unfold tbl_insert. simpl. destruct (String.eqb_spec n k) as [->|Hne]; auto.
  rewrite tbl_get_remove. destruct (String.eqb_spec n k); congruence.
Qed.

Lemma nodup_insert_all : forall src dst, NoDup (keys dst) -> NoDup (keys (tbl_insert_all src dst)).
Proof.
  unfold tbl_insert_all. induction src as [|[k m] r IH]; simpl; intros dst H; auto.
  apply IH. apply nodup_insert; auto.
Qed.

Lemma tbl_get_insert_all : forall n src dst, NoDup (keys src) ->
  tbl_get n (tbl_insert_all src dst) = match tbl_get n src with Some m => Some m | None => tbl_get n dst end.
Proof.
  unfold tbl_insert_all. induction src as [|[k m] r IH]; simpl; intros dst H; auto.
  inversion H as [|? ? Hnin Hnd]; subst.
  rewrite IH by auto. rewrite tbl_get_insert.
  destruct (String.eqb_spec n k) as [->|Hne]; auto.
  rewrite (tbl_get_none k r Hnin). reflexivity.
Qed.

(* the tables a sequence of Method / StaticMethod ops produces *)
Definition class_table (base : mtable) (defs : list (string * bool * mref)) : mtable :=
  fold_left (fun t d => match d with (n, _, m) => tbl_insert n m t end) defs base.
Definition meta_table (base : mtable) (defs : list (string * bool * mref)) : mtable :=
  fold_left (fun t d => match d with (n, true, m) => tbl_insert n m t | (n, false, _) => tbl_remove n t end) defs base.

Lemma class_table_get : forall n defs base,
  tbl_get n (class_table base defs) = match own_lookup defs n with Some (_, m) => Some m | None => tbl_get n base end.
Proof.
  unfold class_table. induction defs as [|[[k st] m] r IH]; simpl; intros base; auto.
  rewrite IH. destruct (own_lookup r n) as [[? ?]|]; auto.
  rewrite tbl_get_insert. destruct (String.eqb n k); auto.
Qed.

Lemma meta_table_get : forall n defs base,
  tbl_get n (meta_table base defs) =
  match own_lookup defs n with Some (true, m) => Some m | Some (false, _) => None | None => tbl_get n base end.
Proof.
  unfold meta_table. induction defs as [|[[k st] m] r IH]; simpl; intros base; auto.
  rewrite IH. destruct (own_lookup r n) as [[[] ?]|]; auto.
  destruct st.
  - rewrite tbl_get_insert. destruct (String.eqb n k); auto.
  - rewrite tbl_get_remove. destruct (String.eqb n k); auto.
Qed.

Lemma class_table_nodup : forall defs base, NoDup (keys base) -> NoDup (keys (class_table base defs)).
Proof.
  unfold class_table. induction defs as [|[[k st] m] r IH]; simpl; intros base H; auto.
  apply IH. apply nodup_insert; auto.
Qed.
Lemma meta_table_nodup : forall defs base, NoDup (keys base) -> NoDup (keys (meta_table base defs)).
Proof.
  unfold meta_table. induction defs as [|[[k st] m] r IH]; simpl; intros base H; auto.
  apply IH. destruct st; [apply nodup_insert|apply nodup_remove]; auto.
Qed.

Lemma run_method_ops : forall defs cl c meta rest,
  run_cops (mkCS cl (Some (c, meta))) (map def_op defs ++ rest) =
  run_cops (mkCS cl (Some (set_methods c (class_table (methods c) defs),
                            set_methods meta (meta_table (methods meta) defs)))) rest.
Proof.
  induction defs as [|[[k st] m] r IH]; intros cl c meta rest.
  - simpl. destruct c, meta; reflexivity.
  - simpl map. simpl app. simpl run_cops.
    destruct st; simpl; rewrite IH; simpl; reflexivity.
Qed.

(* ---------- the declared ancestry ---------- *)
Lemma declared_super_lt : forall h c d s, wf_hist h -> nth_error h c = Some d -> declared_super c d = Some s -> s < c.
Proof.
  intros h c d s [H0 Hwf] Hd Hs. unfold declared_super in Hs.
  destruct (d_super d) as [s'|] eqn:E.
  - inversion Hs; subst. eapply Hwf; eauto.
  - destruct (Nat.eqb_spec c 0); [discriminate|]. inversion Hs. lia.
Qed.

Lemma ancestry_walk_fuel : forall h, wf_hist h -> forall f1 f2 c, c < f1 -> c < f2 ->
  ancestry_walk f1 h c = ancestry_walk f2 h c.
Proof.
  intros h Hwf. induction f1 as [|f1 IH]; intros f2 c H1 H2; [lia|].
  destruct f2 as [|f2]; [lia|]. simpl.
  destruct (nth_error h c) as [d|] eqn:Hd; auto.
  destruct (declared_super c d) as [s|] eqn:Hs; auto.
  pose proof (declared_super_lt h c d s Hwf Hd Hs). f_equal. apply IH; lia.
Qed.

Lemma ancestry_unfold : forall h c, wf_hist h ->
  ancestry h c = c :: match nth_error h c with
                      | Some d => match declared_super c d with Some s => ancestry h s | None => [] end
                      | None => [] end.
Proof.
  intros h c Hwf. unfold ancestry at 1. simpl.
  destruct (nth_error h c) as [d|] eqn:Hd; auto.
  destruct (declared_super c d) as [s|] eqn:Hs; auto.
  pose proof (declared_super_lt h c d s Hwf Hd Hs). f_equal. unfold ancestry. apply ancestry_walk_fuel; auto; lia.
Qed.

Lemma ancestry_le : forall h, wf_hist h -> forall c a, In a (ancestry h c) -> a <= c.
Proof.
  intros h Hwf c. induction c as [c IH] using lt_wf_ind. intros a Hin.
  rewrite ancestry_unfold in Hin by auto. destruct Hin as [<-|Hin]; [lia|].
  destruct (nth_error h c) as [d|] eqn:Hd; [|contradiction].
  destruct (declared_super c d) as [s|] eqn:Hs; [|contradiction].
  pose proof (declared_super_lt h c d s Hwf Hd Hs). specialize (IH s H a Hin). lia.
Qed.

Lemma ancestry_has_object : forall h, wf_hist h -> forall c, c < List.length h -> In 0 (ancestry h c).
Proof.
  intros h Hwf c. induction c as [c IH] using lt_wf_ind. intros Hc.
  rewrite ancestry_unfold by auto. destruct (Nat.eq_dec c 0) as [->|Hne]; [left; auto|]. right.
  destruct (nth_error h c) as [d|] eqn:Hd; [|apply nth_error_None in Hd; lia].
  unfold declared_super at 1. destruct (d_super d) as [s|] eqn:Es.
  - destruct Hwf as [H0 Hw]. pose proof (Hw c d s Hd Es). apply IH; lia.
  - destruct (Nat.eqb_spec c 0); [contradiction|]. apply IH; lia.
Qed.

Lemma wf_hist_snoc : forall h d, h <> [] -> wf_hist (h ++ [d]) -> wf_hist h.
Proof.
  intros h d Hne [H0 Hw]. split.
  - destruct h; [contradiction|]. simpl in *. auto.
  - intros i x s Hi Hs. apply (Hw i x s); auto. rewrite nth_error_app1; auto. apply nth_error_Some. congruence.
Qed.

Lemma ancestry_snoc : forall h d c, wf_hist h -> wf_hist (h ++ [d]) -> c < List.length h ->
  ancestry (h ++ [d]) c = ancestry h c.
Proof.
  intros h d c Hwf Hwf'. induction c as [c IH] using lt_wf_ind. intros Hc.
  rewrite (ancestry_unfold (h ++ [d])) by auto. rewrite (ancestry_unfold h) by auto.
  rewrite nth_error_app1 by auto.
  destruct (nth_error h c) as [x|] eqn:Hd; auto.
  destruct (declared_super c x) as [s|] eqn:Hs; auto.
  pose proof (declared_super_lt h c x s Hwf Hd Hs). f_equal. apply IH; lia.
Qed.

Lemma own_snoc : forall h d a n, a < List.length h -> own (h ++ [d]) a n = own h a n.
Proof. intros. unfold own. rewrite nth_error_app1; auto. Qed.

Lemma first_some_ext : forall {A B} (f g : A -> option B) l, (forall x, In x l -> f x = g x) -> first_some f l = first_some g l.
Proof.
  induction l as [|x r IH]; simpl; intros H; auto.
  rewrite (H x) by auto. destruct (g x); auto.
Qed.

Lemma lookupS_snoc : forall h d c n, wf_hist h -> wf_hist (h ++ [d]) -> c < List.length h ->
  lookupS (h ++ [d]) c n = lookupS h c n.
Proof.
  intros. unfold lookupS. rewrite ancestry_snoc by auto. f_equal.
  apply first_some_ext. intros a Ha. apply own_snoc. pose proof (ancestry_le h H c a Ha). lia.
Qed.

Lemma lookupS_unfold : forall h c n, wf_hist h ->
  lookupS h c n = match own h c n with
                  | Some x => Some (snd x)
                  | None => match nth_error h c with
                            | Some d => match declared_super c d with Some s => lookupS h s n | None => None end
                            | None => None end
                  end.
Proof.
  intros h c n Hwf. unfold lookupS at 1. rewrite ancestry_unfold by auto. simpl.
  destruct (own h c n); auto.
  destruct (nth_error h c) as [d|]; auto. destruct (declared_super c d); auto.
Qed.

Lemma first_some_none : forall {A B} (f : A -> option B) l x, first_some f l = None -> In x l -> f x = None.
Proof.
  induction l as [|y r IH]; simpl; intros x H Hin; [contradiction|].
  destruct (f y) eqn:E; [discriminate|]. destruct Hin as [<-|Hin]; auto.
Qed.

Lemma lookupS_none_object : forall h s n, wf_hist h -> s < List.length h -> lookupS h s n = None -> lookupS h 0 n = None.
Proof.
  intros h s n Hwf Hs H. unfold lookupS in *.
  destruct (first_some (fun a => own h a n) (ancestry h s)) eqn:E; [discriminate|].
  pose proof (first_some_none _ _ 0 E (ancestry_has_object h Hwf s Hs)) as H0.
  rewrite ancestry_unfold by auto. destruct Hwf as [Hobj _]. rewrite Hobj. simpl.
  simpl in H0. rewrite H0. reflexivity.
Qed.

(* ---------- copy-down tables = chain walk ---------- *)
Record class_agrees (h : list cdef) (i : nat) (c m : cls) : Prop := {
  ca_def : exists d, nth_error h i = Some d /\ cname c = d_name d /\ csuper c = option_map CUser (declared_super i d);
  ca_cid : cid c = CUser i;
  ca_meta : cmeta c = cid m;
  ca_msuper : csuper m = Some (CUser 0);
  ca_mname : forall d, nth_error h i = Some d -> cname m = if Nat.eqb i 0 then "Type" else d_name d ++ "Class";
  ca_nodup : NoDup (keys (methods c));
  ca_mnodup : NoDup (keys (methods m));
  ca_lookup : forall n, tbl_get n (methods c) = lookupS h i n;
  ca_static : forall n, tbl_get n (methods m) = static_lookupS h i n }.

Definition tables_agree (h : list cdef) (cs : cstore) : Prop :=
  List.length (classes cs) = List.length h /\
  forall i c m, nth_error (classes cs) i = Some (c, m) -> class_agrees h i c m.

Lemma define_all_app : forall a b cs, define_all cs (a ++ b) = rbind (define_all cs a) (fun cs' => define_all cs' b).
Proof.
  induction a as [|d r IH]; intros b cs; simpl; auto.
  destruct (define_class cs d); simpl; auto.
Qed.

Lemma object_lookup : forall h n, wf_hist h -> lookupS h 0 n = tbl_get n object_table.
Proof.
  intros h n Hwf. unfold lookupS. rewrite ancestry_unfold by auto. destruct Hwf as [H0 _]. rewrite H0. simpl.
  unfold own. rewrite H0. simpl. destruct (String.eqb n "derives"); reflexivity.
Qed.

Lemma static_lookupS_snoc : forall h d c n, wf_hist h -> wf_hist (h ++ [d]) -> c < List.length h ->
  static_lookupS (h ++ [d]) c n = static_lookupS h c n.
Proof.
  intros. unfold static_lookupS. rewrite nth_error_app1 by auto.
  rewrite lookupS_snoc; auto. destruct h; simpl in *; lia.
Qed.

Lemma class_agrees_snoc : forall h d i c m, wf_hist h -> wf_hist (h ++ [d]) -> i < List.length h ->
  class_agrees h i c m -> class_agrees (h ++ [d]) i c m.
Proof.
  intros h d i c m Hwf Hwf' Hi [[x [Hx [Hn Hs]]] Hc Hm Hms Hmn Hnd Hmnd Hl Hst].
  constructor; auto.
  - exists x. rewrite nth_error_app1; auto.
  - intros d0 Hd0. rewrite nth_error_app1 in Hd0 by auto. auto.
  - intros n. rewrite lookupS_snoc; auto.
  - intros n. rewrite static_lookupS_snoc; auto.
Qed.

Lemma objclass_new_empty : forall id name meta p,
  objclass_new id name meta (Some p) [] = mkCls id name (Some (cid p)) meta (methods p).
Proof. reflexivity. Qed.

Lemma define_class_agrees : forall h d cs, h <> [] -> wf_hist h -> wf_hist (h ++ [d]) -> tables_agree h cs ->
  exists cs', define_class cs d = Ok cs' /\ tables_agree (h ++ [d]) cs'.
Proof.
  intros h d cs Hne Hwf Hwf' [Hlen Hag].
  set (i := List.length h).
  assert (Hi0 : 0 < i) by (destruct h; [contradiction|simpl in *; unfold i; simpl; lia]).
  destruct (nth_error (classes cs) 0) as [[obj ometa]|] eqn:Hobj;
    [|apply nth_error_None in Hobj; lia].
  pose proof (Hag 0 obj ometa Hobj) as Aobj.
  assert (Hnd : nth_error (h ++ [d]) i = Some d).
  { unfold i. rewrite nth_error_app2 by lia. rewrite Nat.sub_diag. reflexivity. }
  (* the class the definition derives from *)
  destruct (declared_super i d) as [s|] eqn:Hds;
    [|unfold declared_super in Hds; destruct (d_super d); [discriminate|]; destruct (Nat.eqb_spec i 0); [lia|discriminate]].
  pose proof (declared_super_lt (h ++ [d]) i d s Hwf' Hnd Hds) as Hsi.
  destruct (nth_error (classes cs) s) as [[sc sm]|] eqn:Hsc; [|apply nth_error_None in Hsc; lia].
  pose proof (Hag s sc sm Hsc) as Asc.
  (* the state after Declare (+ Inherit) *)
  assert (Hpre : exists c0, 
     run_cops cs (ops_of_def d) =
     run_cops (mkCS (classes cs) (Some (c0, mkCls (CMeta i) (d_name d ++ "Class") (Some (CUser 0)) CBaseMeta (methods obj))))
              (map def_op (d_defs d) ++ [ODefine]) /\
     cid c0 = CUser i /\ cname c0 = d_name d /\ csuper c0 = Some (CUser s) /\ NoDup (keys (methods c0)) /\
     forall n, tbl_get n (methods c0) = lookupS h s n).
  { unfold ops_of_def. unfold declared_super in Hds. destruct (d_super d) as [s'|] eqn:Es.
    - inversion Hds; subst s'. 
      exists (mkCls (CUser i) (d_name d) (Some (CUser s)) CBaseMeta (tbl_insert_all (methods sc) (methods obj))).
      split; [|split; [|split; [|split; [|split]]]]; auto.
      + simpl. unfold object_of. rewrite Hobj. simpl. rewrite objclass_new_empty. rewrite objclass_new_empty.
        rewrite Hsc. simpl. rewrite Hlen. fold i.
        rewrite (ca_cid _ _ _ _ Aobj), (ca_cid _ _ _ _ Asc). reflexivity.
      + simpl. apply nodup_insert_all. apply (ca_nodup _ _ _ _ Aobj).
      + intros n. simpl. rewrite tbl_get_insert_all by apply (ca_nodup _ _ _ _ Asc).
        rewrite (ca_lookup _ _ _ _ Asc). destruct (lookupS h s n) eqn:E; auto.
        rewrite (ca_lookup _ _ _ _ Aobj). apply (lookupS_none_object h s n Hwf); [exact Hsi | exact E].
    - destruct (Nat.eqb_spec i 0) as [|Hi0']; [lia|]. inversion Hds; subst s.
      exists (mkCls (CUser i) (d_name d) (Some (CUser 0)) CBaseMeta (methods obj)).
      split; [|split; [|split; [|split; [|split]]]]; auto.
      + simpl. unfold object_of. rewrite Hobj. simpl. rewrite !objclass_new_empty.
        rewrite Hlen. fold i. rewrite (ca_cid _ _ _ _ Aobj). reflexivity.
      + simpl. apply (ca_nodup _ _ _ _ Aobj).
      + intros n. simpl. apply (ca_lookup _ _ _ _ Aobj). }
  destruct Hpre as [c0 [Hrun [Hcid [Hname [Hsup [Hnd0 Hl0]]]]]].
  unfold define_class. rewrite Hrun. rewrite run_method_ops. simpl.
  eexists. split; [reflexivity|].
  split.
  - simpl. rewrite !app_length. simpl. lia.
  - simpl. intros j c m Hj.
    destruct (Nat.lt_ge_cases j (List.length (classes cs))) as [Hlt|Hge].
    + rewrite nth_error_app1 in Hj by auto. apply class_agrees_snoc; auto; try lia.
    + rewrite nth_error_app2 in Hj by auto.
      destruct (j - List.length (classes cs)) as [|k] eqn:Ek; [|destruct k; discriminate].
      assert (j = i) by (unfold i; lia). subst j. simpl in Hj. inversion Hj; subst c m. clear Hj.
      assert (Hown : own (h ++ [d]) i = own_lookup (d_defs d)).
      { unfold own. rewrite Hnd. reflexivity. }
      constructor; simpl.
      * exists d. split; auto. split; auto. rewrite Hds. simpl. auto.
      * auto.
      * reflexivity.
      * reflexivity.
      * intros d0 Hd0. rewrite Hnd in Hd0. inversion Hd0; subst d0.
        destruct (Nat.eqb_spec i 0) as [|_]; [lia|reflexivity].
      * apply class_table_nodup; auto.
      * apply meta_table_nodup. apply (ca_nodup _ _ _ _ Aobj).
      * intros n. rewrite class_table_get. rewrite lookupS_unfold by auto. rewrite Hown, Hnd, Hds.
        destruct (own_lookup (d_defs d) n) as [[? ?]|]; auto. rewrite Hl0.
        symmetry. apply lookupS_snoc; auto.
      * intros n. rewrite meta_table_get. unfold static_lookupS. rewrite Hnd.
        destruct (Nat.eqb_spec i 0) as [|_]; [lia|].
        destruct (own_lookup (d_defs d) n) as [[[] ?]|]; auto.
        rewrite (ca_lookup _ _ _ _ Aobj). symmetry. apply lookupS_snoc; auto.
Qed.

Lemma cs0_agrees : tables_agree [object_def] cs0.
Proof.
  split; [reflexivity|]. intros i c m H. destruct i as [|[|i]]; simpl in H; try discriminate.
  inversion H; subst. constructor; simpl.
  - exists object_def. auto.
  - reflexivity.
  - reflexivity.
  - reflexivity.
  - intros d Hd. reflexivity.
  - repeat constructor; simpl; auto.
  - repeat constructor; simpl; auto.
  - intros n. unfold lookupS, ancestry, own. simpl. destruct (String.eqb n "derives"); auto.
  - intros n. unfold static_lookupS, lookupS, ancestry, own. simpl. destruct (String.eqb n "derives"); auto.
Qed.

Lemma wf_hist_object : forall h, wf_hist h -> exists r, h = object_def :: r.
Proof. intros h [H0 _]. destruct h; simpl in H0; [discriminate|]. inversion H0. eauto. Qed.

(* T copydown_eq_chainwalk *)
Theorem copydown_eq_chainwalk : forall h, wf_hist h -> exists cs, build h = Ok cs /\ tables_agree h cs.
Proof.
  induction h as [|d h IH] using rev_ind; intros Hwf.
  - destruct Hwf as [H0 _]. discriminate.
  - destruct h as [|x r].
    + destruct (wf_hist_object _ Hwf) as [r Hr]. simpl in Hr. inversion Hr; subst.
      exists cs0. split; [reflexivity|apply cs0_agrees].
    + assert (Hne : x :: r <> []) by discriminate.
      pose proof (wf_hist_snoc _ _ Hne Hwf) as Hwf0.
      destruct (IH Hwf0) as [cs [Hb Hag]].
      destruct (define_class_agrees _ d cs Hne Hwf0 Hwf Hag) as [cs' [Hd Hag']].
      exists cs'. split; auto.
      unfold build in *. simpl in *. rewrite define_all_app. rewrite Hb. simpl. rewrite Hd. reflexivity.
Qed.

(* the form quoted in the property: a table lookup in M is the nearest definition in the declared ancestry *)
Corollary table_lookup_is_nearest_definition : forall h cs i c m n, wf_hist h -> build h = Ok cs ->
  nth_error (classes cs) i = Some (c, m) ->
  tbl_get n (methods c) = option_map snd (first_some (fun a => own h a n) (ancestry h i)) /\
  tbl_get n (methods m) = static_lookupS h i n.
Proof.
  intros h cs i c m n Hwf Hb Hi. destruct (copydown_eq_chainwalk h Hwf) as [cs' [Hb' [_ Hag]]].
  rewrite Hb in Hb'. inversion Hb'; subst cs'. pose proof (Hag i c m Hi) as A.
  split; [apply (ca_lookup _ _ _ _ A) | apply (ca_static _ _ _ _ A)].
Qed.

Example copydown_hyp_satisfiable :
  wf_hist [object_def; mkDef "A" None [("m", false, MClosure 0)]; mkDef "B" (Some 1) [("m", false, MClosure 1)];
           mkDef "C" (Some 2) []].
Proof.
  split; [reflexivity|]. intros i d s Hi Hs.
  destruct i as [|[|[|[|i]]]]; simpl in Hi; try (destruct i; discriminate);
    injection Hi as <-; simpl in Hs; try discriminate; injection Hs as <-; lia.
Qed.

(* ---------- derives ---------- *)
Lemma class_obj_user : forall h cs c, tables_agree h cs -> c < List.length h ->
  exists k m d, nth_error (classes cs) c = Some (k, m) /\ class_obj cs (CUser c) = Some k /\
                nth_error h c = Some d /\ csuper k = option_map CUser (declared_super c d).
Proof.
  intros h cs c [Hlen Hag] Hc.
  destruct (nth_error (classes cs) c) as [[k m]|] eqn:E; [|apply nth_error_None in E; lia].
  destruct (Hag c k m E) as [[d [Hd [_ Hs]]] _ _ _ _ _ _ _ _].
  exists k, m, d. repeat split; auto. simpl. rewrite E. reflexivity.
Qed.

Lemma derives_walk_ancestry : forall h cs q, wf_hist h -> tables_agree h cs ->
  forall fuel c, c < fuel -> c < List.length h ->
  derives_walk fuel cs (CUser c) (CUser q) = existsb (Nat.eqb q) (ancestry_walk fuel h c).
Proof.
  intros h cs q Hwf Hag. induction fuel as [|f IH]; intros c Hf Hc; [lia|].
  destruct (class_obj_user h cs c Hag Hc) as [k [m [d [Hn [Ho [Hd Hs]]]]]].
  cbn [derives_walk ancestry_walk]. rewrite Hd. cbn [existsb cref_eqb].
  rewrite (Nat.eqb_sym q c).
  destruct (Nat.eqb c q) eqn:E; cbn [orb]; auto.
  rewrite Ho. rewrite Hs.
  destruct (declared_super c d) as [s|] eqn:Hds; cbn [option_map existsb]; auto.
  pose proof (declared_super_lt h c d s Hwf Hd Hds). apply IH; lia.
Qed.

Lemma derives_eq_spec : forall h cs c q, wf_hist h -> tables_agree h cs -> c < List.length h ->
  derives cs (CUser c) q = derivesS h (CUser c) q.
Proof.
  intros h cs c q Hwf Hag Hc. unfold derives, derivesS.
  destruct Hag as [Hlen Hag']. rewrite Hlen.
  rewrite (derives_walk_ancestry h cs q Hwf (conj Hlen Hag')) by lia.
  unfold ancestry. f_equal. apply ancestry_walk_fuel; auto; lia.
Qed.

Lemma ancestor_in_ancestry : forall h, wf_hist h -> forall c q, ancestor h c q <-> In q (ancestry h c).
Proof.
  intros h Hwf c q. split.
  - induction 1 as [c|c d s q Hd Hs Ha IH].
    + rewrite ancestry_unfold by auto. left; auto.
    + rewrite ancestry_unfold by auto. right. rewrite Hd, Hs. auto.
  - revert q. induction c as [c IH] using lt_wf_ind. intros q Hin.
    rewrite ancestry_unfold in Hin by auto. destruct Hin as [<-|Hin]; [constructor|].
    destruct (nth_error h c) as [d|] eqn:Hd; [|contradiction].
    destruct (declared_super c d) as [s|] eqn:Hs; [|contradiction].
    eapply anc_step; eauto. apply IH; auto. eapply declared_super_lt; eauto.
Qed.

(* T derives_iff_ancestor *)
Theorem derives_iff_ancestor : forall h cs c q, wf_hist h -> build h = Ok cs -> c < List.length h ->
  (derives cs (CUser c) q = true <-> ancestor h c q).
Proof.
  intros h cs c q Hwf Hb Hc. destruct (copydown_eq_chainwalk h Hwf) as [cs' [Hb' Hag]].
  rewrite Hb in Hb'. inversion Hb'; subst cs'.
  rewrite (derives_eq_spec h cs c q Hwf Hag Hc). unfold derivesS.
  rewrite (ancestor_in_ancestry h Hwf). rewrite existsb_exists. split.
  - intros [x [Hin Hx]]. apply Nat.eqb_eq in Hx. subst; auto.
  - intros Hin. exists q. split; auto. apply Nat.eqb_refl.
Qed.

(* receivers that are classes or built-in values: their class is a direct subclass of Object *)
Lemma derives_direct_object : forall h cs r k q f, wf_hist h -> tables_agree h cs -> (forall i, r <> CUser i) ->
  class_obj cs r = Some k -> csuper k = Some (CUser 0) -> derives_walk (S (S f)) cs r (CUser q) = Nat.eqb q 0.
Proof.
  intros h cs r k q f Hwf Hag Hr Hk Hs.
  assert (H0 : 0 < List.length h) by (destruct Hwf as [Hobj _]; destruct h; simpl in *; [discriminate|lia]).
  destruct (class_obj_user h cs 0 Hag H0) as [k0 [m0 [d0 [Hn0 [Ho0 [Hd0 Hs0]]]]]].
  destruct Hwf as [Hobj Hw]. rewrite Hobj in Hd0. inversion Hd0; subst d0. simpl in Hs0.
  assert (E : cref_eqb r (CUser q) = false) by (destruct r; auto; exfalso; eapply Hr; eauto).
  cbn [derives_walk]. rewrite E, Hk, Hs. cbn [cref_eqb]. rewrite Nat.eqb_sym.
  destruct (Nat.eqb q 0); auto. rewrite Ho0, Hs0. reflexivity.
Qed.

Lemma derives_meta : forall h cs c q, wf_hist h -> tables_agree h cs -> c < List.length h ->
  derives cs (CMeta c) q = derivesS h (CMeta c) q.
Proof.
  intros h cs c q Hwf Hag Hc. pose proof Hag as [Hlen Hag'].
  destruct (nth_error (classes cs) c) as [[k m]|] eqn:E; [|apply nth_error_None in E; lia].
  pose proof (Hag' c k m E) as A.
  unfold derives, derivesS. rewrite Hlen. destruct (Nat.ltb_spec c (List.length h)) as [_|]; [|lia]. simpl andb.
  destruct (List.length h) as [|n] eqn:El; [lia|].
  apply (derives_direct_object h cs (CMeta c) m q n); auto; try discriminate.
  - simpl. rewrite E. reflexivity.
  - apply (ca_msuper _ _ _ _ A).
Qed.

Lemma derives_builtin : forall h cs k q, wf_hist h -> tables_agree h cs ->
  derives cs (CBuiltin k) q = derivesS h (CBuiltin k) q.
Proof.
  intros h cs k q Hwf Hag. pose proof Hag as [Hlen Hag'].
  assert (H0 : 0 < List.length h) by (destruct Hwf as [Hobj _]; destruct h; simpl in *; [discriminate|lia]).
  unfold derives, derivesS. rewrite Hlen. destruct (List.length h) as [|n] eqn:El; [lia|].
  eapply (derives_direct_object h cs (CBuiltin k) _ q n); auto; try discriminate; reflexivity.
Qed.

(* ---------- invoke = get, then call ---------- *)
(* T invoke_eq_get_then_call: for every receiver, member configuration and argument count, `x.n(args)` enters the
   same callee with the same slot 0, or raises the same error, as `var f = x.n; f(args)`.  ANY field named n wins
   in both paths, callable or not (a non-callable field is "Can only call functions and methods." in both). *)
Theorem invoke_eq_get_then_call : forall w recv n argc,
  invoke w recv n argc = rbind (get_property w recv n) (fun f => call_value (w_arity w) f argc).
Proof.
  intros w recv n argc. unfold invoke, get_property, invoke_from_class, bind_method.
  destruct recv as [| | | | c | a | f | r f | r k];
    try (destruct (tbl_get n _) as [[f'|k']|]; reflexivity).
  destruct (nth_error (w_heap w) a) as [i|] eqn:Hi; [|reflexivity].
  destruct (fld_get n (fields i)) as [v|]; [reflexivity|].
  unfold class_of. rewrite Hi.
  destruct (tbl_get n _) as [[f'|k']|]; reflexivity.
Qed.

Corollary field_wins_in_both_paths : forall w a i v n argc,
  nth_error (w_heap w) a = Some i -> fld_get n (fields i) = Some v ->
  get_property w (VInst a) n = Ok v /\ invoke w (VInst a) n argc = call_value (w_arity w) v argc.
Proof. intros. unfold get_property, invoke. rewrite H, H0. auto. Qed.

(* ---------- bound methods ---------- *)
Lemma fld_get_set : forall n v l, fld_get n (fld_set n v l) = Some v.
Proof.
  induction l as [|[k w] r IH]; simpl.
  - rewrite String.eqb_refl. reflexivity.
  - destruct (String.eqb n k) eqn:E; simpl; rewrite E; auto.
Qed.

Lemma nth_error_list_set : forall {A} (l : list A) i x, i < List.length l -> nth_error (list_set i x l) i = Some x.
Proof.
  induction l as [|y r IH]; intros i x Hi; simpl in *; [lia|].
  destruct i; simpl; auto. apply IH. lia.
Qed.

(* T bound_method_keeps_receiver: a method taken from x is bound to x; called directly, or after being stored in a
   field of ANY instance y and invoked through y, it is entered with x in slot 0 *)
Theorem bound_method_keeps_receiver : forall w x n f,
  tbl_get n (table_of (w_cs w) (class_of (w_heap w) x)) = Some (MClosure f) ->
  (forall a, x = VInst a -> exists i, nth_error (w_heap w) a = Some i /\ fld_get n (fields i) = None) ->
  get_property w x n = Ok (VBound x f) /\
  (forall argc, call_value (w_arity w) (VBound x f) argc = call_closure (w_arity w) f x argc) /\
  (forall y g w' argc, set_property w (VInst y) g (VBound x f) = Ok w' ->
     invoke w' (VInst y) g argc = call_closure (w_arity w) f x argc) /\
  (forall ar argc t, call_closure ar f x argc = Ok t -> t = TClosure f x).
Proof.
  intros w x n f Ht Hx. repeat split.
  - unfold get_property, bind_method. destruct x as [| | | | c | a | g | r g | r k]; try (rewrite Ht; reflexivity).
    destruct (Hx a eq_refl) as [i [Hi Hf]]. rewrite Hi, Hf, Ht. reflexivity.
  - intros y g w' argc Hset. unfold set_property in Hset.
    destruct (nth_error (w_heap w) y) as [i|] eqn:Hi; [|discriminate]. inversion Hset; subst w'. clear Hset.
    unfold invoke. simpl.
    rewrite nth_error_list_set by (apply nth_error_Some; congruence).
    simpl. rewrite fld_get_set. reflexivity.
  - intros ar argc t H. unfold call_closure in H. destruct (nth_error ar f); [|discriminate].
    destruct (Nat.eqb argc (n0 - 1)); inversion H; reflexivity.
Qed.

(* ---------- static methods: Self ---------- *)
(* T static_self_is_invoking_class: a method reached through a class table is entered with the receiver in slot 0;
   `Self` (GetClass of slot 0) is then the class itself for a class receiver and the instance's class for an
   instance receiver - the class the method was invoked through, not the class that defines it *)
Theorem static_self_is_invoking_class : forall w recv n argc f s0,
  invoke_from_class w (class_of (w_heap w) recv) recv n argc = Ok (TClosure f s0) ->
  s0 = recv /\
  (forall c, recv = VClass c -> get_class_op (w_heap w) s0 = Some c) /\
  (forall a i, recv = VInst a -> nth_error (w_heap w) a = Some i -> get_class_op (w_heap w) s0 = Some (iclass i)).
Proof.
  intros w recv n argc f s0 H. unfold invoke_from_class in H.
  destruct (tbl_get n _) as [[g|k]|]; try discriminate.
  unfold call_closure in H. destruct (nth_error (w_arity w) g); [|discriminate].
  destruct (Nat.eqb argc (n0 - 1)); inversion H; subst. repeat split.
  - intros c ->. reflexivity.
  - intros a i -> Hi. simpl. rewrite Hi. reflexivity.
Qed.

(* ---------- super ---------- *)
Lemma table_of_user : forall h cs s, tables_agree h cs -> s < List.length h ->
  forall n, tbl_get n (table_of cs (CUser s)) = lookupS h s n.
Proof.
  intros h cs s Hag Hs n. destruct (class_obj_user h cs s Hag Hs) as [k [m [d [Hn [Ho _]]]]].
  unfold table_of. rewrite Ho. destruct Hag as [_ Hag]. apply (ca_lookup _ _ _ _ (Hag s k m Hn)).
Qed.

(* T super_is_declared_superclass: `super.n` inside a method of class o, executed with the value captured at
   o's definition, finds what the Spec finds starting at o's DECLARED superclass - for every receiver (its dynamic
   class is not consulted) and without reference to any variable binding (the world has none) *)
Theorem super_is_declared_superclass : forall h cs o d s, wf_hist h -> build h = Ok cs ->
  nth_error h o = Some d -> d_super d = Some s ->
  forall heap ar recv n argc,
    get_super (mkW cs heap ar) (VClass s) recv n = spec_super_get h o recv n /\
    super_invoke (mkW cs heap ar) (VClass s) recv n argc = spec_super_invoke h ar o recv n argc.
Proof.
  intros h cs o d s Hwf Hb Hd Hs heap ar recv n argc.
  destruct (copydown_eq_chainwalk h Hwf) as [cs' [Hb' Hag]]. rewrite Hb in Hb'. inversion Hb'; subst cs'.
  assert (Hso : s < o) by (destruct Hwf as [_ Hw]; eapply Hw; eauto).
  assert (Ho : o < List.length h) by (apply nth_error_Some; congruence).
  assert (Hsl : s < List.length h) by lia.
  assert (Hsup : superS h o n = lookupS h s n).
  { unfold superS. rewrite Hd. unfold declared_super. rewrite Hs. reflexivity. }
  unfold get_super, super_invoke, spec_super_invoke, spec_super_get, bind_method, invoke_from_class. simpl.
  rewrite (table_of_user h cs s Hag Hsl n). rewrite Hsup.
  destruct (lookupS h s n) as [[f|k]|]; simpl; auto.
Qed.

(* ---------- errors ---------- *)
(* T class_errors_table *)
Theorem class_errors_table :
  (* unknown member, through get and through invoke, for every receiver kind *)
  (forall w recv n argc, tbl_get n (table_of (w_cs w) (class_of (w_heap w) recv)) = None ->
     (forall a, recv = VInst a -> exists i, nth_error (w_heap w) a = Some i /\ fld_get n (fields i) = None) ->
     get_property w recv n = Err AttributeError ("Undefined property '" ++ n ++ "'.") /\
     invoke w recv n argc = Err AttributeError ("Undefined property '" ++ n ++ "'.")) /\
  (* wrong arity, for closures, bound methods and methods invoked through a table *)
  (forall ar f slot0 argc a, nth_error ar f = Some a -> argc <> a - 1 ->
     call_closure ar f slot0 argc = Err TypeError ("Expected " ++ show_nat (a - 1) ++ " arguments but found " ++ show_nat argc ++ ".")) /\
  expected_args 2 1 = "Expected 2 arguments but found 1." /\
  (* non-class superclass *)
  (forall cs v, (forall s, v <> VClass s) -> run_cop cs (OInherit v) = Err RuntimeError "Superclass must be a class.") /\
  (* field assignment on anything but an instance *)
  (forall w recv n v, (forall a, recv <> VInst a) -> set_property w recv n v = Err AttributeError "Only instances have fields.") /\
  (* calling a class value (or any other non-function) *)
  (forall ar callee argc, (forall r f, callee <> VBound r f) -> (forall r k, callee <> VBoundNative r k) ->
     (forall f, callee <> VClosure f) -> call_value ar callee argc = Err TypeError "Can only call functions and methods.").
Proof.
  repeat split.
  - unfold get_property, bind_method. destruct recv as [| | | | c | a | g | r g | r k]; try (rewrite H; reflexivity).
    destruct (H0 a eq_refl) as [i [Hi Hf]]. rewrite Hi, Hf, H. reflexivity.
  - rewrite invoke_eq_get_then_call.
    unfold get_property, bind_method. destruct recv as [| | | | c | a | g | r g | r k]; try (rewrite H; reflexivity).
    destruct (H0 a eq_refl) as [i [Hi Hf]]. rewrite Hi, Hf, H. reflexivity.
  - intros ar f slot0 argc a Ha Hne. unfold call_closure. rewrite Ha.
    destruct (Nat.eqb_spec argc (a - 1)); [contradiction|reflexivity].
  - intros cs v Hv. destruct v; try reflexivity. exfalso. apply (Hv c). reflexivity.
  - intros w recv n v Hr. destruct recv; try reflexivity. exfalso. apply (Hr a). reflexivity.
  - intros ar callee argc H1 H2 H3. destruct callee; try reflexivity.
    + exfalso; eapply H3; reflexivity.
    + exfalso; eapply H1; reflexivity.
    + exfalso; eapply H2; reflexivity.
Qed.

(* construct *)
Lemma construct_class : forall w c, 
  construct w (VClass c) = (mkW (w_cs w) (w_heap w ++ [mkInst c []]) (w_arity w), VInst (List.length (w_heap w))) /\
  nth_error (w_heap (fst (construct w (VClass c)))) (List.length (w_heap w)) = Some (mkInst c []).
Proof.
  intros. split; [reflexivity|]. simpl. rewrite nth_error_app2 by lia. rewrite Nat.sub_diag. reflexivity.
Qed.
Lemma construct_other : forall w v, (forall c, v <> VClass c) -> construct w v = (w, v).
Proof. intros w v H. destruct v; try reflexivity. exfalso; eapply H; reflexivity. Qed.

(* ====================================================================================================== *)
(* the mini-language *)

Definition Inv (st : state) : Prop := wf_hist (hist st) /\ tables_agree (hist st) (mstore st).

Lemma lookupS_dangling : forall h c n, wf_hist h -> List.length h <= c -> lookupS h c n = None.
Proof.
  intros h c n Hwf Hc. rewrite lookupS_unfold by auto. unfold own.
  assert (E : nth_error h c = None) by (apply nth_error_None; auto). rewrite E. reflexivity.
Qed.

Lemma table_eq_findS : forall h cs r n, wf_hist h -> tables_agree h cs -> tbl_get n (table_of cs r) = findS h r n.
Proof.
  intros h cs r n Hwf Hag. pose proof Hag as [Hlen Hag'].
  destruct r as [c|c|k|]; simpl findS.
  - destruct (Nat.lt_ge_cases c (List.length h)) as [Hc|Hc].
    + apply table_of_user; auto.
    + rewrite lookupS_dangling by auto. unfold table_of. simpl.
      assert (E : nth_error (classes cs) c = None) by (apply nth_error_None; lia). rewrite E. reflexivity.
  - unfold table_of. simpl. destruct (nth_error (classes cs) c) as [[k m]|] eqn:E.
    + simpl. rewrite (ca_static _ _ _ _ (Hag' c k m E)). reflexivity.
    + simpl. unfold static_lookupS. apply nth_error_None in E.
      destruct (Nat.eqb_spec c 0) as [->|_]; [destruct Hwf as [H0 _]; destruct h; simpl in *; [discriminate|lia]|].
      assert (E' : nth_error h c = None) by (apply nth_error_None; lia). rewrite E'. reflexivity.
  - unfold table_of. simpl. symmetry. apply object_lookup; auto.
  - unfold table_of. simpl. symmetry. apply object_lookup; auto.
Qed.

Lemma get_eq_spec : forall st recv n, Inv st -> s_get sem_mech st recv n = s_get sem_spec st recv n.
Proof.
  intros st recv n [Hwf Hag]. simpl. unfold get_property, spec_get, bind_method. simpl.
  assert (T : forall r, tbl_get n (table_of (mstore st) r) = findS (hist st) r n)
    by (intros; apply table_eq_findS; auto).
  destruct recv as [| | | | c | a | f | r f | r k]; rewrite T; reflexivity.
Qed.

Lemma invoke_eq_spec : forall st recv n argc, Inv st -> s_invoke sem_mech st recv n argc = s_invoke sem_spec st recv n argc.
Proof.
  intros st recv n argc HI. simpl. rewrite invoke_eq_get_then_call. unfold spec_invoke.
  pose proof (get_eq_spec st recv n HI) as H. simpl in H. rewrite H. reflexivity.
Qed.

Lemma ancestry_dangling : forall h c, wf_hist h -> List.length h <= c -> ancestry h c = [c].
Proof.
  intros h c Hwf Hc. rewrite ancestry_unfold by auto.
  assert (E : nth_error h c = None) by (apply nth_error_None; auto). rewrite E. reflexivity.
Qed.

Lemma derives_all_eq_spec : forall st r q, Inv st -> s_derives sem_mech st r q = s_derives sem_spec st r q.
Proof.
  intros st r q [Hwf Hag]. simpl. pose proof Hag as [Hlen Hag'].
  assert (H0 : 0 < List.length (hist st)) by (destruct Hwf as [Hobj _]; destruct (hist st); simpl in *; [discriminate|lia]).
  destruct r as [c|c|k|].
  - destruct (Nat.lt_ge_cases c (List.length (hist st))) as [Hc|Hc].
    + apply derives_eq_spec; auto.
    + unfold derives, derivesS. rewrite ancestry_dangling by auto. simpl. rewrite orb_false_r.
      rewrite (Nat.eqb_sym q c). destruct (Nat.eqb c q); auto.
      unfold class_obj. assert (E : nth_error (classes (mstore st)) c = None) by (apply nth_error_None; lia).
      rewrite E. reflexivity.
  - destruct (Nat.lt_ge_cases c (List.length (hist st))) as [Hc|Hc].
    + apply derives_meta; auto.
    + unfold derives, derivesS. destruct (Nat.ltb_spec c (List.length (hist st))); [lia|]. simpl.
      assert (E : nth_error (classes (mstore st)) c = None) by (apply nth_error_None; lia). rewrite E. reflexivity.
  - apply derives_builtin; auto.
  - unfold derives, derivesS. rewrite Hlen. destruct (List.length (hist st)) as [|n] eqn:El; [lia|].
    eapply (derives_direct_object (hist st) (mstore st) CBaseMeta _ q n); auto; try discriminate; reflexivity.
Qed.

Lemma next_cid_eq_spec : forall st, Inv st -> s_next_cid sem_mech st = s_next_cid sem_spec st.
Proof. intros st [_ [Hlen _]]. exact Hlen. Qed.

Lemma cname_eq_spec : forall st r, Inv st -> s_cname sem_mech st r = s_cname sem_spec st r.
Proof.
  intros st r [Hwf [Hlen Hag]]. simpl. destruct r as [c|c|k|]; auto.
  - simpl. destruct (nth_error (classes (mstore st)) c) as [[k m]|] eqn:E.
    + destruct (Hag c k m E) as [[d [Hd [Hn _]]] _ _ _ _ _ _ _ _]. rewrite Hd. simpl. rewrite Hn. reflexivity.
    + apply nth_error_None in E. assert (E' : nth_error (hist st) c = None) by (apply nth_error_None; lia).
      rewrite E'. reflexivity.
  - simpl. destruct (nth_error (classes (mstore st)) c) as [[k m]|] eqn:E.
    + pose proof (Hag c k m E) as A. destruct (ca_def _ _ _ _ A) as [d [Hd _]]. rewrite Hd. simpl.
      rewrite (ca_mname _ _ _ _ A d Hd). reflexivity.
    + apply nth_error_None in E. assert (E' : nth_error (hist st) c = None) by (apply nth_error_None; lia).
      rewrite E'. reflexivity.
Qed.

(* a context whose captured `super` is the declared superclass of its owner and whose slot 0 is the method's self *)
Definition ctx_ok (st : state) (c : ctx) : Prop :=
  match c_owner c with
  | Some o => (exists d, nth_error (hist st) o = Some d /\ c_super c = option_map VClass (d_super d))
  | None => c_super c = None
  end /\
  (c_super c <> None -> lexical_self st c = Ok (c_slot0 c)).

Lemma super_eq_spec : forall st c n argc, Inv st -> ctx_ok st c ->
  s_super_get sem_mech st c n = s_super_get sem_spec st c n /\
  s_super_invoke sem_mech st c n argc = s_super_invoke sem_spec st c n argc.
Proof.
  intros st c n argc [Hwf Hag] [Hs Hself]. simpl. unfold spec_super_ctx, no_super.
  destruct (c_owner c) as [o|].
  - destruct Hs as [d [Hd Hsup]]. rewrite Hd, Hsup. destruct (d_super d) as [s|] eqn:Es; simpl; auto.
    rewrite Hself by (rewrite Hsup; discriminate). simpl.
    destruct (copydown_eq_chainwalk (hist st) Hwf) as [cs' [Hb _]].
    assert (Hsl : s < List.length (hist st)).
    { destruct Hwf as [_ Hw]. pose proof (Hw o d s Hd Es). assert (o < List.length (hist st)) by (apply nth_error_Some; congruence). lia. }
    assert (Hsup' : superS (hist st) o n = lookupS (hist st) s n).
    { unfold superS. rewrite Hd. unfold declared_super. rewrite Es. reflexivity. }
    unfold get_super, super_invoke, spec_super_invoke, spec_super_get, bind_method, invoke_from_class. simpl.
    rewrite (table_of_user (hist st) (mstore st) s Hag Hsl n). rewrite Hsup'.
    destruct (lookupS (hist st) s n) as [[f|k]|]; simpl; auto.
  - rewrite Hs. auto.
Qed.

(* T eval_mech_eq_spec_partial (1): on every state in which M's tables are the copy-down of the declared history,
   every operation in which the two semantics differ gives the same answer *)
Theorem sem_ops_agree : forall st, Inv st ->
  (forall recv n, s_get sem_mech st recv n = s_get sem_spec st recv n) /\
  (forall recv n argc, s_invoke sem_mech st recv n argc = s_invoke sem_spec st recv n argc) /\
  (forall c n argc, ctx_ok st c -> s_super_get sem_mech st c n = s_super_get sem_spec st c n /\
                                   s_super_invoke sem_mech st c n argc = s_super_invoke sem_spec st c n argc) /\
  (forall r q, s_derives sem_mech st r q = s_derives sem_spec st r q) /\
  s_next_cid sem_mech st = s_next_cid sem_spec st /\
  (forall r, s_cname sem_mech st r = s_cname sem_spec st r).
Proof.
  intros st HI. repeat split; intros.
  - apply get_eq_spec; auto.
  - apply invoke_eq_spec; auto.
  - apply (proj1 (super_eq_spec st c n argc HI H)).
  - apply (proj2 (super_eq_spec st c n argc HI H)).
  - apply derives_all_eq_spec; auto.
  - apply next_cid_eq_spec; auto.
  - apply cname_eq_spec; auto.
Qed.

Lemma Inv_st0 : Inv st0.
Proof.
  split; [|apply cs0_agrees]. split; [reflexivity|]. intros i d s Hi Hs.
  destruct i as [|[|i]]; simpl in Hi; try discriminate. inversion Hi; subst. discriminate.
Qed.

(* ---------- constructors ---------- *)
Lemma ev_enter_closure : forall S f c fid slot0 vs st,
  ev S (Datatypes.S f) c (TEnter (TClosure fid slot0) vs) st =
  match nth_error (closures st) fid with
  | None => (st, RStuck "dangling closure")
  | Some cl =>
    if Nat.eqb (c_depth c) frames_max then (st, RErr IndexError "Stack overflow.") else
    let '(st1, slot0') :=
      match cl_kind cl with
      | KInit => let '(w, v) := construct (world_of st) slot0 in (set_heap st (w_heap w), v)
      | _ => (st, slot0)
      end in
    let '(st2, rho0) :=
      match slot0_name (cl_kind cl) with
      | Some nm => let '(s', a) := alloc_cell st1 slot0' in (s', (nm, a) :: cl_env cl)
      | None => (st1, cl_env cl)
      end in
    let '(st3, rho) := bind_params st2 rho0 (cl_params cl) vs in
    let c' := mkCtx rho true (cl_super cl) (cl_owner cl) slot0' (Datatypes.S (c_depth c)) in
    match ev S f c' (TS (cl_body cl)) st3 with
    | (st4, RNext _) => (st4, RVal (match cl_kind cl with KInit => slot0' | _ => VNil end))
    | (st4, RRet v) => (st4, RVal (match cl_kind cl with KInit => slot0' | _ => v end))
    | (st4, RVal _) | (st4, RVals _) => (st4, RStuck "body outcome")
    | other => other
    end
  end.
Proof. intros. reflexivity. Qed.

(* T constructor_returns_instance: whatever its body does (fall through, `return;`), an initialiser that returns at
   all returns the value Construct left in slot 0: a fresh instance of the class it was invoked on, or the existing
   instance it was invoked on (through an instance or through `super.new(..)`) *)
Theorem constructor_returns_instance : forall S f c fid slot0 vs st cl st' v,
  nth_error (closures st) fid = Some cl -> cl_kind cl = KInit ->
  ev S (Datatypes.S f) c (TEnter (TClosure fid slot0) vs) st = (st', RVal v) ->
  v = snd (construct (world_of st) slot0) /\
  (forall k, slot0 = VClass k ->
     v = VInst (List.length (heap st)) /\
     nth_error (w_heap (fst (construct (world_of st) slot0))) (List.length (heap st)) = Some (mkInst k [])) /\
  (forall a, slot0 = VInst a -> v = VInst a).
Proof.
  intros S f c fid slot0 vs st cl st' v Hcl Hk H. rewrite ev_enter_closure in H. rewrite Hcl, Hk in H.
  destruct (Nat.eqb (c_depth c) frames_max); [discriminate|].
  destruct (construct (world_of st) slot0) as [w v0] eqn:Ec. simpl in H.
  destruct (bind_params _ _ _ _) as [st3 rho] in H.
  assert (Hv : v = v0).
  { destruct (ev S f _ (TS (cl_body cl)) st3) as [st4 [x|x|x|x|k m| |w']]; inversion H; reflexivity. }
  subst v0. split; [reflexivity|]. split.
  - intros k ->. simpl in Ec. inversion Ec; subst. split; [reflexivity|]. simpl.
    rewrite nth_error_app2 by lia. rewrite Nat.sub_diag. reflexivity.
  - intros a ->. simpl in Ec. inversion Ec. reflexivity.
Qed.

(* T no_implicit_super_init: the default initialiser (`#[constructor(new)]`: no parameters, empty body) of ANY class -
   also of one whose superclass has an explicit initialiser - creates the instance and runs nothing else: no line is
   printed, no member is dispatched, the instance has no field.  (An explicit initialiser runs exactly its body: an
   inherited one only where the body says `super.new(..)`; see the examples below.) *)
Theorem no_implicit_super_init : forall S f c fid k st cl,
  nth_error (closures st) fid = Some cl -> cl_kind cl = KInit -> cl_params cl = [] -> cl_body cl = [] ->
  c_depth c <> frames_max ->
  exists st', ev S (Datatypes.S (Datatypes.S f)) c (TEnter (TClosure fid (VClass k)) []) st = (st', RVal (VInst (List.length (heap st)))) /\
    heap st' = (heap st ++ [mkInst k []])%list /\ out st' = out st /\ trace st' = trace st /\
    globals st' = globals st /\ hist st' = hist st /\ mstore st' = mstore st.
Proof.
  intros S f c fid k st cl Hcl Hk Hp Hb Hd. rewrite ev_enter_closure. rewrite Hcl, Hk, Hp, Hb.
  destruct (Nat.eqb_spec (c_depth c) frames_max); [contradiction|]. simpl.
  eexists. split; [reflexivity|]. simpl. repeat split; reflexivity.
Qed.

(* ---------- class definition preserves the invariant ---------- *)
Lemma Inv_ext : forall st st', hist st' = hist st -> classes (mstore st') = classes (mstore st) -> Inv st -> Inv st'.
Proof. intros st st' Hh Hc [Hwf [Hlen Hag]]. unfold Inv, tables_agree. rewrite Hh, Hc. auto. Qed.

Lemma declare_hm : forall c st x v st1 rho, declare c st x v = (st1, rho) ->
  hist st1 = hist st /\ mstore st1 = mstore st /\ closures st1 = closures st.
Proof. intros c st x v st1 rho H. unfold declare in H. destruct (c_local c); simpl in H; inversion H; auto. Qed.

Lemma assign_hm : forall rho st x v st1, assign rho st x v = Ok st1 ->
  hist st1 = hist st /\ mstore st1 = mstore st /\ closures st1 = closures st.
Proof.
  intros rho st x v st1 H. unfold assign in H. destruct (assoc x rho); [inversion H; auto|].
  destruct (assoc x (globals st)); inversion H; auto.
Qed.

Lemma run_cop_classes : forall cs op cs', run_cop cs op = Ok cs' -> op <> ODefine -> classes cs' = classes cs.
Proof.
  intros cs op cs' H Hne. destruct op; simpl in H.
  - inversion H; reflexivity.
  - destruct sup as [| | | | s | | | |]; try discriminate. destruct (working cs) as [[cc mm]|]; [|discriminate].
    destruct (nth_error (classes cs) s) as [[sc sm]|]; inversion H; reflexivity.
  - destruct (working cs) as [[c mm]|]; inversion H; reflexivity.
  - destruct (working cs) as [[c mm]|]; inversion H; reflexivity.
  - contradiction.
Qed.

Lemma def_op_kind : forall k n m, def_op (n, static_of_kind k, m) = op_of_kind k n m.
Proof. destruct k; reflexivity. Qed.

Lemma define_methods_spec : forall rho supv i ms st defs st' defs',
  define_methods rho supv i ms st defs = Ok (st', defs') ->
  hist st' = hist st /\
  exists nd, defs' = (defs ++ nd)%list /\ run_cops (mstore st) (map def_op nd) = Ok (mstore st') /\
  (forall f cl, nth_error (closures st') f = Some cl -> nth_error (closures st) f = Some cl \/
                (cl_super cl = supv /\ cl_owner cl = Some i)).
Proof.
  induction ms as [|[k n ps body lab] r IH]; intros st defs st' defs' H; simpl in H.
  - inversion H; subst. split; auto. exists []. rewrite app_nil_r. repeat split; auto.
  - destruct (run_cop (mstore st) (op_of_kind k n (MClosure (List.length (closures st))))) as [cs|e m|w] eqn:E;
      try discriminate.
    apply IH in H. destruct H as [Hh [nd [Hd [Hr Hc]]]]. simpl in Hh. split; auto.
    exists ((n, static_of_kind k, MClosure (List.length (closures st))) :: nd). split; [|split].
    + rewrite Hd. rewrite <- app_assoc. reflexivity.
    + cbn [map run_cops]. rewrite def_op_kind. rewrite E. cbn [rbind]. exact Hr.
    + intros f cl Hf. destruct (Hc f cl Hf) as [Hold|Hnew]; auto. simpl in Hold.
      destruct (Nat.lt_ge_cases f (List.length (closures st))) as [Hlt|Hge].
      * left. rewrite nth_error_app1 in Hold; auto.
      * rewrite nth_error_app2 in Hold by auto. destruct (f - List.length (closures st)) as [|j]; [|destruct j; discriminate].
        simpl in Hold. inversion Hold; subst cl. right. auto.
Qed.

Lemma run_cops_app : forall a b cs, run_cops cs (a ++ b) = rbind (run_cops cs a) (fun cs' => run_cops cs' b).
Proof.
  induction a as [|op r IH]; intros b cs; simpl; auto.
  destruct (run_cop cs op); simpl; auto.
Qed.

Lemma run_cops_classes : forall ops cs cs', run_cops cs ops = Ok cs' -> (forall op, In op ops -> op <> ODefine) ->
  classes cs' = classes cs.
Proof.
  induction ops as [|op r IH]; intros cs cs' H Hno; simpl in H.
  - inversion H; reflexivity.
  - destruct (run_cop cs op) as [cs1|?|?] eqn:E; simpl in H; try discriminate.
    rewrite (IH cs1 cs' H) by (intros; apply Hno; right; auto).
    apply (run_cop_classes cs op cs1 E). apply Hno. left; auto.
Qed.

Lemma def_ops_no_define : forall defs op, In op (map def_op defs) -> op <> ODefine.
Proof.
  intros defs op H. apply in_map_iff in H. destruct H as [[[n st] m] [Hd _]]. subst. destruct st; discriminate.
Qed.

Lemma tables_agree_working : forall h cl w w', tables_agree h (mkCS cl w) -> tables_agree h (mkCS cl w').
Proof. intros h cl w w' H. exact H. Qed.

(* a closure is consistent with the history: its captured `super` is the declared superclass of its owner *)
Definition closure_sup_ok (h : list cdef) (cl : closure) : Prop :=
  match cl_owner cl with
  | Some o => forall d, nth_error h o = Some d -> cl_super cl = option_map VClass (d_super d)
  | None => True
  end.

Lemma exec_class_inv : forall S c st cd st' o, Inv st -> (S = sem_mech \/ S = sem_spec) ->
  exec_class S c st cd = (st', o) ->
  Inv st' /\
  (* the definition appends at most one entry, and the closures it creates capture the declared superclass *)
  (hist st' = hist st \/
   exists d, hist st' = (hist st ++ [d])%list /\
     forall f cl, nth_error (closures st') f = Some cl ->
       nth_error (closures st) f = Some cl \/
       (cl_owner cl = Some (List.length (hist st)) /\ cl_super cl = option_map VClass (d_super d))).
Proof.
  intros S c st [name sup defctor ms label] st' o HI Hcid H. unfold exec_class in H.
  destruct (declare c st name VNil) as [st1 rho] eqn:Ed.
  destruct (declare_hm _ _ _ _ _ _ Ed) as [Hh1 [Hm1 Hc1]].
  assert (Hi : s_next_cid S st1 = List.length (hist st)).
  { (* next_cid reads only hist / mstore *)
    destruct HI as [_ [Hlen _]]. destruct Hcid; subst S; simpl; rewrite ?Hm1, ?Hh1; auto. }
  cbn [run_cop of_res] in H.
  set (cs1 := mkCS (classes (mstore st1)) _) in H.
  set (st2 := set_mstore st1 cs1) in H.
  assert (HI2 : Inv st2).
  { apply (Inv_ext st); auto. simpl. rewrite Hm1. reflexivity. }
  (* the common tail *)
  assert (Tail : forall (st3 : state) (supv : option value) (s : option nat) r,
     hist st3 = hist st -> classes (mstore st3) = classes (mstore st) -> closures st3 = closures st ->
     (exists c0 m0, working (mstore st3) = Some (c0, m0) /\
        run_cops (mstore st) ([ODeclare name] ++ match s with Some s' => [OInherit (VClass s')] | None => [] end) = Ok (mstore st3)) ->
     (forall s', s = Some s' -> s' < List.length (hist st)) ->
     supv = option_map VClass s ->
     (let '(st4, defs0) :=
          match defctor with
          | Some cn =>
            let '(st', f) := new_closure st3 (mkCl cn KInit [] [] rho supv (Some (s_next_cid S st1)) label) in
            match run_cop (mstore st') (OStaticMethod cn (MClosure f)) with
            | Ok cs' => (set_mstore st' cs', [(cn, true, MClosure f)])
            | _ => (st', [])
            end
          | None => (st3, [])
          end in
        of_res (define_methods rho supv (s_next_cid S st1) ms st4 defs0) (fun sd =>
          let '(st5, defs) := sd in
          of_res (run_cop (mstore st5) ODefine) (fun cs' =>
            let st6 := set_hist (set_mstore st5 cs') (hist st5 ++ [mkDef name s defs]) in
            of_res (assign rho st6 name (VClass (s_next_cid S st1))) (fun st7 => (st7, RNext rho)) st6) st5) st4) = r ->
     Inv (fst r) /\
     (hist (fst r) = hist st \/
      exists d, hist (fst r) = (hist st ++ [d])%list /\
        forall f cl, nth_error (closures (fst r)) f = Some cl ->
          nth_error (closures st) f = Some cl \/
          (cl_owner cl = Some (List.length (hist st)) /\ cl_super cl = option_map VClass (d_super d)))).
  { intros st3 supv s r Hh3 Hc3 Hcl3 [c0 [m0 [Hw3 Hrun3]]] Hs Hsupv Hr. rewrite Hi in Hr.
    (* default constructor *)
    assert (Hdc : exists st4 defs0,
       (match defctor with
        | Some cn =>
          let '(st', f) := new_closure st3 (mkCl cn KInit [] [] rho supv (Some (List.length (hist st))) label) in
          match run_cop (mstore st') (OStaticMethod cn (MClosure f)) with
          | Ok cs' => (set_mstore st' cs', [(cn, true, MClosure f)])
          | _ => (st', [])
          end
        | None => (st3, [])
        end) = (st4, defs0) /\ hist st4 = hist st /\
       run_cops (mstore st3) (map def_op defs0) = Ok (mstore st4) /\
       (forall f cl, nth_error (closures st4) f = Some cl -> nth_error (closures st) f = Some cl \/
                     (cl_super cl = supv /\ cl_owner cl = Some (List.length (hist st))))).
    { destruct defctor as [cn|].
      - simpl. rewrite Hw3. simpl. eexists. eexists. split; [reflexivity|]. simpl. split; auto. split.
        + rewrite Hw3. reflexivity.
        + intros f cl Hf. rewrite Hcl3 in Hf.
          destruct (Nat.lt_ge_cases f (List.length (closures st))) as [Hlt|Hge].
          * left. rewrite nth_error_app1 in Hf; auto.
          * rewrite nth_error_app2 in Hf by auto. destruct (f - List.length (closures st)) as [|j]; [|destruct j; discriminate].
            simpl in Hf. inversion Hf; subst cl. right. auto.
      - exists st3, []. split; auto. split; auto. split; [reflexivity|]. intros f cl Hf. left. rewrite <- Hcl3. auto. }
    destruct Hdc as [st4 [defs0 [Edc [Hh4 [Hrun4 Hcl4]]]]]. rewrite Edc in Hr.
    destruct (define_methods rho supv (List.length (hist st)) ms st4 defs0) as [[st5 defs]|e m|w] eqn:Edm.
    2,3: (simpl in Hr; subst r; simpl; split; [|left; auto];
          apply (Inv_ext st); auto; rewrite <- Hc3;
          apply (run_cops_classes _ _ _ Hrun4); apply def_ops_no_define).
    destruct (define_methods_spec _ _ _ _ _ _ _ _ Edm) as [Hh5 [nd [Hdefs [Hrun5 Hcl5]]]].
    simpl in Hr.
    (* the whole op sequence is define_class *)
    set (d := mkDef name s defs).
    assert (Hall : run_cops (mstore st) (ops_of_def d) = rbind (Ok (mstore st5)) (fun cs => run_cop cs ODefine)).
    { unfold ops_of_def. subst d. cbn [d_name d_super d_defs].
      rewrite app_assoc. rewrite run_cops_app. rewrite Hrun3. cbn [rbind].
      rewrite Hdefs. rewrite map_app. rewrite <- app_assoc. rewrite run_cops_app. rewrite Hrun4. cbn [rbind].
      rewrite run_cops_app. rewrite Hrun5. cbn [rbind run_cops]. destruct (run_cop (mstore st5) ODefine); reflexivity. }
    assert (Hwfd : wf_hist (hist st ++ [d])).
    { destruct HI as [[H0 Hw] _]. split.
      - destruct (hist st); simpl in *; [discriminate|auto].
      - intros i0 d0 s0 Hi0 Hs0. destruct (Nat.lt_ge_cases i0 (List.length (hist st))) as [Hlt|Hge].
        + rewrite nth_error_app1 in Hi0 by auto. eapply Hw; eauto.
        + rewrite nth_error_app2 in Hi0 by auto. destruct (i0 - List.length (hist st)) as [|j] eqn:Ej; [|destruct j; discriminate].
          simpl in Hi0. inversion Hi0; subst d0. simpl in Hs0. pose proof (Hs s0 Hs0). lia. }
    assert (Hne : hist st <> []) by (destruct HI as [[H0 _] _]; destruct (hist st); [discriminate|discriminate]).
    destruct HI as [Hwf Hag].
    destruct (define_class_agrees (hist st) d (mstore st) Hne Hwf Hwfd Hag) as [csF [HdF HagF]].
    unfold define_class in HdF. rewrite Hall in HdF. simpl in HdF. rewrite HdF in Hr. simpl in Hr.
    set (st6 := set_hist (set_mstore st5 csF) (hist st5 ++ [mkDef name s defs])) in Hr.
    assert (HI6 : Inv st6).
    { unfold Inv, st6. simpl. rewrite Hh5, Hh4. fold d. split; auto. }
    assert (Hcl6 : forall f cl, nth_error (closures st6) f = Some cl ->
              nth_error (closures st) f = Some cl \/
              (cl_owner cl = Some (List.length (hist st)) /\ cl_super cl = option_map VClass (d_super d))).
    { intros f cl Hf. simpl in Hf. destruct (Hcl5 f cl Hf) as [Hold|[Hs5 Ho5]].
      - destruct (Hcl4 f cl Hold) as [Hold'|[Hs4 Ho4]]; auto. right. split; auto. rewrite Hs4. exact Hsupv.
      - right. split; auto. rewrite Hs5. exact Hsupv. }
    destruct (assign rho st6 name (VClass (List.length (hist st)))) as [st7|e m|w] eqn:Ea; simpl in Hr; subst r; simpl.
    + destruct (assign_hm _ _ _ _ _ Ea) as [Hh7 [Hm7 Hc7]]. split.
      * apply (Inv_ext st6); auto. rewrite Hm7. reflexivity.
      * right. exists d. split; [rewrite Hh7; simpl; rewrite Hh5, Hh4; reflexivity|]. rewrite Hc7. exact Hcl6.
    + split; auto. right. exists d. split; [simpl; rewrite Hh5, Hh4; reflexivity|exact Hcl6].
    + split; auto. right. exists d. split; [simpl; rewrite Hh5, Hh4; reflexivity|exact Hcl6]. }
  destruct sup as [sn|].
  - destruct (lookup_var (mkCtx rho (c_local c) (c_super c) (c_owner c) (c_slot0 c) (c_depth c)) st2 sn) as [v|e m|w] eqn:El;
      simpl in H; try (inversion H; subst; split; [exact HI2|left; simpl; auto]).
    destruct v as [| | | | s | | | |];
      try (simpl in H; inversion H; subst; split; [exact HI2|left; simpl; auto]).
    cbn [run_cop] in H. unfold st2 at 1 2 in H. cbn [mstore set_mstore working classes cs1] in H.
    destruct (nth_error (classes (mstore st1)) s) as [[sc sm]|] eqn:Es;
      [|simpl in H; inversion H; subst; split; [exact HI2|left; simpl; auto]].
    cbn [of_res] in H.
    assert (Hsl : s < List.length (hist st)).
    { destruct HI as [_ [Hlen _]]. rewrite <- Hlen. rewrite <- Hm1. apply nth_error_Some. congruence. }
    match type of H with ?lhs = _ => destruct (Tail (set_mstore st2 (mkCS (classes (mstore st1)) (Some
         (set_methods (set_super (objclass_new (CUser (List.length (classes (mstore st1)))) name CBaseMeta (object_of (mstore st1)) []) (Some (cid sc)))
            (tbl_insert_all (methods sc) (methods (objclass_new (CUser (List.length (classes (mstore st1)))) name CBaseMeta (object_of (mstore st1)) []))),
          objclass_new (CMeta (List.length (classes (mstore st1)))) (name ++ "Class") CBaseMeta (object_of (mstore st1)) []))))
         (Some (VClass s)) (Some s) lhs) as [T1 T2] end; auto.
    + simpl. rewrite Hm1. reflexivity.
    + eexists. eexists. split; [reflexivity|]. simpl. rewrite <- Hm1. rewrite Es. reflexivity.
    + intros s' Hs'. inversion Hs'; subst. exact Hsl.
    + rewrite H in T1, T2. simpl in T1, T2. split; auto.
  - match type of H with ?lhs = _ => destruct (Tail st2 None None lhs) as [T1 T2] end; auto.
    + simpl. rewrite Hm1. reflexivity.
    + eexists. eexists. split; [reflexivity|]. simpl. rewrite <- Hm1. reflexivity.
    + intros s' Hs'. discriminate.
    + rewrite H in T1, T2. simpl in T1, T2. split; auto.
Qed.

(* ---------- examples: the hypotheses are satisfiable, the statements are not vacuous ---------- *)
Definition ex_hier : prog := [
  SClass (CDecl "A" None None [
     MDecl KInit "new" [] [SPrint (EStr "A.new"); SSetField ESelf "fa" (ENum 1)] 2;
     MDecl KMethod "m" [] [SPrint (EStr "A.m"); SReturn (Some ESelf)] 3;
     MDecl KStatic "s" [] [SPrint ECapSelf] 4] 1);
  SClass (CDecl "B" (Some "A") None [
     MDecl KInit "new" [] [SPrint (EStr "B.new")] 6;
     MDecl KMethod "m" [] [SPrint (EStr "B.m"); SReturn (Some (ESuperInvoke "m" []))] 7] 5);
  SClass (CDecl "C" (Some "B") (Some "new") [] 8);
  SClass (CDecl "D" (Some "A") None [
     MDecl KInit "new" [] [SPrint (EStr "D.new"); SExpr (ESuperInvoke "new" [])] 10] 9)].

(* C's default initialiser runs neither B's nor A's; B's explicit one runs A's only if it says so (D does) *)
Example no_implicit_super_init_ex :
  show_outcome (eval_mech (ex_hier ++ [SVar "c" (EInvoke (EVar "C") "new" []); STry [SPrint (EGet (EVar "c") "fa")];
                                       SVar "b" (EInvoke (EVar "B") "new" []);
                                       SVar "d" (EInvoke (EVar "D") "new" []); SPrint (EGet (EVar "d") "fa")])%list)
  = "<class AttributeError>~Undefined property 'fa'.~B.new~D.new~A.new~1#ok".
Proof. vm_compute. reflexivity. Qed.

(* three levels with a middle override: the instance of C dispatches to B.m, whose `super.m` is A.m also after the
   global name A has been rebound; Self is the invoking class; the method value stays bound *)
Example dispatch_ex :
  show_outcome (eval_mech (ex_hier ++ [SVar "c" (EInvoke (EVar "C") "new" []);
                                       SVar "f" (EGet (EVar "c") "m");
                                       SAssign "A" (EVar "D");
                                       SPrint (EEq (ECall (EVar "f") []) (EVar "c"));
                                       SExpr (EInvoke (EVar "c") "s" []);
                                       SExpr (EInvoke (EVar "B") "s" [])])%list)
  = "B.m~A.m~true~<class C>#err:AttributeError:Undefined property 's'.".
Proof. vm_compute. reflexivity. Qed.

Definition ex_known : prog := (ex_hier ++ [
  SClass (CDecl "E" (Some "A") (Some "new") [
     MDecl KMethod "m" [] [SFun "inner" [] [SReturn (Some (ESuperInvoke "m" []))] 0;
                           SReturn (Some (ECall (EVar "inner") []))] 12] 11);
  SVar "e" (EInvoke (EVar "E") "new" []);
  SPrint (EEq (EInvoke (EVar "e") "m" []) (EVar "e"))])%list.

(* the known class: M (as the implementation) passes the nested closure as receiver, S the method's self *)
Theorem eval_mech_eq_spec_refuted_in_known_class :
  exists p, known_class p = true /\ show_outcome (eval_mech p) <> show_outcome (eval_spec p).
Proof. exists ex_known. split; [vm_compute; reflexivity|]. vm_compute. discriminate. Qed.

Definition sample_programs : list prog := [
  ex_hier;
  (ex_hier ++ [SVar "c" (EInvoke (EVar "C") "new" []); SExpr (EInvoke (EVar "c") "m" []);
               SVar "f" (EGet (EVar "c") "m"); SExpr (ECall (EVar "f") []);
               STry [SExpr (EInvoke (EVar "c") "m" [ENum 1])]; STry [SExpr (EInvoke (EVar "c") "zz" [])];
               STry [SExpr (ECall (EVar "C") [])]; STry [SSetField (EVar "C") "q" (ENum 1)];
               STry [SClass (CDecl "Z" (Some "c") None [] 20)];
               SPrint (EInvoke (EVar "c") "derives" [EVar "A"]); SPrint (EInvoke (EVar "c") "derives" [EVar "D"]);
               SPrint (EInvoke (EVar "C") "derives" [EVar "Object"]); SPrintType (EVar "c"); SPrintType (EVar "C");
               SSetField (EVar "c") "m" (ENum 3); STry [SExpr (EInvoke (EVar "c") "m" [])];
               SExpr (EInvoke (EVar "c") "s" []); SAssign "A" ENil;
               SVar "d" (EInvoke (EVar "D") "new" [])])%list;
  [SFun "mk" ["t"] [SClass (CDecl "L" None (Some "new") [MDecl KMethod "m" [] [SPrint (EVar "t")] 2] 1);
                    SFun "get" [] [SReturn (Some (EVar "L"))] 0; SReturn (Some (EVar "get"))] 0;
   SVar "g" (ECall (EVar "mk") [EStr "cap"]); SVar "K" (ECall (EVar "g") []);
   SExpr (EInvoke (EInvoke (EVar "K") "new" []) "m" [])]].

Example sample_programs_agree :
  forallb (fun p => String.eqb (show_outcome (eval_mech p)) (show_outcome (eval_spec p))
                    && String.eqb (show_outcome (eval_mech (meta_prog p))) (show_outcome (eval_mech p))) sample_programs = true.
Proof. vm_compute. reflexivity. Qed.

(* T eval_mech_eq_spec_partial.
   FULL statement (not proved):  forall p, known_class p = false -> eval_mech p = eval_spec p.
   Proved: the invariant `Inv` (M's tables are the copy-down of the declared history) holds initially and is
   preserved by the only step that changes either component (a class definition, under either semantics), the
   closures a definition creates capture exactly the declared superclass, and on every state satisfying `Inv` every
   operation in which the two evaluators differ returns the same result.  Missing: the induction over `ev` that
   threads these facts through all other (shared) evaluation steps, and the syntactic side condition that a `super`
   access is never evaluated in the frame of a nested function.  Tested instead by vm_compute (above and by the
   check, on every generated program). *)
Theorem eval_mech_eq_spec_partial :
  Inv st0 /\
  (forall S c st cd st' o, Inv st -> (S = sem_mech \/ S = sem_spec) -> exec_class S c st cd = (st', o) ->
     Inv st' /\
     (hist st' = hist st \/
      exists d, hist st' = (hist st ++ [d])%list /\
        forall f cl, nth_error (closures st') f = Some cl ->
          nth_error (closures st) f = Some cl \/
          (cl_owner cl = Some (List.length (hist st)) /\ cl_super cl = option_map VClass (d_super d)))) /\
  (forall st, Inv st ->
     (forall recv n, s_get sem_mech st recv n = s_get sem_spec st recv n) /\
     (forall recv n argc, s_invoke sem_mech st recv n argc = s_invoke sem_spec st recv n argc) /\
     (forall c n argc, ctx_ok st c -> s_super_get sem_mech st c n = s_super_get sem_spec st c n /\
                                      s_super_invoke sem_mech st c n argc = s_super_invoke sem_spec st c n argc) /\
     (forall r q, s_derives sem_mech st r q = s_derives sem_spec st r q) /\
     s_next_cid sem_mech st = s_next_cid sem_spec st /\
     (forall r, s_cname sem_mech st r = s_cname sem_spec st r)).
Proof.
  split; [exact Inv_st0|]. split; [exact exec_class_inv|exact sem_ops_agree].
Qed.

Print Assumptions copydown_eq_chainwalk.
Print Assumptions invoke_eq_get_then_call.
Print Assumptions bound_method_keeps_receiver.
Print Assumptions super_is_declared_superclass.
Print Assumptions static_self_is_invoking_class.
Print Assumptions derives_iff_ancestor.
Print Assumptions constructor_returns_instance.
Print Assumptions no_implicit_super_init.
Print Assumptions class_errors_table.
Print Assumptions eval_mech_eq_spec_partial.
Print Assumptions eval_mech_eq_spec_refuted_in_known_class.
