(* Collect.v -- executable model of `Heap::collect` (memory.rs:391-461) and of the reachability
   relations it is compared with.  Definitions only (proofs: CollectProofs.v).

   The Rust recursion `GcBox::mark -> data.mark() -> Gc::mark -> GcBox::mark ...` (and likewise for
   blacken) is a depth-first traversal.  It is modelled by an explicit stack of pending calls,
   processed front first, children pushed in field order: the very same sequence of colour
   updates.  Every processed call costs one unit of fuel; out of fuel = `None` (the Rust code would
   still be running, or have overflowed the host stack).

   A call on an address that is not in the heap (a dangling Gc) is a no-op in the model; in Rust
   it is undefined behaviour. *)
From Coq Require Import List NArith Bool Arith FSets.FMapPositive.
From Coq Require String.
From YV Require Import Show Heap.
Import ListNotations.
Open Scope list_scope.

Inductive colour : Type := White | Grey | Black.

Definition is_grey (c : colour) : bool := match c with Grey => true | _ => false end.
Definition is_black (c : colour) : bool := match c with Black => true | _ => false end.
Definition is_white (c : colour) : bool := match c with White => true | _ => false end.

(* colour of every box; absent = White (what `unmark` leaves) *)
Definition cmap := PositiveMap.t colour.
Definition cempty : cmap := PositiveMap.empty colour.
Definition cget (c : cmap) (a : addr) : colour :=
  match PositiveMap.find (N.succ_pos a) c with Some x => x | None => White end.
Definition cset (a : addr) (x : colour) (c : cmap) : cmap := PositiveMap.add (N.succ_pos a) x c.

(* a pending call *)
Inductive item : Type :=
| IMark (a : addr)      (* GcBox::mark    (memory.rs:62-70)  *)
| IBlacken (a : addr)   (* GcBox::blacken (memory.rs:72-80)  *)
| IVisit (a : addr).    (* one iteration of the filter/map in trace_references (memory.rs:436-441) *)

Section Collector.
  Variables marks blackens_black blackens_mark : kind -> role -> bool.

  (* data.mark(): one `mark` call per traced field *)
  Definition mark_children (o : obj) : list item :=
    flat_map (fun e => if marks (okind o) (fst e) then [IMark (snd e)] else []) (oedges o).

  (* data.blacken(): per field a `blacken` call, or (ObjBoundMethod.receiver) a `mark` call *)
  Definition blacken_children (o : obj) : list item :=
    flat_map (fun e => (if blackens_mark (okind o) (fst e) then [IMark (snd e)] else [])
                       ++ (if blackens_black (okind o) (fst e) then [IBlacken (snd e)] else []))
             (oedges o).

  (* one call: new pending calls, new colours, "a Grey box was met by the pass" *)
  Definition step (h : heap) (it : item) (c : cmap) : list item * cmap * bool :=
    match it with
    | IMark a =>
        match lookup h a with
        | None => ([], c, false)
        | Some o => if is_grey (cget c a) then ([], c, false)
                    else (mark_children o, cset a Grey c, false)
        end
    | IBlacken a =>
        match lookup h a with
        | None => ([], c, false)
        | Some o => if is_black (cget c a) then ([], c, false)
                    else (blacken_children o, cset a Black c, false)
        end
    | IVisit a => if is_grey (cget c a) then ([IBlacken a], c, true) else ([], c, false)
    end.

  Fixpoint run (fuel : nat) (h : heap) (st : list item) (c : cmap) (found : bool)
    : option (cmap * bool) :=
    match st with
    | [] => Some (c, found)
    | it :: rest =>
        match fuel with
        | O => None
        | S f => let '(new, c', g) := step h it c in run f h (new ++ rest) c' (found || g)
        end
    end.

  Definition root_addrs (h : heap) : list addr :=
    map fst (filter (fun p => rooted (snd p)) h).

  (* mark_roots (memory.rs:419-426): unmark everything, then mark each box with num_roots > 0,
     in allocation order *)
  Definition mark_roots (sf : nat) (h : heap) : option cmap :=
    option_map fst (run sf h (map IMark (root_addrs h)) cempty false).

  (* one execution of the body of the `while` in trace_references: returns the new colours and
     whether the count of Grey boxes met was positive *)
  Definition pass (sf : nat) (h : heap) (c : cmap) : option (cmap * bool) :=
    run sf h (map IVisit (addrs h)) c false.

  Fixpoint trace_loop (pf sf : nat) (h : heap) (c : cmap) : option cmap :=
    match pf with
    | O => None
    | S p => match pass sf h c with
             | None => None
             | Some (c', fnd) => if fnd then trace_loop p sf h c' else Some c'
             end
    end.

  (* trace_references (memory.rs:428-443): initial count, then the loop *)
  Definition trace_references (pf sf : nat) (h : heap) (c : cmap) : option cmap :=
    if existsb (fun a => is_grey (cget c a)) (addrs h) then trace_loop pf sf h c else Some c.

  Definition final_colours (sf pf : nat) (h : heap) : option cmap :=
    match mark_roots sf h with
    | None => None
    | Some c => trace_references pf sf h c
    end.

  (* sweep (memory.rs:445-461): bytes of White boxes are reported, exactly the Black boxes stay *)
  Definition sweep (h : heap) (c : cmap) : heap := filter (fun p => is_black (cget c (fst p))) h.
  Definition white_bytes (h : heap) (c : cmap) : N :=
    total_size (filter (fun p => is_white (cget c (fst p))) h).

  Definition collect_with (sf pf : nat) (h : heap) : option heap :=
    option_map (sweep h) (final_colours sf pf h).
  Definition freed_with (sf pf : nat) (h : heap) : option N :=
    option_map (white_bytes h) (final_colours sf pf h).

  (* default fuel.  3n+E calls per phase and 2 passes are proved sufficient when blacken never
     marks; the defaults are more generous for the benefit of heaps with re-greying. *)
  Definition step_fuel (h : heap) : nat := 8 * (length h + total_edges h) + 8.
  Definition pass_fuel (h : heap) : nat := 2 * length h + 4.

  Definition collect_opt (h : heap) : option heap := collect_with (step_fuel h) (pass_fuel h) h.
  Definition freed_opt (h : heap) : option N := freed_with (step_fuel h) (pass_fuel h) h.
  (* total version: an out-of-fuel run leaves the heap as it is *)
  Definition collect (h : heap) : heap := match collect_opt h with Some h' => h' | None => h end.

  (* ---- reachability ---- *)

  Definition follows_any (k : kind) (r : role) : bool :=
    marks k r || blackens_black k r || blackens_mark k r.

  Inductive reach (follow : kind -> role -> bool) (h : heap) : addr -> Prop :=
  | reach_root : forall a o, lookup h a = Some o -> rooted o = true -> reach follow h a
  | reach_edge : forall a o r t,
      reach follow h a -> lookup h a = Some o -> In (r, t) (oedges o) ->
      follow (okind o) r = true -> in_heapb h t = true -> reach follow h t.

  Definition reach_marks : heap -> addr -> Prop := reach marks.
  Definition reach_any : heap -> addr -> Prop := reach follows_any.

  (* executable closure: iterate "add the successors of every member" [length h] times *)
  Fixpoint add_all (s : list addr) (ts : list addr) : list addr :=
    match ts with
    | [] => s
    | t :: r => add_all (if mem_addr t s then s else s ++ [t]) r
    end.

  Definition succs (follow : kind -> role -> bool) (h : heap) (a : addr) : list addr :=
    match lookup h a with
    | None => []
    | Some o => map snd (filter (fun e => follow (okind o) (fst e) && in_heapb h (snd e)) (oedges o))
    end.

  Definition expand (follow : kind -> role -> bool) (h : heap) (s : list addr) : list addr :=
    add_all s (flat_map (succs follow h) s).

  Fixpoint iter_n {A} (n : nat) (f : A -> A) (x : A) : A :=
    match n with O => x | S m => iter_n m f (f x) end.

  Definition closure (follow : kind -> role -> bool) (h : heap) : list addr :=
    iter_n (length h) (expand follow h) (add_all [] (root_addrs h)).

  Definition closure_marks (h : heap) : list addr := closure marks h.
  Definition closure_any (h : heap) : list addr := closure follows_any h.

  (* survivor set in allocation order; [None] = the collector did not finish *)
  Definition survivors_opt (h : heap) : option (list addr) := option_map addrs (collect_opt h).
End Collector.

(* ---- correspondence-check interface ---- *)

(* survivor ids for a heap snapshot under the given tables *)
Definition survivors (marks bb bm : kind -> role -> bool) (h : heap) : list addr :=
  match survivors_opt marks bb bm h with Some l => l | None => [] end.

Import String.
Definition show_survivors (l : list addr) : String.string := show_list show_N l.

Definition show_survivors_opt (o : option (list addr)) : String.string :=
  match o with Some l => show_survivors l | None => "DIVERGES"%string end.

(* a snapshot written with numerals: (id, kind number, num_roots, size, [(role number, target)]) *)
Definition snap_obj := (N * N * nat * N * list (N * N))%type.
Definition heap_of_snapshot (s : list snap_obj) : heap :=
  map (fun x => let '(a, k, n, sz, es) := x in
                (a, mkObj (kind_of_N k) n (map (fun e => (role_of_N (fst e), snd e)) es) sz)) s.

Definition run_collect_case (marks bb bm : kind -> role -> bool) (s : list snap_obj) : String.string :=
  show_survivors_opt (survivors_opt marks bb bm (heap_of_snapshot s)).

(* the harness observes the `mark`-closure edges directly: with every observed edge traced by
   both mark and blacken (role numbers are then irrelevant) *)
Definition all_traced (_ : kind) (_ : role) : bool := true.
Definition none_traced (_ : kind) (_ : role) : bool := false.
Definition run_collect_case_observed (s : list snap_obj) : String.string :=
  run_collect_case all_traced all_traced none_traced s.
