(* CollectExt.v -- the collector model depends on its three tables only pointwise, and decidable
   comparisons between tables.  Used by props/C01.v to carry statements proved for the hand-transcribed
   tables (HeapTablesRef.v) over to the tables regenerated from the Rust sources (gen/GcTables.v). *)
From Coq Require Import List NArith Bool Arith Lia.
From YV Require Import Heap HeapTablesRef Collect CollectProofs.
Import ListNotations.
Open Scope list_scope.

Definition tables_eqb (t1 t2 : kind -> role -> bool) : bool :=
  forallb (fun p => let '(k, r) := p in Bool.eqb (t1 k r) (t2 k r)) all_pairs.

(* t1 is contained in t2 *)
Definition tables_leb (t1 t2 : kind -> role -> bool) : bool :=
  forallb (fun p => let '(k, r) := p in implb (t1 k r) (t2 k r)) all_pairs.

(* the pairs where a table is true, in the order of [all_pairs] *)
Definition table_pairs (t : kind -> role -> bool) : list (kind * role) :=
  filter (fun p => let '(k, r) := p in t k r) all_pairs.

Definition holds_eqb (h1 h2 : kind -> list role) : bool :=
  forallb (fun k => forallb (fun r => role_mem r (h2 k)) (h1 k) && forallb (fun r => role_mem r (h1 k)) (h2 k))
          all_kinds.

Definition pair_mem (p : kind * role) (l : list (kind * role)) : bool :=
  existsb (fun q => kind_eqb (fst p) (fst q) && role_eqb (snd p) (snd q)) l.

(* pinned, plus the listed exceptions (known open classes) *)
Definition pinned_plus (pinned : kind -> role -> bool) (open : list (kind * role)) (k : kind) (r : role) : bool :=
  pinned k r || pair_mem (k, r) open.

Lemma tables_eqb_spec t1 t2 : tables_eqb t1 t2 = true -> forall k r, t1 k r = t2 k r.
Proof.
  unfold tables_eqb. rewrite forallb_forall. intros H k r.
  specialize (H (k, r) (all_pairs_complete k r)). simpl in H. now apply eqb_prop.
Qed.

Lemma tables_leb_spec t1 t2 : tables_leb t1 t2 = true -> forall k r, t1 k r = true -> t2 k r = true.
Proof.
  unfold tables_leb. rewrite forallb_forall. intros H k r E.
  specialize (H (k, r) (all_pairs_complete k r)). simpl in H. now rewrite E in H.
Qed.

Section Ext.
  Variables m1 b1 g1 m2 b2 g2 : kind -> role -> bool.
  Hypothesis Hm : forall k r, m1 k r = m2 k r.
  Hypothesis Hb : forall k r, b1 k r = b2 k r.
  Hypothesis Hg : forall k r, g1 k r = g2 k r.

  Lemma flat_map_ext' {A B} (f g : A -> list B) l : (forall x, f x = g x) -> flat_map f l = flat_map g l.
  Proof. intros E. induction l as [|x l IH]; simpl; [reflexivity|]. now rewrite E, IH. Qed.

  Lemma mark_children_ext o : mark_children m1 o = mark_children m2 o.
  Proof. unfold mark_children. apply flat_map_ext'. intros e. now rewrite Hm. Qed.

  Lemma blacken_children_ext o : blacken_children b1 g1 o = blacken_children b2 g2 o.
  Proof. unfold blacken_children. apply flat_map_ext'. intros e. now rewrite Hb, Hg. Qed.

  Lemma step_ext h it c : step m1 b1 g1 h it c = step m2 b2 g2 h it c.
  Proof.
    destruct it as [a|a|a]; simpl; [| |reflexivity];
      destruct (lookup h a) as [o|]; try reflexivity.
    - now rewrite mark_children_ext.
    - now rewrite blacken_children_ext.
  Qed.

  Lemma run_ext h : forall fuel st c f, run m1 b1 g1 fuel h st c f = run m2 b2 g2 fuel h st c f.
  Proof.
    induction fuel as [|fuel IH]; intros st c f; destruct st as [|it rest]; simpl; try reflexivity.
    rewrite step_ext. destruct (step m2 b2 g2 h it c) as [[new c'] g]. apply IH.
  Qed.

  Lemma trace_loop_ext h sf : forall pf c, trace_loop m1 b1 g1 pf sf h c = trace_loop m2 b2 g2 pf sf h c.
  Proof.
    induction pf as [|pf IH]; intros c; simpl; [reflexivity|].
    unfold pass. rewrite run_ext.
    destruct (run m2 b2 g2 sf h (map IVisit (addrs h)) c false) as [[c' fnd]|]; [|reflexivity].
    destruct fnd; [apply IH | reflexivity].
  Qed.

  Lemma final_colours_ext sf pf h : final_colours m1 b1 g1 sf pf h = final_colours m2 b2 g2 sf pf h.
  Proof.
    unfold final_colours, mark_roots. rewrite run_ext.
    destruct (run m2 b2 g2 sf h (map IMark (root_addrs h)) cempty false) as [[c f]|]; simpl; [|reflexivity].
    unfold trace_references. destruct (existsb _ _); [apply trace_loop_ext | reflexivity].
  Qed.

  Theorem collect_with_ext sf pf h : collect_with m1 b1 g1 sf pf h = collect_with m2 b2 g2 sf pf h.
  Proof. unfold collect_with. now rewrite final_colours_ext. Qed.
End Ext.

(* a collector whose tables are, pointwise, today's reference tables can fail to terminate *)
Theorem collect_terminates_refuted_ext marks bb bm :
  tables_eqb marks marks_ref = true -> tables_eqb bb blackens_black_ref = true ->
  tables_eqb bm blackens_mark_ref = true ->
  exists h, wf h /\ forall sf pf, collect_with marks bb bm sf pf h = None.
Proof.
  intros E1 E2 E3. exists loop_heap. split; [apply wfb_wf; vm_compute; reflexivity|].
  intros sf pf.
  rewrite (collect_with_ext _ _ _ _ _ _ (tables_eqb_spec _ _ E1) (tables_eqb_spec _ _ E2) (tables_eqb_spec _ _ E3)).
  apply loop_heap_diverges.
Qed.
Print Assumptions collect_terminates_refuted_ext.
