(* CollectProofs.v -- theorems about the collector model of Collect.v *)
From Coq Require Import List NArith Bool Arith Lia FSets.FMapPositive.
From YV Require Import Heap HeapTablesRef Collect.
Import ListNotations.
Open Scope list_scope.

(* ------------------------------------------------------------------ *)
(* colour maps and heaps                                               *)

Lemma succ_pos_inj a b : N.succ_pos a = N.succ_pos b -> a = b.
Proof.
  intros H. apply N.succ_inj. rewrite <- !N.succ_pos_spec. now rewrite H.
Qed.

Lemma cget_cset_same a x c : cget (cset a x c) a = x.
Proof. unfold cget, cset. now rewrite PositiveMap.gss. Qed.

Lemma cget_cset_other a b x c : a <> b -> cget (cset a x c) b = cget c b.
Proof.
  intros H. unfold cget, cset. rewrite PositiveMap.gso; [reflexivity|].
  intros E. apply H. symmetry. now apply succ_pos_inj.
Qed.

Lemma cget_empty a : cget cempty a = White.
Proof. unfold cget, cempty. now rewrite PositiveMap.gempty. Qed.

Lemma cget_cset a b x c : cget (cset a x c) b = if N.eqb a b then x else cget c b.
Proof.
  destruct (N.eqb_spec a b) as [->|H]; [apply cget_cset_same | now apply cget_cset_other].
Qed.

Lemma lookup_In h a o : lookup h a = Some o -> In (a, o) h.
Proof.
  induction h as [|[b p] h IH]; simpl; [discriminate|].
  destruct (N.eqb_spec b a) as [->|H]; intros E.
  - inversion E; subst. now left.
  - right. now apply IH.
Qed.

Lemma In_lookup h a o : wf h -> In (a, o) h -> lookup h a = Some o.
Proof.
  unfold wf, addrs. induction h as [|[b p] h IH]; simpl; intros Hnd Hin; [contradiction|].
  inversion Hnd as [|x l Hnotin Hnd']; subst.
  destruct Hin as [E|Hin].
  - inversion E; subst. now rewrite N.eqb_refl.
  - destruct (N.eqb_spec b a) as [->|H]; [|now apply IH].
    exfalso. apply Hnotin. change a with (fst (a, o)). now apply in_map.
Qed.

Lemma lookup_addrs h a o : lookup h a = Some o -> In a (addrs h).
Proof. intros H. apply lookup_In in H. unfold addrs. change a with (fst (a, o)). now apply in_map. Qed.

Lemma addrs_lookup h a : In a (addrs h) -> lookup h a <> None.
Proof.
  unfold addrs. induction h as [|[b p] h IH]; simpl; [contradiction|].
  intros [->|Hin]; [now rewrite N.eqb_refl|].
  destruct (N.eqb b a); [discriminate | now apply IH].
Qed.

Lemma in_heapb_true h a : in_heapb h a = true <-> lookup h a <> None.
Proof. unfold in_heapb. destruct (lookup h a); split; congruence. Qed.

Lemma lookup_filter (p : addr -> bool) h a :
  lookup (filter (fun q => p (fst q)) h) a = if p a then lookup h a else None.
Proof.
  induction h as [|[b o] h IH]; simpl; [now destruct (p a)|].
  destruct (p b) eqn:Pb; simpl.
  - destruct (N.eqb_spec b a) as [->|H]; [now rewrite Pb | exact IH].
  - destruct (N.eqb_spec b a) as [->|H]; [now rewrite IH, Pb | exact IH].
Qed.

Lemma mem_addr_In a l : mem_addr a l = true <-> In a l.
Proof.
  induction l as [|b l IH]; simpl; [split; [discriminate|contradiction]|].
  destruct (N.eqb_spec b a) as [->|H].
  - split; auto.
  - rewrite IH. split; [now right | intros [E|Hi]; [congruence|assumption]].
Qed.

Lemma nodup_addrs_NoDup l : nodup_addrs l = true <-> NoDup l.
Proof.
  induction l as [|a l IH]; simpl.
  - split; [constructor | reflexivity].
  - rewrite andb_true_iff, negb_true_iff, IH. split.
    + intros [Hm Hn]. constructor; [|assumption]. rewrite <- mem_addr_In. congruence.
    + intros Hn. inversion Hn as [|x l' Hnotin Hn']; subst. split; [|assumption].
      destruct (mem_addr a l) eqn:E; [|reflexivity]. apply mem_addr_In in E. contradiction.
Qed.

Lemma wfb_wf h : wfb h = true <-> wf h.
Proof. apply nodup_addrs_NoDup. Qed.

Lemma all_pairs_complete k r : In (k, r) all_pairs.
Proof.
  unfold all_pairs. apply in_flat_map. exists k. split.
  - destruct k; simpl; tauto.
  - apply in_map. destruct r; simpl; tauto.
Qed.

Lemma tables_agree_spec marks bb bm :
  tables_agree marks bb bm = true ->
  forall k r, bb k r || bm k r = true -> marks k r = true.
Proof.
  unfold tables_agree. rewrite forallb_forall. intros H k r Hb.
  specialize (H (k, r) (all_pairs_complete k r)). simpl in H. now rewrite Hb in H.
Qed.

Lemma no_regrey_spec bm : no_regrey bm = true -> forall k r, bm k r = false.
Proof.
  unfold no_regrey. rewrite forallb_forall. intros H k r.
  specialize (H (k, r) (all_pairs_complete k r)). simpl in H. now apply negb_true_iff.
Qed.

Lemma tables_cover_spec holds marks pinned :
  tables_cover holds marks pinned = true ->
  forall k r, In r (holds k) -> marks k r = true \/ pinned k r = true.
Proof.
  unfold tables_cover. rewrite forallb_forall. intros H k r Hin.
  assert (Hk : In k all_kinds) by (destruct k; simpl; tauto).
  specialize (H k Hk). rewrite forallb_forall in H. apply orb_true_iff. now apply H.
Qed.

(* ------------------------------------------------------------------ *)

Definition nonwhite (c : cmap) (a : addr) : Prop := cget c a <> White.

Section CollectorProofs.
  Variables marks bb bm : kind -> role -> bool.

  Notation step := (step marks bb bm).
  Notation run := (run marks bb bm).
  Notation mark_children := (mark_children marks).
  Notation blacken_children := (blacken_children bb bm).
  Notation reach_marks := (reach_marks marks).
  Notation reach_any := (reach_any marks bb bm).
  Notation follows_any := (follows_any marks bb bm).

  (* the possible outcomes of one call *)
  Inductive step_spec (h : heap) (c : cmap) : item -> list item -> cmap -> bool -> Prop :=
  | ss_skip : forall it, (forall a, it = IVisit a -> is_grey (cget c a) = false) ->
      (forall a o, it = IMark a -> lookup h a = Some o -> is_grey (cget c a) = true) ->
      (forall a o, it = IBlacken a -> lookup h a = Some o -> is_black (cget c a) = true) ->
      step_spec h c it [] c false
  | ss_mark : forall a o, lookup h a = Some o -> is_grey (cget c a) = false ->
      step_spec h c (IMark a) (mark_children o) (cset a Grey c) false
  | ss_blacken : forall a o, lookup h a = Some o -> is_black (cget c a) = false ->
      step_spec h c (IBlacken a) (blacken_children o) (cset a Black c) false
  | ss_visit : forall a, is_grey (cget c a) = true ->
      step_spec h c (IVisit a) [IBlacken a] c true.

  Lemma step_ok h it c new c' g : step h it c = (new, c', g) -> step_spec h c it new c' g.
  Proof.
    unfold Collect.step. destruct it as [a|a|a].
    - destruct (lookup h a) as [o|] eqn:L.
      + destruct (is_grey (cget c a)) eqn:G; intros E; inversion E; subst.
        * apply ss_skip; intros; try discriminate. inversion H; subst. exact G.
        * now apply ss_mark.
      + intros E; inversion E; subst. apply ss_skip; intros; try discriminate.
        inversion H; subst. congruence.
    - destruct (lookup h a) as [o|] eqn:L.
      + destruct (is_black (cget c a)) eqn:G; intros E; inversion E; subst.
        * apply ss_skip; intros; try discriminate. inversion H; subst. exact G.
        * now apply ss_blacken.
      + intros E; inversion E; subst. apply ss_skip; intros; try discriminate.
        inversion H; subst. congruence.
    - destruct (is_grey (cget c a)) eqn:G; intros E; inversion E; subst.
      + now apply ss_visit.
      + apply ss_skip; intros; try discriminate. inversion H; subst. exact G.
  Qed.

  (* invariants carry over a whole run *)
  Lemma run_inv (P : list item -> cmap -> Prop) h :
    (forall it rest c new c' g, step h it c = (new, c', g) -> P (it :: rest) c -> P (new ++ rest) c') ->
    forall fuel st c f c' f', run fuel h st c f = Some (c', f') -> P st c -> P [] c'.
  Proof.
    intros Hstep. induction fuel as [|fuel IH]; intros st c f c' f' Hrun HP.
    - destruct st; simpl in Hrun; [|discriminate]. inversion Hrun; subst. exact HP.
    - destruct st as [|it rest]; simpl in Hrun.
      + inversion Hrun; subst. exact HP.
      + destruct (step h it c) as [[new c1] g] eqn:E.
        eapply IH; [exact Hrun|]. eapply Hstep; eauto.
  Qed.

  Lemma run_found_sticky h : forall fuel st c c' f', run fuel h st c true = Some (c', f') -> f' = true.
  Proof.
    induction fuel as [|fuel IH]; intros st c c' f' H.
    - destruct st; simpl in H; [|discriminate]. now inversion H.
    - destruct st as [|it rest]; simpl in H; [now inversion H|].
      destruct (step h it c) as [[new c1] g]. simpl in H. eapply IH; eauto.
  Qed.

  Lemma run_mono h : forall fuel k st c f r,
    run fuel h st c f = Some r -> run (fuel + k) h st c f = Some r.
  Proof.
    induction fuel as [|fuel IH]; intros k st c f r H.
    - destruct st; simpl in H; [|discriminate]. destruct (0 + k); simpl; exact H.
    - destruct st as [|it rest]; simpl in *; [exact H|].
      destruct (step h it c) as [[new c1] g]. now apply IH.
  Qed.

  Lemma run_det h f1 f2 st c f r1 r2 :
    run f1 h st c f = Some r1 -> run f2 h st c f = Some r2 -> r1 = r2.
  Proof.
    intros H1 H2. apply (run_mono h f1 f2) in H1. apply (run_mono h f2 f1) in H2.
    rewrite Nat.add_comm in H2. congruence.
  Qed.

  Lemma nonwhite_cset c a x b : x <> White -> nonwhite c b -> nonwhite (cset a x c) b.
  Proof.
    unfold nonwhite. intros Hx Hb. rewrite cget_cset. destruct (N.eqb a b); assumption.
  Qed.

  Lemma run_nonwhite_mono h fuel st c f c' f' :
    run fuel h st c f = Some (c', f') -> forall a, nonwhite c a -> nonwhite c' a.
  Proof.
    intros Hrun.
    apply (run_inv (fun _ c1 => forall a, nonwhite c a -> nonwhite c1 a) h) with (2 := Hrun); [|auto].
    intros it rest c0 new c1 g E HP a Ha. apply step_ok in E. specialize (HP a Ha).
    destruct E; auto; apply nonwhite_cset; auto; discriminate.
  Qed.

  (* ---------------------------------------------------------------- *)
  (* Theorem 3: only coarsely reachable boxes are ever coloured         *)

  Definition item_ok (h : heap) (it : item) : Prop :=
    match it with
    | IMark t | IBlacken t => in_heapb h t = true -> reach_any h t
    | IVisit _ => True
    end.

  Definition P3 (h : heap) (st : list item) (c : cmap) : Prop :=
    (forall a, nonwhite c a -> reach_any h a) /\ (forall it, In it st -> item_ok h it).

  Lemma lookup_in_heapb h a o : lookup h a = Some o -> in_heapb h a = true.
  Proof. unfold in_heapb. now intros ->. Qed.

  Lemma P3_step h it rest c new c' g :
    step h it c = (new, c', g) -> P3 h (it :: rest) c -> P3 h (new ++ rest) c'.
  Proof.
    intros E [Hc Hst]. apply step_ok in E. destruct E as [it Hv Hm Hb | a o L G | a o L G | a G].
    - split; [assumption|]. intros it' Hin. apply Hst. now right.
    - assert (Ra : reach_any h a) by (apply (Hst (IMark a)); [now left | eapply lookup_in_heapb; eauto]).
      split.
      + intros b Hb. unfold nonwhite in Hb. rewrite cget_cset in Hb.
        destruct (N.eqb_spec a b) as [->|Hne]; [assumption | now apply Hc].
      + intros it' Hin. apply in_app_or in Hin. destruct Hin as [Hin|Hin]; [|apply Hst; now right].
        unfold Collect.mark_children in Hin. apply in_flat_map in Hin. destruct Hin as [[r t] [He Hin]].
        simpl in Hin. destruct (marks (okind o) r) eqn:M; [|contradiction].
        destruct Hin as [<-|[]]. simpl. intros Ht.
        eapply reach_edge; eauto. unfold Collect.follows_any. now rewrite M.
    - assert (Ra : reach_any h a) by (apply (Hst (IBlacken a)); [now left | eapply lookup_in_heapb; eauto]).
      split.
      + intros b Hb. unfold nonwhite in Hb. rewrite cget_cset in Hb.
        destruct (N.eqb_spec a b) as [->|Hne]; [assumption | now apply Hc].
      + intros it' Hin. apply in_app_or in Hin. destruct Hin as [Hin|Hin]; [|apply Hst; now right].
        unfold Collect.blacken_children in Hin. apply in_flat_map in Hin. destruct Hin as [[r t] [He Hin]].
        simpl in Hin. apply in_app_or in Hin. destruct Hin as [Hin|Hin].
        * destruct (bm (okind o) r) eqn:M; [|contradiction].
          destruct Hin as [<-|[]]. simpl. intros Ht.
          eapply reach_edge; eauto. unfold Collect.follows_any. rewrite M. now rewrite !orb_true_r.
        * destruct (bb (okind o) r) eqn:M; [|contradiction].
          destruct Hin as [<-|[]]. simpl. intros Ht.
          eapply reach_edge; eauto. unfold Collect.follows_any. rewrite M. now rewrite orb_true_r.
    - split; [assumption|]. intros it' [<-|Hin]; [|apply Hst; now right].
      simpl. intros _. apply Hc. unfold nonwhite. destruct (cget c a); discriminate.
  Qed.

  Lemma run_P3 h fuel st c f c' f' :
    run fuel h st c f = Some (c', f') -> P3 h st c -> forall a, nonwhite c' a -> reach_any h a.
  Proof.
    intros Hrun HP. apply (run_inv (P3 h) h) with (2 := Hrun) in HP; [apply HP|].
    intros; eapply P3_step; eauto.
  Qed.

  Lemma root_addrs_spec h a : wf h -> In a (root_addrs h) -> exists o, lookup h a = Some o /\ rooted o = true.
  Proof.
    intros Hwf Hin. unfold root_addrs in Hin. apply in_map_iff in Hin. destruct Hin as [[b o] [E Hin]].
    simpl in E; subst b. apply filter_In in Hin. destruct Hin as [Hin Hr]. simpl in Hr.
    exists o. split; [now apply In_lookup | exact Hr].
  Qed.

  Lemma mark_roots_only_reach h sf c :
    wf h -> mark_roots marks bb bm sf h = Some c -> forall a, nonwhite c a -> reach_any h a.
  Proof.
    intros Hwf. unfold mark_roots.
    destruct (run sf h (map IMark (root_addrs h)) cempty false) as [[c1 f1]|] eqn:E; [|discriminate].
    simpl. intros H; inversion H; subst. eapply run_P3; [exact E|]. split.
    - intros a Ha. exfalso. apply Ha. apply cget_empty.
    - intros it Hin. apply in_map_iff in Hin. destruct Hin as [a [<- Hin]]. simpl. intros _.
      destruct (root_addrs_spec h a Hwf Hin) as [o [L R]]. eapply reach_root; eauto.
  Qed.

  Lemma pass_only_reach h sf c c' f' :
    pass marks bb bm sf h c = Some (c', f') ->
    (forall a, nonwhite c a -> reach_any h a) -> forall a, nonwhite c' a -> reach_any h a.
  Proof.
    unfold pass. intros Hrun Hc. eapply run_P3; [exact Hrun|]. split; [assumption|].
    intros it Hin. apply in_map_iff in Hin. destruct Hin as [a [<- _]]. exact I.
  Qed.

  Lemma trace_loop_only_reach h sf : forall pf c c',
    trace_loop marks bb bm pf sf h c = Some c' ->
    (forall a, nonwhite c a -> reach_any h a) -> forall a, nonwhite c' a -> reach_any h a.
  Proof.
    induction pf as [|pf IH]; intros c c' H Hc; simpl in H; [discriminate|].
    destruct (pass marks bb bm sf h c) as [[c1 f1]|] eqn:E; [|discriminate].
    pose proof (pass_only_reach _ _ _ _ _ E Hc) as Hc1.
    destruct f1; [eapply IH; eauto | inversion H; subst; assumption].
  Qed.

  Lemma final_only_reach h sf pf c :
    wf h -> final_colours marks bb bm sf pf h = Some c -> forall a, nonwhite c a -> reach_any h a.
  Proof.
    intros Hwf. unfold final_colours.
    destruct (mark_roots marks bb bm sf h) as [c1|] eqn:E; [|discriminate].
    pose proof (mark_roots_only_reach _ _ _ Hwf E) as Hc1.
    unfold trace_references. destruct (existsb _ _).
    - intros H. eapply trace_loop_only_reach; eauto.
    - intros H; inversion H; subst; assumption.
  Qed.

  Lemma lookup_sweep h c a :
    lookup (sweep h c) a = if is_black (cget c a) then lookup h a else None.
  Proof. unfold sweep. apply (lookup_filter (fun b => is_black (cget c b))). Qed.

  Theorem collect_only_reach_with sf pf h h' a :
    wf h -> collect_with marks bb bm sf pf h = Some h' -> lookup h' a <> None -> reach_any h a.
  Proof.
    intros Hwf. unfold collect_with.
    destruct (final_colours marks bb bm sf pf h) as [c|] eqn:E; [|discriminate].
    simpl. intros H; inversion H; subst. rewrite lookup_sweep.
    destruct (is_black (cget c a)) eqn:B; [|congruence]. intros _.
    eapply final_only_reach; eauto. unfold nonwhite. destruct (cget c a); discriminate.
  Qed.

  (* ---------------------------------------------------------------- *)
  (* Theorem 2: everything reach_marks-reachable ends up Black          *)

  Definition Q2 (h : heap) (st : list item) (c : cmap) : Prop :=
    (forall it, In it st -> exists t, it = IMark t) /\
    (forall a o, lookup h a = Some o -> rooted o = true -> nonwhite c a \/ In (IMark a) st) /\
    (forall x o r t, lookup h x = Some o -> nonwhite c x -> In (r, t) (oedges o) ->
                     marks (okind o) r = true -> in_heapb h t = true ->
                     nonwhite c t \/ In (IMark t) st).

  Lemma mark_children_IMark o it : In it (mark_children o) -> exists t, it = IMark t.
  Proof.
    unfold Collect.mark_children. intros Hin. apply in_flat_map in Hin. destruct Hin as [e [_ Hin]].
    destruct (marks (okind o) (fst e)); [|contradiction]. destruct Hin as [<-|[]]. eauto.
  Qed.

  Lemma mark_children_In o r t :
    In (r, t) (oedges o) -> marks (okind o) r = true -> In (IMark t) (mark_children o).
  Proof.
    intros Hin M. unfold Collect.mark_children. apply in_flat_map. exists (r, t). split; [assumption|].
    simpl. rewrite M. now left.
  Qed.

  Lemma Q2_step h it rest c new c' g :
    step h it c = (new, c', g) -> Q2 h (it :: rest) c -> Q2 h (new ++ rest) c'.
  Proof.
    intros E (Hall & Hroots & Hedges). apply step_ok in E.
    destruct (Hall it (or_introl eq_refl)) as [a0 Ea0].
    destruct E as [it Hv Hm Hb | a o La G | a o La G | a G]; try discriminate.
    - (* skip *)
      subst it. rename a0 into a.
      assert (Hdrop : forall t, in_heapb h t = true -> nonwhite c t \/ In (IMark t) (IMark a :: rest) ->
                                nonwhite c t \/ In (IMark t) rest).
      { intros t Ht [Hn|[Eq|Hin]]; auto. inversion Eq; subst. left.
        unfold in_heapb in Ht. destruct (lookup h t) as [o|] eqn:L; [|discriminate].
        specialize (Hm t o eq_refl L). unfold nonwhite. destruct (cget c t); discriminate. }
      split; [intros it' Hin; apply Hall; now right|]. split.
      + intros b o L R. apply Hdrop; [eapply lookup_in_heapb; eauto | eauto].
      + intros x o r t L Hx Hin M Ht. apply Hdrop; eauto.
    - (* grey a *)
      split.
      { intros it' Hin. apply in_app_or in Hin. destruct Hin as [Hin|Hin];
          [eapply mark_children_IMark; eauto | apply Hall; now right]. }
      assert (Hkeep : forall t, nonwhite c t \/ In (IMark t) (IMark a :: rest) ->
                                nonwhite (cset a Grey c) t \/ In (IMark t) (mark_children o ++ rest)).
      { intros t [Hn|[Eq|Hin]].
        - left. apply nonwhite_cset; [discriminate|assumption].
        - inversion Eq; subst. left. unfold nonwhite. rewrite cget_cset_same. discriminate.
        - right. apply in_or_app. now right. }
      split.
      + intros b ob L R. apply Hkeep. eauto.
      + intros x ox r t L Hx Hin M Ht.
        destruct (N.eqb_spec a x) as [->|Hne].
        * right. apply in_or_app. left. rewrite La in L. inversion L; subst.
          eapply mark_children_In; eauto.
        * apply Hkeep. eapply Hedges; eauto. unfold nonwhite in *.
          now rewrite cget_cset_other in Hx.
  Qed.

  Lemma reach_in_heap follow h a : reach follow h a -> in_heapb h a = true.
  Proof. intros H. destruct H; [eapply lookup_in_heapb; eauto | assumption]. Qed.

  Lemma mark_roots_reach h sf c :
    mark_roots marks bb bm sf h = Some c -> forall a, reach_marks h a -> nonwhite c a.
  Proof.
    unfold mark_roots.
    destruct (run sf h (map IMark (root_addrs h)) cempty false) as [[c1 f1]|] eqn:E; [|discriminate].
    simpl. intros H; inversion H; subst.
    assert (HQ : Q2 h [] c).
    { apply (run_inv (Q2 h) h) with (2 := E); [intros; eapply Q2_step; eauto|].
      split; [|split].
      - intros it Hin. apply in_map_iff in Hin. destruct Hin as [a [<- _]]. eauto.
      - intros a o L R. right. apply in_map. unfold root_addrs.
        change a with (fst (a, o)). apply in_map. apply filter_In. split; [now apply lookup_In | exact R].
      - intros x o r t _ Hx. exfalso. apply Hx. apply cget_empty. }
    destruct HQ as (_ & Hroots & Hedges).
    intros a Ha. induction Ha as [a o L R | a o r t Ha IH L Hin M Ht].
    - destruct (Hroots a o L R) as [?|[]]. assumption.
    - destruct (Hedges a o r t L IH Hin M Ht) as [?|[]]. assumption.
  Qed.

  Lemma trace_loop_nonwhite h sf : forall pf c c',
    trace_loop marks bb bm pf sf h c = Some c' -> forall a, nonwhite c a -> nonwhite c' a.
  Proof.
    induction pf as [|pf IH]; intros c c' H a Ha; simpl in H; [discriminate|].
    destruct (pass marks bb bm sf h c) as [[c1 f1]|] eqn:E; [|discriminate].
    unfold pass in E. pose proof (run_nonwhite_mono _ _ _ _ _ _ _ E a Ha) as Ha1.
    destruct f1; [eapply IH; eauto | inversion H; subst; assumption].
  Qed.

  (* a pass that reports no Grey box changed nothing and there is no Grey box *)
  Lemma visits_not_found h : forall l fuel c c',
    run fuel h (map IVisit l) c false = Some (c', false) ->
    c' = c /\ forall a, In a l -> is_grey (cget c a) = false.
  Proof.
    induction l as [|a l IH]; intros fuel c c' H.
    - destruct fuel; simpl in H; inversion H; subst; split; [reflexivity|contradiction| reflexivity|contradiction].
    - destruct fuel as [|fuel]; simpl in H; [discriminate|].
      destruct (is_grey (cget c a)) eqn:G; simpl in H.
      + apply run_found_sticky in H. discriminate.
      + apply IH in H. destruct H as [-> Hl]. split; [reflexivity|].
        intros b [<-|Hb]; auto.
  Qed.

  Lemma trace_loop_no_grey h sf : forall pf c c',
    trace_loop marks bb bm pf sf h c = Some c' -> forall a, In a (addrs h) -> is_grey (cget c' a) = false.
  Proof.
    induction pf as [|pf IH]; intros c c' H; simpl in H; [discriminate|].
    destruct (pass marks bb bm sf h c) as [[c1 f1]|] eqn:E; [|discriminate].
    destruct f1; [eapply IH; eauto|]. inversion H; subst.
    unfold pass in E. apply visits_not_found in E. destruct E as [-> Hl]. exact Hl.
  Qed.

  Lemma final_no_grey h sf pf c :
    final_colours marks bb bm sf pf h = Some c -> forall a, In a (addrs h) -> is_grey (cget c a) = false.
  Proof.
    unfold final_colours. destruct (mark_roots marks bb bm sf h) as [c1|]; [|discriminate].
    unfold trace_references. destruct (existsb _ _) eqn:Ex.
    - apply trace_loop_no_grey.
    - intros H; inversion H; subst. intros a Ha.
      destruct (is_grey (cget c a)) eqn:G; [|reflexivity].
      assert (existsb (fun a => is_grey (cget c a)) (addrs h) = true)
        by (apply existsb_exists; eauto). congruence.
  Qed.

  Lemma final_reach_black h sf pf c :
    final_colours marks bb bm sf pf h = Some c -> forall a, reach_marks h a -> is_black (cget c a) = true.
  Proof.
    intros Hf a Ha. pose proof (final_no_grey _ _ _ _ Hf) as Hng.
    assert (Hin : In a (addrs h)).
    { apply reach_in_heap in Ha. unfold in_heapb in Ha. destruct (lookup h a) eqn:L; [|discriminate].
      eapply lookup_addrs; eauto. }
    specialize (Hng a Hin).
    assert (Hnw : nonwhite c a).
    { unfold final_colours in Hf. destruct (mark_roots marks bb bm sf h) as [c1|] eqn:E; [|discriminate].
      pose proof (mark_roots_reach _ _ _ E a Ha) as H1.
      unfold trace_references in Hf. destruct (existsb _ _).
      - eapply trace_loop_nonwhite; eauto.
      - inversion Hf; subst; assumption. }
    unfold nonwhite in Hnw. destruct (cget c a); simpl in *; congruence.
  Qed.

  Theorem collect_retains_reach_with sf pf h h' a :
    collect_with marks bb bm sf pf h = Some h' -> reach_marks h a -> lookup h' a = lookup h a.
  Proof.
    unfold collect_with. destruct (final_colours marks bb bm sf pf h) as [c|] eqn:E; [|discriminate].
    simpl. intros H Ha; inversion H; subst. rewrite lookup_sweep.
    now rewrite (final_reach_black _ _ _ _ E a Ha).
  Qed.

  (* the collector never invents or alters a box *)
  Lemma collect_sub_with sf pf h h' a o :
    collect_with marks bb bm sf pf h = Some h' -> lookup h' a = Some o -> lookup h a = Some o.
  Proof.
    unfold collect_with. destruct (final_colours marks bb bm sf pf h) as [c|]; [|discriminate].
    simpl. intros H; inversion H; subst. rewrite lookup_sweep. destruct (is_black _); congruence.
  Qed.

  Lemma filter_NoDup_map {A B} (f : A -> B) (p : A -> bool) l :
    NoDup (map f l) -> NoDup (map f (filter p l)).
  Proof.
    induction l as [|x l IH]; simpl; intros H; [constructor|].
    inversion H as [|y l' Hnotin Hnd]; subst. destruct (p x); simpl; [|auto].
    constructor; [|auto]. intros Hin. apply Hnotin. apply in_map_iff in Hin.
    destruct Hin as [z [Ez Hz]]. apply filter_In in Hz. rewrite <- Ez. apply in_map. tauto.
  Qed.

  Theorem collect_wf_with sf pf h h' n :
    collect_with marks bb bm sf pf h = Some h' -> wf_at n h -> wf_at n h'.
  Proof.
    unfold collect_with. destruct (final_colours marks bb bm sf pf h) as [c|]; [|discriminate].
    simpl. intros H [Hwf Hb]; inversion H; subst. split.
    - unfold wf, addrs, sweep. now apply filter_NoDup_map.
    - intros a o Hin. apply filter_In in Hin. now apply Hb.
  Qed.

  (* ---------------------------------------------------------------- *)
  (* Theorem 4 and closedness, when blacken follows nothing mark does not *)

  Lemma reach_mono (f g : kind -> role -> bool) h :
    (forall k r, f k r = true -> g k r = true) -> forall a, reach f h a -> reach g h a.
  Proof.
    intros Hfg a Ha. induction Ha; [eapply reach_root; eauto | eapply reach_edge; eauto].
  Qed.

  Lemma reach_marks_any h a : reach_marks h a -> reach_any h a.
  Proof. apply reach_mono. intros k r M. unfold Collect.follows_any. now rewrite M. Qed.

  Lemma reach_any_marks h a :
    tables_agree marks bb bm = true -> reach_any h a -> reach_marks h a.
  Proof.
    intros Hag. apply reach_mono. intros k r. unfold Collect.follows_any.
    destruct (marks k r) eqn:M; [reflexivity|]. simpl. intros Hb.
    rewrite <- M. eapply tables_agree_spec; eauto.
  Qed.

  Theorem collect_exact_when_tables_agree_with sf pf h h' a :
    tables_agree marks bb bm = true -> wf h -> collect_with marks bb bm sf pf h = Some h' ->
    (lookup h' a <> None <-> reach_marks h a).
  Proof.
    intros Hag Hwf Hc. split.
    - intros Hl. apply reach_any_marks; [assumption|]. eapply collect_only_reach_with; eauto.
    - intros Ha. rewrite (collect_retains_reach_with _ _ _ _ _ Hc Ha).
      apply in_heapb_true. eapply reach_in_heap; eauto.
  Qed.

  Theorem collect_closed_with sf pf h h' a o r t :
    tables_agree marks bb bm = true -> wf h -> collect_with marks bb bm sf pf h = Some h' ->
    lookup h' a = Some o -> In (r, t) (oedges o) -> marks (okind o) r = true ->
    lookup h t <> None -> lookup h' t = lookup h t.
  Proof.
    intros Hag Hwf Hc La Hin M Lt.
    assert (Ra : reach_marks h a).
    { apply (collect_exact_when_tables_agree_with sf pf h h' a Hag Hwf Hc). congruence. }
    eapply collect_retains_reach_with; [exact Hc|].
    eapply reach_edge; eauto.
    - eapply collect_sub_with; eauto.
    - now apply in_heapb_true.
  Qed.

  (* ---------------------------------------------------------------- *)
  (* Theorem 1: fuel.  When blacken never marks, the default fuel suffices. *)

  Definition weight (it : item) : nat := match it with IVisit _ => 2 | _ => 1 end.
  Definition stw (st : list item) : nat := list_sum (map weight st).

  Definition pterm (p : colour -> bool) (c : cmap) (q : addr * obj) : nat :=
    if p (cget c (fst q)) then 0 else S (length (oedges (snd q))).
  Definition pot (p : colour -> bool) (c : cmap) (h : heap) : nat := list_sum (map (pterm p c) h).

  Lemma stw_app a b : stw (a ++ b) = stw a + stw b.
  Proof. unfold stw. now rewrite map_app, list_sum_app. Qed.

  Lemma stw_cons it st : stw (it :: st) = weight it + stw st.
  Proof. reflexivity. Qed.

  Lemma stw_mark_children o : stw (mark_children o) <= length (oedges o).
  Proof.
    unfold Collect.mark_children. induction (oedges o) as [|e l IH]; [reflexivity|].
    cbn [flat_map length]. rewrite stw_app. destruct (marks (okind o) (fst e)).
    - rewrite stw_cons. cbn [weight stw map list_sum fold_right]. lia.
    - cbn [stw map list_sum fold_right]. lia.
  Qed.

  Lemma stw_blacken_children o :
    (forall k r, bm k r = false) -> stw (blacken_children o) <= length (oedges o).
  Proof.
    intros Hbm. unfold Collect.blacken_children. induction (oedges o) as [|e l IH]; [reflexivity|].
    cbn [flat_map length]. rewrite stw_app. rewrite Hbm. cbn [app].
    destruct (bb (okind o) (fst e)).
    - rewrite stw_cons. cbn [weight stw map list_sum fold_right]. lia.
    - cbn [stw map list_sum fold_right]. lia.
  Qed.

  Lemma pot_cons p c q h : pot p c (q :: h) = pterm p c q + pot p c h.
  Proof. reflexivity. Qed.

  Lemma pterm_le p c q : pterm p c q <= S (length (oedges (snd q))).
  Proof. unfold pterm. destruct (p _); lia. Qed.

  Lemma pot_le p c h : pot p c h <= length h + total_edges h.
  Proof.
    induction h as [|q h IH]; [reflexivity|].
    rewrite pot_cons. pose proof (pterm_le p c q). unfold total_edges in *. cbn [length fold_right]. lia.
  Qed.

  Lemma pterm_set_le p c a x q : p x = true -> pterm p (cset a x c) q <= pterm p c q.
  Proof.
    intros Hx. unfold pterm. rewrite cget_cset. destruct (N.eqb a (fst q)); [rewrite Hx; lia | lia].
  Qed.

  Lemma pot_set_le p c h a x : p x = true -> pot p (cset a x c) h <= pot p c h.
  Proof.
    intros Hx. induction h as [|q h IH]; [reflexivity|].
    rewrite !pot_cons. pose proof (pterm_set_le p c a x q Hx). lia.
  Qed.

  Lemma pot_set p c h a o x :
    In (a, o) h -> p (cget c a) = false -> p x = true ->
    pot p (cset a x c) h + S (length (oedges o)) <= pot p c h.
  Proof.
    intros Hin Hp Hx. induction h as [|q h IH]; [contradiction|].
    rewrite !pot_cons. destruct Hin as [E|Hin].
    - subst q. pose proof (pot_set_le p c h a x Hx) as Hle.
      unfold pterm at 1 2. cbn [fst snd]. rewrite cget_cset_same, Hx, Hp. lia.
    - specialize (IH Hin). pose proof (pterm_set_le p c a x q Hx). lia.
  Qed.

  Lemma run_terminates (Inv : list item -> cmap -> Prop) (mu : list item -> cmap -> nat) h :
    (forall it rest c new c' g, step h it c = (new, c', g) -> Inv (it :: rest) c ->
        Inv (new ++ rest) c' /\ mu (new ++ rest) c' < mu (it :: rest) c) ->
    forall fuel st c f, Inv st c -> mu st c <= fuel -> run fuel h st c f <> None.
  Proof.
    intros Hstep. induction fuel as [|fuel IH]; intros st c f HI Hmu.
    - destruct st as [|it rest]; simpl; [discriminate|].
      destruct (step h it c) as [[new c1] g] eqn:E.
      destruct (Hstep _ _ _ _ _ _ E HI) as [_ Hlt]. lia.
    - destruct st as [|it rest]; simpl; [discriminate|].
      destruct (step h it c) as [[new c1] g] eqn:E.
      destruct (Hstep _ _ _ _ _ _ E HI) as [HI' Hlt]. apply IH; [assumption|lia].
  Qed.

  Definition all_marks (st : list item) : Prop := forall it, In it st -> exists t, it = IMark t.
  Definition no_marks (st : list item) : Prop := forall it t, In it st -> it <> IMark t.

  Lemma mark_phase_step h it rest c new c' g :
    step h it c = (new, c', g) -> all_marks (it :: rest) ->
    all_marks (new ++ rest) /\ stw (new ++ rest) + pot is_grey c' h < stw (it :: rest) + pot is_grey c h.
  Proof.
    intros E Hall. apply step_ok in E.
    destruct (Hall it (or_introl eq_refl)) as [a0 Ea0].
    destruct E as [it Hv Hm Hb | a o La G | a o La G | a G]; try discriminate.
    - split; [intros it' Hin; apply Hall; now right|]. subst it. unfold stw. simpl. lia.
    - split.
      + intros it' Hin. apply in_app_or in Hin. destruct Hin as [Hin|Hin];
          [eapply mark_children_IMark; eauto | apply Hall; now right].
      + rewrite stw_app. pose proof (stw_mark_children o).
        pose proof (pot_set is_grey c h a o Grey (lookup_In _ _ _ La) G eq_refl).
        rewrite stw_cons. cbn [weight]. lia.
  Qed.

  Lemma blacken_children_no_marks o :
    (forall k r, bm k r = false) -> no_marks (blacken_children o).
  Proof.
    intros Hbm it t Hin. unfold Collect.blacken_children in Hin. apply in_flat_map in Hin.
    destruct Hin as [e [_ Hin]]. rewrite Hbm in Hin. simpl in Hin.
    destruct (bb (okind o) (fst e)); [|contradiction]. destruct Hin as [<-|[]]. discriminate.
  Qed.

  Lemma pass_phase_step h it rest c new c' g :
    (forall k r, bm k r = false) ->
    step h it c = (new, c', g) -> no_marks (it :: rest) ->
    no_marks (new ++ rest) /\ stw (new ++ rest) + pot is_black c' h < stw (it :: rest) + pot is_black c h.
  Proof.
    intros Hbm E Hno. apply step_ok in E.
    destruct E as [it Hv Hm Hb | a o La G | a o La G | a G].
    - split; [intros it' t Hin; apply Hno; now right|]. unfold stw. simpl.
      destruct it; simpl; lia.
    - exfalso. eapply (Hno (IMark a) a); [now left | reflexivity].
    - split.
      + intros it' t Hin. apply in_app_or in Hin. destruct Hin as [Hin|Hin];
          [eapply blacken_children_no_marks; eauto | apply Hno; now right].
      + rewrite stw_app. pose proof (stw_blacken_children o Hbm).
        pose proof (pot_set is_black c h a o Black (lookup_In _ _ _ La) G eq_refl).
        rewrite stw_cons. cbn [weight]. lia.
    - split.
      + intros it' t [<-|Hin]; [discriminate | apply Hno; now right].
      + unfold stw. simpl. lia.
  Qed.

  Lemma stw_map_IMark l : stw (map IMark l) = length l.
  Proof. unfold stw. induction l; simpl; [reflexivity|]. now rewrite IHl. Qed.
  Lemma stw_map_IVisit l : stw (map IVisit l) = 2 * length l.
  Proof. unfold stw. induction l; simpl; [reflexivity|]. rewrite IHl. lia. Qed.

  Lemma filter_len {A} (p : A -> bool) l : length (filter p l) <= length l.
  Proof. induction l as [|x l IH]; simpl; [lia|]. destruct (p x); simpl; lia. Qed.

  Lemma root_addrs_length h : length (root_addrs h) <= length h.
  Proof. unfold root_addrs. rewrite map_length. apply filter_len. Qed.

  Lemma mark_roots_terminates h sf :
    2 * length h + total_edges h <= sf -> mark_roots marks bb bm sf h <> None.
  Proof.
    intros Hsf. unfold mark_roots.
    destruct (run sf h (map IMark (root_addrs h)) cempty false) as [r|] eqn:E; [discriminate|].
    exfalso. revert E.
    apply (run_terminates (fun st _ => all_marks st) (fun st c => stw st + pot is_grey c h) h).
    - intros. eapply mark_phase_step; eauto.
    - intros it Hin. apply in_map_iff in Hin. destruct Hin as [a [<- _]]. eauto.
    - rewrite stw_map_IMark. pose proof (root_addrs_length h). pose proof (pot_le is_grey cempty h). lia.
  Qed.

  Lemma pass_terminates h sf c :
    (forall k r, bm k r = false) ->
    3 * length h + total_edges h <= sf -> pass marks bb bm sf h c <> None.
  Proof.
    intros Hbm Hsf. unfold pass.
    apply (run_terminates (fun st _ => no_marks st) (fun st c => stw st + pot is_black c h) h).
    - intros. eapply pass_phase_step; eauto.
    - intros it t Hin. apply in_map_iff in Hin. destruct Hin as [a [<- _]]. discriminate.
    - rewrite stw_map_IVisit. unfold addrs. rewrite map_length. pose proof (pot_le is_black c h). lia.
  Qed.

  (* without re-greying, a pass leaves no Grey box *)
  Definition S5 (h : heap) (st : list item) (c : cmap) : Prop :=
    no_marks st /\
    forall a, in_heapb h a = true -> is_grey (cget c a) = true -> In (IVisit a) st \/ In (IBlacken a) st.

  Lemma S5_step h it rest c new c' g :
    (forall k r, bm k r = false) ->
    step h it c = (new, c', g) -> S5 h (it :: rest) c -> S5 h (new ++ rest) c'.
  Proof.
    intros Hbm E [Hno Hg]. pose proof (pass_phase_step h it rest c new c' g Hbm E Hno) as [Hno' _].
    split; [assumption|]. apply step_ok in E.
    destruct E as [it Hv Hm Hb | a o La G | a o La G | a G].
    - intros b Hb1 Hb2. destruct (Hg b Hb1 Hb2) as [[->|Hin]|[->|Hin]]; auto.
      + rewrite (Hv b eq_refl) in Hb2. discriminate.
      + unfold in_heapb in Hb1. destruct (lookup h b) as [o|] eqn:L; [|discriminate].
        specialize (Hb b o eq_refl L). destruct (cget c b); discriminate.
    - exfalso. eapply (Hno (IMark a) a); [now left | reflexivity].
    - intros b Hb1 Hb2. rewrite cget_cset in Hb2. destruct (N.eqb_spec a b) as [->|Hne]; [discriminate|].
      destruct (Hg b Hb1 Hb2) as [[E|Hin]|[E|Hin]]; try discriminate.
      + left. apply in_or_app. now right.
      + inversion E; subst. contradiction.
      + right. apply in_or_app. now right.
    - intros b Hb1 Hb2. destruct (Hg b Hb1 Hb2) as [[E|Hin]|[E|Hin]]; try discriminate.
      + inversion E; subst. right. now left.
      + left. now right.
      + right. now right.
  Qed.

  Lemma pass_no_grey h sf c c' f' :
    (forall k r, bm k r = false) -> pass marks bb bm sf h c = Some (c', f') ->
    forall a, In a (addrs h) -> is_grey (cget c' a) = false.
  Proof.
    intros Hbm Hp. unfold pass in Hp.
    assert (HS : S5 h [] c').
    { apply (run_inv (S5 h) h) with (2 := Hp); [intros; eapply S5_step; eauto|].
      split.
      - intros it t Hin. apply in_map_iff in Hin. destruct Hin as [a [<- _]]. discriminate.
      - intros a Ha _. left. apply in_map. apply in_heapb_true in Ha.
        destruct (lookup h a) eqn:L; [|congruence]. eapply lookup_addrs; eauto. }
    destruct HS as [_ HS]. intros a Ha. destruct (is_grey (cget c' a)) eqn:G; [|reflexivity].
    assert (in_heapb h a = true) by (apply in_heapb_true; now apply addrs_lookup).
    destruct (HS a H G) as [[]|[]].
  Qed.

  Lemma visits_no_grey h : forall l fuel c,
    (forall a, In a l -> is_grey (cget c a) = false) -> length l <= fuel ->
    run fuel h (map IVisit l) c false = Some (c, false).
  Proof.
    induction l as [|a l IH]; intros fuel c Hl Hf.
    - destruct fuel; reflexivity.
    - destruct fuel as [|fuel]; simpl in Hf; [lia|]. simpl.
      rewrite (Hl a (or_introl eq_refl)). simpl. apply IH; [intros; apply Hl; now right | lia].
  Qed.

  Lemma trace_terminates h sf pf c :
    (forall k r, bm k r = false) ->
    3 * length h + total_edges h <= sf -> 2 <= pf -> trace_references marks bb bm pf sf h c <> None.
  Proof.
    intros Hbm Hsf Hpf. unfold trace_references. destruct (existsb _ _); [|discriminate].
    destruct pf as [|[|pf]]; try lia. simpl.
    destruct (pass marks bb bm sf h c) as [[c1 f1]|] eqn:E1; [|exfalso; eapply pass_terminates; eauto].
    destruct f1; [|discriminate].
    pose proof (pass_no_grey _ _ _ _ _ Hbm E1) as Hng.
    unfold pass. rewrite visits_no_grey; [discriminate | assumption |].
    unfold addrs. rewrite map_length. lia.
  Qed.

  Theorem collect_terminates_with h sf pf :
    no_regrey bm = true -> 3 * length h + total_edges h <= sf -> 2 <= pf ->
    collect_with marks bb bm sf pf h <> None.
  Proof.
    intros Hnr Hsf Hpf. pose proof (no_regrey_spec _ Hnr) as Hbm.
    unfold collect_with, final_colours.
    destruct (mark_roots marks bb bm sf h) as [c|] eqn:E;
      [|exfalso; eapply (mark_roots_terminates h sf); [lia|eauto]].
    destruct (trace_references marks bb bm pf sf h c) eqn:E2; [discriminate|].
    exfalso. eapply trace_terminates; eauto.
  Qed.

  (* Theorem 1 *)
  Theorem collect_terminates h : no_regrey bm = true -> collect_opt marks bb bm h <> None.
  Proof.
    intros Hnr. unfold collect_opt. apply collect_terminates_with; [assumption| |];
      unfold step_fuel, pass_fuel; lia.
  Qed.

  (* ---------------------------------------------------------------- *)
  (* the headline statements for the default fuel                       *)

  Theorem collect_retains_reach h h' a :
    collect_opt marks bb bm h = Some h' -> reach_marks h a -> lookup h' a = lookup h a.
  Proof. apply collect_retains_reach_with. Qed.

  Theorem collect_only_reach h h' a :
    wf h -> collect_opt marks bb bm h = Some h' -> lookup h' a <> None -> reach_any h a.
  Proof. apply collect_only_reach_with. Qed.

  Theorem collect_exact_when_tables_agree h h' a :
    tables_agree marks bb bm = true -> wf h -> collect_opt marks bb bm h = Some h' ->
    (lookup h' a <> None <-> reach_marks h a).
  Proof. apply collect_exact_when_tables_agree_with. Qed.

  Theorem collect_closed h h' a o r t :
    tables_agree marks bb bm = true -> wf h -> collect_opt marks bb bm h = Some h' ->
    lookup h' a = Some o -> In (r, t) (oedges o) -> marks (okind o) r = true ->
    lookup h t <> None -> lookup h' t = lookup h t.
  Proof. apply collect_closed_with. Qed.

  Theorem collect_wf h h' n : collect_opt marks bb bm h = Some h' -> wf_at n h -> wf_at n h'.
  Proof. apply collect_wf_with. Qed.

  (* the total version [collect] : heap -> heap *)
  Corollary collect_total_retains_reach h a :
    reach_marks h a -> lookup (collect marks bb bm h) a = lookup h a.
  Proof.
    unfold collect. destruct (collect_opt marks bb bm h) eqn:E; [|reflexivity].
    now apply collect_retains_reach.
  Qed.

  Corollary collect_total_only_reach h a :
    no_regrey bm = true -> wf h -> lookup (collect marks bb bm h) a <> None -> reach_any h a.
  Proof.
    intros Hnr Hwf. unfold collect. destruct (collect_opt marks bb bm h) eqn:E.
    - now apply collect_only_reach.
    - exfalso. eapply collect_terminates; eauto.
  Qed.

  (* ---------------------------------------------------------------- *)
  (* accounting: what sweep reports as freed is what it removes         *)

  Lemma size_split h c :
    (forall a, In a (addrs h) -> is_grey (cget c a) = false) ->
    (white_bytes h c + total_size (sweep h c) = total_size h)%N.
  Proof.
    unfold white_bytes, sweep, addrs. induction h as [|[a o] h IH]; simpl; intros Hg; [reflexivity|].
    assert (IH' := IH (fun b Hb => Hg b (or_intror Hb))).
    specialize (Hg a (or_introl eq_refl)).
    destruct (cget c a); simpl in *; try discriminate; lia.
  Qed.

  Theorem freed_exact_with sf pf h h' fr :
    collect_with marks bb bm sf pf h = Some h' -> freed_with marks bb bm sf pf h = Some fr ->
    (fr + total_size h' = total_size h)%N.
  Proof.
    unfold collect_with, freed_with.
    destruct (final_colours marks bb bm sf pf h) as [c|] eqn:E; [|discriminate].
    simpl. intros H1 H2; inversion H1; inversion H2; subst.
    apply size_split. eapply final_no_grey; eauto.
  Qed.

  (* ---------------------------------------------------------------- *)
  (* executable closures are adequate                                   *)

  Lemma add_all_spec : forall ts s x, In x (add_all s ts) <-> In x s \/ In x ts.
  Proof.
    induction ts as [|t ts IH]; intros s x; simpl; [tauto|].
    rewrite IH. destruct (mem_addr t s) eqn:M.
    - apply mem_addr_In in M. split; [tauto|]. intros [H|[<-|H]]; auto.
    - rewrite in_app_iff. simpl. tauto.
  Qed.

  Lemma NoDup_snoc (s : list addr) t : NoDup s -> ~ In t s -> NoDup (s ++ [t]).
  Proof.
    induction s as [|x s IH]; simpl; intros Hs Hn; [constructor; [intros []|constructor]|].
    inversion Hs as [|y l Hx Hs']; subst. constructor.
    - rewrite in_app_iff. simpl. intros [H|[H|[]]]; [contradiction | subst; apply Hn; now left].
    - apply IH; [assumption|]. intros H. apply Hn. now right.
  Qed.

  Lemma add_all_NoDup : forall ts s, NoDup s -> NoDup (add_all s ts).
  Proof.
    induction ts as [|t ts IH]; intros s Hs; simpl; [assumption|].
    apply IH. destruct (mem_addr t s) eqn:M; [assumption|].
    apply NoDup_snoc; [assumption|].
    intros Hin. apply mem_addr_In in Hin. congruence.
  Qed.

  Lemma add_all_length : forall ts s, length s <= length (add_all s ts).
  Proof.
    induction ts as [|t ts IH]; intros s; simpl; [lia|].
    destruct (mem_addr t s); [apply IH|]. etransitivity; [|apply IH]. rewrite app_length. simpl. lia.
  Qed.

  Lemma add_all_fix : forall ts s, length (add_all s ts) <= length s -> add_all s ts = s.
  Proof.
    induction ts as [|t ts IH]; intros s Hl; simpl in *; [reflexivity|].
    destruct (mem_addr t s); [now apply IH|].
    exfalso. pose proof (add_all_length ts (s ++ [t])). rewrite app_length in H. simpl in H. lia.
  Qed.

  Section Closure.
    Variable follow : kind -> role -> bool.
    Variable h : heap.

    Lemma succs_spec a t :
      In t (succs follow h a) <->
      exists o r, lookup h a = Some o /\ In (r, t) (oedges o) /\ follow (okind o) r = true /\ in_heapb h t = true.
    Proof.
      unfold succs. destruct (lookup h a) as [o|]; [|split; [contradiction | intros (o & r & H & _); discriminate]].
      rewrite in_map_iff. split.
      - intros [[r t'] [E Hin]]. simpl in E; subst t'. apply filter_In in Hin. destruct Hin as [Hin Hb].
        simpl in Hb. apply andb_true_iff in Hb. exists o, r. tauto.
      - intros (o' & r & E & Hin & Hf & Ht). inversion E; subst o'. exists (r, t). split; [reflexivity|].
        apply filter_In. split; [assumption|]. simpl. now rewrite Hf, Ht.
    Qed.

    Definition sound (s : list addr) : Prop := forall a, In a s -> reach follow h a.

    Lemma expand_sound s : sound s -> sound (expand follow h s).
    Proof.
      intros Hs a Hin. unfold expand in Hin. apply add_all_spec in Hin. destruct Hin as [Hin|Hin]; [auto|].
      apply in_flat_map in Hin. destruct Hin as [b [Hb Hin]]. apply succs_spec in Hin.
      destruct Hin as (o & r & L & He & Hf & Ht). eapply reach_edge; eauto.
    Qed.

    Lemma iter_sound : forall n s, sound s -> sound (iter_n n (expand follow h) s).
    Proof. induction n; intros s Hs; simpl; [assumption|]. apply IHn. now apply expand_sound. Qed.

    Lemma roots_sound : wf h -> sound (add_all [] (root_addrs h)).
    Proof.
      intros Hwf a Hin. apply add_all_spec in Hin. destruct Hin as [[]|Hin].
      destruct (root_addrs_spec h a Hwf Hin) as [o [L R]]. eapply reach_root; eauto.
    Qed.

    Definition in_heap_list (s : list addr) : Prop := incl s (addrs h).

    Lemma expand_in_heap s : in_heap_list s -> in_heap_list (expand follow h s).
    Proof.
      intros Hs a Hin. unfold expand in Hin. apply add_all_spec in Hin. destruct Hin as [Hin|Hin]; [auto|].
      apply in_flat_map in Hin. destruct Hin as [b [Hb Hin]]. apply succs_spec in Hin.
      destruct Hin as (o & r & L & He & Hf & Ht). apply in_heapb_true in Ht.
      destruct (lookup h a) eqn:La; [|congruence]. eapply lookup_addrs; eauto.
    Qed.

    Definition closed (s : list addr) : Prop := expand follow h s = s.

    Lemma iter_closed : forall n s, closed s -> iter_n n (expand follow h) s = s.
    Proof. induction n; intros s Hs; simpl; [reflexivity|]. rewrite Hs. now apply IHn. Qed.

    Lemma iter_progress : forall n s,
      NoDup s -> in_heap_list s ->
      let s' := iter_n n (expand follow h) s in
      NoDup s' /\ in_heap_list s' /\ (closed s' \/ length s + n <= length s').
    Proof.
      induction n as [|n IH]; intros s Hnd Hih; simpl.
      - split; [assumption|]. split; [assumption|]. right. lia.
      - assert (Hnd' : NoDup (expand follow h s)) by (now apply add_all_NoDup).
        assert (Hih' : in_heap_list (expand follow h s)) by (now apply expand_in_heap).
        destruct (IH _ Hnd' Hih') as (A & B & C). split; [assumption|]. split; [assumption|].
        destruct C as [C|C]; [now left|].
        destruct (le_lt_dec (length (expand follow h s)) (length s)) as [Hle|Hlt].
        + left. assert (Hc : closed s) by (now apply add_all_fix).
          unfold closed. rewrite Hc. rewrite iter_closed; assumption.
        + right. lia.
    Qed.

    Lemma closure_closed : closed (closure follow h).
    Proof.
      unfold closure.
      assert (Hnd : NoDup (add_all [] (root_addrs h))) by (apply add_all_NoDup; constructor).
      assert (Hih : in_heap_list (add_all [] (root_addrs h))).
      { intros a Hin. apply add_all_spec in Hin. destruct Hin as [[]|Hin].
        unfold root_addrs in Hin. apply in_map_iff in Hin. destruct Hin as [q [<- Hq]].
        apply filter_In in Hq. unfold addrs. apply in_map. tauto. }
      destruct (iter_progress (length h) _ Hnd Hih) as (A & B & [C|C]); [exact C|].
      set (s0 := add_all [] (root_addrs h)) in *.
      set (s' := iter_n (length h) (expand follow h) s0) in *.
      pose proof (NoDup_incl_length A B) as Hlen. unfold addrs in Hlen. rewrite map_length in Hlen.
      (* then s0 is empty, and the empty set is closed *)
      assert (E0 : s0 = []) by (destruct s0; [reflexivity | simpl in C; lia]).
      subst s'. rewrite E0. assert (Hc : closed []) by reflexivity.
      unfold closed. rewrite iter_closed; assumption.
    Qed.

    Lemma closed_complete s :
      closed s -> (forall a, In a (root_addrs h) -> In a s) -> forall a, reach follow h a -> In a s.
    Proof.
      intros Hc Hr a Ha. induction Ha as [a o L R | a o r t Ha IH L Hin Hf Ht].
      - apply Hr. unfold root_addrs. change a with (fst (a, o)). apply in_map. apply filter_In.
        split; [now apply lookup_In | exact R].
      - rewrite <- Hc. unfold expand. apply add_all_spec. right.
        apply in_flat_map. exists a. split; [assumption|]. apply succs_spec. exists o, r. tauto.
    Qed.

    Lemma iter_incl : forall n s a, In a s -> In a (iter_n n (expand follow h) s).
    Proof.
      induction n; intros s a Ha; simpl; [assumption|]. apply IHn. unfold expand. apply add_all_spec. now left.
    Qed.

    Theorem closure_adequate : wf h -> forall a, In a (closure follow h) <-> reach follow h a.
    Proof.
      intros Hwf a. split.
      - apply iter_sound. now apply roots_sound.
      - apply closed_complete; [apply closure_closed|].
        intros b Hb. unfold closure. apply iter_incl. apply add_all_spec. now right.
    Qed.
  End Closure.

  Theorem closure_marks_adequate h a : wf h -> (In a (closure_marks marks h) <-> reach_marks h a).
  Proof. intros Hwf. now apply closure_adequate. Qed.

  Theorem closure_any_adequate h a : wf h -> (In a (closure_any marks bb bm h) <-> reach_any h a).
  Proof. intros Hwf. now apply closure_adequate. Qed.

End CollectorProofs.

(* ------------------------------------------------------------------ *)
(* Theorem 5: table coverage                                           *)

Theorem holds_covered holds marks pinned :
  tables_cover holds marks pinned = true ->
  forall k r, In r (holds k) -> marks k r = true \/ pinned k r = true.
Proof. apply tables_cover_spec. Qed.

(* today's code: three (kind, role) pairs are held but neither traced nor pinned *)
Theorem holds_covered_ref_refuted :
  tables_cover holds_ref marks_ref pinned_ref = false /\
  uncovered holds_ref marks_ref pinned_ref =
    [(KUpvalue, ROpenSlot); (KClass, RSuperclass); (KHashMap, RKey)].
Proof. split; vm_compute; reflexivity. Qed.

Theorem holds_covered_fixed : tables_cover holds_ref marks_fixed pinned_ref = true.
Proof. vm_compute. reflexivity. Qed.

Theorem tables_within_ref :
  tables_within holds_ref marks_ref blackens_black_ref blackens_mark_ref = true /\
  tables_within holds_ref marks_fixed blackens_black_fixed blackens_mark_fixed = true.
Proof. split; vm_compute; reflexivity. Qed.

Theorem tables_agree_ref :
  tables_agree marks_ref blackens_black_ref blackens_mark_ref = true /\
  tables_agree marks_fixed blackens_black_fixed blackens_mark_fixed = true.
Proof. split; vm_compute; reflexivity. Qed.

Theorem no_regrey_ref_refuted : no_regrey blackens_mark_ref = false.
Proof. vm_compute. reflexivity. Qed.

Theorem no_regrey_fixed : no_regrey blackens_mark_fixed = true.
Proof. vm_compute. reflexivity. Qed.

(* ------------------------------------------------------------------ *)
(* Theorem 1, refuted for today's tables: ObjBoundMethod::blacken marks its receiver, and the
   collector can loop forever (trace_references) or recurse forever (blacken).                *)

Open Scope N_scope.

Notation run_ref := (run marks_ref blackens_black_ref blackens_mark_ref).
Notation collect_with_ref := (collect_with marks_ref blackens_black_ref blackens_mark_ref).

(* `var v = []; var x = v.push; var w = []; var y = w.push; v.push(y); w.push(x);`, x rooted *)
Definition loop_heap : heap :=
  [ (0, mkObj KNative 1 [] 8);
    (1, mkObj KVec 0 [(RElem, 4)] 8);
    (2, mkObj KBoundNative 1 [(RReceiver, 1); (RBoundFn, 0)] 8);
    (3, mkObj KVec 0 [(RElem, 2)] 8);
    (4, mkObj KBoundNative 0 [(RReceiver, 3); (RBoundFn, 0)] 8) ].

Definition loop_c1 : cmap :=
  Eval vm_compute in
    match run_ref 100 loop_heap (map IMark (root_addrs loop_heap)) cempty false with
    | Some (c, _) => c | None => cempty end.
Definition loop_c2 : cmap :=
  Eval vm_compute in
    match run_ref 100 loop_heap (map IVisit (addrs loop_heap)) loop_c1 false with
    | Some (c, _) => c | None => cempty end.

Lemma loop_R1 : run_ref 100 loop_heap (map IMark (root_addrs loop_heap)) cempty false = Some (loop_c1, false).
Proof. vm_compute. reflexivity. Qed.
Lemma loop_R2 : run_ref 100 loop_heap (map IVisit (addrs loop_heap)) loop_c1 false = Some (loop_c2, true).
Proof. vm_compute. reflexivity. Qed.
(* the state after a pass is the state before it, and a Grey box was met: the `while` never exits *)
Lemma loop_R3 : run_ref 100 loop_heap (map IVisit (addrs loop_heap)) loop_c2 false = Some (loop_c2, true).
Proof. vm_compute. reflexivity. Qed.
Lemma loop_grey : existsb (fun a => is_grey (cget loop_c1 a)) (addrs loop_heap) = true.
Proof. vm_compute. reflexivity. Qed.

Lemma loop_stuck2 sf : forall pf,
  trace_loop marks_ref blackens_black_ref blackens_mark_ref pf sf loop_heap loop_c2 = None.
Proof.
  induction pf as [|pf IH]; simpl; [reflexivity|]. unfold pass.
  destruct (run_ref sf loop_heap (map IVisit (addrs loop_heap)) loop_c2 false) as [[c f]|] eqn:E; [|reflexivity].
  pose proof (run_det _ _ _ _ _ _ _ _ _ _ _ E loop_R3) as Eq. inversion Eq; subst. exact IH.
Qed.

Lemma loop_stuck1 sf pf :
  trace_loop marks_ref blackens_black_ref blackens_mark_ref pf sf loop_heap loop_c1 = None.
Proof.
  destruct pf as [|pf]; simpl; [reflexivity|]. unfold pass.
  destruct (run_ref sf loop_heap (map IVisit (addrs loop_heap)) loop_c1 false) as [[c f]|] eqn:E; [|reflexivity].
  pose proof (run_det _ _ _ _ _ _ _ _ _ _ _ E loop_R2) as Eq. inversion Eq; subst. apply loop_stuck2.
Qed.

Theorem loop_heap_diverges : forall sf pf, collect_with_ref sf pf loop_heap = None.
Proof.
  intros sf pf. unfold collect_with, final_colours, mark_roots.
  destruct (run_ref sf loop_heap (map IMark (root_addrs loop_heap)) cempty false) as [[c f]|] eqn:E; [|reflexivity].
  pose proof (run_det _ _ _ _ _ _ _ _ _ _ _ E loop_R1) as Eq. inversion Eq; subst. simpl.
  unfold trace_references. rewrite loop_grey. now rewrite loop_stuck1.
Qed.

(* `fn make(){ var r = nil; class A { fn m(self){ return r; } } r = A.new(); r.f = r.m; return r; }`:
   instance 1 -field-> bound method 2 -receiver-> 1, 2 -method-> closure 3 -upvalue-> 4 -closed-> 1 *)
Definition rec_heap : heap :=
  [ (1, mkObj KInstance 1 [(RField, 2)] 8);
    (2, mkObj KBoundMethod 0 [(RReceiver, 1); (RBoundFn, 3)] 8);
    (3, mkObj KClosure 0 [(RUpvalue, 4)] 8);
    (4, mkObj KUpvalue 0 [(RClosedValue, 1)] 8) ].

Definition rec_c1 : cmap :=
  Eval vm_compute in
    match run_ref 100 rec_heap (map IMark (root_addrs rec_heap)) cempty false with
    | Some (c, _) => c | None => cempty end.
Definition rec_st : list item := [IBlacken 3; IVisit 2; IVisit 3; IVisit 4].

Lemma rec_R1 : run_ref 100 rec_heap (map IMark (root_addrs rec_heap)) cempty false = Some (rec_c1, false).
Proof. vm_compute. reflexivity. Qed.

(* seven calls into the first pass the pending-call state is (rec_st, all Grey) ... *)
Lemma rec_enter f :
  run_ref (7 + f) rec_heap (map IVisit (addrs rec_heap)) rec_c1 false = run_ref f rec_heap rec_st rec_c1 true.
Proof. reflexivity. Qed.
(* ... and ten calls later it is the same state again, inside the same outermost blacken *)
Lemma rec_cycle f : run_ref (10 + f) rec_heap rec_st rec_c1 true = run_ref f rec_heap rec_st rec_c1 true.
Proof. reflexivity. Qed.

Lemma rec_stuck : forall f, run_ref f rec_heap rec_st rec_c1 true = None.
Proof.
  induction f as [f IH] using lt_wf_ind.
  do 10 (destruct f as [|f]; [reflexivity|]).
  change (S (S (S (S (S (S (S (S (S (S f)))))))))) with (10 + f)%nat.
  rewrite rec_cycle. apply IH. lia.
Qed.

Lemma rec_pass_stuck sf : pass marks_ref blackens_black_ref blackens_mark_ref sf rec_heap rec_c1 = None.
Proof.
  unfold pass. do 7 (destruct sf as [|sf]; [reflexivity|]).
  change (S (S (S (S (S (S (S sf))))))) with (7 + sf)%nat. rewrite rec_enter. apply rec_stuck.
Qed.

Theorem rec_heap_diverges : forall sf pf, collect_with_ref sf pf rec_heap = None.
Proof.
  intros sf pf. unfold collect_with, final_colours, mark_roots.
  destruct (run_ref sf rec_heap (map IMark (root_addrs rec_heap)) cempty false) as [[c f]|] eqn:E; [|reflexivity].
  pose proof (run_det _ _ _ _ _ _ _ _ _ _ _ E rec_R1) as Eq. inversion Eq; subst. simpl.
  unfold trace_references.
  replace (existsb (fun a => is_grey (cget rec_c1 a)) (addrs rec_heap)) with true by (vm_compute; reflexivity).
  destruct pf as [|pf]; simpl; [reflexivity|]. now rewrite rec_pass_stuck.
Qed.

Theorem collect_terminates_refuted :
  exists h, wf h /\ forall sf pf, collect_with_ref sf pf h = None.
Proof.
  exists loop_heap. split; [apply wfb_wf; vm_compute; reflexivity | apply loop_heap_diverges].
Qed.

Theorem collect_terminates_refuted_recursion :
  exists h, wf h /\ forall sf pf, collect_with_ref sf pf h = None.
Proof.
  exists rec_heap. split; [apply wfb_wf; vm_compute; reflexivity | apply rec_heap_diverges].
Qed.

(* with receiver.blacken() instead of receiver.mark() both heaps are collected *)
Example loop_heap_fixed :
  survivors_opt marks_fixed blackens_black_fixed blackens_mark_fixed loop_heap = Some [0; 1; 2; 3; 4]
  /\ survivors_opt marks_fixed blackens_black_fixed blackens_mark_fixed rec_heap = Some [1; 2; 3; 4].
Proof. split; vm_compute; reflexivity. Qed.

(* closedness needs a relation between the tables: a blacken-only edge retains a box whose
   mark-edges are never looked at *)
Definition adv_marks (k : kind) (r : role) : bool :=
  match k, r with KVec, RElem => true | _, _ => false end.
Definition adv_bb (k : kind) (r : role) : bool :=
  match k, r with KTuple, RElem => true | _, _ => false end.
Definition adv_heap : heap :=
  [ (0, mkObj KTuple 1 [(RElem, 1)] 8); (1, mkObj KVec 0 [(RElem, 2)] 8); (2, mkObj KString 0 [] 8) ].

Theorem collect_closed_refuted :
  exists marks bb bm h h' a o r t,
    wf h /\ collect_opt marks bb bm h = Some h' /\ lookup h' a = Some o /\ In (r, t) (oedges o) /\
    marks (okind o) r = true /\ lookup h t <> None /\ lookup h' t = None.
Proof.
  exists adv_marks, adv_bb, none_traced, adv_heap.
  eexists. exists 1, (mkObj KVec 0 [(RElem, 2)] 8), RElem, 2.
  split; [apply wfb_wf; vm_compute; reflexivity|].
  split; [vm_compute; reflexivity|].
  split; [vm_compute; reflexivity|].
  split; [now left|]. split; [reflexivity|]. split; [vm_compute; discriminate | vm_compute; reflexivity].
Qed.

(* ------------------------------------------------------------------ *)
(* Examples: the hypotheses hold on a non-trivial heap                 *)

Definition ex_heap : heap :=
  [ (10, mkObj KClass 1 [(RMetaclass, 11); (RMethod, 14)] 72);
    (11, mkObj KClass 0 [] 72);
    (12, mkObj KInstance 1 [(RClass, 10); (RField, 13)] 40);
    (13, mkObj KVec 0 [(RElem, 12); (RElem, 15)] 40);          (* cycle 12 -> 13 -> 12 *)
    (14, mkObj KClosure 0 [(RFunction, 16)] 48);
    (15, mkObj KBoundMethod 0 [(RReceiver, 12); (RBoundFn, 14)] 32);
    (16, mkObj KFunction 0 [(RChunk, 17)] 56);
    (17, mkObj KChunk 0 [(RConstant, 18)] 120);
    (18, mkObj KString 1 [] 48);
    (19, mkObj KHashMap 1 [(RKey, 20); (RValue, 18)] 48);
    (20, mkObj KTuple 0 [] 40);                                 (* reachable only as a map key *)
    (21, mkObj KVec 0 [(RElem, 22)] 40);                        (* unreachable cycle *)
    (22, mkObj KVec 0 [(RElem, 21)] 40) ].

Example ex_wf : wf ex_heap /\ wf_at 23 ex_heap.
Proof.
  assert (W : wf ex_heap) by (apply wfb_wf; vm_compute; reflexivity).
  split; [exact W|]. split; [exact W|].
  intros a o Hin. simpl in Hin.
  repeat (destruct Hin as [E|Hin]; [inversion E; subst; split; [reflexivity|];
    intros r t Ht; simpl in Ht; repeat (destruct Ht as [Et|Ht]; [inversion Et; subst; reflexivity|]); contradiction|]).
  contradiction.
Qed.

Example ex_collect_ref :
  survivors_opt marks_ref blackens_black_ref blackens_mark_ref ex_heap
  = Some [10; 11; 12; 13; 14; 15; 16; 17; 18; 19]
  /\ freed_opt marks_ref blackens_black_ref blackens_mark_ref ex_heap = Some 120
  /\ closure_marks marks_ref ex_heap = [10; 12; 18; 19; 11; 14; 13; 16; 15; 17]
  /\ survivors_opt marks_fixed blackens_black_fixed blackens_mark_fixed ex_heap
  = Some [10; 11; 12; 13; 14; 15; 16; 17; 18; 19; 20].
Proof. repeat split; vm_compute; reflexivity. Qed.

(* hypotheses of collect_retains_reach / collect_only_reach / collect_exact / collect_closed *)
Example ex_hyps :
  exists h', collect_opt marks_ref blackens_black_ref blackens_mark_ref ex_heap = Some h' /\
             wf ex_heap /\ tables_agree marks_ref blackens_black_ref blackens_mark_ref = true /\
             reach_marks marks_ref ex_heap 15 /\ lookup h' 15 <> None /\
             ~ reach_marks marks_ref ex_heap 20.
Proof.
  eexists. split; [vm_compute; reflexivity|]. split; [apply ex_wf|]. split; [apply tables_agree_ref|].
  split; [|split].
  - apply closure_marks_adequate; [apply ex_wf|]. vm_compute. tauto.
  - vm_compute. discriminate.
  - intros H. apply closure_marks_adequate in H; [|apply ex_wf]. vm_compute in H.
    repeat (destruct H as [H|H]; [discriminate|]). contradiction.
Qed.

(* hypothesis of collect_terminates *)
Example ex_terminates :
  no_regrey blackens_mark_fixed = true /\
  collect_opt marks_fixed blackens_black_fixed blackens_mark_fixed ex_heap <> None.
Proof. split; [apply no_regrey_fixed | apply collect_terminates; apply no_regrey_fixed]. Qed.

Close Scope N_scope.

Print Assumptions collect_terminates.
Print Assumptions collect_terminates_refuted.
Print Assumptions collect_terminates_refuted_recursion.
Print Assumptions collect_retains_reach.
Print Assumptions collect_only_reach.
Print Assumptions collect_exact_when_tables_agree.
Print Assumptions collect_closed.
Print Assumptions collect_closed_refuted.
Print Assumptions collect_wf.
Print Assumptions freed_exact_with.
Print Assumptions closure_marks_adequate.
Print Assumptions closure_any_adequate.
Print Assumptions holds_covered.
Print Assumptions holds_covered_ref_refuted.
Print Assumptions holds_covered_fixed.
