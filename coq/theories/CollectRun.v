(* CollectRun.v -- runner for the correspondence check impl == M of the collector ALGORITHM (C01).
   Definitions only.

   The harness (ext_c01.rs, command `gcsnap`) dumps, for every box of the real heap right before a forced
   collection, what hook `verif::snapshot()` observed: id, kind, num_roots, the boxes turned Grey by the real
   `mark` of that box alone, and the boxes turned Black / Grey by the real `blacken` of that box alone.
   Those three sets become edges with three reserved roles, each followed by exactly one of the model's
   three tables; the model's collector (Collect.v: root test, grey/black colour loop, sweep condition) must
   then retain exactly the boxes the real collector retained.

   Wire format (YV.Wire.parse_nss; one group per box, `;`-separated, numbers space-separated):
       id kind num_roots  nm m_1 .. m_nm  nb b_1 .. b_nb  ng g_1 .. g_ng *)
From Coq Require Import List NArith Bool String.
From YV Require Import Show Wire Heap Collect.
Import ListNotations.

Definition snap_marks (_ : kind) (r : role) : bool := role_eqb r RElem.   (* observed mark closure       *)
Definition snap_bb (_ : kind) (r : role) : bool := role_eqb r RKey.       (* observed blacken -> Black    *)
Definition snap_bm (_ : kind) (r : role) : bool := role_eqb r RValue.     (* observed blacken -> Grey     *)

Fixpoint take_n {A} (n : nat) (l : list A) : list A * list A :=
  match n, l with
  | O, _ => ([], l)
  | S m, x :: r => let '(a, b) := take_n m r in (x :: a, b)
  | S _, [] => ([], [])
  end.

(* a counted list: n x_1 .. x_n rest *)
Definition counted (l : list N) : list N * list N :=
  match l with
  | [] => ([], [])
  | n :: r => take_n (N.to_nat n) r
  end.

Definition box_of_group (g : list N) : option (addr * obj) :=
  match g with
  | id :: k :: nr :: rest =>
      let '(ms, r1) := counted rest in
      let '(bs, r2) := counted r1 in
      let '(gs, _) := counted r2 in
      Some (id, mkObj (kind_of_N k) (N.to_nat nr)
                      (map (fun t => (RElem, t)) ms ++ map (fun t => (RKey, t)) bs ++ map (fun t => (RValue, t)) gs)
                      1%N)
  | _ => None
  end.

Fixpoint heap_of_groups (gs : list (list N)) : heap :=
  match gs with
  | [] => []
  | g :: r => match box_of_group g with Some b => b :: heap_of_groups r | None => heap_of_groups r end
  end.

(* closure edges make `total_edges` quadratic; the pending-call stack of one phase is still bounded by
   (boxes + edges), which the default fuel of Collect.v covers *)
Definition run_snapshot_w (s : string) : string :=
  show_survivors_opt (survivors_opt snap_marks snap_bb snap_bm (heap_of_groups (parse_nss s))).
