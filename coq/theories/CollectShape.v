(* CollectShape.v -- (1) the SHAPE of the collector algorithm as the translator reads it from memory.rs
   (GcBox::unmark/mark/blacken, Heap::collect/mark_roots/trace_references/sweep), with the reference shape
   `collector_shape_ref` = what Collect.v models; props/C01.v states `collector_shape_gen = collector_shape_ref`.
   (2) Mechanism variants with a bound on the DEPTH of the mark / blacken recursion (round 7 of the seeded
   changes: "cap the recursion at 1024 nested calls"), parameterised by what happens to a box met at the
   limit.  Definitions only (proofs: CollectShapeProofs.v).  Owner: C01. *)
From Coq Require Import List NArith Bool Arith FSets.FMapPositive.
From YV Require Import Show Heap Collect.
Import ListNotations.
Open Scope list_scope.

(* ---------- (1) shape of the collector ---------- *)

(* GcBox::mark / GcBox::blacken:
     if self.colour.replace(Colour::SET) == Colour::SKIP { return; }   self.data.<same op>();
   bf_forward: the last statement is exactly the unconditional call `self.data.op();`
   bf_guarded: something else is there too (an early return, a depth guard, a wrapper around the call, ...) *)
Record box_fn : Type := mkBoxFn {
  bf_skip : colour;
  bf_set : colour;
  bf_forward : bool;
  bf_guarded : bool
}.

Inductive phase : Type := PMarkRoots | PTrace | PSweep.

Record collector_shape : Type := mkCollectorShape {
  cs_unmark : colour;                 (* GcBox::unmark sets this colour *)
  cs_mark : box_fn;
  cs_blacken : box_fn;
  cs_roots_unmark_all : bool;         (* mark_roots: every box is unmarked first *)
  cs_root_test_positive : bool;       (* ... then, for every box, `if num_roots.get() > 0` *)
  cs_roots_call_mark : bool;          (*     `{ obj.mark(); }` *)
  cs_trace_filter : colour;           (* trace_references visits the boxes of this colour *)
  cs_trace_calls_blacken : bool;      (* ... and calls blacken on each *)
  cs_trace_until_no_grey : bool;      (* ... in passes over the whole heap, until a pass meets none *)
  cs_sweep_retain : colour;           (* sweep keeps exactly the boxes of this colour *)
  cs_sweep_counts : colour;           (* and reports the bytes of the boxes of this colour as freed *)
  cs_phases : list phase              (* Heap::collect: the phases, in order *)
}.

(* what Collect.v models: step (IMark: skip Grey, set Grey, mark_children; IBlacken: skip Black, set Black,
   blacken_children; IVisit: Grey -> blacken), mark_roots (cempty = all White, then IMark every rooted box),
   trace_loop (passes until none found), sweep (filter is_black), white_bytes, final_colours (roots, trace) + sweep *)
Definition collector_shape_ref : collector_shape :=
  mkCollectorShape White (mkBoxFn Grey Grey true false) (mkBoxFn Black Black true false)
    true true true
    Grey true true
    Black White [PMarkRoots; PTrace; PSweep].

Definition colour_eqb (a b : colour) : bool :=
  match a, b with White, White | Grey, Grey | Black, Black => true | _, _ => false end.
Definition box_fn_eqb (a b : box_fn) : bool :=
  colour_eqb (bf_skip a) (bf_skip b) && colour_eqb (bf_set a) (bf_set b) &&
  Bool.eqb (bf_forward a) (bf_forward b) && Bool.eqb (bf_guarded a) (bf_guarded b).

(* ---------- (2) depth-bounded variants of the collector ---------- *)

(* what `blacken` does with a box it meets when the nesting depth has reached the limit *)
Inductive at_limit : Type :=
| LBlackNoChildren   (* the seeded change: the colour is already Black when the guard is evaluated; children are not visited *)
| LSkip              (* guard before the colour update: the box keeps the colour it had *)
| LGrey.             (* the box is made Grey: a later pass of trace_references resumes from it *)

(* pending calls, with the nesting depth of the call *)
Inductive ditem : Type :=
| DMark (a : addr) (d : nat)
| DBlacken (a : addr) (d : nat)
| DVisit (a : addr).

Definition erase (it : ditem) : item :=
  match it with DMark a _ => IMark a | DBlacken a _ => IBlacken a | DVisit a => IVisit a end.

Definition at_depth (d : nat) (it : item) : ditem :=
  match it with IMark a => DMark a d | IBlacken a => DBlacken a d | IVisit a => DVisit a end.

Definition under (lim : option nat) (d : nat) : bool :=
  match lim with None => true | Some l => Nat.ltb d l end.

Section Depth.
  Variables marks blackens_black blackens_mark : kind -> role -> bool.
  Variable lim_mark lim_blacken : option nat.   (* None = unbounded *)
  Variable lim_what : at_limit.

  (* `mark` at the limit: the box becomes Grey, its children are not visited (sound: trace_references meets it) *)
  Definition step_d (h : heap) (it : ditem) (c : cmap) : list ditem * cmap * bool :=
    match it with
    | DMark a d =>
        match lookup h a with
        | None => ([], c, false)
        | Some o => if is_grey (cget c a) then ([], c, false)
                    else ((if under lim_mark d then map (at_depth (S d)) (mark_children marks o) else []),
                          cset a Grey c, false)
        end
    | DBlacken a d =>
        match lookup h a with
        | None => ([], c, false)
        | Some o => if is_black (cget c a) then ([], c, false)
                    else if under lim_blacken d
                         then (map (at_depth (S d)) (blacken_children blackens_black blackens_mark o), cset a Black c, false)
                         else ([], match lim_what with
                                   | LBlackNoChildren => cset a Black c
                                   | LSkip => c
                                   | LGrey => cset a Grey c
                                   end, false)
        end
    | DVisit a => if is_grey (cget c a) then ([DBlacken a 0], c, true) else ([], c, false)
    end.

  Fixpoint run_d (fuel : nat) (h : heap) (st : list ditem) (c : cmap) (found : bool) : option (cmap * bool) :=
    match st with
    | [] => Some (c, found)
    | it :: rest =>
        match fuel with
        | O => None
        | S f => let '(new, c', g) := step_d h it c in run_d f h (new ++ rest) c' (found || g)
        end
    end.

  Definition mark_roots_d (sf : nat) (h : heap) : option cmap :=
    option_map fst (run_d sf h (map (fun a => DMark a 0) (root_addrs h)) cempty false).

  Definition pass_d (sf : nat) (h : heap) (c : cmap) : option (cmap * bool) :=
    run_d sf h (map DVisit (addrs h)) c false.

  Fixpoint trace_loop_d (pf sf : nat) (h : heap) (c : cmap) : option cmap :=
    match pf with
    | O => None
    | S p => match pass_d sf h c with
             | None => None
             | Some (c', fnd) => if fnd then trace_loop_d p sf h c' else Some c'
             end
    end.

  Definition trace_references_d (pf sf : nat) (h : heap) (c : cmap) : option cmap :=
    if existsb (fun a => is_grey (cget c a)) (addrs h) then trace_loop_d pf sf h c else Some c.

  Definition final_colours_d (sf pf : nat) (h : heap) : option cmap :=
    match mark_roots_d sf h with
    | None => None
    | Some c => trace_references_d pf sf h c
    end.

  Definition collect_with_d (sf pf : nat) (h : heap) : option heap :=
    option_map (sweep h) (final_colours_d sf pf h).

  Definition collect_opt_d (h : heap) : option heap := collect_with_d (step_fuel h) (pass_fuel h) h.

  Definition survivors_opt_d (h : heap) : option (list addr) := option_map addrs (collect_opt_d h).
End Depth.

(* a chain  0 -> 1 -> ... -> n  of vecs, box 0 rooted: the demo heap of the seeded change *)
Fixpoint chain_from (a : N) (n : nat) : heap :=
  match n with
  | O => [(a, mkObj KVec 0 [] 40%N)]
  | S m => (a, mkObj KVec 0 [(RElem, N.succ a)] 40%N) :: chain_from (N.succ a) m
  end.

Definition chain_heap (n : nat) : heap :=
  match chain_from 0%N n with
  | (a, o) :: r => (a, mkObj (okind o) 1 (oedges o) (osize o)) :: r
  | [] => []
  end.
