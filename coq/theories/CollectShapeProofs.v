(* CollectShapeProofs.v -- proofs about the depth-bounded Mechanism variants of CollectShape.v.  Owner: C01.

   collect_d_unbounded            with no bound the depth-annotated collector IS Collect.v's collector (all tables, heaps, fuels)
   bounded_both_black_refuted     the seeded change (mark and blacken both capped, blacken's cap after the colour update):
                                  a reachable box of a chain is reclaimed
   bounded_both_skip_refuted      the "careful" sibling (blacken's cap before the colour update): still reclaims reachable boxes
   seeded_limit_1024_refuted      the seed's own constants: limit 1024, a chain of 1501 boxes: 1025 survive
   bounded_one_site_partial       each cap ALONE keeps the whole chain (mark only; blacken only): the defect needs both sites
   bounded_grey_partial           a cap that leaves the box Grey keeps the whole chain (witness heaps only; not proved in general) *)
From Coq Require Import List NArith Bool Arith Lia.
From YV Require Import Show Heap HeapTablesRef Collect CollectProofs CollectShape.
Import ListNotations.
Open Scope list_scope.

Section Unbounded.
  Variables marks bb bm : kind -> role -> bool.
  Variable w : at_limit.

  Lemma erase_at_depth d it : erase (at_depth d it) = it.
  Proof. destruct it; reflexivity. Qed.

  Lemma map_erase_at_depth d l : map erase (map (at_depth d) l) = l.
  Proof. induction l as [|x l IH]; simpl; [reflexivity|]. now rewrite erase_at_depth, IH. Qed.

  Lemma step_d_unbounded h it c :
    (let '(new, c', g) := step_d marks bb bm None None w h it c in (map erase new, c', g))
    = step marks bb bm h (erase it) c.
  Proof.
    destruct it as [a d|a d|a]; simpl.
    - destruct (lookup h a) as [o|]; [|reflexivity].
      destruct (is_grey (cget c a)); [reflexivity|]. now rewrite map_erase_at_depth.
    - destruct (lookup h a) as [o|]; [|reflexivity].
      destruct (is_black (cget c a)); [reflexivity|]. now rewrite map_erase_at_depth.
    - destruct (is_grey (cget c a)); reflexivity.
  Qed.

  Lemma run_d_unbounded h fuel : forall st c f,
    run_d marks bb bm None None w fuel h st c f = run marks bb bm fuel h (map erase st) c f.
  Proof.
    induction fuel as [|fuel IH]; intros st c f; destruct st as [|it rest]; simpl; try reflexivity.
    pose proof (step_d_unbounded h it c) as E.
    destruct (step_d marks bb bm None None w h it c) as [[new c'] g].
    rewrite <- E. rewrite IH, map_app. reflexivity.
  Qed.

  Lemma mark_roots_d_unbounded sf h :
    mark_roots_d marks bb bm None None w sf h = mark_roots marks bb bm sf h.
  Proof.
    unfold mark_roots_d, mark_roots. rewrite run_d_unbounded, map_map. reflexivity.
  Qed.

  Lemma pass_d_unbounded sf h c :
    pass_d marks bb bm None None w sf h c = pass marks bb bm sf h c.
  Proof. unfold pass_d, pass. rewrite run_d_unbounded, map_map. reflexivity. Qed.

  Lemma trace_loop_d_unbounded sf h pf : forall c,
    trace_loop_d marks bb bm None None w pf sf h c = trace_loop marks bb bm pf sf h c.
  Proof.
    induction pf as [|pf IH]; intros c; simpl; [reflexivity|].
    rewrite pass_d_unbounded. destruct (pass marks bb bm sf h c) as [[c' fnd]|]; [|reflexivity].
    destruct fnd; [apply IH | reflexivity].
  Qed.

  Theorem collect_d_unbounded sf pf h :
    collect_with_d marks bb bm None None w sf pf h = collect_with marks bb bm sf pf h.
  Proof.
    unfold collect_with_d, collect_with, final_colours_d, final_colours.
    rewrite mark_roots_d_unbounded. destruct (mark_roots marks bb bm sf h) as [c|]; [|reflexivity].
    unfold trace_references_d, trace_references. now rewrite trace_loop_d_unbounded.
  Qed.

  Corollary collect_opt_d_unbounded h :
    collect_opt_d marks bb bm None None w h = collect_opt marks bb bm h.
  Proof. apply collect_d_unbounded. Qed.
End Unbounded.

(* ---------- witnesses ---------- *)
Open Scope N_scope.

Notation sv_ref := (survivors_opt_d marks_ref blackens_black_ref blackens_mark_ref).

Lemma chain8_wf : wf (chain_heap 8).
Proof. apply wfb_wf. vm_compute. reflexivity. Qed.

Lemma chain8_all_reachable : forall a, In a [0; 1; 2; 3; 4; 5; 6; 7; 8] -> reach_marks marks_ref (chain_heap 8) a.
Proof.
  intros a Ha. apply closure_marks_adequate; [apply chain8_wf|]. vm_compute. exact Ha.
Qed.

(* the seeded change: both recursions capped at the same nesting depth, `blacken` has set Black before its guard *)
Theorem bounded_both_black_refuted :
  wf (chain_heap 8) /\ reach_marks marks_ref (chain_heap 8) 8 /\
  survivors_opt marks_ref blackens_black_ref blackens_mark_ref (chain_heap 8) = Some [0; 1; 2; 3; 4; 5; 6; 7; 8] /\
  sv_ref (Some 3%nat) (Some 3%nat) LBlackNoChildren (chain_heap 8) = Some [0; 1; 2; 3].
Proof.
  split; [apply chain8_wf|]. split; [apply chain8_all_reachable; vm_compute; tauto|].
  split; vm_compute; reflexivity.
Qed.

(* guard before the colour update: the box at the limit keeps its colour - White beyond mark's own limit *)
Theorem bounded_both_skip_refuted :
  reach_marks marks_ref (chain_heap 8) 8 /\
  sv_ref (Some 3%nat) (Some 3%nat) LSkip (chain_heap 8) = Some [0; 1; 2; 3; 4; 5].
Proof. split; [apply chain8_all_reachable; vm_compute; tauto | vm_compute; reflexivity]. Qed.

(* the seed's constants *)
Theorem seeded_limit_1024_refuted :
  option_map (@length addr) (sv_ref (Some 1024%nat) (Some 1024%nat) LBlackNoChildren (chain_heap 1500)) = Some 1025%nat /\
  option_map (@length addr) (survivors_opt marks_ref blackens_black_ref blackens_mark_ref (chain_heap 1500)) = Some 1501%nat.
Proof. split; vm_compute; reflexivity. Qed.

(* each cap alone keeps the whole chain: the cap in `mark` leaves a Grey box that trace_references resumes from; the
   cap in `blacken` alone meets only boxes that the unbounded `mark` has already made Grey *)
Theorem bounded_one_site_partial :
  sv_ref (Some 3%nat) None LBlackNoChildren (chain_heap 8) = Some [0; 1; 2; 3; 4; 5; 6; 7; 8] /\
  sv_ref None (Some 3%nat) LBlackNoChildren (chain_heap 8) = Some [0; 1; 2; 3; 4; 5; 6; 7; 8] /\
  sv_ref None (Some 3%nat) LSkip (chain_heap 8) = Some [0; 1; 2; 3; 4; 5; 6; 7; 8].
Proof. repeat split; vm_compute; reflexivity. Qed.

(* a cap that makes the box Grey (so that a later pass resumes from it) keeps the whole chain, for limits 3 and 1 *)
Theorem bounded_grey_partial :
  sv_ref (Some 3%nat) (Some 3%nat) LGrey (chain_heap 8) = Some [0; 1; 2; 3; 4; 5; 6; 7; 8] /\
  sv_ref (Some 1%nat) (Some 1%nat) LGrey (chain_heap 8) = Some [0; 1; 2; 3; 4; 5; 6; 7; 8].
Proof. split; vm_compute; reflexivity. Qed.

Close Scope N_scope.

Print Assumptions collect_d_unbounded.
Print Assumptions bounded_both_black_refuted.
Print Assumptions bounded_both_skip_refuted.
Print Assumptions seeded_limit_1024_refuted.
Print Assumptions bounded_one_site_partial.
Print Assumptions bounded_grey_partial.
