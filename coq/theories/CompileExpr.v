(* C05 — the emitters of compiler.rs for the expression / statement fragment, one for one, and
   the assembler that yields the bytes of `chunk.code`.  DEFINITIONS ONLY.

   Instructions are symbolic: constants are carried as values (the assembler allots table
   indices in the order of the compiler's `make_constant` calls, de-duplicated as
   Chunk::add_constant does), jumps carry the NUMBER OF INSTRUCTIONS they skip (the assembler
   turns that into the u16 byte offset patch_jump / emit_loop write).

   [ITouch c] emits no byte: it marks a `make_constant` call whose instruction comes later
   (`var x = e;` and `x = e` on a global call identifier_constant BEFORE compiling e). *)
From Coq Require Import Strings.String.
From Coq Require Import List NArith ZArith Bool Arith.
From Coq Require Import Strings.Byte Floats.SpecFloat.
From YV Require Import Ast Num Bytecode.
Import ListNotations.
Local Open Scope nat_scope.
Local Open Scope list_scope.

Inductive const :=
| CNum (x : f64)
| CStr (s : list byte).

Inductive instr :=
| IConst (c : const)              (* Constant idx16 *)
| IOp (o : opcode)                (* opcode without operand *)
| IOp8 (o : opcode) (n : N)       (* GetLocal SetLocal BuildString BuildTuple BuildVec Call *)
| IGlobal (o : opcode) (x : name) (* GetGlobal SetGlobal DefineGlobal idx16-of-name *)
| IJump (o : opcode) (n : nat)    (* Jump / JumpIfFalse over the next n instructions *)
| ILoop (n : nat)                 (* Loop back over n instructions, this one included *)
| ITouch (c : const).             (* no bytes; see above *)

(* ------------------------------------------------------------------ *)
(* Compiler.locals / scope_depth / loop_stack                           *)

Fixpoint bytes_eqb (a b : list byte) : bool :=
  match a, b with
  | [], [] => true
  | x :: a', y :: b' => Byte.eqb x y && bytes_eqb a' b'
  | _, _ => false
  end.

Record cenv := mkEnv {
  clocals : list (name * nat);  (* initialised locals, NEWEST FIRST, with their scope depth;
                                   the last entry is the reserved slot 0 (name "", depth 0) *)
  cdepth : nat;                 (* scope_depth *)
  cpending : option name;       (* a local declared but not yet initialised (depth None):
                                   it is the newest entry of Compiler.locals *)
  cloop : option (nat * nat)    (* innermost loop: (scope_depth at push_loop, #locals then) *)
}.

Definition cenv0 : cenv := mkEnv [([], 0)] 0 None None.

Inductive lookup_res :=
| LFound (slot : N)
| LUninit            (* CompilerError::ReadVarInInitialiser *)
| LNone.

Fixpoint find_local (l : list (name * nat)) (x : name) : option nat :=
  match l with
  | [] => None
  | (y, _) :: r => if bytes_eqb x y then Some (length r) else find_local r x
  end.

(* Compiler::resolve_local: newest first; the pending local is the newest *)
Definition resolve_local (env : cenv) (x : name) : lookup_res :=
  match cpending env with
  | Some p => if bytes_eqb x p then LUninit
              else match find_local (clocals env) x with
                   | Some k => LFound (N.of_nat k)
                   | None => LNone
                   end
  | None => match find_local (clocals env) x with
            | Some k => LFound (N.of_nat k)
            | None => LNone
            end
  end.

(* resolve_variable: Some slot = local, None = global (script level: no upvalues).
   After ReadVarInInitialiser the real compiler records the error and falls through to the
   global path; [compile_ok] rejects such programs. *)
Definition resolve (env : cenv) (x : name) : option N :=
  match resolve_local env x with
  | LFound k => Some k
  | _ => None
  end.

(* ------------------------------------------------------------------ *)
(* Expression emitters                                                 *)

Definition binop_code (op : binop) : list instr :=
  match op with
  | BNe => [IOp OpEqual; IOp OpLogicalNot]
  | BEq => [IOp OpEqual]
  | BGt => [IOp OpGreater]
  | BGe => [IOp OpLess; IOp OpLogicalNot]
  | BLt => [IOp OpLess]
  | BLe => [IOp OpGreater; IOp OpLogicalNot]
  | BAdd => [IOp OpAdd]
  | BSub => [IOp OpSubtract]
  | BMul => [IOp OpMultiply]
  | BDiv => [IOp OpDivide]
  | BBitAnd => [IOp OpBitwiseAnd]
  | BBitOr => [IOp OpBitwiseOr]
  | BBitXor => [IOp OpBitwiseXor]
  | BMod => [IOp OpModulo]
  | BShl => [IOp OpBitShiftLeft]
  | BShr => [IOp OpBitShiftRight]
  end.

(* binary_assign's table: only the ten compound operators exist *)
Definition compound_code (op : binop) : list instr :=
  match op with
  | BEq | BNe | BLt | BLe | BGt | BGe => []
  | _ => binop_code op
  end.

Definition unop_code (op : unop) : list instr :=
  match op with
  | UNeg => [IOp OpNegate]
  | UNot => [IOp OpLogicalNot]
  | UBitNot => [IOp OpBitwiseNot]
  end.

Definition nlen {A} (l : list A) : N := N.of_nat (length l).

Fixpoint cexpr (env : cenv) (e : expr) {struct e} : list instr :=
  match e with
  | ENil => [IOp OpNil]
  | ETrue => [IOp OpTrue]
  | EFalse => [IOp OpFalse]
  | ENum x => [IConst (CNum x)]
  | EStr s => [IConst (CStr s)]
  | EInterp parts =>
    (fix go (ps : list interp_part) : list instr :=
       match ps with
       | [] => []
       | IPStr s :: r => IConst (CStr s) :: go r
       | IPExpr e1 :: r => cexpr env e1 ++ IOp OpFormatString :: go r
       end) parts ++ [IOp8 OpBuildString (nlen parts)]
  | EVar x =>
    match resolve env x with
    | Some k => [IOp8 OpGetLocal k]
    | None => [IGlobal OpGetGlobal x]
    end
  | EAssign x e1 =>
    match resolve env x with
    | Some k => cexpr env e1 ++ [IOp8 OpSetLocal k]
    | None => ITouch (CStr x) :: cexpr env e1 ++ [IGlobal OpSetGlobal x]
    end
  | ECompound x op e1 =>
    match resolve env x with
    | Some k => IOp8 OpGetLocal k :: cexpr env e1 ++ compound_code op ++ [IOp8 OpSetLocal k]
    | None => IGlobal OpGetGlobal x :: cexpr env e1 ++ compound_code op ++ [IGlobal OpSetGlobal x]
    end
  | EUnary op e1 => cexpr env e1 ++ unop_code op
  | EBinary op a b => cexpr env a ++ cexpr env b ++ binop_code op
  | EAnd a b =>
    let cb := cexpr env b in
    cexpr env a ++ IJump OpJumpIfFalse (S (length cb)) :: IOp OpPop :: cb
  | EOr a b =>
    let cb := cexpr env b in
    cexpr env a ++ IJump OpJumpIfFalse 1 :: IJump OpJump (S (length cb)) :: IOp OpPop :: cb
  | ERange a b => cexpr env a ++ cexpr env b ++ [IOp OpBuildRange]
  | ECall f args =>
    cexpr env f ++ flat_map (cexpr env) args ++ [IOp8 OpCall (nlen args)]
  | EIndex o i => cexpr env o ++ cexpr env i ++ [IOp OpGetItem]
  | ESetIndex o i e1 => cexpr env o ++ cexpr env i ++ cexpr env e1 ++ [IOp OpSetItem]
  | ETuple es => flat_map (cexpr env) es ++ [IOp8 OpBuildTuple (nlen es)]
  | EVec es => flat_map (cexpr env) es ++ [IOp8 OpBuildVec (nlen es)]
  | _ => []
  end.

(* ------------------------------------------------------------------ *)
(* Statement emitters                                                  *)

(* declare_variable + define_variable for a local: it becomes the newest initialised local *)
Definition add_local (env : cenv) (x : name) : cenv :=
  mkEnv ((x, cdepth env) :: clocals env) (cdepth env) None (cloop env).
Definition with_pending (env : cenv) (x : name) : cenv :=
  mkEnv (clocals env) (cdepth env) (Some x) (cloop env).
Definition begin_scope (env : cenv) : cenv :=
  mkEnv (clocals env) (S (cdepth env)) (cpending env) (cloop env).
Definition push_loop (env : cenv) : cenv :=
  mkEnv (clocals env) (cdepth env) (cpending env) (Some (cdepth env, length (clocals env))).

(* the environment after a statement: only a local `var` changes it *)
Definition env_after (env : cenv) (s : stmt) : cenv :=
  match s with
  | SVar _ x _ => match cdepth env with O => env | S _ => add_local env x end
  | _ => env
  end.

(* emit_scope_end: one Pop per local whose depth exceeds [d], scanning newest first *)
Fixpoint count_above (d : nat) (l : list (name * nat)) : nat :=
  match l with
  | (_, k) :: r => if d <? k then S (count_above d r) else 0
  | [] => 0
  end.

Definition pops (n : nat) : list instr := repeat (IOp OpPop) n.

(* locals a statement list declares at its own level *)
Fixpoint count_decls (l : list stmt) : nat :=
  match l with
  | SVar _ _ _ :: r => S (count_decls r)
  | _ :: r => count_decls r
  | [] => 0
  end.

(* pops emitted by break / continue: locals deeper than the loop's scope depth *)
Definition loop_pops (env : cenv) : nat :=
  match cloop env with
  | Some (d, _) => count_above d (clocals env)
  | None => 0
  end.

(* Number of instructions of a statement (needed for forward distances).  It depends on the
   environment only through local-vs-global resolution and the break/continue pops. *)
Fixpoint slen (env : cenv) (s : stmt) {struct s} : nat :=
  let slens := fix go (env : cenv) (l : list stmt) : nat :=
    match l with
    | [] => 0
    | x :: r => slen env x + go (env_after env x) r
    end in
  let blen := fun (env : cenv) (b : list stmt) =>
    slens (begin_scope env) b + count_decls b in
  match s with
  | SExpr _ e => S (length (cexpr env e))
  | SVar _ x init =>
    let il := match init with
              | Some e => length (cexpr (match cdepth env with O => env | S _ => with_pending env x end) e)
              | None => 1
              end in
    match cdepth env with O => S (S il) | S _ => il end
  | SBlock _ b => blen env b
  | SIf _ c t e =>
    length (cexpr env c) + 2 + blen env t + 2 +
    match e with Some s' => slen env s' | None => 0 end
  | SWhile _ c b => length (cexpr env c) + 2 + blen (push_loop env) b + 2
  | SBreak _ => S (loop_pops env)
  | SContinue _ => S (loop_pops env)
  | _ => 0
  end.

Fixpoint slens (env : cenv) (l : list stmt) : nat :=
  match l with
  | [] => 0
  | x :: r => slen env x + slens (env_after env x) r
  end.

Definition blen (env : cenv) (b : list stmt) : nat := slens (begin_scope env) b + count_decls b.

(* [bpf] = break_pops_first: true is the REPAIRED compiler (scope-end pops, then Jump);
   false is compiler.rs as it stands (Jump, then unreachable pops).
   [brk]  = instructions between the end of this statement's code and the loop's exit point;
   [cont] = instructions between the loop header and the start of this statement's code. *)
Fixpoint cstmt (bpf : bool) (env : cenv) (brk cont : nat) (s : stmt) {struct s} : list instr :=
  let cstmts := fix go (env : cenv) (brk cont : nat) (l : list stmt) : list instr :=
    match l with
    | [] => []
    | x :: r =>
      let env' := env_after env x in
      cstmt bpf env (slens env' r + brk) cont x ++ go env' brk (cont + slen env x) r
    end in
  let cblock := fun (env : cenv) (brk cont : nat) (b : list stmt) =>
    let n := count_decls b in
    cstmts (begin_scope env) (n + brk) cont b ++ pops n in
  match s with
  | SExpr _ e => cexpr env e ++ [IOp OpPop]
  | SVar _ x init =>
    match cdepth env with
    | O =>
      ITouch (CStr x) ::
      match init with Some e => cexpr env e | None => [IOp OpNil] end ++
      [IGlobal OpDefineGlobal x]
    | S _ =>
      match init with Some e => cexpr (with_pending env x) e | None => [IOp OpNil] end
    end
  | SBlock _ b => cblock env brk cont b
  | SIf _ c t e =>
    let cc := cexpr env c in
    let tl := blen env t in
    let el := match e with Some s' => slen env s' | None => 0 end in
    let ct := cblock env (2 + el + brk) (cont + length cc + 2) t in
    let ce := match e with
              | Some s' => cstmt bpf env brk (cont + length cc + 2 + tl + 2) s'
              | None => []
              end in
    cc ++ IJump OpJumpIfFalse (tl + 2) :: IOp OpPop :: ct ++
    IJump OpJump (S el) :: IOp OpPop :: ce
  | SWhile _ c b =>
    let cc := cexpr env c in
    let bl := blen (push_loop env) b in
    let cb := cblock (push_loop env) 2 (length cc + 2) b in
    cc ++ IJump OpJumpIfFalse (bl + 2) :: IOp OpPop :: cb ++
    [ILoop (length cc + 2 + bl + 1); IOp OpPop]
  | SBreak _ =>
    let n := loop_pops env in
    if bpf then pops n ++ [IJump OpJump brk]
    else IJump OpJump (n + brk) :: pops n
  | SContinue _ =>
    let n := loop_pops env in
    pops n ++ [ILoop (cont + n + 1)]
  | _ => []
  end.

Fixpoint cstmts (bpf : bool) (env : cenv) (brk cont : nat) (l : list stmt) : list instr :=
  match l with
  | [] => []
  | x :: r =>
    let env' := env_after env x in
    cstmt bpf env (slens env' r + brk) cont x ++ cstmts bpf env' brk (cont + slen env x) r
  end.

Definition cblock (bpf : bool) (env : cenv) (brk cont : nat) (b : list stmt) : list instr :=
  let n := count_decls b in
  cstmts bpf (begin_scope env) (n + brk) cont b ++ pops n.

(* a whole script: declarations at depth 0, then emit_return *)
Definition cprogram (bpf : bool) (p : Ast.program) : list instr :=
  cstmts bpf cenv0 0 0 p ++ [IOp OpNil; IOp OpReturn].

(* ------------------------------------------------------------------ *)
(* What the real compiler rejects (compile errors), for the fragment                          *)

Definition is_compound_op (op : binop) : bool :=
  match op with
  | BEq | BNe | BLt | BLe | BGt | BGe => false
  | _ => true
  end.

Definition not_pending (env : cenv) (x : name) : bool :=
  match resolve_local env x with LUninit => false | _ => true end.

Definition nonempty {A} (l : list A) : bool := match l with [] => false | _ => true end.

Fixpoint expr_ok (env : cenv) (e : expr) {struct e} : bool :=
  match e with
  | ENil | ETrue | EFalse | ENum _ | EStr _ => true
  | EInterp parts =>
    (fix go (ps : list interp_part) : bool :=
       match ps with
       | [] => true
       | IPStr s :: r => nonempty s && go r
       | IPExpr e1 :: r => expr_ok env e1 && go r
       end) parts && (length parts <=? 255)
  | EVar x => not_pending env x
  | EAssign x e1 => not_pending env x && expr_ok env e1
  | ECompound x op e1 => not_pending env x && is_compound_op op && expr_ok env e1
  | EUnary _ e1 => expr_ok env e1
  | EBinary _ a b | EAnd a b | EOr a b | ERange a b | EIndex a b => expr_ok env a && expr_ok env b
  | ECall f args => expr_ok env f && forallb (expr_ok env) args && (length args <=? 255)
  | ESetIndex o i e1 => expr_ok env o && expr_ok env i && expr_ok env e1
  | ETuple es | EVec es => forallb (expr_ok env) es && (length es <=? 255)
  | _ => false
  end.

(* declare_variable: "Variable with this name already declared in this scope." *)
Fixpoint declared_here (d : nat) (l : list (name * nat)) (x : name) : bool :=
  match l with
  | (y, k) :: r => if k <? d then false else bytes_eqb x y || declared_here d r x
  | [] => false
  end.

Fixpoint stmt_ok (env : cenv) (s : stmt) {struct s} : bool :=
  let stmts_ok := fix go (env : cenv) (l : list stmt) : bool :=
    match l with
    | [] => true
    | x :: r => stmt_ok env x && go (env_after env x) r
    end in
  match s with
  | SExpr _ e => expr_ok env e
  | SVar _ x init =>
    match cdepth env with
    | O => match init with Some e => expr_ok env e | None => true end
    | S _ =>
      negb (declared_here (cdepth env) (clocals env) x) &&
      (length (clocals env) <? 256) &&
      match init with Some e => expr_ok (with_pending env x) e | None => true end
    end
  | SBlock _ b => stmts_ok (begin_scope env) b
  | SIf _ c t e =>
    expr_ok env c && stmts_ok (begin_scope env) t &&
    match e with
    | Some s' => match s' with
                 | SBlock _ _ | SIf _ _ _ _ => stmt_ok env s'
                 | _ => false
                 end
    | None => true
    end
  | SWhile _ c b => expr_ok env c && stmts_ok (begin_scope (push_loop env)) b
  | SBreak _ | SContinue _ => match cloop env with Some _ => true | None => false end
  | _ => false
  end.

Fixpoint stmts_ok (env : cenv) (l : list stmt) : bool :=
  match l with
  | [] => true
  | x :: r => stmt_ok env x && stmts_ok (env_after env x) r
  end.

Definition program_ok (p : Ast.program) : bool := stmts_ok cenv0 p.

(* ------------------------------------------------------------------ *)
(* Assembler                                                           *)

Definition const_eqb (a b : const) : bool :=
  match a, b with
  | CNum x, CNum y => f64_eq_exact x y
  | CStr x, CStr y => bytes_eqb x y
  | _, _ => false
  end.

Fixpoint const_index (tbl : list const) (c : const) : option nat :=
  match tbl with
  | [] => None
  | d :: r => if const_eqb c d then Some 0
              else match const_index r c with Some k => Some (S k) | None => None end
  end.

(* Chunk::add_constant *)
Definition add_constant (tbl : list const) (c : const) : list const :=
  match const_index tbl c with
  | Some _ => tbl
  | None => tbl ++ [c]
  end.

Definition instr_const (i : instr) : option const :=
  match i with
  | IConst c | ITouch c => Some c
  | IGlobal _ x => Some (CStr x)
  | _ => None
  end.

Definition const_table (code : list instr) : list const :=
  fold_left (fun tbl i => match instr_const i with Some c => add_constant tbl c | None => tbl end)
            code [].

Definition isize (i : instr) : nat :=
  match i with
  | IOp _ => 1
  | IOp8 _ _ => 2
  | IConst _ | IGlobal _ _ | IJump _ _ | ILoop _ => 3
  | ITouch _ => 0
  end.

Definition code_size (c : list instr) : nat := fold_right (fun i a => isize i + a) 0 c.

Definition u16le (n : N) : list N := [N.modulo n 256; N.div n 256].

Definition idx_bytes (tbl : list const) (c : const) : list N :=
  match const_index tbl c with
  | Some k => u16le (N.of_nat k)
  | None => [255%N; 255%N]
  end.

(* bytes of the instruction at index [i] of [all] *)
Definition asm_instr (all : list instr) (tbl : list const) (i : nat) (ins : instr) : list N :=
  match ins with
  | IConst c => N_of_opcode OpConstant :: idx_bytes tbl c
  | IOp o => [N_of_opcode o]
  | IOp8 o n => [N_of_opcode o; n]
  | IGlobal o x => N_of_opcode o :: idx_bytes tbl (CStr x)
  | IJump o n => N_of_opcode o :: u16le (N.of_nat (code_size (firstn n (skipn (S i) all))))
  | ILoop n => N_of_opcode OpLoop :: u16le (N.of_nat (code_size (firstn n (skipn (S i - n) all))))
  | ITouch _ => []
  end.

Fixpoint asm_from (all : list instr) (tbl : list const) (i : nat) (l : list instr) : list N :=
  match l with
  | [] => []
  | ins :: r => asm_instr all tbl i ins ++ asm_from all tbl (S i) r
  end.

Definition assemble (code : list instr) : list N := asm_from code (const_table code) 0 code.

(* The assembler is exact only while every offset / index fits a u16 and every count a u8
   (the real compiler reports "Too much code to jump over." etc. otherwise). *)
Definition fits (code : list instr) : bool :=
  (N.of_nat (code_size code) <? 65536)%N && (N.of_nat (length (const_table code)) <=? 65536)%N.
